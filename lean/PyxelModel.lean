-- Root of the `PyxelModel` library.  Every module that exists is listed here so that
-- `lake build` (setup_cmd) compiles everything; checks build only the modules of their property.
import PyxelModel.Audit
