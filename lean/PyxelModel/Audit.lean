import Lean
/-!
`#audit_module M` prints one line per `theorem` declared in module `M`:
`AUDIT <name> : [<axioms>]`.  The harness (`harness/common.py`) parses these lines; the list of
obligations of a property is *measured* from this output, not written down by hand.
Auto-generated equation / injectivity lemmas are skipped (they are not property theorems).
-/
open Lean Elab Command

private def isAuto (n : Name) : Bool :=
  n.isInternal ||
  (match n with
   | .str _ s => s.startsWith "eq_" || s == "inj" || s == "injEq" || s == "sizeOf_spec" ||
                 s.startsWith "match_" || s == "noConfusion" || s.startsWith "proof_" ||
                 s == "eq_def" || s.endsWith "_eq" && s.startsWith "_"
   | _ => false)

elab "#audit_module " m:ident : command => do
  let env ← getEnv
  let some idx := env.getModuleIdx? m.getId
    | throwError "AUDIT-ERROR unknown module {m.getId}"
  let names := env.header.moduleData[idx.toNat]!.constNames
  let mut count : Nat := 0
  for n in names do
    if isAuto n then continue
    match env.find? n with
    | some (.thmInfo _) =>
      let axs ← liftCoreM <| collectAxioms n
      logInfo m!"AUDIT {n} : {axs.toList}"
      count := count + 1
    | _ => pure ()
  logInfo m!"AUDIT-COUNT {m.getId} {count}"
