import Lean.Data.Json
/-!
JSON helpers and the line-protocol loop shared by all drivers (`lean/drivers/Cxx.lean`).

One request per input line (a JSON object), one answer per output line.  Numbers that must be
exact travel as integers, as `[num, den]` pairs (rationals) or as decimal strings of 64-bit
patterns (doubles); the driver never parses floating-point text.  A request the driver cannot
decode is answered with `{"bad": "<why>"}` — never with a default value.
-/
open Lean

namespace PyxelModel.J

abbrev R := Except String

def fld (j : Json) (k : String) : R Json :=
  match j.getObjVal? k with
  | .ok v => .ok v
  | .error _ => .error s!"missing field {k}"

def fldD (j : Json) (k : String) (d : Json) : Json :=
  match j.getObjVal? k with
  | .ok v => v
  | .error _ => d

def asInt (j : Json) : R Int :=
  match j with
  | .num n => if n.exponent == 0 then .ok n.mantissa else .error s!"not an integer: {j.compress}"
  | .str s => match s.toInt? with
    | some i => .ok i
    | none => .error s!"not an integer string: {s}"
  | _ => .error s!"not an integer: {j.compress}"

def asNat (j : Json) : R Nat := do
  let i ← asInt j
  if i < 0 then .error s!"negative: {i}" else .ok i.toNat

def asBool (j : Json) : R Bool :=
  match j with
  | .bool b => .ok b
  | _ => .error s!"not a bool: {j.compress}"

def asStr (j : Json) : R String :=
  match j with
  | .str s => .ok s
  | _ => .error s!"not a string: {j.compress}"

def asArr (j : Json) : R (List Json) :=
  match j with
  | .arr a => .ok a.toList
  | _ => .error s!"not an array: {j.compress}"

def asList {α} (f : Json → R α) (j : Json) : R (List α) := do
  let a ← asArr j
  a.mapM f

/-- rational: an integer, or `[num, den]` with `den > 0` -/
def asRat (j : Json) : R Rat :=
  match j with
  | .arr #[n, d] => do
    let n ← asInt n
    let d ← asInt d
    if d ≤ 0 then .error "non-positive denominator" else .ok (mkRat n d.toNat)
  | _ => do let n ← asInt j; .ok (n : Rat)

def asOpt {α} (f : Json → R α) (j : Json) : R (Option α) :=
  match j with
  | .null => .ok none
  | _ => do let v ← f j; .ok (some v)

/-- a double sent as the decimal string (or number) of its 64-bit pattern -/
def asFloatBits (j : Json) : R Float := do
  let n ← asNat j
  .ok (Float.ofBits n.toUInt64)

def ofInt (i : Int) : Json := Json.num ⟨i, 0⟩
def ofNat (n : Nat) : Json := Json.num ⟨n, 0⟩
def ofRat (q : Rat) : Json := Json.arr #[ofInt q.num, ofNat q.den]
/-- doubles go back as decimal strings of their bit pattern (JSON numbers above 2^53 are fragile) -/
def ofFloatBits (f : Float) : Json := Json.str (toString f.toBits.toNat)
def ofList {α} (f : α → Json) (l : List α) : Json := Json.arr (l.map f).toArray
def ofOpt {α} (f : α → Json) : Option α → Json
  | none => Json.null
  | some a => f a
def obj (kvs : List (String × Json)) : Json := Json.mkObj kvs

/-- read–eval–print loop over stdin; `handle` never throws: decoding errors become `{"bad": …}` -/
partial def loop (handle : Json → R Json) : IO Unit := do
  let stdin ← IO.getStdin
  let stdout ← IO.getStdout
  let rec go : IO Unit := do
    let line ← stdin.getLine
    if line.isEmpty then return ()
    let t := line.trimAscii.toString
    if t.isEmpty then
      go
    else
      let out :=
        match Json.parse t with
        | .error e => obj [("bad", Json.str s!"parse: {e}")]
        | .ok j =>
          match handle j with
          | .ok r => r
          | .error e => obj [("bad", Json.str e)]
      stdout.putStrLn out.compress
      go
  go
  stdout.flush

end PyxelModel.J
