import PyxelModel.Model.C12
import Mathlib.Algebra.Order.Ring.Rat
import Mathlib.Tactic.Linarith
/-!
# C12 — soundness of the finite decision procedure for guard equivalence

`condEquiv_sound`: if two conditions raise on the same *test points* (`nan`, `±inf`, the constants, their
neighbours and pairwise midpoints) then they raise on the same numbers — all of them.
-/
namespace PyxelModel.C12

/-- `x` and `y` lie on the same side of every constant -/
def sameSide (ks : List Rat) (x y : Rat) : Prop :=
  ∀ k ∈ ks, (x < k ↔ y < k) ∧ (x = k ↔ y = k)

theorem sameSide_gt {ks : List Rat} {x y : Rat} (h : sameSide ks x y) {k : Rat} (hk : k ∈ ks) :
    (k < x ↔ k < y) := by
  obtain ⟨h1, h2⟩ := h k hk
  constructor
  · intro hx
    rcases lt_trichotomy y k with hy | hy | hy
    · exact absurd (h1.mpr hy) (by linarith)
    · exact absurd (h2.mpr hy) (by linarith)
    · exact hy
  · intro hy
    rcases lt_trichotomy x k with hx | hx | hx
    · exact absurd (h1.mp hx) (by linarith)
    · exact absurd (h2.mp hx) (by linarith)
    · exact hx

theorem sameSide_mono {ks ks' : List Rat} {x y : Rat} (h : sameSide ks x y) (hs : ∀ k ∈ ks', k ∈ ks) :
    sameSide ks' x y := fun k hk => h k (hs k hk)

theorem cmp_self (op : Cmp) (x y : Rat) : cmpEval op (.fin x) (.fin x) = cmpEval op (.fin y) (.fin y) := by
  cases op <;> simp [cmpEval, Num.lt, Num.eq]

theorem cmp_const_right (op : Cmp) {x y k : Rat} (h1 : x < k ↔ y < k) (h2 : x = k ↔ y = k) (h3 : k < x ↔ k < y) :
    cmpEval op (.fin x) (.fin k) = cmpEval op (.fin y) (.fin k) := by
  cases op <;> simp [cmpEval, Num.lt, Num.eq, h1, h2, h3]

theorem cmp_const_left (op : Cmp) {x y k : Rat} (h1 : x < k ↔ y < k) (h2 : x = k ↔ y = k) (h3 : k < x ↔ k < y) :
    cmpEval op (.fin k) (.fin x) = cmpEval op (.fin k) (.fin y) := by
  have h2' : k = x ↔ k = y := by constructor <;> (intro h; exact (by first | exact (h2.mp h.symm).symm | exact (h2.mpr h.symm).symm))
  cases op <;> simp [cmpEval, Num.lt, Num.eq, h1, h2', h3]

theorem term_cmp_congr (op : Cmp) (a b : Term) {x y : Rat} (h : sameSide (termConsts a ++ termConsts b) x y) :
    cmpEval op (termEval (.fin x) a) (termEval (.fin x) b) = cmpEval op (termEval (.fin y) a) (termEval (.fin y) b) := by
  cases a with
  | x =>
    cases b with
    | x => exact cmp_self op x y
    | const k =>
      have hk : k ∈ termConsts (.x : Term) ++ termConsts (.const k : Term) := by simp [termConsts]
      exact cmp_const_right op (h k hk).1 (h k hk).2 (sameSide_gt h hk)
  | const k =>
    cases b with
    | x =>
      have hk : k ∈ termConsts (.const k : Term) ++ termConsts (.x : Term) := by simp [termConsts]
      exact cmp_const_left op (h k hk).1 (h k hk).2 (sameSide_gt h hk)
    | const k' => rfl

/-- a condition cannot tell apart two numbers on the same side of all its constants -/
theorem raises_congr (c : Cond) {x y : Rat} (h : sameSide (condConsts c) x y) :
    raises c (.fin x) = raises c (.fin y) := by
  induction c with
  | cmp a op b => exact term_cmp_congr op a b h
  | chain a op1 b op2 c =>
    have h1 : sameSide (termConsts a ++ termConsts b) x y :=
      sameSide_mono h (by intro k hk; simp [condConsts] at hk ⊢; tauto)
    have h2 : sameSide (termConsts b ++ termConsts c) x y :=
      sameSide_mono h (by intro k hk; simp [condConsts] at hk ⊢; tauto)
    simp only [raises, term_cmp_congr op1 a b h1, term_cmp_congr op2 b c h2]
  | not c ih => simp only [raises, ih h]
  | and a b iha ihb =>
    have ha := iha (sameSide_mono h (by intro k hk; simp [condConsts]; tauto))
    have hb := ihb (sameSide_mono h (by intro k hk; simp [condConsts]; tauto))
    simp only [raises, ha, hb]
  | or a b iha ihb =>
    have ha := iha (sameSide_mono h (by intro k hk; simp [condConsts]; tauto))
    have hb := ihb (sameSide_mono h (by intro k hk; simp [condConsts]; tauto))
    simp only [raises, ha, hb]
  | truthy =>
    have h0 := (h 0 (by simp [condConsts])).2
    simp only [raises, Num.truthy]
    by_cases hx : x = 0
    · have hy : y = 0 := h0.mp hx
      simp [hx, hy]
    · have hy : ¬ y = 0 := fun e => hx (h0.mpr e)
      simp [hx, hy]
  | notNone => rfl
  | isNumber => rfl
  | tt => rfl
  | ff => rfl

theorem lowerOf_some {ks : List Rat} {x a : Rat} (h : lowerOf ks x = some a) :
    a ∈ ks ∧ a < x ∧ ∀ k ∈ ks, k < x → k ≤ a := by
  induction ks generalizing a with
  | nil => simp [lowerOf] at h
  | cons k ks ih =>
    unfold lowerOf at h
    cases hl : lowerOf ks x with
    | none =>
      rw [hl] at h
      have hnone : ∀ k' ∈ ks, ¬ k' < x := by
        clear h ih
        induction ks with
        | nil => simp
        | cons k2 ks2 ih2 =>
          unfold lowerOf at hl
          cases hl2 : lowerOf ks2 x with
          | none =>
            rw [hl2] at hl
            by_cases hk2 : k2 < x
            · simp [hk2] at hl
            · intro k' hk'
              rcases List.mem_cons.mp hk' with rfl | hk'
              · exact hk2
              · exact ih2 hl2 k' hk'
          | some b =>
            rw [hl2] at hl
            simp only at hl
            split at hl <;> cases hl
      by_cases hk : k < x
      · simp [hk] at h
        subst h
        refine ⟨by simp, hk, ?_⟩
        intro k' hk' hlt
        rcases List.mem_cons.mp hk' with rfl | hk'
        · exact le_refl _
        · exact absurd hlt (hnone k' hk')
      · simp [hk] at h
    | some b =>
      rw [hl] at h
      obtain ⟨hb1, hb2, hb3⟩ := ih hl
      simp only at h
      by_cases hk : k < x ∧ b < k
      · rw [if_pos hk] at h
        cases h
        refine ⟨by simp, hk.1, ?_⟩
        intro k' hk' hlt
        rcases List.mem_cons.mp hk' with rfl | hk'
        · exact le_refl _
        · exact le_trans (hb3 k' hk' hlt) (le_of_lt hk.2)
      · rw [if_neg hk] at h
        cases h
        refine ⟨by simp [hb1], hb2, ?_⟩
        intro k' hk' hlt
        rcases List.mem_cons.mp hk' with rfl | hk'
        · by_contra hc
          exact hk ⟨hlt, lt_of_not_ge hc⟩
        · exact hb3 k' hk' hlt

theorem lowerOf_none {ks : List Rat} {x : Rat} (h : lowerOf ks x = none) : ∀ k ∈ ks, ¬ k < x := by
  induction ks with
  | nil => simp
  | cons k ks ih =>
    unfold lowerOf at h
    cases hl : lowerOf ks x with
    | none =>
      rw [hl] at h
      by_cases hk : k < x
      · simp [hk] at h
      · intro k' hk'
        rcases List.mem_cons.mp hk' with rfl | hk'
        · exact hk
        · exact ih hl k' hk'
    | some b =>
      rw [hl] at h
      simp only at h
      split at h <;> cases h

theorem upperOf_some {ks : List Rat} {x b : Rat} (h : upperOf ks x = some b) :
    b ∈ ks ∧ x < b ∧ ∀ k ∈ ks, x < k → b ≤ k := by
  induction ks generalizing b with
  | nil => simp [upperOf] at h
  | cons k ks ih =>
    unfold upperOf at h
    cases hl : upperOf ks x with
    | none =>
      rw [hl] at h
      have hnone : ∀ k' ∈ ks, ¬ x < k' := by
        clear h ih
        induction ks with
        | nil => simp
        | cons k2 ks2 ih2 =>
          unfold upperOf at hl
          cases hl2 : upperOf ks2 x with
          | none =>
            rw [hl2] at hl
            by_cases hk2 : x < k2
            · simp [hk2] at hl
            · intro k' hk'
              rcases List.mem_cons.mp hk' with rfl | hk'
              · exact hk2
              · exact ih2 hl2 k' hk'
          | some b =>
            rw [hl2] at hl
            simp only at hl
            split at hl <;> cases hl
      by_cases hk : x < k
      · simp [hk] at h
        subst h
        refine ⟨by simp, hk, ?_⟩
        intro k' hk' hlt
        rcases List.mem_cons.mp hk' with rfl | hk'
        · exact le_refl _
        · exact absurd hlt (hnone k' hk')
      · simp [hk] at h
    | some c =>
      rw [hl] at h
      obtain ⟨hb1, hb2, hb3⟩ := ih hl
      simp only at h
      by_cases hk : x < k ∧ k < c
      · rw [if_pos hk] at h
        cases h
        refine ⟨by simp, hk.1, ?_⟩
        intro k' hk' hlt
        rcases List.mem_cons.mp hk' with rfl | hk'
        · exact le_refl _
        · exact le_trans (le_of_lt hk.2) (hb3 k' hk' hlt)
      · rw [if_neg hk] at h
        cases h
        refine ⟨by simp [hb1], hb2, ?_⟩
        intro k' hk' hlt
        rcases List.mem_cons.mp hk' with rfl | hk'
        · by_contra hc
          exact hk ⟨hlt, lt_of_not_ge hc⟩
        · exact hb3 k' hk' hlt

theorem upperOf_none {ks : List Rat} {x : Rat} (h : upperOf ks x = none) : ∀ k ∈ ks, ¬ x < k := by
  induction ks with
  | nil => simp
  | cons k ks ih =>
    unfold upperOf at h
    cases hl : upperOf ks x with
    | none =>
      rw [hl] at h
      by_cases hk : x < k
      · simp [hk] at h
      · intro k' hk'
        rcases List.mem_cons.mp hk' with rfl | hk'
        · exact hk
        · exact ih hl k' hk'
    | some b =>
      rw [hl] at h
      simp only at h
      split at h <;> cases h

/-- helper: a point strictly inside the gap around `x` is on the same side of every constant -/
theorem sameSide_of_gap {ks : List Rat} {x y : Rat} (hx : x ∉ ks)
    (hlo : ∀ k ∈ ks, k < x → k < y) (hhi : ∀ k ∈ ks, x < k → y < k) : sameSide ks x y := by
  intro k hk
  have hne : x ≠ k := fun e => hx (e ▸ hk)
  rcases lt_trichotomy x k with h | h | h
  · have := hhi k hk h
    exact ⟨⟨fun _ => this, fun _ => h⟩, ⟨fun e => absurd e hne, fun e => absurd e (ne_of_lt this)⟩⟩
  · exact absurd h hne
  · have := hlo k hk h
    exact ⟨⟨fun h' => absurd h' (not_lt.mpr (le_of_lt h)), fun h' => absurd h' (not_lt.mpr (le_of_lt this))⟩,
      ⟨fun e => absurd e hne, fun e => absurd e (ne_of_gt this)⟩⟩

theorem rep_sameSide (ks : List Rat) (x : Rat) : sameSide ks x (rep ks x) := by
  unfold rep
  by_cases hx : x ∈ ks
  · simp only [hx, if_true]
    intro k _
    exact ⟨Iff.rfl, Iff.rfl⟩
  · simp only [hx, if_false]
    cases hl : lowerOf ks x with
    | none =>
      have hL := lowerOf_none hl
      cases hu : upperOf ks x with
      | none =>
        have hU := upperOf_none hu
        exact sameSide_of_gap hx (fun k hk h => absurd h (hL k hk)) (fun k hk h => absurd h (hU k hk))
      | some b =>
        obtain ⟨_, hb2, hb3⟩ := upperOf_some hu
        refine sameSide_of_gap hx (fun k hk h => absurd h (hL k hk)) ?_
        intro k hk h
        have := hb3 k hk h
        simp only
        linarith
    | some a =>
      obtain ⟨_, ha2, ha3⟩ := lowerOf_some hl
      cases hu : upperOf ks x with
      | none =>
        have hU := upperOf_none hu
        refine sameSide_of_gap hx ?_ (fun k hk h => absurd h (hU k hk))
        intro k hk h
        have := ha3 k hk h
        simp only
        linarith
      | some b =>
        obtain ⟨_, hb2, hb3⟩ := upperOf_some hu
        refine sameSide_of_gap hx ?_ ?_
        · intro k hk h
          have := ha3 k hk h
          simp only
          linarith
        · intro k hk h
          have := hb3 k hk h
          simp only
          linarith

theorem rep_mem (ks : List Rat) (x : Rat) : rep ks x ∈ finitePoints ks := by
  unfold rep finitePoints
  by_cases hx : x ∈ ks
  · simp [hx]
  · simp only [hx, if_false]
    cases hl : lowerOf ks x with
    | none =>
      cases hu : upperOf ks x with
      | none => simp
      | some b =>
        have hb := (upperOf_some hu).1
        simp only [List.cons_append, List.mem_cons, List.mem_append, List.mem_map, List.mem_flatMap]
        right; left; right
        exact ⟨b, hb, rfl⟩
    | some a =>
      have ha := (lowerOf_some hl).1
      cases hu : upperOf ks x with
      | none =>
        simp only [List.cons_append, List.mem_cons, List.mem_append, List.mem_map, List.mem_flatMap]
        right; left; left; right
        exact ⟨a, ha, rfl⟩
      | some b =>
        have hb := (upperOf_some hu).1
        simp only [List.cons_append, List.mem_cons, List.mem_append, List.mem_map, List.mem_flatMap]
        right; right
        exact ⟨a, ha, b, hb, rfl⟩

/-- **Soundness of the finite test**: agreement on the test points is agreement on every number
(`nan` included iff it was among the test points). -/
theorem condEquiv_sound {c1 c2 : Cond} {withNan : Bool} (h : condEquivCheck c1 c2 withNan = true)
    (x : Num) (hx : x = .nan → withNan = true) : raises c1 x = raises c2 x := by
  unfold condEquivCheck at h
  rw [List.all_eq_true] at h
  have hpt : ∀ y ∈ testPoints (condConsts c1 ++ condConsts c2) withNan, raises c1 y = raises c2 y := by
    intro y hy
    simpa using h y hy
  cases x with
  | nan =>
    apply hpt
    simp [testPoints, hx rfl]
  | pinf => apply hpt; simp [testPoints]
  | ninf => apply hpt; simp [testPoints]
  | fin q =>
    have hs := rep_sameSide (condConsts c1 ++ condConsts c2) q
    have hm := rep_mem (condConsts c1 ++ condConsts c2) q
    have e1 := raises_congr c1 (sameSide_mono hs (by intro k hk; simp [hk]))
    have e2 := raises_congr c2 (sameSide_mono hs (by intro k hk; simp [hk]))
    have e3 : raises c1 (.fin (rep (condConsts c1 ++ condConsts c2) q)) = raises c2 (.fin (rep (condConsts c1 ++ condConsts c2) q)) := by
      apply hpt
      simp only [testPoints, List.mem_append, List.mem_map]
      right
      exact ⟨_, hm, rfl⟩
    rw [e1, e3, ← e2]

/-- `inRange` is the acceptance set of `rangeCond` -/
theorem inRange_eq_accepts (r : Range) (x : Num) : inRange r x = accepts (rangeCond r) x := by
  obtain ⟨lo, ls, hi⟩ := r
  cases hi with
  | none =>
    cases ls <;> cases x <;> simp [inRange, accepts, rangeCond, raises, cmpEval, termEval, Num.lt, Num.eq, le_iff_lt_or_eq, eq_comm]
  | some h =>
    cases ls <;> cases x <;> simp [inRange, accepts, rangeCond, raises, cmpEval, termEval, Num.lt, Num.eq, le_iff_lt_or_eq, eq_comm]

end PyxelModel.C12
