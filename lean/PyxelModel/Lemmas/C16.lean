import Mathlib.Algebra.Order.Field.Basic
import Mathlib.Algebra.Order.Floor.Ring
import Mathlib.Data.Rat.Floor
import Mathlib.Tactic.Linarith
import Mathlib.Tactic.Positivity
import PyxelModel.Model.C16
/-! Helper lemmas for `Props/C16.lean` (abstract rounding part). -/
namespace PyxelModel.C16

theorem XV.le_refl (v : XV) : XV.le v v := by
  cases v <;> simp [XV.le]

theorem clip_mono (lo hi : ℚ) {v w : ℚ} (h : v ≤ w) : clip lo hi v ≤ clip lo hi w := by
  simp only [clip]
  split_ifs <;> linarith

theorem clip_of_le_lo {lo hi v : ℚ} (hr : lo ≤ hi) (hv : v ≤ lo) : clip lo hi v = lo := by
  simp only [clip]
  split_ifs <;> linarith

theorem clip_of_hi_le {lo hi v : ℚ} (hr : lo ≤ hi) (hv : hi ≤ v) : clip lo hi v = hi := by
  simp only [clip]
  split_ifs <;> linarith

theorem lo_le_clip {lo hi : ℚ} (hr : lo ≤ hi) (v : ℚ) : lo ≤ clip lo hi v := by
  simp only [clip]
  split_ifs <;> linarith

theorem clip_le_hi {lo hi : ℚ} (v : ℚ) : clip lo hi v ≤ hi := by
  simp only [clip]
  split_ifs <;> linarith

theorem lo_le_clipX {lo hi : ℚ} (hr : lo ≤ hi) (v : XV) : lo ≤ clipX lo hi v := by
  cases v <;> simp only [clipX]
  · exact lo_le_clip hr _
  · exact lo_le_clip hr _
  · exact hr

theorem clipX_mono {lo hi : ℚ} (hr : lo ≤ hi) {v w : XV} (h : XV.le v w) :
    clipX lo hi v ≤ clipX lo hi w := by
  cases v <;> cases w <;> simp only [XV.le] at h <;> simp only [clipX]
  · exact le_refl _
  · rw [clip_of_le_lo hr (le_refl lo)]; exact lo_le_clip hr _
  · rw [clip_of_le_lo hr (le_refl lo)]; exact hr
  · exact clip_mono lo hi h
  · exact clip_le_hi _
  · exact le_refl _

theorem clipX_of_le_lo {lo hi : ℚ} (hr : lo ≤ hi) {v : XV} (h : XV.le v (.fin lo)) :
    clipX lo hi v = lo := by
  cases v <;> simp only [XV.le] at h <;> simp only [clipX]
  · exact clip_of_le_lo hr (le_refl lo)
  · exact clip_of_le_lo hr h

theorem clipX_of_hi_le {lo hi : ℚ} (hr : lo ≤ hi) {v : XV} (h : XV.le (.fin hi) v) :
    clipX lo hi v = hi := by
  cases v <;> simp only [XV.le] at h <;> simp only [clipX]
  exact clip_of_hi_le hr h

variable {rnd : ℚ → ℚ}

theorem IsRounding.nonneg (hR : IsRounding rnd) {x : ℚ} (hx : 0 ≤ x) : 0 ≤ rnd x := by
  have := hR.mono hx
  rwa [hR.zero] at this

/-- a representable value below the rounded `n` is below `n` itself: rounding never jumps over one -/
theorem IsRounding.le_of_lt_rnd (hR : IsRounding rnd) {y n : ℚ} (hy : rnd y = y) (h : y < rnd n) :
    y ≤ n := by
  by_contra hc
  have h1 : rnd n ≤ rnd y := hR.mono (le_of_lt (not_le.mp hc))
  rw [hy] at h1
  exact absurd h (not_lt.mpr h1)

theorem adcY_fix (hR : IsRounding rnd) (bits : ℕ) (vmin vmax : ℚ) (v : XV) :
    rnd (adcY rnd bits vmin vmax v) = adcY rnd bits vmin vmax v := by
  simp only [adcY]
  exact hR.idem _

theorem adcY_nonneg (hR : IsRounding rnd) (bits : ℕ) {vmin vmax : ℚ} (hr : vmin ≤ vmax)
    (hD : 0 < rnd (vmax - vmin)) (v : XV) : 0 ≤ adcY rnd bits vmin vmax v := by
  simp only [adcY]
  have h1 : 0 ≤ rnd (clipX vmin vmax v - vmin) := hR.nonneg (sub_nonneg.mpr (lo_le_clipX hr v))
  have h2 : 0 ≤ rnd (rnd (clipX vmin vmax v - vmin) / rnd (vmax - vmin)) :=
    hR.nonneg (div_nonneg h1 hD.le)
  have h3 : 0 ≤ rnd ((fullScale bits : ℕ) : ℚ) := hR.nonneg (Nat.cast_nonneg _)
  exact hR.nonneg (mul_nonneg h2 h3)

theorem adcY_mono (hR : IsRounding rnd) (bits : ℕ) {vmin vmax : ℚ} (hr : vmin ≤ vmax)
    (hD : 0 < rnd (vmax - vmin)) {v w : XV} (h : XV.le v w) :
    adcY rnd bits vmin vmax v ≤ adcY rnd bits vmin vmax w := by
  simp only [adcY]
  have h3 : 0 ≤ rnd ((fullScale bits : ℕ) : ℚ) := hR.nonneg (Nat.cast_nonneg _)
  have h1 : rnd (clipX vmin vmax v - vmin) ≤ rnd (clipX vmin vmax w - vmin) :=
    hR.mono (sub_le_sub_right (clipX_mono hr h) _)
  have h2 := hR.mono (div_le_div_of_nonneg_right h1 hD.le)
  exact hR.mono (mul_le_mul_of_nonneg_right h2 h3)

theorem adcY_floor (hR : IsRounding rnd) (bits : ℕ) {vmin vmax : ℚ} (hr : vmin ≤ vmax)
    {v : XV} (h : XV.le v (.fin vmin)) : adcY rnd bits vmin vmax v = 0 := by
  simp only [adcY]
  rw [clipX_of_le_lo hr h]
  simp [hR.zero]

theorem adcY_ceil (hR : IsRounding rnd) (bits : ℕ) {vmin vmax : ℚ} (hr : vmin ≤ vmax)
    (hD : 0 < rnd (vmax - vmin)) {v : XV} (h : XV.le (.fin vmax) v) :
    adcY rnd bits vmin vmax v = rnd ((fullScale bits : ℕ) : ℚ) := by
  simp only [adcY]
  rw [clipX_of_hi_le hr h, div_self hD.ne', hR.one, one_mul, hR.idem]

theorem trunc_of_nonneg {y : ℚ} (h : 0 ≤ y) : trunc y = y.floor := by
  unfold trunc
  rw [if_neg (not_lt.mpr h)]

theorem fullScale_lt (bits : ℕ) (h : bits ≤ 64) : fullScale bits < 2 ^ 64 := by
  unfold fullScale
  have : 2 ^ bits ≤ 2 ^ 64 := Nat.pow_le_pow_right (by norm_num) h
  have : 0 < 2 ^ bits := Nat.two_pow_pos _
  omega

theorem fullScale_mod (bits w : ℕ) (h : bits ≤ w) : fullScale bits % 2 ^ w = fullScale bits := by
  apply Nat.mod_eq_of_lt
  unfold fullScale
  have : 2 ^ bits ≤ 2 ^ w := Nat.pow_le_pow_right (by norm_num) h
  have : 0 < 2 ^ bits := Nat.two_pow_pos _
  omega

/-! ### SAR loops -/

theorem sarIdealLoop_bounds (rnd : ℚ → ℚ) (k : ℕ) (ref : ℚ) (s : XV) (acc : ℕ) :
    acc ≤ sarIdealLoop rnd k ref s acc ∧ sarIdealLoop rnd k ref s acc + 1 ≤ acc + 2 ^ k := by
  induction k generalizing ref s acc with
  | zero => simp [sarIdealLoop]
  | succ k ih =>
    have e : 2 ^ (k + 1) = 2 ^ k + 2 ^ k := by rw [pow_succ]; omega
    cases s with
    | ninf =>
      simp only [sarIdealLoop]
      have := ih (rnd (ref / 2)) .ninf acc
      omega
    | pinf =>
      simp only [sarIdealLoop]
      have := ih (rnd (ref / 2)) .pinf (acc + 2 ^ k)
      omega
    | fin q =>
      simp only [sarIdealLoop]
      split_ifs
      · have := ih (rnd (ref / 2)) (.fin (rnd (q - ref))) (acc + 2 ^ k)
        omega
      · have := ih (rnd (ref / 2)) (.fin q) acc
        omega

theorem sarIdealLoop_mono (hm : ∀ {x y : ℚ}, x ≤ y → rnd x ≤ rnd y) (k : ℕ) (ref : ℚ) {s s' : XV}
    (h : XV.le s s') (acc : ℕ) :
    sarIdealLoop rnd k ref s acc ≤ sarIdealLoop rnd k ref s' acc := by
  induction k generalizing ref s s' acc with
  | zero => simp [sarIdealLoop]
  | succ k ih =>
    -- whenever the higher voltage takes the bit and the lower one does not, the bit outweighs the rest
    have key : ∀ (t t' : XV), sarIdealLoop rnd k (rnd (ref / 2)) t acc ≤
        sarIdealLoop rnd k (rnd (ref / 2)) t' (acc + 2 ^ k) := by
      intro t t'
      have h1 := (sarIdealLoop_bounds rnd k (rnd (ref / 2)) t acc).2
      have h2 := (sarIdealLoop_bounds rnd k (rnd (ref / 2)) t' (acc + 2 ^ k)).1
      omega
    cases s with
    | ninf =>
      cases s' with
      | ninf => exact le_refl _
      | pinf => simp only [sarIdealLoop]; exact key _ _
      | fin q' =>
        simp only [sarIdealLoop]
        split_ifs
        · exact key _ _
        · exact ih _ (by simp [XV.le]) _
    | pinf =>
      cases s' with
      | pinf => exact le_refl _
      | ninf => simp [XV.le] at h
      | fin q' => simp [XV.le] at h
    | fin q =>
      cases s' with
      | ninf => simp [XV.le] at h
      | pinf =>
        simp only [sarIdealLoop]
        split_ifs
        · exact ih _ (by simp [XV.le]) _
        · exact key _ _
      | fin q' =>
        simp only [XV.le] at h
        simp only [sarIdealLoop]
        split_ifs with h1 h2 h2
        · exact ih _ (by simpa [XV.le] using hm (sub_le_sub_right h ref)) _
        · exact absurd (le_trans h1 h) h2
        · exact key _ _
        · exact ih _ (by simpa [XV.le] using h) _

theorem sarLoop_eq_ideal (rnd : ℚ → ℚ) (w k : ℕ) (ref : ℚ) (s : XV) (acc : ℕ)
    (h : acc + 2 ^ k ≤ 2 ^ w) : sarLoop rnd w k ref s acc = sarIdealLoop rnd k ref s acc := by
  induction k generalizing ref s acc with
  | zero => simp [sarLoop, sarIdealLoop]
  | succ k ih =>
    have e : 2 ^ (k + 1) = 2 ^ k + 2 ^ k := by rw [pow_succ]; omega
    have hk : 0 < 2 ^ k := Nat.two_pow_pos _
    have hm : (acc + 2 ^ k) % 2 ^ w = acc + 2 ^ k := Nat.mod_eq_of_lt (by omega)
    cases s with
    | ninf => simp only [sarLoop, sarIdealLoop]; exact ih _ _ _ (by omega)
    | pinf => simp only [sarLoop, sarIdealLoop, hm]; exact ih _ _ _ (by omega)
    | fin q =>
      simp only [sarLoop, sarIdealLoop, hm]
      split_ifs
      · exact ih _ _ _ (by omega)
      · exact ih _ _ _ (by omega)

theorem sarNoiseLoop_zero (hR : IsRounding rnd) (w k : ℕ) (ref s : ℚ) (acc : ℕ)
    (href : rnd ref = ref) (hs : rnd s = s) :
    sarNoiseLoop rnd w k (List.replicate k 0) ref s acc = some (sarLoop rnd w k ref (.fin s) acc) := by
  induction k generalizing ref s acc with
  | zero => simp [sarNoiseLoop, sarLoop]
  | succ k ih =>
    simp only [List.replicate_succ, sarNoiseLoop, sarLoop, add_zero, href, mul_one, mul_zero, hR.zero,
      sub_zero, hs]
    split_ifs
    · exact ih _ _ _ (hR.idem _) (hR.idem _)
    · exact ih _ _ _ (hR.idem _) hs

theorem sarNoiseLoop_bounds (rnd : ℚ → ℚ) (w k : ℕ) (ds : List ℚ) (ref s : ℚ) (acc c : ℕ)
    (h : acc + 2 ^ k ≤ 2 ^ w) (hc : sarNoiseLoop rnd w k ds ref s acc = some c) :
    acc ≤ c ∧ c + 1 ≤ acc + 2 ^ k := by
  induction k generalizing ds ref s acc with
  | zero => simp [sarNoiseLoop] at hc; omega
  | succ k ih =>
    have e : 2 ^ (k + 1) = 2 ^ k + 2 ^ k := by rw [pow_succ]; omega
    have hk : 0 < 2 ^ k := Nat.two_pow_pos _
    have hm : (acc + 2 ^ k) % 2 ^ w = acc + 2 ^ k := Nat.mod_eq_of_lt (by omega)
    cases ds with
    | nil => simp [sarNoiseLoop] at hc
    | cons d ds =>
      simp only [sarNoiseLoop, hm] at hc
      split_ifs at hc
      · have := ih _ _ _ _ (by omega) hc
        omega
      · have := ih _ _ _ _ (by omega) hc
        omega

end PyxelModel.C16
