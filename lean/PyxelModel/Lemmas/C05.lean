import Mathlib.Data.List.Forall2
import Mathlib.Data.List.Nodup
/-! Generic list facts used by `Props/C05.lean` and `Props/C07.lean` (no model content). -/
namespace PyxelModel.C05.L

variable {α β γ : Type}

theorem range_flatMap_eq (l : List α) (F : Nat → List β) (g : α → List β)
    (h : ∀ i (hi : i < l.length), F i = g l[i]) :
    (List.range l.length).flatMap F = l.flatMap g := by
  induction l generalizing F with
  | nil => simp
  | cons x xs ih =>
    rw [List.length_cons, List.range_succ_eq_map, List.flatMap_cons, List.flatMap_map,
      List.flatMap_cons]
    congr 1
    · exact h 0 (by simp)
    · refine ih (fun i => F (i + 1)) (fun i hi => ?_)
      have := h (i + 1) (by simpa using hi)
      simpa only [List.getElem_cons_succ] using this

theorem map_mapIdx (l : List α) (f : Nat → α → β) (g : β → γ) :
    (l.mapIdx f).map g = l.mapIdx (fun i a => g (f i a)) := by
  apply List.ext_getElem?
  intro n
  simp [List.getElem?_mapIdx, List.getElem?_map, Function.comp_def]

theorem mapIdx_const_fst (l : List α) (g : α → γ) :
    l.mapIdx (fun _ a => g a) = l.map g := by
  apply List.ext_getElem?
  intro n
  simp [List.getElem?_mapIdx, List.getElem?_map]

theorem mapIdx_idx (l : List α) : l.mapIdx (fun i _ => i) = List.range l.length := by
  apply List.ext_getElem?
  intro n
  by_cases hn : n < l.length
  · simp [hn]
  · simp [hn]

theorem map_fst_zip_of_length_eq (l₁ : List α) (l₂ : List β) (h : l₁.length = l₂.length) :
    (l₁.zip l₂).map Prod.fst = l₁ := by
  rw [List.map_fst_zip]; omega

theorem map_snd_zip_of_length_eq (l₁ : List α) (l₂ : List β) (h : l₁.length = l₂.length) :
    (l₁.zip l₂).map Prod.snd = l₂ := by
  rw [List.map_snd_zip]; omega

/-- reading an association list whose keys are pairwise different -/
theorem lookup_map_of_nodup [BEq β] [LawfulBEq β] (l : List α) (k : α → β) (d : α → γ)
    (hnd : (l.map k).Nodup) {a : α} (ha : a ∈ l) :
    (l.map (fun x => (k x, d x))).lookup (k a) = some (d a) := by
  induction l with
  | nil => cases ha
  | cons x xs ih =>
    rw [List.map_cons, List.nodup_cons] at hnd
    rw [List.map_cons, List.lookup_cons]
    rcases List.mem_cons.mp ha with rfl | h
    · simp
    · have hne : k a ≠ k x := fun e => hnd.1 (e ▸ List.mem_map_of_mem h)
      have : (k a == k x) = false := by simpa using hne
      rw [this]
      exact ih hnd.2 h

end PyxelModel.C05.L
