import Mathlib.Algebra.Order.Field.Basic
import Mathlib.Tactic.Linarith
import Mathlib.Tactic.Ring
import Mathlib.Tactic.FieldSimp
import PyxelModel.Model.C15
/-! Helper lemmas for `Props/C15.lean` (any linearly ordered field). -/
set_option linter.unusedSectionVars false
set_option linter.unusedVariables false
namespace PyxelModel.C15
variable {K : Type} [Field K] [LinearOrder K] [IsStrictOrderedRing K]

/-- "documented parameter ranges" of one trap species together with its current trapped charge:
non-negative charge, density in [0, 1], non-negative capacity when one is given -/
def SpeciesOk (st : Species K × K) : Prop :=
  0 ≤ st.2 ∧ 0 ≤ st.1.dens ∧ st.1.dens ≤ 1 ∧ ∀ c, st.1.cap = some c → 0 ≤ c

theorem sumList_eq_sum (xs : List K) : sumList xs = xs.sum := by
  induction xs with
  | nil => rfl
  | cons x xs ih => simp only [sumList, List.foldr_cons, List.sum_cons] at ih ⊢; rw [ih]

theorem loop1_length (p : K) (l : List (Species K × K)) : (loop1 p l).2.length = l.length := by
  induction l generalizing p with
  | nil => simp [loop1]
  | cons st rest ih => obtain ⟨s, t⟩ := st; simp [loop1, ih]

theorem loop1_conserves (p : K) (l : List (Species K × K)) :
    (loop1 p l).1 + (loop1 p l).2.sum = p + (l.map (·.2)).sum := by
  induction l generalizing p with
  | nil => simp [loop1]
  | cons st rest ih =>
    obtain ⟨s, t⟩ := st
    simp only [loop1, List.sum_cons, List.map_cons]
    have := ih (p - clipDiff (s.tf * (s.dens * p - t)) t (s.dens * p - t))
    linarith

theorem loop2_length (pdiff p : K) (l : List (Species K × K)) : (loop2 pdiff p l).2.length = l.length := by
  induction l with
  | nil => simp [loop2]
  | cons st rest ih => obtain ⟨s, t⟩ := st; simp [loop2, ih]

theorem loop2_conserves (pdiff p : K) (l : List (Species K × K)) :
    (loop2 pdiff p l).1 + (loop2 pdiff p l).2.sum = (l.map (·.2)).sum := by
  induction l with
  | nil => simp [loop2]
  | cons st rest ih =>
    obtain ⟨s, t⟩ := st
    simp only [loop2, List.sum_cons, List.map_cons]
    linarith

theorem map_snd_zip (l : List (Species K × K)) (ts : List K) (h : ts.length = l.length) :
    (((l.map (·.1)).zip ts).map (·.2)) = ts := by
  rw [List.map_snd_zip]; simp [h]

theorem clipDiff_bounds {diff t e : K} (ht : 0 ≤ t) (hte : 0 ≤ t + e) :
    0 ≤ t + clipDiff diff t e ∧ (clipDiff diff t e ≤ e ∨ clipDiff diff t e ≤ 0) := by
  unfold clipDiff
  split_ifs with h1 h2 h3
  · exact ⟨by linarith, Or.inr (by linarith)⟩
  · exact ⟨by linarith, Or.inr h1.le⟩
  · exact ⟨by linarith, Or.inl (le_refl _)⟩
  · exact ⟨by linarith, Or.inl (not_lt.mp h3)⟩

theorem loop1_nonneg (p : K) (l : List (Species K × K)) (hp : 0 ≤ p) (hl : ∀ st ∈ l, SpeciesOk st) :
    0 ≤ (loop1 p l).1 ∧ ∀ t ∈ (loop1 p l).2, 0 ≤ t := by
  induction l generalizing p with
  | nil => simp [loop1, hp]
  | cons st rest ih =>
    obtain ⟨s, t⟩ := st
    obtain ⟨ht, hd0, hd1, _⟩ := hl (s, t) (by simp)
    simp only at ht hd0 hd1
    have hte : 0 ≤ t + (s.dens * p - t) := by
      have := mul_nonneg hd0 hp; linarith
    obtain ⟨h1, h2⟩ := clipDiff_bounds (diff := s.tf * (s.dens * p - t)) ht hte
    have hp' : 0 ≤ p - clipDiff (s.tf * (s.dens * p - t)) t (s.dens * p - t) := by
      rcases h2 with h2 | h2
      · have : s.dens * p ≤ p := by
          have := mul_le_mul_of_nonneg_right hd1 hp; linarith
        linarith
      · linarith
    obtain ⟨i1, i2⟩ := ih _ hp' (fun st hst => hl st (by simp [hst]))
    simp only [loop1]
    refine ⟨i1, ?_⟩
    intro t' ht'
    rcases List.mem_cons.mp ht' with rfl | h
    · exact h1
    · exact i2 _ h

theorem clipOne_nonneg (pdiff p : K) (s : Species K) (t : K) (hp : 0 ≤ p) (ht : 0 ≤ t)
    (hd : 0 ≤ s.dens) (hc : ∀ c, s.cap = some c → 0 ≤ c) : 0 ≤ clipOne pdiff p s t := by
  unfold clipOne
  have ha : 0 ≤ p * s.dens := mul_nonneg hp hd
  by_cases h1 : pdiff < 0
  · rw [if_pos h1]
    cases hcap : s.cap with
    | none => dsimp only; split_ifs <;> assumption
    | some c =>
      have := hc c hcap
      dsimp only
      split_ifs <;> assumption
  · rw [if_neg h1]; exact ht

theorem loop2_nonneg (pdiff p : K) (l : List (Species K × K)) (hp : 0 ≤ p)
    (hl : ∀ st ∈ l, 0 ≤ st.2 ∧ 0 ≤ st.1.dens ∧ ∀ c, st.1.cap = some c → 0 ≤ c) :
    ∀ t ∈ (loop2 pdiff p l).2, 0 ≤ t := by
  induction l with
  | nil => simp [loop2]
  | cons st rest ih =>
    obtain ⟨s, t⟩ := st
    obtain ⟨ht, hd, hc⟩ := hl (s, t) (by simp)
    simp only [loop2]
    intro t' ht'
    rcases List.mem_cons.mp ht' with rfl | h
    · exact clipOne_nonneg pdiff p s t hp ht hd hc
    · exact ih (fun st hst => hl st (by simp [hst])) _ h

theorem persistPixel_length (p : K) (l : List (Species K × K)) : (persistPixel p l).2.length = l.length := by
  simp only [persistPixel, loop2_length, List.length_zip, List.length_map, loop1_length, min_self]

theorem sum_replicate_zero (n : ℕ) : (List.replicate n (0:K)).sum = 0 := by
  induction n with
  | zero => rfl
  | succ n ih => rw [List.replicate_succ, List.sum_cons, ih, add_zero]

theorem list_sum_nonneg (l : List K) (h : ∀ x ∈ l, 0 ≤ x) : 0 ≤ l.sum := by
  induction l with
  | nil => simp
  | cons x xs ih =>
    rw [List.sum_cons]
    exact add_nonneg (h x (by simp)) (ih (fun y hy => h y (by simp [hy])))

theorem four_eq : (four : K) = 4 := by unfold four; norm_num

theorem cell_uniform (g : List (List K)) (u : K) (hu : ∀ row ∈ g, ∀ x ∈ row, x = u) (i j : ℤ) :
    cell g u i j = u := by
  unfold cell
  split_ifs
  · rfl
  · rw [List.getD_eq_getElem?_getD, List.getD_eq_getElem?_getD]
    cases hr : g[i.toNat]? with
    | none => simp
    | some row =>
      have hrow : row ∈ g := List.mem_of_getElem? hr
      cases hx : row[j.toNat]? with
      | none => simp [hx]
      | some x => simp [hx, hu row hrow x (List.mem_of_getElem? hx)]

theorem conv3_uniform (k : Kernel K) (hk : k.sum = 1) (g : List (List K)) (u : K)
    (hu : ∀ row ∈ g, ∀ x ∈ row, x = u) : conv3 k u g = g := by
  have hc := cell_uniform g u hu
  have hexpr : k.tl * u + k.t * u + k.tr * u + k.l * u + k.c * u + k.r * u + k.bl * u + k.b * u + k.br * u = u := by
    have : k.tl * u + k.t * u + k.tr * u + k.l * u + k.c * u + k.r * u + k.bl * u + k.b * u + k.br * u
        = k.sum * u := by simp only [Kernel.sum]; ring
    rw [this, hk, one_mul]
  apply List.ext_getElem
  · simp [conv3]
  · intro i h1 h2
    simp only [conv3, List.getElem_map, List.getElem_range, hc, hexpr]
    have hgi : g.getD i [] = g[i] := by
      rw [List.getD_eq_getElem?_getD, List.getElem?_eq_getElem h2]; rfl
    rw [hgi]
    apply List.ext_getElem
    · simp
    · intro j h3 h4
      simp only [List.getElem_map]
      exact (hu g[i] (List.getElem_mem h2) _ (List.getElem_mem h4)).symm

theorem sum_uniform (row : List K) (u : K) (h : ∀ x ∈ row, x = u) : row.sum = (row.length : K) * u := by
  induction row with
  | nil => simp
  | cons x xs ih =>
    have hx := h x (by simp)
    rw [List.sum_cons, ih (fun y hy => h y (by simp [hy])), List.length_cons, hx]
    push_cast; ring

theorem sum_sum_uniform (g : List (List K)) (u : K) (hu : ∀ row ∈ g, ∀ x ∈ row, x = u) :
    sumList (g.map sumList) = (((g.map List.length).sum : ℕ) : K) * u := by
  rw [sumList_eq_sum]
  induction g with
  | nil => simp
  | cons r rs ih =>
    simp only [List.map_cons, List.sum_cons]
    rw [ih (fun row hrow => hu row (by simp [hrow])), sumList_eq_sum,
      sum_uniform r u (hu r (by simp))]
    push_cast; ring

theorem mean_uniform (g : List (List K)) (u : K) (hu : ∀ row ∈ g, ∀ x ∈ row, x = u)
    (hne : 0 < (g.map List.length).sum) : mean g = u := by
  unfold mean
  rw [sum_sum_uniform g u hu]
  have : (((g.map List.length).sum : ℕ) : K) ≠ 0 := by
    exact_mod_cast hne.ne'
  field_simp

theorem clipOne_le (pdiff p : K) (s : Species K) (t : K) : clipOne pdiff p s t ≤ t := by
  unfold clipOne
  by_cases h1 : pdiff < 0
  · rw [if_pos h1]
    dsimp only
    split_ifs with h
    · exact h.le
    · exact le_refl _
  · rw [if_neg h1]

theorem loop2_released_nonneg (pdiff p : K) (l : List (Species K × K)) : 0 ≤ (loop2 pdiff p l).1 := by
  induction l with
  | nil => simp [loop2]
  | cons st rest ih =>
    obtain ⟨s, t⟩ := st
    simp only [loop2]
    have := clipOne_le pdiff p s t
    linarith

end PyxelModel.C15
