import PyxelModel.Model.C08
/-!
# C08 — helper lemmas for the literal round trip (`evalChars (render l) = denote l`)

Token-level facts (digits, strings, keywords, numbers), fuel monotonicity of the parser, and the
mutual round-trip lemma over nested literals.  The property theorems are in `Props/C08.lean`.
-/
namespace PyxelModel.C08

/-- the text after a value inside the grammar: nothing, or a separator / closing bracket -/
def okRest : List Char → Bool
  | [] => true
  | c :: _ => c == ',' || c == ']' || c == ')'

def headNot (p : Char → Bool) : List Char → Bool
  | [] => true
  | c :: _ => !p c

theorem span_append_of_all {p : Char → Bool} {l rest : List Char}
    (hl : ∀ c ∈ l, p c = true) (hr : headNot p rest = true) : spanP p (l ++ rest) = (l, rest) := by
  induction l with
  | nil =>
    cases rest with
    | nil => rfl
    | cons c r =>
      have : p c = false := by simpa [headNot] using hr
      simp [spanP, this]
  | cons x xs ih =>
    have hx : p x = true := hl x (by simp)
    have := ih (fun c hc => hl c (by simp [hc]))
    simp [spanP, hx, this]

theorem okRest_headNot {p : Char → Bool} {rest : List Char} (h : okRest rest = true)
    (h1 : p ',' = false) (h2 : p ']' = false) (h3 : p ')' = false) : headNot p rest = true := by
  cases rest with
  | nil => rfl
  | cons c r =>
    have h' : c = ',' ∨ c = ']' ∨ c = ')' := by simpa [okRest, or_assoc] using h
    rcases h' with rfl | rfl | rfl <;> simp [headNot, h1, h2, h3]

/-! ### digits -/

theorem digits_ne_nil (n : Nat) : digits n ≠ [] := Nat.toDigits_ne_nil

theorem digits_isDigit {n : Nat} {c : Char} (h : c ∈ digits n) : c.isDigit = true :=
  Nat.isDigit_of_mem_toDigits (by decide) (by decide) h

theorem natOf_digits (n : Nat) : natOf (digits n) = n := Nat.ofDigitChars_ten_toDigits

theorem digits_head_isDigit (n : Nat) : ∃ c r, digits n = c :: r ∧ c.isDigit = true := by
  cases h : digits n with
  | nil => exact absurd h (digits_ne_nil n)
  | cons c r => exact ⟨c, r, rfl, digits_isDigit (n := n) (by rw [h]; exact List.mem_cons_self)⟩

theorem digitChar_ne_zero {n : Nat} (h0 : 0 < n) (h : n < 10) : Nat.digitChar n ≠ '0' := by
  match n, h0, h with
  | 1, _, _ | 2, _, _ | 3, _, _ | 4, _, _ | 5, _, _ | 6, _, _ | 7, _, _ | 8, _, _ | 9, _, _ => decide

theorem digits_head_ne_zero : ∀ (n : Nat), 0 < n → (digits n).head? ≠ some '0' := by
  intro n
  induction n using Nat.strongRecOn with
  | _ n ih =>
    intro hn
    by_cases h : n < 10
    · unfold digits
      rw [Nat.toDigits_of_lt_base h]
      simpa using digitChar_ne_zero hn h
    · have h10 : 10 ≤ n := by omega
      unfold digits
      rw [Nat.toDigits_of_base_le (by decide) h10]
      have hq : 0 < n / 10 := by omega
      have := ih (n / 10) (by omega) hq
      unfold digits at this
      cases hd : Nat.toDigits 10 (n / 10) with
      | nil => exact absurd hd Nat.toDigits_ne_nil
      | cons c r =>
        rw [hd] at this
        simpa using this

theorem digits_leading_zero_ok (n : Nat) :
    ((digits n).head? = some '0' && (digits n).any (· != '0')) = false := by
  by_cases hn : n = 0
  · subst hn; decide
  · have := digits_head_ne_zero n (by omega)
    simp [this]

theorem natOf_fracDigits (fz fm : Nat) : natOf (fracDigits fz fm) = fm := by
  unfold natOf fracDigits
  rw [Nat.ofDigitChars_append, Nat.ofDigitChars_replicate_zero]
  simpa [natOf] using natOf_digits fm

theorem fracDigits_isDigit {fz fm : Nat} {c : Char} (h : c ∈ fracDigits fz fm) : c.isDigit = true := by
  unfold fracDigits at h
  rcases List.mem_append.mp h with h | h
  · have := List.eq_of_mem_replicate h
    subst this; decide
  · exact digits_isDigit h

/-! ### tokens -/

theorem okRest_not_digit {rest : List Char} (h : okRest rest = true) : headNot Char.isDigit rest = true :=
  okRest_headNot h (by decide) (by decide) (by decide)

theorem okRest_not_idChar {rest : List Char} (h : okRest rest = true) : headNot isIdChar rest = true :=
  okRest_headNot h (by decide) (by decide) (by decide)

theorem pExp_okRest (neg : Bool) (mant : Rat) {rest : List Char} (h : okRest rest = true) :
    pExp neg mant rest = some (.num (applySign neg mant), rest) := by
  cases rest with
  | nil => rfl
  | cons c r =>
    have h' : c = ',' ∨ c = ']' ∨ c = ')' := by simpa [okRest, or_assoc] using h
    rcases h' with rfl | rfl | rfl <;> simp [pExp]

theorem pExp_render (neg : Bool) (mant : Rat) (ex : Option (Bool × Nat)) {rest : List Char}
    (h : okRest rest = true) :
    pExp neg mant (renderExp ex ++ rest) = some (.num (applySign neg (denoteExp mant ex)), rest) := by
  cases ex with
  | none => simpa [renderExp, denoteExp] using pExp_okRest neg mant h
  | some e =>
    obtain ⟨eneg, e⟩ := e
    have hsp : spanP Char.isDigit (digits e ++ rest) = (digits e, rest) :=
      span_append_of_all (fun c hc => digits_isDigit hc) (okRest_not_digit h)
    have hne : (digits e).isEmpty = false := by
      cases hd : digits e with
      | nil => exact absurd hd (digits_ne_nil e)
      | cons _ _ => rfl
    cases eneg with
    | true =>
      simp only [renderExp, if_true, List.cons_append, List.nil_append, pExp]
      simp [hsp, hne, natOf_digits, denoteExp]
    | false =>
      obtain ⟨c, r, hd, hc⟩ := digits_head_isDigit e
      have hc1 : c ≠ '-' := by rintro rfl; simp at hc
      have hc2 : c ≠ '+' := by rintro rfl; simp at hc
      have hsp' : spanP Char.isDigit (c :: (r ++ rest)) = (digits e, rest) := by
        rw [← List.cons_append, ← hd]; exact hsp
      simp only [renderExp, List.cons_append, List.nil_append, pExp, hd]
      simp [hsp', hne, natOf_digits, denoteExp, hc1, hc2]

/-- an integer token -/
theorem pNumber_int (neg : Bool) (n : Nat) {rest : List Char} (h : okRest rest = true) :
    pNumber neg (digits n ++ rest) = some (.int (if neg then -(n : Int) else (n : Int)), rest) := by
  have hsp : spanP Char.isDigit (digits n ++ rest) = (digits n, rest) :=
    span_append_of_all (fun c hc => digits_isDigit hc) (okRest_not_digit h)
  have hne : (digits n).isEmpty = false := by
    cases hd : digits n with
    | nil => exact absurd hd (digits_ne_nil n)
    | cons _ _ => rfl
  have hz := digits_leading_zero_ok n
  unfold pNumber
  simp only [hsp, hne]
  cases rest with
  | nil => simp [hz, natOf_digits]
  | cons c r =>
    have h' : c = ',' ∨ c = ']' ∨ c = ')' := by simpa [okRest, or_assoc] using h
    rcases h' with rfl | rfl | rfl <;> simp [hz, natOf_digits]

/-- a decimal token -/
theorem pNumber_dec (neg : Bool) (ip fz fm : Nat) (ex : Option (Bool × Nat)) {rest : List Char}
    (h : okRest rest = true) :
    pNumber neg (digits ip ++ '.' :: fracDigits fz fm ++ renderExp ex ++ rest) =
      some (.num (applySign neg (denoteExp ((ip : Rat) + (fm : Rat) / pow10 (fracDigits fz fm).length) ex)), rest) := by
  have hsp : spanP Char.isDigit (digits ip ++ ('.' :: fracDigits fz fm ++ renderExp ex ++ rest)) =
      (digits ip, '.' :: fracDigits fz fm ++ renderExp ex ++ rest) :=
    span_append_of_all (fun c hc => digits_isDigit hc) (by simp [headNot])
  have hne : (digits ip).isEmpty = false := by
    cases hd : digits ip with
    | nil => exact absurd hd (digits_ne_nil ip)
    | cons _ _ => rfl
  have hfr : headNot Char.isDigit (renderExp ex ++ rest) = true := by
    cases ex with
    | none => simpa [renderExp] using okRest_not_digit h
    | some e => simp [renderExp, headNot]
  have hsp2 : spanP Char.isDigit (fracDigits fz fm ++ (renderExp ex ++ rest)) =
      (fracDigits fz fm, renderExp ex ++ rest) :=
    span_append_of_all (fun c hc => fracDigits_isDigit hc) hfr
  unfold pNumber
  simp only [List.append_assoc, List.cons_append] at hsp ⊢
  simp only [hsp, hne]
  simp only [hsp2, natOf_digits, natOf_fracDigits]
  exact pExp_render neg _ ex h

theorem pString_render (dq : Bool) (body : List Char) (rest : List Char)
    (hwf : body.all (fun c => c != quoteChar dq && c != '\\' && c != '\n') = true) :
    pString (quoteChar dq) (body ++ quoteChar dq :: rest) = some (.str (String.ofList body), rest) := by
  have hall : ∀ c ∈ body, (c != quoteChar dq) = true ∧ c ≠ '\\' ∧ c ≠ '\n' := by
    intro c hc
    have := List.all_eq_true.mp hwf c hc
    simpa [Bool.and_eq_true, and_assoc] using this
  have hsp : spanP (· != quoteChar dq) (body ++ quoteChar dq :: rest) = (body, quoteChar dq :: rest) :=
    span_append_of_all (fun c hc => (hall c hc).1) (by simp [headNot])
  have hany : body.any (fun c => c == '\\' || c == '\n') = false := by
    rw [List.any_eq_false]
    intro c hc
    have := hall c hc
    simp [this.2.1, this.2.2]
  unfold pString
  simp [hsp, hany]

theorem pKeyword_none {rest : List Char} (h : okRest rest = true) :
    pKeyword ("None".toList ++ rest) = some (.none, rest) := by
  have hsp : spanP isIdChar ("None".toList ++ rest) = ("None".toList, rest) :=
    span_append_of_all (by decide) (okRest_not_idChar h)
  unfold pKeyword
  simp [hsp]

theorem pKeyword_true {rest : List Char} (h : okRest rest = true) :
    pKeyword ("True".toList ++ rest) = some (.bool true, rest) := by
  have hsp : spanP isIdChar ("True".toList ++ rest) = ("True".toList, rest) :=
    span_append_of_all (by decide) (okRest_not_idChar h)
  have : ("True".toList = "None".toList) = False := by decide
  unfold pKeyword
  simp [hsp, this]

theorem pKeyword_false {rest : List Char} (h : okRest rest = true) :
    pKeyword ("False".toList ++ rest) = some (.bool false, rest) := by
  have hsp : spanP isIdChar ("False".toList ++ rest) = ("False".toList, rest) :=
    span_append_of_all (by decide) (okRest_not_idChar h)
  have h1 : ("False".toList = "None".toList) = False := by decide
  have h2 : ("False".toList = "True".toList) = False := by decide
  unfold pKeyword
  simp [hsp, h1, h2]

end PyxelModel.C08
