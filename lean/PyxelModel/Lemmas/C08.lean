import PyxelModel.Model.C08
/-!
# C08 — helper lemmas for the literal round trip (`evalChars (render l) = denote l`)

Token-level facts (digits, strings, keywords, numbers), fuel monotonicity of the parser, and the
mutual round-trip lemma over nested literals.  The property theorems are in `Props/C08.lean`.
-/
namespace PyxelModel.C08

/-- the text after a value inside the grammar: nothing, or a separator / closing bracket -/
def okRest : List Char → Bool
  | [] => true
  | c :: _ => c == ',' || c == ']' || c == ')'

def headNot (p : Char → Bool) : List Char → Bool
  | [] => true
  | c :: _ => !p c

theorem span_append_of_all {p : Char → Bool} {l rest : List Char}
    (hl : ∀ c ∈ l, p c = true) (hr : headNot p rest = true) : spanP p (l ++ rest) = (l, rest) := by
  induction l with
  | nil =>
    cases rest with
    | nil => rfl
    | cons c r =>
      have : p c = false := by simpa [headNot] using hr
      simp [spanP, this]
  | cons x xs ih =>
    have hx : p x = true := hl x (by simp)
    have := ih (fun c hc => hl c (by simp [hc]))
    simp [spanP, hx, this]

theorem okRest_headNot {p : Char → Bool} {rest : List Char} (h : okRest rest = true)
    (h1 : p ',' = false) (h2 : p ']' = false) (h3 : p ')' = false) : headNot p rest = true := by
  cases rest with
  | nil => rfl
  | cons c r =>
    have h' : c = ',' ∨ c = ']' ∨ c = ')' := by simpa [okRest, or_assoc] using h
    rcases h' with rfl | rfl | rfl <;> simp [headNot, h1, h2, h3]

/-! ### digits -/

theorem digits_ne_nil (n : Nat) : digits n ≠ [] := Nat.toDigits_ne_nil

theorem digits_isDigit {n : Nat} {c : Char} (h : c ∈ digits n) : c.isDigit = true :=
  Nat.isDigit_of_mem_toDigits (by decide) (by decide) h

theorem natOf_digits (n : Nat) : natOf (digits n) = n := Nat.ofDigitChars_ten_toDigits

theorem digits_head_isDigit (n : Nat) : ∃ c r, digits n = c :: r ∧ c.isDigit = true := by
  cases h : digits n with
  | nil => exact absurd h (digits_ne_nil n)
  | cons c r => exact ⟨c, r, rfl, digits_isDigit (n := n) (by rw [h]; exact List.mem_cons_self)⟩

theorem digitChar_ne_zero {n : Nat} (h0 : 0 < n) (h : n < 10) : Nat.digitChar n ≠ '0' := by
  match n, h0, h with
  | 1, _, _ | 2, _, _ | 3, _, _ | 4, _, _ | 5, _, _ | 6, _, _ | 7, _, _ | 8, _, _ | 9, _, _ => decide

theorem digits_head_ne_zero : ∀ (n : Nat), 0 < n → (digits n).head? ≠ some '0' := by
  intro n
  induction n using Nat.strongRecOn with
  | _ n ih =>
    intro hn
    by_cases h : n < 10
    · unfold digits
      rw [Nat.toDigits_of_lt_base h]
      simpa using digitChar_ne_zero hn h
    · have h10 : 10 ≤ n := by omega
      unfold digits
      rw [Nat.toDigits_of_base_le (by decide) h10]
      have hq : 0 < n / 10 := by omega
      have := ih (n / 10) (by omega) hq
      unfold digits at this
      cases hd : Nat.toDigits 10 (n / 10) with
      | nil => exact absurd hd Nat.toDigits_ne_nil
      | cons c r =>
        rw [hd] at this
        simpa using this

theorem digits_leading_zero_ok (n : Nat) :
    ((digits n).head? = some '0' && (digits n).any (· != '0')) = false := by
  by_cases hn : n = 0
  · subst hn; decide
  · have := digits_head_ne_zero n (by omega)
    simp [this]

theorem natOf_fracDigits (fz fm : Nat) : natOf (fracDigits fz fm) = fm := by
  unfold natOf fracDigits
  rw [Nat.ofDigitChars_append, Nat.ofDigitChars_replicate_zero]
  simpa [natOf] using natOf_digits fm

theorem fracDigits_isDigit {fz fm : Nat} {c : Char} (h : c ∈ fracDigits fz fm) : c.isDigit = true := by
  unfold fracDigits at h
  rcases List.mem_append.mp h with h | h
  · have := List.eq_of_mem_replicate h
    subst this; decide
  · exact digits_isDigit h

end PyxelModel.C08
