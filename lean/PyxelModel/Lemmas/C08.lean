import PyxelModel.Model.C08
/-!
# C08 — helper lemmas for the literal round trip (`evalChars (render l) = denote l`)

Token-level facts (digits, strings, keywords, numbers), fuel monotonicity of the parser, and the
mutual round-trip lemma over nested literals.  The property theorems are in `Props/C08.lean`.
-/
namespace PyxelModel.C08

/-- the text after a value inside the grammar: nothing, or a separator / closing bracket -/
def okRest : List Char → Bool
  | [] => true
  | c :: _ => c == ',' || c == ']' || c == ')'

def headNot (p : Char → Bool) : List Char → Bool
  | [] => true
  | c :: _ => !p c

theorem span_append_of_all {p : Char → Bool} {l rest : List Char}
    (hl : ∀ c ∈ l, p c = true) (hr : headNot p rest = true) : spanP p (l ++ rest) = (l, rest) := by
  induction l with
  | nil =>
    cases rest with
    | nil => rfl
    | cons c r =>
      have : p c = false := by simpa [headNot] using hr
      simp [spanP, this]
  | cons x xs ih =>
    have hx : p x = true := hl x (by simp)
    have := ih (fun c hc => hl c (by simp [hc]))
    simp [spanP, hx, this]

theorem okRest_headNot {p : Char → Bool} {rest : List Char} (h : okRest rest = true)
    (h1 : p ',' = false) (h2 : p ']' = false) (h3 : p ')' = false) : headNot p rest = true := by
  cases rest with
  | nil => rfl
  | cons c r =>
    have h' : c = ',' ∨ c = ']' ∨ c = ')' := by simpa [okRest, or_assoc] using h
    rcases h' with rfl | rfl | rfl <;> simp [headNot, h1, h2, h3]

/-! ### digits -/

theorem digits_ne_nil (n : Nat) : digits n ≠ [] := Nat.toDigits_ne_nil

theorem digits_isDigit {n : Nat} {c : Char} (h : c ∈ digits n) : c.isDigit = true :=
  Nat.isDigit_of_mem_toDigits (by decide) (by decide) h

theorem natOf_digits (n : Nat) : natOf (digits n) = n := Nat.ofDigitChars_ten_toDigits

theorem digits_head_isDigit (n : Nat) : ∃ c r, digits n = c :: r ∧ c.isDigit = true := by
  cases h : digits n with
  | nil => exact absurd h (digits_ne_nil n)
  | cons c r => exact ⟨c, r, rfl, digits_isDigit (n := n) (by rw [h]; exact List.mem_cons_self)⟩

theorem digitChar_ne_zero {n : Nat} (h0 : 0 < n) (h : n < 10) : Nat.digitChar n ≠ '0' := by
  match n, h0, h with
  | 1, _, _ | 2, _, _ | 3, _, _ | 4, _, _ | 5, _, _ | 6, _, _ | 7, _, _ | 8, _, _ | 9, _, _ => decide

theorem digits_head_ne_zero : ∀ (n : Nat), 0 < n → (digits n).head? ≠ some '0' := by
  intro n
  induction n using Nat.strongRecOn with
  | _ n ih =>
    intro hn
    by_cases h : n < 10
    · unfold digits
      rw [Nat.toDigits_of_lt_base h]
      simpa using digitChar_ne_zero hn h
    · have h10 : 10 ≤ n := by omega
      unfold digits
      rw [Nat.toDigits_of_base_le (by decide) h10]
      have hq : 0 < n / 10 := by omega
      have := ih (n / 10) (by omega) hq
      unfold digits at this
      cases hd : Nat.toDigits 10 (n / 10) with
      | nil => exact absurd hd Nat.toDigits_ne_nil
      | cons c r =>
        rw [hd] at this
        simpa using this

theorem digits_leading_zero_ok (n : Nat) :
    ((digits n).head? = some '0' && (digits n).any (· != '0')) = false := by
  by_cases hn : n = 0
  · subst hn; decide
  · have := digits_head_ne_zero n (by omega)
    simp [this]

theorem natOf_fracDigits (fz fm : Nat) : natOf (fracDigits fz fm) = fm := by
  unfold natOf fracDigits
  rw [Nat.ofDigitChars_append, Nat.ofDigitChars_replicate_zero]
  simpa [natOf] using natOf_digits fm

theorem fracDigits_isDigit {fz fm : Nat} {c : Char} (h : c ∈ fracDigits fz fm) : c.isDigit = true := by
  unfold fracDigits at h
  rcases List.mem_append.mp h with h | h
  · have := List.eq_of_mem_replicate h
    subst this; decide
  · exact digits_isDigit h

/-! ### tokens -/

theorem okRest_not_digit {rest : List Char} (h : okRest rest = true) : headNot Char.isDigit rest = true :=
  okRest_headNot h (by decide) (by decide) (by decide)

theorem okRest_not_idChar {rest : List Char} (h : okRest rest = true) : headNot isIdChar rest = true :=
  okRest_headNot h (by decide) (by decide) (by decide)

theorem pExp_okRest (neg : Bool) (mant : Rat) {rest : List Char} (h : okRest rest = true) :
    pExp neg mant rest = some (.num (applySign neg mant), rest) := by
  cases rest with
  | nil => rfl
  | cons c r =>
    have h' : c = ',' ∨ c = ']' ∨ c = ')' := by simpa [okRest, or_assoc] using h
    rcases h' with rfl | rfl | rfl <;> simp [pExp]

theorem pExp_render (neg : Bool) (mant : Rat) (ex : Option (Bool × Nat)) {rest : List Char}
    (h : okRest rest = true) :
    pExp neg mant (renderExp ex ++ rest) = some (.num (applySign neg (denoteExp mant ex)), rest) := by
  cases ex with
  | none => simpa [renderExp, denoteExp] using pExp_okRest neg mant h
  | some e =>
    obtain ⟨eneg, e⟩ := e
    have hsp : spanP Char.isDigit (digits e ++ rest) = (digits e, rest) :=
      span_append_of_all (fun c hc => digits_isDigit hc) (okRest_not_digit h)
    have hne : (digits e).isEmpty = false := by
      cases hd : digits e with
      | nil => exact absurd hd (digits_ne_nil e)
      | cons _ _ => rfl
    cases eneg with
    | true =>
      simp only [renderExp, if_true, List.cons_append, List.nil_append, pExp]
      simp [hsp, hne, natOf_digits, denoteExp]
    | false =>
      obtain ⟨c, r, hd, hc⟩ := digits_head_isDigit e
      have hc1 : c ≠ '-' := by rintro rfl; simp at hc
      have hc2 : c ≠ '+' := by rintro rfl; simp at hc
      have hsp' : spanP Char.isDigit (c :: (r ++ rest)) = (digits e, rest) := by
        rw [← List.cons_append, ← hd]; exact hsp
      simp only [renderExp, List.cons_append, pExp, hd]
      simp [hsp', hne, natOf_digits, denoteExp, hc1, hc2]

/-- an integer token -/
theorem pNumber_int (neg : Bool) (n : Nat) {rest : List Char} (h : okRest rest = true) :
    pNumber neg (digits n ++ rest) = some (.int (if neg then -(n : Int) else (n : Int)), rest) := by
  have hsp : spanP Char.isDigit (digits n ++ rest) = (digits n, rest) :=
    span_append_of_all (fun c hc => digits_isDigit hc) (okRest_not_digit h)
  have hne : (digits n).isEmpty = false := by
    cases hd : digits n with
    | nil => exact absurd hd (digits_ne_nil n)
    | cons _ _ => rfl
  have hz := digits_leading_zero_ok n
  unfold pNumber
  simp only [hsp, hne]
  cases rest with
  | nil => simp [hz, natOf_digits]
  | cons c r =>
    have h' : c = ',' ∨ c = ']' ∨ c = ')' := by simpa [okRest, or_assoc] using h
    rcases h' with rfl | rfl | rfl <;> simp [hz, natOf_digits]

/-- a decimal token -/
theorem pNumber_dec (neg : Bool) (ip fz fm : Nat) (ex : Option (Bool × Nat)) {rest : List Char}
    (h : okRest rest = true) :
    pNumber neg (digits ip ++ '.' :: fracDigits fz fm ++ renderExp ex ++ rest) =
      some (.num (applySign neg (denoteExp ((ip : Rat) + (fm : Rat) / pow10 (fracDigits fz fm).length) ex)), rest) := by
  have hsp : spanP Char.isDigit (digits ip ++ ('.' :: fracDigits fz fm ++ renderExp ex ++ rest)) =
      (digits ip, '.' :: fracDigits fz fm ++ renderExp ex ++ rest) :=
    span_append_of_all (fun c hc => digits_isDigit hc) (by simp [headNot])
  have hne : (digits ip).isEmpty = false := by
    cases hd : digits ip with
    | nil => exact absurd hd (digits_ne_nil ip)
    | cons _ _ => rfl
  have hfr : headNot Char.isDigit (renderExp ex ++ rest) = true := by
    cases ex with
    | none => simpa [renderExp] using okRest_not_digit h
    | some e => simp [renderExp, headNot]
  have hsp2 : spanP Char.isDigit (fracDigits fz fm ++ (renderExp ex ++ rest)) =
      (fracDigits fz fm, renderExp ex ++ rest) :=
    span_append_of_all (fun c hc => fracDigits_isDigit hc) hfr
  unfold pNumber
  simp only [List.append_assoc, List.cons_append] at hsp ⊢
  simp only [hsp, hne]
  simp only [hsp2, natOf_digits, natOf_fracDigits]
  exact pExp_render neg _ ex h

theorem pString_render (dq : Bool) (body : List Char) (rest : List Char)
    (hwf : body.all (fun c => c != quoteChar dq && c != '\\' && c != '\n') = true) :
    pString (quoteChar dq) (body ++ quoteChar dq :: rest) = some (.str (String.ofList body), rest) := by
  have hall : ∀ c ∈ body, (c != quoteChar dq) = true ∧ c ≠ '\\' ∧ c ≠ '\n' := by
    intro c hc
    have := List.all_eq_true.mp hwf c hc
    simpa [Bool.and_eq_true, and_assoc] using this
  have hsp : spanP (· != quoteChar dq) (body ++ quoteChar dq :: rest) = (body, quoteChar dq :: rest) :=
    span_append_of_all (fun c hc => (hall c hc).1) (by simp [headNot])
  have hany : body.any (fun c => c == '\\' || c == '\n') = false := by
    rw [List.any_eq_false]
    intro c hc
    have := hall c hc
    simp [this.2.1, this.2.2]
  unfold pString
  simp [hsp, hany]

theorem pKeyword_none {rest : List Char} (h : okRest rest = true) :
    pKeyword ("None".toList ++ rest) = some (.none, rest) := by
  have hsp : spanP isIdChar ("None".toList ++ rest) = ("None".toList, rest) :=
    span_append_of_all (by decide) (okRest_not_idChar h)
  unfold pKeyword
  rw [hsp]
  simp

theorem pKeyword_true {rest : List Char} (h : okRest rest = true) :
    pKeyword ("True".toList ++ rest) = some (.bool true, rest) := by
  have hsp : spanP isIdChar ("True".toList ++ rest) = ("True".toList, rest) :=
    span_append_of_all (by decide) (okRest_not_idChar h)
  have : ("True".toList = "None".toList) = False := by decide
  unfold pKeyword
  rw [hsp]
  simp only [this, if_false, if_true]

theorem pKeyword_false {rest : List Char} (h : okRest rest = true) :
    pKeyword ("False".toList ++ rest) = some (.bool false, rest) := by
  have hsp : spanP isIdChar ("False".toList ++ rest) = ("False".toList, rest) :=
    span_append_of_all (by decide) (okRest_not_idChar h)
  have h1 : ("False".toList = "None".toList) = False := by decide
  have h2 : ("False".toList = "True".toList) = False := by decide
  unfold pKeyword
  rw [hsp]
  simp only [h1, h2, if_false, if_true]

/-! ### dispatch of `pVal` on the first character -/

theorem pVal_digit (f : Nat) {c : Char} (r : List Char) (h : c.isDigit = true) :
    pVal (f + 1) (c :: r) = pNumber false (c :: r) := by
  have h1 : c ≠ '[' := by rintro rfl; simp at h
  have h2 : c ≠ '(' := by rintro rfl; simp at h
  have h3 : c ≠ '\'' := by rintro rfl; simp at h
  have h4 : c ≠ '"' := by rintro rfl; simp at h
  have h5 : c ≠ '-' := by rintro rfl; simp at h
  simp [pVal, h1, h2, h3, h4, h5, h]

theorem pVal_minus (f : Nat) (r : List Char) : pVal (f + 1) ('-' :: r) = pNumber true r := by
  simp [pVal]

theorem pVal_quote (f : Nat) (dq : Bool) (r : List Char) :
    pVal (f + 1) (quoteChar dq :: r) = pString (quoteChar dq) r := by
  cases dq <;> simp [pVal, quoteChar]

theorem pVal_keyword (f : Nat) {c : Char} (r : List Char) (h : isIdStart c = true) :
    pVal (f + 1) (c :: r) = pKeyword (c :: r) := by
  have h1 : c ≠ '[' := by rintro rfl; simp [isIdStart] at h
  have h2 : c ≠ '(' := by rintro rfl; simp [isIdStart] at h
  have h3 : c ≠ '\'' := by rintro rfl; simp [isIdStart] at h
  have h4 : c ≠ '"' := by rintro rfl; simp [isIdStart] at h
  have h5 : c ≠ '-' := by rintro rfl; simp [isIdStart] at h
  have h6 : c.isDigit = false := by
    cases hd : c.isDigit with
    | false => rfl
    | true =>
      exfalso
      have hlo : 48 ≤ c.val := by simpa [Char.isDigit] using (by simpa [Char.isDigit] using hd : c.val ≥ 48 ∧ c.val ≤ 57).1
      have hhi : c.val ≤ 57 := (by simpa [Char.isDigit] using hd : c.val ≥ 48 ∧ c.val ≤ 57).2
      simp only [isIdStart, Char.isAlpha, Char.isUpper, Char.isLower, Bool.or_eq_true, Bool.and_eq_true,
        decide_eq_true_eq, beq_iff_eq] at h
      rcases h with (⟨h, _⟩ | ⟨h, _⟩) | rfl
      · have : (65 : UInt32) ≤ c.val := h
        exact absurd (UInt32.le_trans this hhi) (by decide)
      · have : (97 : UInt32) ≤ c.val := h
        exact absurd (UInt32.le_trans this hhi) (by decide)
      · simp at hd
  simp [pVal, h1, h2, h3, h4, h5, h6, h]

/-! ### the round trip over nested literals -/

mutual
/-- fuel that suffices to parse a literal's text -/
def Lit.fuel : Lit → Nat
  | .list xs => 1 + fuelAll xs
  | .tuple xs => 1 + fuelAll xs
  | _ => 1
def fuelAll : List Lit → Nat
  | [] => 0
  | x :: xs => 1 + x.fuel + fuelAll xs
end

theorem skipBlanks_of_head {cs : List Char} (h : headNot (· == ' ') cs = true) : skipBlanks cs = cs := by
  cases cs with
  | nil => rfl
  | cons c r =>
    have hc : c ≠ ' ' := by simpa [headNot] using h
    unfold skipBlanks
    split
    · next heq => cases heq; exact absurd rfl hc
    · rfl

/-- first character of a literal's text: not a blank, not a closing bracket -/
abbrev startOk (c : Char) : Prop := c ≠ ' ' ∧ c ≠ ']' ∧ c ≠ ')'

theorem startOk_digit {c : Char} (h : c.isDigit = true) : startOk c :=
  ⟨by rintro rfl; simp at h, by rintro rfl; simp at h, by rintro rfl; simp at h⟩

theorem render_head (l : Lit) : ∃ c r, render l = c :: r ∧ startOk c := by
  cases l with
  | none => exact ⟨'N', "one".toList, rfl, by decide⟩
  | bool b => cases b <;> exact ⟨_, _, rfl, by decide⟩
  | int neg n =>
    obtain ⟨c, r, hd, hc⟩ := digits_head_isDigit n
    cases neg with
    | true => exact ⟨'-', digits n, by simp [render], by decide⟩
    | false => exact ⟨c, r, by simp [render, hd], startOk_digit hc⟩
  | dec neg ip fz fm ex =>
    obtain ⟨c, r, hd, hc⟩ := digits_head_isDigit ip
    cases neg with
    | true => exact ⟨'-', digits ip ++ '.' :: fracDigits fz fm ++ renderExp ex, by simp [render], by decide⟩
    | false => exact ⟨c, r ++ '.' :: fracDigits fz fm ++ renderExp ex, by simp [render, hd], startOk_digit hc⟩
  | str dq body => exact ⟨quoteChar dq, body ++ [quoteChar dq], by simp [render], by cases dq <;> decide⟩
  | list xs => exact ⟨'[', renderItems xs ']', by simp [render], by decide⟩
  | tuple xs =>
    match xs with
    | [] => exact ⟨'(', [')'], by simp [render], by decide⟩
    | [x] => exact ⟨'(', render x ++ [',', ')'], by simp [render], by decide⟩
    | x :: y :: zs => exact ⟨'(', renderItems (x :: y :: zs) ')', by simp [render], by decide⟩

theorem skipBlanks_pre_render (pre : List Char) (hpre : ∀ c ∈ pre, c = ' ') (l : Lit) (rest : List Char) :
    skipBlanks (pre ++ (render l ++ rest)) = render l ++ rest := by
  induction pre with
  | nil =>
    obtain ⟨c, r, h, hc⟩ := render_head l
    apply skipBlanks_of_head
    simp [h, headNot, hc.1]
  | cons b bs ih =>
    have : b = ' ' := hpre b (by simp)
    subst this
    rw [List.cons_append, skipBlanks]
    exact ih (fun c hc => hpre c (by simp [hc]))

theorem okRest_close {close : Char} (h : close = ']' ∨ close = ')') (rest : List Char) :
    okRest (close :: rest) = true := by
  rcases h with rfl | rfl <;> rfl

theorem fuel_pos {l : Lit} {fuel : Nat} (h : l.fuel ≤ fuel) : ∃ f, fuel = f + 1 := by
  refine ⟨fuel - 1, ?_⟩
  cases l <;> simp [Lit.fuel] at h <;> omega

mutual
theorem pVal_render : ∀ (l : Lit), l.wf = true → ∀ (fuel : Nat) (rest : List Char),
    l.fuel ≤ fuel → okRest rest = true → pVal fuel (render l ++ rest) = some (denote l, rest)
  | .none, _, fuel, rest, hf, hr => by
    obtain ⟨f, rfl⟩ := fuel_pos hf
    have : render .none ++ rest = 'N' :: ("one".toList ++ rest) := rfl
    rw [this, pVal_keyword f _ (by decide)]
    exact pKeyword_none hr
  | .bool true, _, fuel, rest, hf, hr => by
    obtain ⟨f, rfl⟩ := fuel_pos hf
    have : render (.bool true) ++ rest = 'T' :: ("rue".toList ++ rest) := rfl
    rw [this, pVal_keyword f _ (by decide)]
    exact pKeyword_true hr
  | .bool false, _, fuel, rest, hf, hr => by
    obtain ⟨f, rfl⟩ := fuel_pos hf
    have : render (.bool false) ++ rest = 'F' :: ("alse".toList ++ rest) := rfl
    rw [this, pVal_keyword f _ (by decide)]
    exact pKeyword_false hr
  | .int neg n, _, fuel, rest, hf, hr => by
    obtain ⟨f, rfl⟩ := fuel_pos hf
    cases neg with
    | true =>
      have : render (.int true n) ++ rest = '-' :: (digits n ++ rest) := by simp [render]
      rw [this, pVal_minus]
      simpa [denote] using pNumber_int true n hr
    | false =>
      obtain ⟨c, r, hd, hc⟩ := digits_head_isDigit n
      have : render (.int false n) ++ rest = c :: (r ++ rest) := by simp [render, hd]
      rw [this, pVal_digit f _ hc, ← List.cons_append, ← hd]
      simpa [denote] using pNumber_int false n hr
  | .dec neg ip fz fm ex, _, fuel, rest, hf, hr => by
    obtain ⟨f, rfl⟩ := fuel_pos hf
    cases neg with
    | true =>
      have : render (.dec true ip fz fm ex) ++ rest =
          '-' :: (digits ip ++ '.' :: fracDigits fz fm ++ renderExp ex ++ rest) := by simp [render]
      rw [this, pVal_minus]
      simpa [denote] using pNumber_dec true ip fz fm ex hr
    | false =>
      obtain ⟨c, r, hd, hc⟩ := digits_head_isDigit ip
      have : render (.dec false ip fz fm ex) ++ rest =
          c :: (r ++ '.' :: fracDigits fz fm ++ renderExp ex ++ rest) := by simp [render, hd]
      rw [this, pVal_digit f _ hc]
      have h2 : c :: (r ++ '.' :: fracDigits fz fm ++ renderExp ex ++ rest) =
          digits ip ++ '.' :: fracDigits fz fm ++ renderExp ex ++ rest := by simp [hd]
      rw [h2]
      simpa [denote] using pNumber_dec false ip fz fm ex hr
  | .str dq body, hwf, fuel, rest, hf, hr => by
    obtain ⟨f, rfl⟩ := fuel_pos hf
    have : render (.str dq body) ++ rest = quoteChar dq :: (body ++ quoteChar dq :: rest) := by simp [render]
    rw [this, pVal_quote]
    simpa [denote] using pString_render dq body rest (by simpa [Lit.wf] using hwf)
  | .list [], _, fuel, rest, hf, hr => by
    obtain ⟨f, rfl⟩ := fuel_pos hf
    simp [render, renderItems, pVal, denote, denoteAll]
  | .list (x :: xs), hwf, fuel, rest, hf, hr => by
    obtain ⟨f, rfl⟩ := fuel_pos hf
    have hf' : fuelAll (x :: xs) ≤ f := by simp only [Lit.fuel] at hf; omega
    have hit := pItems_render (x :: xs) (by simp) (by simpa [Lit.wf] using hwf) f ']' rest []
      (by simp) hf' (Or.inl rfl)
    obtain ⟨c, r, h, hc⟩ := render_head x
    have hshape : ∃ r0, renderItems (x :: xs) ']' ++ rest = c :: r0 := by
      cases xs with
      | nil => exact ⟨r ++ ']' :: rest, by simp [renderItems, h]⟩
      | cons y ys => exact ⟨r ++ ',' :: ' ' :: (renderItems (y :: ys) ']' ++ rest), by simp [renderItems, h]⟩
    obtain ⟨r0, hr0⟩ := hshape
    have hrender : render (.list (x :: xs)) ++ rest = '[' :: (renderItems (x :: xs) ']' ++ rest) := by
      simp [render]
    rw [hrender]
    simp only [List.nil_append] at hit
    unfold pVal
    simp only [if_true]
    rw [hr0] at hit ⊢
    split
    · next heq => cases heq; exact absurd rfl hc.2.1
    · rw [hit]; simp [denote]
  | .tuple [], _, fuel, rest, hf, hr => by
    obtain ⟨f, rfl⟩ := fuel_pos hf
    simp [render, pVal, denote, denoteAll]
  | .tuple [x], hwf, fuel, rest, hf, hr => by
    obtain ⟨f, rfl⟩ := fuel_pos hf
    have hwx : x.wf = true := by simpa [Lit.wf, wfAll] using hwf
    have hfx : x.fuel ≤ f := by simp only [Lit.fuel, fuelAll] at hf; omega
    have hx := pVal_render x hwx f (',' :: ')' :: rest) hfx rfl
    obtain ⟨c, r, h, hc⟩ := render_head x
    have hrender : render (.tuple [x]) ++ rest = '(' :: (render x ++ ',' :: ')' :: rest) := by
      simp [render]
    rw [hrender]
    have hsk := skipBlanks_pre_render [] (by simp) x (',' :: ')' :: rest)
    simp only [List.nil_append] at hsk
    unfold pVal
    have e1 : ('(' = '[') = False := by decide
    simp only [e1, if_false, if_true]
    rw [h] at hsk hx ⊢
    simp only [List.cons_append] at hsk hx ⊢
    split
    · next heq => cases heq; exact absurd rfl hc.2.2
    · rw [hsk, hx]; simp [denote, denoteAll]
  | .tuple (x :: y :: zs), hwf, fuel, rest, hf, hr => by
    obtain ⟨f, rfl⟩ := fuel_pos hf
    have hw : x.wf = true ∧ wfAll (y :: zs) = true := by simpa [Lit.wf, wfAll, Bool.and_eq_true] using hwf
    have hfx : x.fuel ≤ f := by simp only [Lit.fuel, fuelAll] at hf; omega
    have hfy : fuelAll (y :: zs) ≤ f := by simp only [Lit.fuel, fuelAll] at hf ⊢; omega
    have hx := pVal_render x hw.1 f (',' :: ' ' :: (renderItems (y :: zs) ')' ++ rest)) hfx rfl
    have hit := pItems_render (y :: zs) (by simp) hw.2 f ')' rest [' '] (by simp) hfy (Or.inr rfl)
    obtain ⟨c, r, h, hc⟩ := render_head x
    have hrender : render (.tuple (x :: y :: zs)) ++ rest =
        '(' :: (render x ++ ',' :: ' ' :: (renderItems (y :: zs) ')' ++ rest)) := by
      simp [render, renderItems]
    rw [hrender]
    have hsk := skipBlanks_pre_render [] (by simp) x (',' :: ' ' :: (renderItems (y :: zs) ')' ++ rest))
    simp only [List.nil_append] at hsk
    unfold pVal
    have e1 : ('(' = '[') = False := by decide
    simp only [e1, if_false, if_true]
    rw [h] at hsk hx ⊢
    simp only [List.cons_append] at hsk hx hit ⊢
    split
    · next heq => cases heq; exact absurd rfl hc.2.2
    · rw [hsk, hx]
      simp only [List.nil_append] at hit
      simp [hit, denote, denoteAll]
theorem pItems_render : ∀ (xs : List Lit), xs ≠ [] → wfAll xs = true →
    ∀ (fuel : Nat) (close : Char) (rest pre : List Char), (∀ c ∈ pre, c = ' ') →
    fuelAll xs ≤ fuel → (close = ']' ∨ close = ')') →
    pItems fuel close (pre ++ (renderItems xs close ++ rest)) = some (denoteAll xs, rest)
  | [], hne, _, _, _, _, _, _, _, _ => absurd rfl hne
  | [x], _, hwf, fuel, close, rest, pre, hpre, hf, hc => by
    obtain ⟨f, rfl⟩ : ∃ f, fuel = f + 1 := ⟨fuel - 1, by simp only [fuelAll] at hf; omega⟩
    have hwx : x.wf = true := by simpa [wfAll] using hwf
    have hfx : x.fuel ≤ f := by simp only [fuelAll] at hf; omega
    have hx := pVal_render x hwx f (close :: rest) hfx (okRest_close hc rest)
    have hsk := skipBlanks_pre_render pre hpre x (close :: rest)
    have : pre ++ (renderItems [x] close ++ rest) = pre ++ (render x ++ close :: rest) := by
      simp [renderItems]
    rw [this]
    unfold pItems
    rw [hsk, hx]
    simp [denoteAll]
  | x :: y :: ys, _, hwf, fuel, close, rest, pre, hpre, hf, hc => by
    obtain ⟨f, rfl⟩ : ∃ f, fuel = f + 1 := ⟨fuel - 1, by simp only [fuelAll] at hf; omega⟩
    have hw : x.wf = true ∧ wfAll (y :: ys) = true := by simpa [wfAll, Bool.and_eq_true] using hwf
    have hfx : x.fuel ≤ f := by simp only [fuelAll] at hf; omega
    have hfy : fuelAll (y :: ys) ≤ f := by simp only [fuelAll] at hf ⊢; omega
    have hx := pVal_render x hw.1 f (',' :: ' ' :: (renderItems (y :: ys) close ++ rest)) hfx rfl
    have hit := pItems_render (y :: ys) (by simp) hw.2 f close rest [' '] (by simp) hfy hc
    have hsk := skipBlanks_pre_render pre hpre x (',' :: ' ' :: (renderItems (y :: ys) close ++ rest))
    have : pre ++ (renderItems (x :: y :: ys) close ++ rest) =
        pre ++ (render x ++ ',' :: ' ' :: (renderItems (y :: ys) close ++ rest)) := by
      simp [renderItems]
    rw [this]
    have hcc : (',' = close) = False := by
      rcases hc with rfl | rfl <;> decide
    unfold pItems
    rw [hsk, hx]
    simp only [hcc, if_false, if_true]
    simp only [List.cons_append, List.nil_append] at hit
    rw [hit]
    simp [denoteAll]
end

theorem render_length_pos (l : Lit) : 1 ≤ (render l).length := by
  obtain ⟨c, r, h, _⟩ := render_head l
  simp [h]

mutual
theorem fuel_le_length : ∀ (l : Lit), l.fuel ≤ (render l).length
  | .none => by decide
  | .bool b => by cases b <;> decide
  | .int neg n => by simpa [Lit.fuel] using render_length_pos (.int neg n)
  | .dec neg ip fz fm ex => by simpa [Lit.fuel] using render_length_pos (.dec neg ip fz fm ex)
  | .str dq body => by simp [Lit.fuel, render]
  | .list xs => by
    have := fuelAll_le_length xs ']'
    simp only [Lit.fuel, render, List.length_cons]; omega
  | .tuple [] => by simp [Lit.fuel, fuelAll, render]
  | .tuple [x] => by
    have := fuel_le_length x
    simp only [Lit.fuel, fuelAll, render, List.length_cons, List.length_append, List.length_nil]; omega
  | .tuple (x :: y :: zs) => by
    have := fuelAll_le_length (x :: y :: zs) ')'
    simp only [Lit.fuel, render, List.length_cons]; omega
theorem fuelAll_le_length : ∀ (xs : List Lit) (close : Char), fuelAll xs ≤ (renderItems xs close).length
  | [], _ => by simp [fuelAll]
  | [x], close => by
    have := fuel_le_length x
    simp only [fuelAll, renderItems, List.length_append, List.length_cons, List.length_nil]; omega
  | x :: y :: ys, close => by
    have h1 := fuel_le_length x
    have h2 := fuelAll_le_length (y :: ys) close
    simp only [fuelAll, renderItems, List.length_append, List.length_cons] at h2 ⊢; omega
end

theorem spanP_append (p : Char → Bool) (cs : List Char) : (spanP p cs).1 ++ (spanP p cs).2 = cs := by
  induction cs with
  | nil => rfl
  | cons c r ih =>
    unfold spanP
    split
    · simpa using ih
    · rfl

end PyxelModel.C08
