import Mathlib.Analysis.SpecialFunctions.Exp
import Mathlib.Analysis.SpecialFunctions.Pow.Real
import Mathlib.Tactic.Linarith
import Mathlib.Tactic.Positivity
import Mathlib.Tactic.FieldSimp
/-! The CDM capture formula over `ℝ` (definitions used by `Props/C15Real.lean`). -/
namespace PyxelModel.C15

/-- the capture formula of `run_cdm_parallel` / `run_cdm_serial`, before `max(·, 0)`:
`(γ s^β − n) / (γ s^(β−1) + 1) · (1 − exp(−α s^(1−β)))` -/
noncomputable def capFormula (γ α β s n : ℝ) : ℝ :=
  (γ * s ^ β - n) / (γ * s ^ (β - 1) + 1) * (1 - Real.exp (-1 * α * s ^ (1 - β)))

/-- the release fraction `1 − exp(−t/τ)` -/
noncomputable def relFraction (t τ : ℝ) : ℝ := 1 - Real.exp (-t / τ)

end PyxelModel.C15
