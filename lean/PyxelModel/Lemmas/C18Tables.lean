import PyxelModel.Model.C18
import PyxelModel.Generated.C18
/-! C18: the key tables of a detector type as regenerated from the code, in the shape the model
takes them (shared by the theorems and by the driver; core Lean only). -/
namespace PyxelModel.C18

def lookupT (t : List (String × List String)) (k : String) : List String := (t.lookup k).getD []

/-- the tables of detector type `ty` as regenerated from the code (property keys prefixed with
their group) -/
def tablesOf (ty : String) : Tables :=
  let parts := ["geometry", "environment", "characteristics"]
  let flat (t : List (String × List String)) :=
    parts.flatMap (fun p => (lookupT t (ty ++ "." ++ p)).map (fun k => p ++ "." ++ k))
  { containers := lookupT PyxelModel.Generated.C18.containers ty
    written := lookupT PyxelModel.Generated.C18.written ty
    read := lookupT PyxelModel.Generated.C18.read ty
    ctorParams := flat PyxelModel.Generated.C18.ctorParams
    writtenProps := flat PyxelModel.Generated.C18.writtenProps }

end PyxelModel.C18
