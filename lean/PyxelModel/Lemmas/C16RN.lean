import Mathlib.Algebra.Order.Field.Basic
import Mathlib.Algebra.Order.Floor.Ring
import Mathlib.Data.Rat.Floor
import Mathlib.Tactic.Linarith
import Mathlib.Tactic.Positivity
import Mathlib.Tactic.Ring
import Mathlib.Tactic.FieldSimp
import PyxelModel.Model.C16
/-!
Helper lemmas for `Props/C16.lean`: `rn53` (round-to-nearest-even to 53 significant bits with gradual
underflow, on ℚ) is monotone, fixes 0 and 1, is idempotent, rounds every full scale `2^b − 1`
(`b ≤ 64`) to at least itself, and never rounds the difference of two distinct doubles to zero.
-/
namespace PyxelModel.C16

theorem pow2_eq (e : ℤ) : pow2 e = (2:ℚ) ^ e := by
  unfold pow2
  split_ifs with h
  · obtain ⟨n, rfl⟩ := Int.eq_ofNat_of_zero_le h
    simp
  · obtain ⟨n, hn⟩ := Int.exists_eq_neg_ofNat (not_le.mp h).le
    subst hn
    simp

theorem rnE_ge_floor (q : ℚ) : q.floor ≤ rnE q := by
  simp only [rnE]; split_ifs <;> omega

theorem rnE_le_floor_succ (q : ℚ) : rnE q ≤ q.floor + 1 := by
  simp only [rnE]; split_ifs <;> omega

theorem rnE_intCast (n : ℤ) : rnE (n : ℚ) = n := by
  simp only [rnE, Rat.floor_intCast, sub_self]
  norm_num

theorem rnE_mono {x y : ℚ} (h : x ≤ y) : rnE x ≤ rnE y := by
  rcases lt_or_eq_of_le (Rat.floor_monotone h) with hf | hf
  · have := rnE_le_floor_succ x
    have := rnE_ge_floor y
    omega
  · simp only [rnE, hf]
    split_ifs <;> first | omega | (exfalso; linarith)
theorem ilog2_spec {x : ℚ} (hx : 0 < x) :
    (2:ℚ) ^ (ilog2 x) ≤ x ∧ x < (2:ℚ) ^ (ilog2 x + 1) := by
  have hnum : 0 < x.num := Rat.num_pos.mpr hx
  have hden : 0 < x.den := x.den_pos
  set a := x.num.natAbs.log2 with ha
  set b := x.den.log2 with hb
  have hn0 : x.num.natAbs ≠ 0 := by omega
  have hd0 : x.den ≠ 0 := by omega
  have ha1 : 2 ^ a ≤ x.num.natAbs := Nat.log2_self_le hn0
  have ha2 : x.num.natAbs < 2 ^ (a + 1) := Nat.lt_log2_self
  have hb1 : 2 ^ b ≤ x.den := Nat.log2_self_le hd0
  have hb2 : x.den < 2 ^ (b + 1) := Nat.lt_log2_self
  -- cast to ℚ
  have hxe : x = (x.num.natAbs : ℚ) / (x.den : ℚ) := by
    have h1 : ((x.num.natAbs : ℕ) : ℚ) = (x.num : ℚ) := by
      rw [Nat.cast_natAbs, abs_of_pos hnum]
    rw [h1]; exact (Rat.num_div_den x).symm
  have qa1 : (2:ℚ) ^ a ≤ (x.num.natAbs : ℚ) := by exact_mod_cast ha1
  have qa2 : (x.num.natAbs : ℚ) < (2:ℚ) ^ (a + 1) := by exact_mod_cast ha2
  have qb1 : (2:ℚ) ^ b ≤ (x.den : ℚ) := by exact_mod_cast hb1
  have qb2 : (x.den : ℚ) < (2:ℚ) ^ (b + 1) := by exact_mod_cast hb2
  have hdq : (0:ℚ) < (x.den : ℚ) := by exact_mod_cast hden
  have h2a : (0:ℚ) < (2:ℚ) ^ a := by positivity
  have h2b : (0:ℚ) < (2:ℚ) ^ b := by positivity
  -- bounds: 2^(a-b-1) < x < 2^(a-b+1)
  have e1 : (2:ℚ) ^ ((a:ℤ) - (b:ℤ) + 1) = (2:ℚ) ^ (a + 1) / (2:ℚ) ^ b := by
    rw [show (a:ℤ) - (b:ℤ) + 1 = ((a + 1 : ℕ) : ℤ) - ((b : ℕ) : ℤ) by push_cast; ring,
      zpow_sub₀ (by norm_num), zpow_natCast, zpow_natCast]
  have e2 : (2:ℚ) ^ ((a:ℤ) - (b:ℤ) - 1) = (2:ℚ) ^ a / (2:ℚ) ^ (b + 1) := by
    rw [show (a:ℤ) - (b:ℤ) - 1 = ((a : ℕ) : ℤ) - ((b + 1 : ℕ) : ℤ) by push_cast; ring,
      zpow_sub₀ (by norm_num), zpow_natCast, zpow_natCast]
  have up : x < (2:ℚ) ^ ((a:ℤ) - (b:ℤ) + 1) := by
    rw [e1, hxe, div_lt_div_iff₀ hdq h2b]
    calc (x.num.natAbs : ℚ) * 2 ^ b < 2 ^ (a + 1) * 2 ^ b := by
          exact mul_lt_mul_of_pos_right qa2 h2b
      _ ≤ 2 ^ (a + 1) * (x.den : ℚ) := by
          exact mul_le_mul_of_nonneg_left qb1 (by positivity)
  have lo : (2:ℚ) ^ ((a:ℤ) - (b:ℤ) - 1) < x := by
    rw [e2]
    conv_rhs => rw [hxe]
    rw [div_lt_div_iff₀ (by positivity) hdq]
    calc (2:ℚ) ^ a * (x.den : ℚ) < 2 ^ a * 2 ^ (b + 1) := by
          exact mul_lt_mul_of_pos_left qb2 h2a
      _ ≤ (x.num.natAbs : ℚ) * 2 ^ (b + 1) := by
          exact mul_le_mul_of_nonneg_right qa1 (by positivity)
  simp only [ilog2, pow2_eq, ← ha, ← hb]
  split_ifs with hlt
  · refine ⟨le_of_lt lo, ?_⟩
    rw [show (a:ℤ) - (b:ℤ) - 1 + 1 = (a:ℤ) - (b:ℤ) by ring]; exact hlt
  · exact ⟨not_lt.mp hlt, up⟩

theorem ilog2_mono {x y : ℚ} (hx : 0 < x) (h : x ≤ y) : ilog2 x ≤ ilog2 y := by
  by_contra hc
  have hc : ilog2 y + 1 ≤ ilog2 x := by omega
  have h1 := (ilog2_spec hx).1
  have h2 := (ilog2_spec (lt_of_lt_of_le hx h)).2
  have h3 : (2:ℚ) ^ (ilog2 y + 1) ≤ (2:ℚ) ^ (ilog2 x) := zpow_le_zpow_right₀ (by norm_num) hc
  linarith


theorem ulpExp_ge (x : ℚ) : -1074 ≤ ulpExp x := by
  simp only [ulpExp]; split_ifs <;> omega

theorem ulpExp_ge' (x : ℚ) : ilog2 x - 52 ≤ ulpExp x := by
  simp only [ulpExp]; split_ifs <;> omega

theorem ulpExp_mono {x y : ℚ} (hx : 0 < x) (h : x ≤ y) : ulpExp x ≤ ulpExp y := by
  have := ilog2_mono hx h
  simp only [ulpExp]; split_ifs <;> omega

theorem two_zpow_pos (e : ℤ) : (0:ℚ) < (2:ℚ) ^ e := zpow_pos (by norm_num) e

/-- the scaled significand is below 2^53 -/
theorem scaled_lt {x : ℚ} (hx : 0 < x) : x / (2:ℚ) ^ (ulpExp x) < (2:ℚ) ^ (53:ℤ) := by
  rw [div_lt_iff₀ (two_zpow_pos _), ← zpow_add₀ (by norm_num)]
  have h1 := (ilog2_spec hx).2
  have h2 : (2:ℚ) ^ (ilog2 x + 1) ≤ (2:ℚ) ^ (53 + ulpExp x) :=
    zpow_le_zpow_right₀ (by norm_num) (by have := ulpExp_ge' x; omega)
  linarith

/-- above the subnormal range the scaled significand is at least 2^52 -/
theorem scaled_ge {x : ℚ} (hx : 0 < x) (hn : -1074 < ulpExp x) :
    (2:ℚ) ^ (52:ℤ) ≤ x / (2:ℚ) ^ (ulpExp x) := by
  have he : ulpExp x = ilog2 x - 52 := by
    simp only [ulpExp] at hn ⊢; split_ifs at hn ⊢ <;> omega
  rw [le_div_iff₀ (two_zpow_pos _), ← zpow_add₀ (by norm_num), he]
  have h1 := (ilog2_spec hx).1
  rw [show (52:ℤ) + (ilog2 x - 52) = ilog2 x by ring]
  exact h1

theorem rnPos_eq (x : ℚ) : rnPos x = (rnE (x / (2:ℚ) ^ (ulpExp x)) : ℚ) * (2:ℚ) ^ (ulpExp x) := by
  simp only [rnPos, pow2_eq]

theorem rnE_nonneg {q : ℚ} (h : 0 ≤ q) : 0 ≤ rnE q := by
  have := rnE_mono h
  rwa [show ((0:ℚ)) = ((0:ℤ):ℚ) by norm_num, rnE_intCast] at this

theorem rnPos_nonneg {x : ℚ} (hx : 0 < x) : 0 ≤ rnPos x := by
  rw [rnPos_eq]
  have : 0 ≤ rnE (x / (2:ℚ) ^ (ulpExp x)) := rnE_nonneg (div_nonneg hx.le (two_zpow_pos _).le)
  exact mul_nonneg (by exact_mod_cast this) (two_zpow_pos _).le

theorem rnE_le_pow53 {x : ℚ} (hx : 0 < x) : rnE (x / (2:ℚ) ^ (ulpExp x)) ≤ 2 ^ 53 := by
  have h := rnE_mono (scaled_lt hx).le
  rwa [show ((2:ℚ) ^ (53:ℤ)) = (((2 ^ 53 : ℤ)) : ℚ) by norm_num, rnE_intCast] at h

theorem rnPos_mono {x y : ℚ} (hx : 0 < x) (h : x ≤ y) : rnPos x ≤ rnPos y := by
  have hy : 0 < y := lt_of_lt_of_le hx h
  rw [rnPos_eq, rnPos_eq]
  rcases lt_or_eq_of_le (ulpExp_mono hx h) with he | he
  · -- different binades
    have hny : -1074 < ulpExp y := by have := ulpExp_ge x; omega
    have h1 : (rnE (x / (2:ℚ) ^ (ulpExp x)) : ℚ) ≤ (2:ℚ) ^ (53:ℤ) := by
      have := rnE_le_pow53 hx
      calc ((rnE (x / (2:ℚ) ^ (ulpExp x)) : ℤ) : ℚ) ≤ ((2 ^ 53 : ℤ) : ℚ) := by exact_mod_cast this
        _ = (2:ℚ) ^ (53:ℤ) := by norm_num
    have h2 : (2:ℚ) ^ (52:ℤ) ≤ (rnE (y / (2:ℚ) ^ (ulpExp y)) : ℚ) := by
      have := rnE_mono (scaled_ge hy hny)
      rw [show ((2:ℚ) ^ (52:ℤ)) = (((2 ^ 52 : ℤ)) : ℚ) by norm_num, rnE_intCast] at this
      calc (2:ℚ) ^ (52:ℤ) = ((2 ^ 52 : ℤ) : ℚ) := by norm_num
        _ ≤ ((rnE (y / (2:ℚ) ^ (ulpExp y)) : ℤ) : ℚ) := by exact_mod_cast this
    calc (rnE (x / (2:ℚ) ^ (ulpExp x)) : ℚ) * (2:ℚ) ^ (ulpExp x)
        ≤ (2:ℚ) ^ (53:ℤ) * (2:ℚ) ^ (ulpExp x) := mul_le_mul_of_nonneg_right h1 (two_zpow_pos _).le
      _ = (2:ℚ) ^ (53 + ulpExp x) := (zpow_add₀ (by norm_num) _ _).symm
      _ ≤ (2:ℚ) ^ (52 + ulpExp y) := zpow_le_zpow_right₀ (by norm_num) (by omega)
      _ = (2:ℚ) ^ (52:ℤ) * (2:ℚ) ^ (ulpExp y) := zpow_add₀ (by norm_num) _ _
      _ ≤ _ := mul_le_mul_of_nonneg_right h2 (two_zpow_pos _).le
  · rw [he]
    have : x / (2:ℚ) ^ (ulpExp y) ≤ y / (2:ℚ) ^ (ulpExp y) :=
      div_le_div_of_nonneg_right h (two_zpow_pos _).le
    have := rnE_mono this
    exact mul_le_mul_of_nonneg_right (by exact_mod_cast this) (two_zpow_pos _).le

theorem rn53_pos_eq {x : ℚ} (hx : 0 < x) : rn53 x = rnPos x := by
  simp [rn53, hx.ne', hx]

theorem rn53_neg_eq {x : ℚ} (hx : x < 0) : rn53 x = -rnPos (-x) := by
  simp [rn53, hx.ne, not_lt.mpr hx.le]

theorem rn53_zero : rn53 0 = 0 := by simp [rn53]

theorem rn53_mono {x y : ℚ} (h : x ≤ y) : rn53 x ≤ rn53 y := by
  rcases lt_trichotomy x 0 with hx | hx | hx <;> rcases lt_trichotomy y 0 with hy | hy | hy
  · rw [rn53_neg_eq hx, rn53_neg_eq hy]
    exact neg_le_neg (rnPos_mono (neg_pos.mpr hy) (neg_le_neg h))
  · rw [rn53_neg_eq hx, hy, rn53_zero]
    exact neg_nonpos.mpr (rnPos_nonneg (neg_pos.mpr hx))
  · rw [rn53_neg_eq hx, rn53_pos_eq hy]
    have := rnPos_nonneg (neg_pos.mpr hx)
    have := rnPos_nonneg hy
    linarith
  · exfalso; linarith
  · rw [hx, hy]
  · rw [hx, rn53_zero, rn53_pos_eq hy]; exact rnPos_nonneg hy
  · exfalso; linarith
  · exfalso; linarith
  · rw [rn53_pos_eq hx, rn53_pos_eq hy]; exact rnPos_mono hx h

theorem rnPos_of_int_scaled {y : ℚ} (n : ℤ) (h : y / (2:ℚ) ^ (ulpExp y) = (n : ℚ)) : rnPos y = y := by
  rw [rnPos_eq, h, rnE_intCast, ← h, div_mul_cancel₀ _ (two_zpow_pos _).ne']

theorem rnPos_rnPos {x : ℚ} (hx : 0 < x) (hy : 0 < rnPos x) : rnPos (rnPos x) = rnPos x := by
  set M := rnE (x / (2:ℚ) ^ (ulpExp x)) with hM
  set e := ulpExp x with he
  have hye : rnPos x = (M : ℚ) * (2:ℚ) ^ e := rnPos_eq x
  set y := rnPos x with hyd
  by_cases hc : ulpExp y ≤ e
  · -- the grid of y is at least as fine
    obtain ⟨n, hn⟩ := Int.eq_ofNat_of_zero_le (sub_nonneg.mpr hc)
    apply rnPos_of_int_scaled (M * 2 ^ n)
    have : y / (2:ℚ) ^ (ulpExp y) = (M:ℚ) * (2:ℚ) ^ (e - ulpExp y) := by
      rw [zpow_sub₀ (by norm_num), ← mul_div_assoc, ← hye]
    rw [this, hn]
    push_cast
    rw [zpow_natCast]
  · have hc : e < ulpExp y := not_le.mp hc
    have hge : -1074 ≤ e := ulpExp_ge x
    have he' : ulpExp y = ilog2 y - 52 := by
      have : -1074 < ulpExp y := by omega
      simp only [ulpExp] at this ⊢; split_ifs at this ⊢ <;> omega
    have hM53 : M ≤ 2 ^ 53 := rnE_le_pow53 hx
    have hlog := ilog2_spec hy
    -- M ≥ 2^53
    have h1 : (2:ℚ) ^ (53 + e) ≤ y := by
      calc (2:ℚ) ^ (53 + e) ≤ (2:ℚ) ^ (ilog2 y) := zpow_le_zpow_right₀ (by norm_num) (by omega)
        _ ≤ y := hlog.1
    have h2 : (2:ℚ) ^ (53:ℤ) ≤ (M : ℚ) := by
      rw [hye, zpow_add₀ (by norm_num)] at h1
      exact le_of_mul_le_mul_right h1 (two_zpow_pos _)
    have hMeq : M = 2 ^ 53 := by
      have : ((2 ^ 53 : ℤ) : ℚ) ≤ (M : ℚ) := by
        calc ((2 ^ 53 : ℤ) : ℚ) = (2:ℚ) ^ (53:ℤ) := by norm_num
          _ ≤ _ := h2
      have : (2 ^ 53 : ℤ) ≤ M := by exact_mod_cast this
      omega
    have hy2 : y = (2:ℚ) ^ (53 + e) := by
      rw [hye, hMeq, zpow_add₀ (by norm_num)]; norm_num
    have hl : ilog2 y = 53 + e := by
      have a1 : (2:ℚ) ^ (ilog2 y) ≤ (2:ℚ) ^ (53 + e) := hy2 ▸ hlog.1
      have a2 : (2:ℚ) ^ (53 + e) < (2:ℚ) ^ (ilog2 y + 1) := hy2 ▸ hlog.2
      have b1 := (zpow_le_zpow_iff_right₀ (by norm_num : (1:ℚ) < 2)).mp a1
      have b2 := (zpow_lt_zpow_iff_right₀ (by norm_num : (1:ℚ) < 2)).mp a2
      omega
    apply rnPos_of_int_scaled (2 ^ 52)
    rw [he', hl]
    conv_lhs => rw [hy2]
    rw [← zpow_sub₀ (by norm_num), show 53 + e - (53 + e - 52) = (52:ℤ) by ring]
    norm_num

theorem rn53_idem (x : ℚ) : rn53 (rn53 x) = rn53 x := by
  rcases lt_trichotomy x 0 with hx | hx | hx
  · rw [rn53_neg_eq hx]
    have h0 := rnPos_nonneg (neg_pos.mpr hx)
    rcases lt_or_eq_of_le h0 with hp | hz
    · rw [rn53_neg_eq (neg_lt_zero.mpr hp), neg_neg, rnPos_rnPos (neg_pos.mpr hx) hp]
    · rw [← hz]; simp [rn53_zero]
  · rw [hx, rn53_zero, rn53_zero]
  · rw [rn53_pos_eq hx]
    have h0 := rnPos_nonneg hx
    rcases lt_or_eq_of_le h0 with hp | hz
    · rw [rn53_pos_eq hp, rnPos_rnPos hx hp]
    · rw [← hz, rn53_zero]

theorem rn53_one : rn53 1 = 1 := by decide +kernel

theorem rn53_isRounding : IsRounding rn53 :=
  ⟨fun h => rn53_mono h, rn53_zero, rn53_one, rn53_idem⟩

theorem rn53_fullScale : ∀ b, b ≤ 64 → ((fullScale b : ℕ) : ℚ) ≤ rn53 ((fullScale b : ℕ) : ℚ) := by
  decide +kernel


/-- multiples of the smallest subnormal -/
def OnGrid (y : ℚ) : Prop := ∃ m : ℤ, y = (m : ℚ) * (2:ℚ) ^ (-1074:ℤ)

theorem rnPos_onGrid (x : ℚ) : OnGrid (rnPos x) := by
  obtain ⟨n, hn⟩ := Int.eq_ofNat_of_zero_le (show 0 ≤ ulpExp x + 1074 by have := ulpExp_ge x; omega)
  refine ⟨rnE (x / (2:ℚ) ^ (ulpExp x)) * 2 ^ n, ?_⟩
  rw [rnPos_eq]
  push_cast
  rw [mul_assoc, ← zpow_natCast, ← hn, ← zpow_add₀ (by norm_num)]
  congr 2; ring

theorem OnGrid.neg {y : ℚ} (h : OnGrid y) : OnGrid (-y) := by
  obtain ⟨m, rfl⟩ := h; exact ⟨-m, by push_cast; ring⟩

theorem OnGrid.sub {a b : ℚ} (ha : OnGrid a) (hb : OnGrid b) : OnGrid (b - a) := by
  obtain ⟨m, rfl⟩ := ha; obtain ⟨n, rfl⟩ := hb; exact ⟨n - m, by push_cast; ring⟩

theorem rn53_onGrid (x : ℚ) : OnGrid (rn53 x) := by
  rcases lt_trichotomy x 0 with hx | hx | hx
  · rw [rn53_neg_eq hx]; exact (rnPos_onGrid _).neg
  · rw [hx, rn53_zero]; exact ⟨0, by simp⟩
  · rw [rn53_pos_eq hx]; exact rnPos_onGrid _

theorem OnGrid.ge_of_pos {y : ℚ} (h : OnGrid y) (hy : 0 < y) : (2:ℚ) ^ (-1074:ℤ) ≤ y := by
  obtain ⟨m, rfl⟩ := h
  have hm : 0 < (m : ℚ) := by
    by_contra hc
    have := mul_nonpos_of_nonpos_of_nonneg (not_lt.mp hc) (two_zpow_pos (-1074)).le
    linarith
  have : (1 : ℤ) ≤ m := by exact_mod_cast hm
  have : (1 : ℚ) ≤ (m : ℚ) := by exact_mod_cast this
  calc (2:ℚ) ^ (-1074:ℤ) = 1 * (2:ℚ) ^ (-1074:ℤ) := (one_mul _).symm
    _ ≤ _ := mul_le_mul_of_nonneg_right this (two_zpow_pos _).le

theorem rnPos_pos {x : ℚ} (hx : (2:ℚ) ^ (-1074:ℤ) ≤ x) : 0 < rnPos x := by
  have hx0 : 0 < x := lt_of_lt_of_le (two_zpow_pos _) hx
  have h1 : (2:ℚ) ^ (ulpExp x) ≤ x := by
    by_cases hc : ulpExp x = -1074
    · rw [hc]; exact hx
    · have he : ulpExp x = ilog2 x - 52 := by
        simp only [ulpExp] at hc ⊢; split_ifs at hc ⊢ <;> omega
      calc (2:ℚ) ^ (ulpExp x) ≤ (2:ℚ) ^ (ilog2 x) := zpow_le_zpow_right₀ (by norm_num) (by omega)
        _ ≤ x := (ilog2_spec hx0).1
  have h2 : ((1:ℤ):ℚ) ≤ x / (2:ℚ) ^ (ulpExp x) := by
    rw [le_div_iff₀ (two_zpow_pos _)]; simpa using h1
  have h3 := rnE_mono h2
  rw [rnE_intCast] at h3
  rw [rnPos_eq]
  have : (0:ℚ) < (rnE (x / (2:ℚ) ^ (ulpExp x)) : ℚ) := by exact_mod_cast (by omega : 0 < rnE (x / (2:ℚ) ^ (ulpExp x)))
  exact mul_pos this (two_zpow_pos _)

/-- the difference of two distinct doubles never rounds to zero (gradual underflow) -/
theorem rn53_sub_pos {a b : ℚ} (ha : rn53 a = a) (hb : rn53 b = b) (h : a < b) : 0 < rn53 (b - a) := by
  have hg : OnGrid (b - a) := by
    have h1 := rn53_onGrid a; have h2 := rn53_onGrid b
    rw [ha] at h1; rw [hb] at h2; exact h1.sub h2
  have hp : 0 < b - a := sub_pos.mpr h
  rw [rn53_pos_eq hp]
  exact rnPos_pos (hg.ge_of_pos hp)

end PyxelModel.C16
