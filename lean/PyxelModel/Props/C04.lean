import PyxelModel.Model.C04
import PyxelModel.Generated.C04
/-!
# C04 — property theorems (statement: properties.jsonl C04)

Sequential discipline: for every generator, every program (any nesting, any failing model),
a seeded region restores the process-wide generator exactly and its draws do not depend on the
prior generator state.  Threads: with the lock, for EVERY schedule of any number of threads.
-/
namespace PyxelModel.C04

variable {G D : Type} (gen : Gen G D)

/-- **Seeding never leaks**: a program all of whose draws are inside seeded regions leaves the
process-wide generator exactly as it found it — whether it finishes normally or fails. -/
theorem guarded_restores (p : Prog) (hp : Guarded p = true) (g : G) : (exec gen g p).g = g := by
  induction p generalizing g with
  | skip => rfl
  | draw => simp [Guarded] at hp
  | fail => rfl
  | seq a b iha ihb =>
    simp only [Guarded, Bool.and_eq_true] at hp
    simp only [exec]
    split
    · exact iha hp.1 g
    · simp only; rw [ihb hp.2, iha hp.1]
  | seeded s p ih =>
    cases s with
    | none => simp only [exec]; exact ih (by simpa [Guarded] using hp) g
    | some s => rfl

/-- **Bit-reproducible whatever the prior state**: outputs and failure status of a guarded
program do not depend on the generator state it is started from. -/
theorem guarded_deterministic (p : Prog) (hp : Guarded p = true) (g g' : G) :
    (exec gen g p).out = (exec gen g' p).out ∧ (exec gen g p).failed = (exec gen g' p).failed := by
  induction p generalizing g g' with
  | skip => exact ⟨rfl, rfl⟩
  | draw => simp [Guarded] at hp
  | fail => exact ⟨rfl, rfl⟩
  | seq a b iha ihb =>
    simp only [Guarded, Bool.and_eq_true] at hp
    have ha := iha hp.1 g g'
    have hga := guarded_restores gen a hp.1 g
    have hga' := guarded_restores gen a hp.1 g'
    simp only [exec]
    rw [← ha.2]
    split
    · exact ha
    · have hb := ihb hp.2 (exec gen g a).g (exec gen g' a).g
      simp only; rw [ha.1, hb.1, hb.2]; exact ⟨rfl, rfl⟩
  | seeded s p ih =>
    cases s with
    | none => simp only [exec]; exact ih (by simpa [Guarded] using hp) g g'
    | some s => exact ⟨rfl, rfl⟩

/-- a seeded region (any body: nested regions, unguarded draws, failing models) restores the state -/
theorem seeded_restores (s : Nat) (body : Prog) (g : G) : (exec gen g (.seeded (some s) body)).g = g :=
  rfl

/-- and produces the same draws from every prior state -/
theorem seeded_deterministic (s : Nat) (body : Prog) (g g' : G) :
    (exec gen g (.seeded (some s) body)).out = (exec gen g' (.seeded (some s) body)).out :=
  (guarded_deterministic gen _ rfl g g').1

/-- a whole pipeline under a pipeline seed, any list of models -/
theorem pipeline_seeded (s : Nat) (models : List Prog) (g g' : G) :
    (exec gen g (pipeline (some s) models)).g = g ∧
    (exec gen g (pipeline (some s) models)).out = (exec gen g' (pipeline (some s) models)).out :=
  ⟨rfl, (guarded_deterministic gen _ rfl g g').1⟩

/-- without a pipeline seed, models that carry their own seed still leave no trace -/
theorem pipeline_of_seeded_models (models : List Prog) (h : ∀ m ∈ models, Guarded m = true) (g : G) :
    (exec gen g (pipeline none models)).g = g := by
  apply guarded_restores
  simp only [pipeline, Guarded]
  induction models with
  | nil => rfl
  | cons m ms ih =>
    simp only [List.foldr_cons, Guarded, Bool.and_eq_true]
    exact ⟨h m (by simp), ih (fun m' hm' => h m' (by simp [hm']))⟩

/-- **Randomness elsewhere is neither made deterministic nor perturbed**: a draw made after a
guarded run returns exactly what it would have returned without the run. -/
theorem elsewhere_unperturbed (p : Prog) (hp : Guarded p = true) (g : G)
    (hok : (exec gen g p).failed = false) :
    (exec gen g (.seq p .draw)).out = (exec gen g p).out ++ [(gen.draw g).2] ∧
    (exec gen g (.seq p .draw)).g = (gen.draw g).1 := by
  simp [exec, hok, guarded_restores gen p hp g]

/-- `seed=None` is transparent -/
theorem unseeded_transparent (p : Prog) (g : G) : exec gen g (.seeded none p) = exec gen g p := rfl

-- an unguarded draw does perturb the generator (the hypothesis `Guarded` is not decorative)
example : (exec toyGen 5 (.seq (.seeded (some 1) .draw) .draw)).g ≠ 5 := by decide
-- non-vacuity: nested seeds, a failing model, guarded
example : Guarded (pipeline (some 3) [.draw, .seeded (some 4) (.seq .draw .fail), .draw]) = true ∧
    (exec toyGen 7 (pipeline (some 3) [.draw, .seeded (some 4) (.seq .draw .fail), .draw])).out = [300, 400] ∧
    (exec toyGen 7 (pipeline (some 3) [.draw, .seeded (some 4) (.seq .draw .fail), .draw])).g = 7 := by
  decide

/-! ## tables regenerated from today's source -/

/-- every model function with a `seed` parameter draws only inside `with set_random_seed(seed)` -/
theorem all_models_guarded :
    PyxelModel.Generated.C04.seededModels ≠ [] ∧
    ∀ m ∈ PyxelModel.Generated.C04.seededModels, m.2 = true := by
  decide

/-- nobody but `set_random_seed` seeds or overwrites the process-wide generator -/
theorem no_global_writers : PyxelModel.Generated.C04.globalSeedCalls = [] := by decide

/-- no model creates a private generator without a seed (it would ignore pipeline and model seeds) -/
theorem no_unseeded_generators : PyxelModel.Generated.C04.unseededGenerators = [] := by decide

/-- the source files in which a running mode hands its pipeline seed down to where the pipeline runs -/
def seedPlumbingFiles : List String :=
  ["pyxel/exposure/exposure.py", "pyxel/observation/observation.py", "pyxel/observation/observation_dask.py",
   "pyxel/calibration/calibration.py", "pyxel/calibration/fitting_datatree.py"]

/-- every running mode hands its pipeline seed down to where the pipeline runs: every call site (in the whole
package) of anything that takes a `pipeline_seed` forwards the caller's seed, and each mode's file has such a site -/
theorem all_modes_pass_seed :
    (∀ f ∈ seedPlumbingFiles, f ∈ PyxelModel.Generated.C04.modesPassSeed.map Prod.fst) ∧
    ∀ m ∈ PyxelModel.Generated.C04.modesPassSeed, m.2 = true := by
  decide

/-- `set_random_seed` has the modelled effects, in the modelled order: take the lock, save the state, seed, run the
body, restore the state (also when the body fails, before the error propagates), release the lock; with no seed it
only runs the body.  The traces are observed on the code (generated table), not read off its text. -/
theorem context_manager_shape : PyxelModel.Generated.C04.seedTraces =
    [("normal", ["acquire", "save", "seed", "body", "restore", "release"]),
     ("error", ["acquire", "save", "seed", "body", "restore", "release", "propagated"]),
     ("none", ["body"]),
     ("default", ["body"])] := by decide

end PyxelModel.C04
