import PyxelModel.Model.C01Keys
import PyxelModel.Props.C01
/-!
# C01 — changes made through a key or through the object reach exactly the addressed model

Statement clause: "Disabled models … never execute, and every executed model receives … exactly the arguments
configured for it", for configurations that were changed after construction (overrides, sweeps, attribute
assignment).  All theorems quantify over every pipeline, every group / name / position and every update.
-/
namespace PyxelModel.C01

variable {α : Type}

/-- a group-wise update changes the list found under its own group and no other -/
theorem lookup_mapGroup (p : Pipeline α) (g g' : String) (F : List (Model α) → List (Model α))
    (hF : F [] = []) :
    lookup (p.map (fun e => if e.1 == g then (e.1, F e.2) else e)) g' =
      if g' = g then F (lookup p g') else lookup p g' := by
  induction p with
  | nil => simp [lookup, hF]
  | cons e p ih =>
    rw [List.map_cons, lookup_cons, lookup_cons, ih]
    by_cases h1 : e.1 = g <;> by_cases h2 : e.1 = g' <;> by_cases h3 : g' = g <;>
      simp_all

theorem updFirst_nil (n : String) (f : Model α → Model α) : updFirst n f ([] : List (Model α)) = [] := rfl
theorem updAt_nil (f : Model α → Model α) (i : Nat) : updAt f i ([] : List (Model α)) = [] := by
  cases i <;> rfl

/-- **A change addressed to one group leaves every other group's models as they were.** -/
theorem lookup_setKey_ne (p : Pipeline α) {g g' : String} (n : String) (f : Model α → Model α)
    (h : g' ≠ g) : lookup (setKey p g n f) g' = lookup p g' := by
  unfold setKey; rw [lookup_mapGroup _ _ _ _ (updFirst_nil n f)]; simp [h]

theorem lookup_setKey_eq (p : Pipeline α) (g n : String) (f : Model α → Model α) :
    lookup (setKey p g n f) g = updFirst n f (lookup p g) := by
  unfold setKey; rw [lookup_mapGroup _ _ _ _ (updFirst_nil n f)]; simp

theorem lookup_setIdx_ne (p : Pipeline α) {g g' : String} (i : Nat) (f : Model α → Model α)
    (h : g' ≠ g) : lookup (setIdx p g i f) g' = lookup p g' := by
  unfold setIdx; rw [lookup_mapGroup _ _ _ _ (updAt_nil f i)]; simp [h]

theorem lookup_setIdx_eq (p : Pipeline α) (g : String) (i : Nat) (f : Model α → Model α) :
    lookup (setIdx p g i f) g = updAt f i (lookup p g) := by
  unfold setIdx; rw [lookup_mapGroup _ _ _ _ (updAt_nil f i)]; simp

/-- positional update: position `i` gets `f`, every other position is untouched -/
theorem getElem?_updAt (f : Model α → Model α) (i k : Nat) (ms : List (Model α)) :
    (updAt f i ms)[k]? = if k = i then ms[k]?.map f else ms[k]? := by
  induction ms generalizing i k with
  | nil => simp [updAt_nil]
  | cons m ms ih =>
    cases i with
    | zero => cases k <;> simp [updAt]
    | succ i =>
      cases k with
      | zero => simp [updAt]
      | succ k => simp [updAt, ih]

/-- update by name: the first model of that name gets `f`, every other position is untouched -/
theorem getElem?_updFirst (n : String) (f : Model α → Model α) (k : Nat) (ms : List (Model α)) :
    (updFirst n f ms)[k]? = if firstIdx n ms = some k then ms[k]?.map f else ms[k]? := by
  induction ms generalizing k with
  | nil => simp [updFirst, firstIdx]
  | cons m ms ih =>
    unfold updFirst firstIdx
    by_cases hm : m.name == n
    · simp only [hm, if_true]
      cases k <;> simp
    · simp only [hm]
      cases k with
      | zero => simp
      | succ k =>
        simp only [Bool.false_eq_true, if_false, List.getElem?_cons_succ]
        rw [ih]
        cases h : firstIdx n ms <;> simp

theorem firstIdx_some {n : String} {ms : List (Model α)} {k : Nat} (h : firstIdx n ms = some k) :
    ∃ m, ms[k]? = some m ∧ m.name = n ∧ ∀ j < k, ∀ m', ms[j]? = some m' → m'.name ≠ n := by
  induction ms generalizing k with
  | nil => simp [firstIdx] at h
  | cons m ms ih =>
    unfold firstIdx at h
    by_cases hm : m.name == n
    · simp only [hm, if_true, Option.some.injEq] at h
      subst h
      exact ⟨m, by simp, by simpa using hm, by intro j hj; omega⟩
    · simp only [hm] at h
      cases h' : firstIdx n ms with
      | none => simp [h'] at h
      | some k' =>
        simp [h'] at h
        subst h
        obtain ⟨m1, h1, h2, h3⟩ := ih h'
        refine ⟨m1, by simpa using h1, h2, ?_⟩
        intro j hj m' hm'
        cases j with
        | zero =>
          simp at hm'; subst hm'
          intro hc; exact hm (by simpa using hc)
        | succ j => exact h3 j (by omega) m' (by simpa using hm')

/-- **Enabling / disabling through a key.**  After `pipeline.<g>.<n>.enabled = b` a call happens in a step iff
it is a model of a scheduled group that is enabled — where the first model called `n` of group `g` counts as
enabled exactly when `b` is true, and every other model (of `g` or of any other group, whatever its name)
keeps the flag it had.  The calls carry the unchanged names and arguments. -/
theorem mem_runStep_setKey_enabled {order : List String} {p : Pipeline α} {g n : String} {b : Bool}
    {c : Call α} :
    c ∈ runStep order (setKey p g n (withEnabled b)) ↔
      ∃ g' ∈ order, ∃ k m, (lookup p g')[k]? = some m ∧ c = ⟨g', k, m.name, m.args⟩ ∧
        (if g' = g ∧ firstIdx n (lookup p g) = some k then b = true else m.enabled = true) := by
  rw [mem_runStep_iff]
  constructor
  · rintro ⟨g', hg', k, m, h1, h2, h3⟩
    refine ⟨g', hg', k, ?_⟩
    by_cases hg : g' = g
    · subst hg
      rw [lookup_setKey_eq, getElem?_updFirst] at h1
      by_cases hf : firstIdx n (lookup p g') = some k
      · simp only [hf, if_true] at h1
        obtain ⟨m0, hm0, rfl⟩ := Option.map_eq_some_iff.mp h1
        exact ⟨m0, hm0, by simpa [withEnabled] using h3, by simpa [hf, withEnabled] using h2⟩
      · simp only [hf, if_false] at h1
        exact ⟨m, h1, h3, by simp [hf, h2]⟩
    · rw [lookup_setKey_ne _ _ _ hg] at h1
      exact ⟨m, h1, h3, by simp [hg, h2]⟩
  · rintro ⟨g', hg', k, m, h1, h2, h3⟩
    refine ⟨g', hg', k, ?_⟩
    by_cases hg : g' = g
    · subst hg
      by_cases hf : firstIdx n (lookup p g') = some k
      · refine ⟨withEnabled b m, ?_, ?_, ?_⟩
        · rw [lookup_setKey_eq, getElem?_updFirst]; simp [hf, h1]
        · simpa [hf, withEnabled] using h3
        · simpa [withEnabled] using h2
      · refine ⟨m, ?_, ?_, h2⟩
        · rw [lookup_setKey_eq, getElem?_updFirst]; simp [hf, h1]
        · simpa [hf] using h3
    · refine ⟨m, ?_, ?_, h2⟩
      · rw [lookup_setKey_ne _ _ _ hg]; exact h1
      · simpa [hg] using h3

/-- corollary: a model disabled through its key never executes (when its name is unique in its group up to
its position, i.e. it is the one the key finds) -/
theorem disabled_by_key_never_runs {order : List String} {p : Pipeline α} {g n : String} {k : Nat}
    (hk : firstIdx n (lookup p g) = some k) (c : Call α)
    (hc : c ∈ runStep order (setKey p g n (withEnabled false))) : ¬ (c.group = g ∧ c.idx = k) := by
  obtain ⟨g', _, k', m, _, rfl, h3⟩ := mem_runStep_setKey_enabled.mp hc
  rintro ⟨rfl, rfl⟩
  simp [hk] at h3

/-- corollary: a same-named model in ANOTHER group is not affected by the key (the C01-7 class of defect) -/
theorem key_does_not_reach_other_groups {order : List String} {p : Pipeline α} {g g' n : String} {b : Bool}
    (h : g' ≠ g) (c : Call α) (hcg : c.group = g') :
    c ∈ runStep order (setKey p g n (withEnabled b)) ↔ c ∈ runStep order p := by
  rw [mem_runStep_setKey_enabled, mem_runStep_iff]
  constructor
  · rintro ⟨g1, hg1, k, m, h1, rfl, h3⟩
    have : g1 ≠ g := by intro hh; subst hh; exact h hcg.symm
    exact ⟨g1, hg1, k, m, h1, by simpa [this] using h3, rfl⟩
  · rintro ⟨g1, hg1, k, m, h1, h2, rfl⟩
    have : g1 ≠ g := by intro hh; subst hh; exact h hcg.symm
    exact ⟨g1, hg1, k, m, h1, rfl, by simpa [this] using h2⟩

/-- **Changing the arguments through a key**: the first model called `n` of group `g` is called with the new
arguments, every other call is exactly as before; which models run does not change. -/
theorem mem_runStep_setKey_args {order : List String} {p : Pipeline α} {g n : String} {a : α}
    {c : Call α} :
    c ∈ runStep order (setKey p g n (withArgs a)) ↔
      ∃ g' ∈ order, ∃ k m, (lookup p g')[k]? = some m ∧ m.enabled = true ∧
        c = ⟨g', k, m.name, if g' = g ∧ firstIdx n (lookup p g) = some k then a else m.args⟩ := by
  rw [mem_runStep_iff]
  constructor
  · rintro ⟨g', hg', k, m, h1, h2, h3⟩
    refine ⟨g', hg', k, ?_⟩
    by_cases hg : g' = g
    · subst hg
      rw [lookup_setKey_eq, getElem?_updFirst] at h1
      by_cases hf : firstIdx n (lookup p g') = some k
      · simp only [hf, if_true] at h1
        obtain ⟨m0, hm0, rfl⟩ := Option.map_eq_some_iff.mp h1
        exact ⟨m0, hm0, by simpa [withArgs] using h2, by simpa [hf, withArgs] using h3⟩
      · simp only [hf, if_false] at h1
        exact ⟨m, h1, h2, by simp [hf, h3]⟩
    · rw [lookup_setKey_ne _ _ _ hg] at h1
      exact ⟨m, h1, h2, by simp [hg, h3]⟩
  · rintro ⟨g', hg', k, m, h1, h2, h3⟩
    refine ⟨g', hg', k, ?_⟩
    by_cases hg : g' = g
    · subst hg
      by_cases hf : firstIdx n (lookup p g') = some k
      · refine ⟨withArgs a m, ?_, by simpa [withArgs] using h2, ?_⟩
        · rw [lookup_setKey_eq, getElem?_updFirst]; simp [hf, h1]
        · simpa [hf, withArgs] using h3
      · refine ⟨m, ?_, h2, by simpa [hf] using h3⟩
        rw [lookup_setKey_eq, getElem?_updFirst]; simp [hf, h1]
    · refine ⟨m, ?_, h2, by simpa [hg] using h3⟩
      rw [lookup_setKey_ne _ _ _ hg]; exact h1

/-- **Enabling / disabling by position** (`pipeline.<g>.models[i].enabled = b`) -/
theorem mem_runStep_setIdx_enabled {order : List String} {p : Pipeline α} {g : String} {i : Nat} {b : Bool}
    {c : Call α} :
    c ∈ runStep order (setIdx p g i (withEnabled b)) ↔
      ∃ g' ∈ order, ∃ k m, (lookup p g')[k]? = some m ∧ c = ⟨g', k, m.name, m.args⟩ ∧
        (if g' = g ∧ k = i then b = true else m.enabled = true) := by
  rw [mem_runStep_iff]
  constructor
  · rintro ⟨g', hg', k, m, h1, h2, h3⟩
    refine ⟨g', hg', k, ?_⟩
    by_cases hg : g' = g
    · subst hg
      rw [lookup_setIdx_eq, getElem?_updAt] at h1
      by_cases hf : k = i
      · simp only [hf, if_true] at h1
        obtain ⟨m0, hm0, rfl⟩ := Option.map_eq_some_iff.mp h1
        exact ⟨m0, by simpa [hf] using hm0, by simpa [withEnabled] using h3, by simpa [hf, withEnabled] using h2⟩
      · simp only [hf, if_false] at h1
        exact ⟨m, h1, h3, by simp [hf, h2]⟩
    · rw [lookup_setIdx_ne _ _ _ hg] at h1
      exact ⟨m, h1, h3, by simp [hg, h2]⟩
  · rintro ⟨g', hg', k, m, h1, h2, h3⟩
    refine ⟨g', hg', k, ?_⟩
    by_cases hg : g' = g
    · subst hg
      by_cases hf : k = i
      · refine ⟨withEnabled b m, ?_, ?_, ?_⟩
        · rw [lookup_setIdx_eq, getElem?_updAt]; simp [hf] at h1 ⊢; simp [h1]
        · simpa [hf, withEnabled] using h3
        · simpa [withEnabled] using h2
      · refine ⟨m, ?_, ?_, h2⟩
        · rw [lookup_setIdx_eq, getElem?_updAt]; simp [hf, h1]
        · simpa [hf] using h3
    · refine ⟨m, ?_, ?_, h2⟩
      · rw [lookup_setIdx_ne _ _ _ hg]; exact h1
      · simpa [hg] using h3

/-- non-vacuity: two groups each holding a model called "m"; disabling `charge_generation.m` through its key
leaves `photon_collection.m` running -/
example :
    runStep physicalOrder
      (setKey [("photon_collection", [⟨"m", true, 1⟩]), ("charge_generation", [⟨"x", true, 2⟩, ⟨"m", true, 3⟩])]
        "charge_generation" "m" (withEnabled false)) =
      [⟨"photon_collection", 0, "m", 1⟩, ⟨"charge_generation", 0, "x", 2⟩] := by decide

end PyxelModel.C01
