import PyxelModel.Model.C14
import Mathlib.Algebra.Order.Floor.Ring
import Mathlib.Data.Rat.Floor
import Mathlib.Tactic.Linarith
import Mathlib.Tactic.FieldSimp
import Mathlib.Tactic.Ring
/-!
# C14 — property theorems (statement: properties.jsonl C14)

Everything is stated per pixel `(i, j)` of an arbitrary geometry (any number of rows and columns,
any positive pixel sizes) and for arbitrary histories (lists of operations of any length).
-/
namespace PyxelModel.C14

/-- an array of the detector's shape -/
def Wf (g : Geo) (a : Grid) : Prop := a.length = g.rows ∧ ∀ r ∈ a, r.length = g.cols

/-! ### grids -/

theorem shapeOk_iff (g : Geo) (a : Grid) : shapeOk g a = true ↔ Wf g a := by
  simp [shapeOk, Wf, List.all_eq_true]

theorem row_of_wf {g : Geo} {a : Grid} (h : Wf g a) {i : Nat} (hi : i < g.rows) :
    ∃ r, a[i]? = some r ∧ r.length = g.cols := by
  have hl : i < a.length := h.1 ▸ hi
  exact ⟨a[i], List.getElem?_eq_getElem hl, h.2 _ (List.getElem_mem hl)⟩

theorem wf_zeros (g : Geo) : Wf g (zeros g) := by
  refine ⟨by simp [zeros], ?_⟩
  intro r hr
  simp only [zeros, List.mem_replicate] at hr
  rw [hr.2]; simp

theorem get_zeros (g : Geo) (i j : Nat) : (zeros g).get i j = 0 := by
  unfold Grid.get zeros
  rw [List.getElem?_replicate]
  split
  · simp only [Option.getD_some]
    rw [List.getElem?_replicate]
    split <;> rfl
  · rfl

theorem get_addGrid {g : Geo} {a b : Grid} (ha : Wf g a) (hb : Wf g b) (i j : Nat) :
    (addGrid a b).get i j = a.get i j + b.get i j := by
  unfold addGrid Grid.get
  rw [List.getElem?_zipWith]
  by_cases hi : i < g.rows
  · obtain ⟨r, hr, hrl⟩ := row_of_wf ha hi
    obtain ⟨r', hr', hrl'⟩ := row_of_wf hb hi
    simp only [hr, hr', Option.getD_some]
    rw [List.getElem?_zipWith]
    by_cases hj : j < g.cols
    · have h1 : j < r.length := hrl ▸ hj
      have h2 : j < r'.length := hrl' ▸ hj
      simp [List.getElem?_eq_getElem h1, List.getElem?_eq_getElem h2]
    · have h1 : r[j]? = none := List.getElem?_eq_none (by omega)
      have h2 : r'[j]? = none := List.getElem?_eq_none (by omega)
      simp [h1, h2]
  · have h1 : a[i]? = none := List.getElem?_eq_none (by have := ha.1; omega)
    have h2 : b[i]? = none := List.getElem?_eq_none (by have := hb.1; omega)
    simp [h1, h2]

theorem wf_addGrid {g : Geo} {a b : Grid} (ha : Wf g a) (hb : Wf g b) : Wf g (addGrid a b) := by
  refine ⟨by simp [addGrid, ha.1, hb.1], ?_⟩
  intro r hr
  unfold addGrid at hr
  obtain ⟨k, hk, rfl⟩ := List.getElem_of_mem hr
  rw [List.getElem_zipWith, List.length_zipWith]
  simp only [List.length_zipWith] at hk
  rw [ha.2 _ (List.getElem_mem _), hb.2 _ (List.getElem_mem _)]
  simp

theorem get_bump {g : Geo} {a : Grid} (hw : Wf g a) {i j : Nat} (hi : i < g.rows)
    (hj : j < g.cols) (q : Rat) (i' j' : Nat) :
    (bump a i j q).get i' j' = a.get i' j' + if i' = i ∧ j' = j then q else 0 := by
  unfold bump Grid.get
  rw [List.getElem?_modify]
  by_cases h1 : i = i'
  · subst h1
    obtain ⟨r, hr, hlen⟩ := row_of_wf hw hi
    simp only [hr, Option.map_eq_map, Option.map_some, if_true, Option.getD_some,
      List.getElem?_modify, true_and]
    by_cases h2 : j = j'
    · subst h2
      have hl : j < r.length := hlen ▸ hj
      simp [List.getElem?_eq_getElem hl]
    · have h3 : ¬ (j' = j) := fun e => h2 e.symm
      simp only [h2, h3, if_false]
      cases r[j']? <;> simp
  · have h3 : ¬ (i' = i) := fun e => h1 e.symm
    simp only [h1, h3, false_and, if_false]
    cases a[i']? <;> simp

theorem wf_bump {g : Geo} {a : Grid} (hw : Wf g a) (i j : Nat) (q : Rat) : Wf g (bump a i j q) := by
  refine ⟨by simp [bump, hw.1], ?_⟩
  intro r hr
  unfold bump at hr
  obtain ⟨k, hk, rfl⟩ := List.getElem_of_mem hr
  rw [List.getElem_modify]
  simp only [List.length_modify] at hk
  split
  · rw [List.length_modify]; exact hw.2 _ (List.getElem_mem _)
  · exact hw.2 _ (List.getElem_mem _)

theorem allZero_get {a : Grid} (h : allZero a = true) (i j : Nat) : a.get i j = 0 := by
  unfold Grid.get
  cases hr : a[i]? with
  | none => rfl
  | some r =>
    simp only [Option.getD_some]
    cases hx : r[j]? with
    | none => rfl
    | some x =>
      simp only [Option.getD_some]
      have hmem : r ∈ a := List.mem_of_getElem? hr
      have hx' : x ∈ r := List.mem_of_getElem? hx
      simp only [allZero, List.all_eq_true, beq_iff_eq] at h
      exact h r hmem x hx'

/-! ### binning -/

/-- **A cluster is only ever credited to a pixel of the array**: the index pair `bin` returns is
inside the detector, so `array[i, j] += q` never touches memory outside the buffer. -/
theorem bin_in_range {g : Geo} {c : Cluster} {i j : Nat} (h : bin g c = some (i, j)) :
    i < g.rows ∧ j < g.cols := by
  unfold bin at h
  simp only at h
  split at h
  · rename_i hc
    simp only [Option.some.injEq, Prod.mk.injEq] at h
    omega
  · cases h

/-- **Each cluster is credited to the pixel whose area contains its position**: row index =
floor of vertical position over pixel height, column likewise; i.e. pixel `(i, j)` exactly when
`i·h ≤ v < (i+1)·h` and `j·w ≤ u < (j+1)·w` and `(i, j)` is a pixel of the detector. -/
theorem bin_eq_some_iff (g : Geo) (hh : 0 < g.h) (hw : 0 < g.w) (c : Cluster) (i j : Nat) :
    bin g c = some (i, j) ↔
      i < g.rows ∧ j < g.cols ∧ (i : ℚ) * g.h ≤ c.v ∧ c.v < ((i : ℚ) + 1) * g.h ∧
        (j : ℚ) * g.w ≤ c.u ∧ c.u < ((j : ℚ) + 1) * g.w := by
  have fl : ∀ (x s : ℚ) (k : ℕ), 0 < s → ((x / s).floor = (k : ℤ) ↔ (k : ℚ) * s ≤ x ∧ x < ((k : ℚ) + 1) * s) := by
    intro x s k hs
    change ⌊x / s⌋ = (k : ℤ) ↔ _
    rw [Int.floor_eq_iff, le_div_iff₀ hs, div_lt_iff₀ hs]
    simp
  have flv : ∀ k : ℕ, idxV g c = (k : ℤ) ↔ (k : ℚ) * g.h ≤ c.v ∧ c.v < ((k : ℚ) + 1) * g.h :=
    fun k => fl c.v g.h k hh
  have flh : ∀ k : ℕ, idxH g c = (k : ℤ) ↔ (k : ℚ) * g.w ≤ c.u ∧ c.u < ((k : ℚ) + 1) * g.w :=
    fun k => fl c.u g.w k hw
  show (if 0 ≤ idxV g c ∧ idxV g c < (g.rows : ℤ) ∧ 0 ≤ idxH g c ∧ idxH g c < (g.cols : ℤ) then
      some ((idxV g c).toNat, (idxH g c).toNat) else none) = some (i, j) ↔ _
  split_ifs with hc
  · simp only [Option.some.injEq, Prod.mk.injEq]
    constructor
    · rintro ⟨e1', e2'⟩
      have a1 := (flv i).mp (by omega)
      have a2 := (flh j).mp (by omega)
      exact ⟨by omega, by omega, a1.1, a1.2, a2.1, a2.2⟩
    · rintro ⟨_, _, h1, h2, h3, h4⟩
      have e1 := (flv i).mpr ⟨h1, h2⟩
      have e2 := (flh j).mpr ⟨h3, h4⟩
      omega
  · simp only [false_iff]
    rintro ⟨hi, hj, h1, h2, h3, h4⟩
    have e1 := (flv i).mpr ⟨h1, h2⟩
    have e2 := (flh j).mpr ⟨h3, h4⟩
    apply hc
    omega

/-- a pixel-centre coordinate floors back to its index, over any ordered field with a floor -/
theorem centre_floor {K : Type} [Field K] [LinearOrder K] [IsStrictOrderedRing K] [FloorRing K]
    (h : K) (hh : 0 < h) (i : ℕ) : ⌊((i : K) * h + h / 2) / h⌋ = (i : ℤ) := by
  have e : ((i : K) * h + h / 2) / h = (i : K) + 1 / 2 := by field_simp
  rw [e, Int.floor_eq_iff]
  constructor <;> push_cast <;> linarith

/-- **Array → clusters → array is the identity**: a cluster placed at the centre of pixel
`(i, j)` is binned back into `(i, j)`, for every positive pixel size. -/
theorem centre_roundtrip (g : Geo) (hh : 0 < g.h) (hw : 0 < g.w) (x : ℚ) (i j : Nat)
    (hi : i < g.rows) (hj : j < g.cols) :
    bin g ⟨x, centre g.h i, centre g.w j⟩ = some (i, j) := by
  rw [bin_eq_some_iff g hh hw]
  refine ⟨hi, hj, ?_, ?_, ?_, ?_⟩ <;> simp only [centre] <;> nlinarith

-- non-vacuity: a 0.3-wide pixel grid; the position 0.9 − ulp, written as an exact rational, is in
-- column 2 although its double quotient rounds to 3.0 (DESIGN section 7)
example : bin ⟨2, 4, 1, 3 / 10⟩ ⟨5, 1 / 2, 8106479329266892 / 9007199254740992⟩ = some (0, 2) := by
  decide +kernel

/-! ### crediting -/

theorem credit_append (g : Geo) (me : Nat × Nat) (l₁ l₂ : List Cluster) :
    credit g me (l₁ ++ l₂) = credit g me l₁ + credit g me l₂ := by
  induction l₁ with
  | nil => simp [credit]
  | cons x xs ih => simp [credit, ih, add_assoc]

theorem foldl_dfStep {g : Geo} (fr : List Cluster) (a : Grid) (hw : Wf g a) (i j : Nat) :
    Wf g (fr.foldl (dfStep g) a) ∧
    (fr.foldl (dfStep g) a).get i j = a.get i j + credit g (i, j) fr := by
  induction fr generalizing a with
  | nil => simp [credit, hw]
  | cons c cs ih =>
    simp only [List.foldl_cons, credit]
    cases hb : bin g c with
    | none =>
      have e : dfStep g a c = a := by simp [dfStep, hb]
      rw [e]
      obtain ⟨h1, h2⟩ := ih a hw
      exact ⟨h1, by rw [h2]; simp⟩
    | some p =>
      obtain ⟨pi, pj⟩ := p
      have e : dfStep g a c = bump a pi pj c.number := by simp [dfStep, hb]
      rw [e]
      obtain ⟨hpi, hpj⟩ := bin_in_range hb
      obtain ⟨h1, h2⟩ := ih _ (wf_bump hw pi pj c.number)
      refine ⟨h1, ?_⟩
      rw [h2, get_bump hw hpi hpj]
      by_cases hme : (pi, pj) = (i, j)
      · simp only [Prod.mk.injEq] at hme
        obtain ⟨rfl, rfl⟩ := hme
        simp [add_assoc]
      · have : ¬ (i = pi ∧ j = pj) := by
          rintro ⟨rfl, rfl⟩; exact hme rfl
        have hne : ¬ ((pi, pj) = (i, j)) := hme
        simp only [this, if_false, Option.some.injEq, hne]
        simp

/-- **`convert_df_to_array`**: the rebuilt array has the detector's shape and pixel `(i, j)` holds
exactly the total of the clusters binned to `(i, j)`. -/
theorem dfToArray_spec (g : Geo) (fr : List Cluster) (i j : Nat) :
    Wf g (dfToArray g fr) ∧ (dfToArray g fr).get i j = credit g (i, j) fr := by
  obtain ⟨h1, h2⟩ := foldl_dfStep (g := g) fr (zeros g) (wf_zeros g) i j
  exact ⟨h1, by rw [dfToArray, h2, get_zeros]; simp⟩

theorem credit_rowToDf (g : Geo) (hh : 0 < g.h) (hw : 0 < g.w) (i' : Nat) (hi' : i' < g.rows)
    (row : List ℚ) (j0 : Nat) (hlen : j0 + row.length ≤ g.cols) (i j : Nat) :
    credit g (i, j) (rowToDf g i' j0 row) =
      if i = i' ∧ j0 ≤ j ∧ j < j0 + row.length then max (row[j - j0]?.getD 0) 0 else 0 := by
  induction row generalizing j0 with
  | nil => simp [rowToDf, credit]
  | cons x xs ih =>
    simp only [List.length_cons] at hlen
    have ih' := ih (j0 + 1) (by omega)
    have hb : ∀ q, bin g ⟨q, centre g.h i', centre g.w j0⟩ = some (i', j0) :=
      fun q => centre_roundtrip g hh hw q i' j0 hi' (by omega)
    have hhead : (if x > 0 then (if (some (i', j0) : Option (ℕ × ℕ)) = some (i, j) then x else 0) else 0) =
        if i = i' ∧ j = j0 then max x 0 else 0 := by
      by_cases hx : x > 0
      · by_cases he : i = i' ∧ j = j0
        · obtain ⟨rfl, rfl⟩ := he
          simp [hx, max_eq_left (le_of_lt hx)]
        · have : ¬ ((some (i', j0) : Option (ℕ × ℕ)) = some (i, j)) := by
            intro e; simp only [Option.some.injEq, Prod.mk.injEq] at e
            exact he ⟨e.1.symm, e.2.symm⟩
          simp [hx, he, this]
      · have : max x 0 = 0 := max_eq_right (le_of_not_gt hx)
        simp [hx, this]
    have hcred : credit g (i, j) (rowToDf g i' j0 (x :: xs)) =
        (if i = i' ∧ j = j0 then max x 0 else 0) + credit g (i, j) (rowToDf g i' (j0 + 1) xs) := by
      rw [← hhead]
      by_cases hx : x > 0
      · rw [rowToDf, if_pos hx, credit, hb, if_pos hx]
      · rw [rowToDf, if_neg hx, if_neg hx, zero_add]
    rw [hcred, ih']
    simp only [List.length_cons]
    by_cases c1 : i = i' ∧ j = j0
    · obtain ⟨rfl, rfl⟩ := c1
      have : ¬ (j + 1 ≤ j) := by omega
      simp [this]
    · by_cases c2 : i = i' ∧ j0 + 1 ≤ j ∧ j < j0 + 1 + xs.length
      · obtain ⟨rfl, h2, h3⟩ := c2
        have c3 : j0 ≤ j ∧ j < j0 + (xs.length + 1) := by omega
        have c4 : j - j0 = (j - (j0 + 1)) + 1 := by omega
        have c5 : ¬ (j = j0) := by omega
        simp only [c5, if_false, true_and, h2, h3, c3, and_self, if_true, zero_add]
        rw [c4, List.getElem?_cons_succ]
      · have c3 : ¬ (i = i' ∧ j0 ≤ j ∧ j < j0 + (xs.length + 1)) := by
          rintro ⟨rfl, h2, h3⟩
          apply c2
          refine ⟨rfl, ?_, ?_⟩
          · by_contra hcon
            exact c1 ⟨rfl, by omega⟩
          · omega
        simp [c1, c2, c3]

theorem credit_gridToDf (g : Geo) (hh : 0 < g.h) (hw : 0 < g.w) (a : Grid) (i0 : Nat)
    (hlen : i0 + a.length ≤ g.rows) (hrows : ∀ r ∈ a, r.length = g.cols) (i j : Nat)
    (hj : j < g.cols) :
    credit g (i, j) (gridToDf g i0 a) =
      if i0 ≤ i ∧ i < i0 + a.length then max (a.get (i - i0) j) 0 else 0 := by
  induction a generalizing i0 with
  | nil => simp [gridToDf, credit]
  | cons r rs ih =>
    simp only [List.length_cons] at hlen
    have hr : r.length = g.cols := hrows r (by simp)
    have ih' := ih (i0 + 1) (by omega) (fun r' hr' => hrows r' (by simp [hr']))
    simp only [gridToDf, credit_append, ih', List.length_cons]
    rw [credit_rowToDf g hh hw i0 (by omega) r 0 (by omega) i j]
    simp only [Nat.zero_le, Nat.zero_add, true_and, Nat.sub_zero]
    by_cases c1 : i = i0
    · subst c1
      have c2 : ¬ (i + 1 ≤ i ∧ i < i + 1 + rs.length) := by omega
      have c3 : i ≤ i ∧ i < i + (rs.length + 1) := by omega
      have c4 : j < r.length := by omega
      simp [c3, c4, Grid.get]
    · by_cases c2 : i0 + 1 ≤ i ∧ i < i0 + 1 + rs.length
      · have c3 : i0 ≤ i ∧ i < i0 + (rs.length + 1) := by omega
        have c4 : i - i0 = (i - (i0 + 1)) + 1 := by omega
        simp only [c1, false_and, if_false, c2, and_self, if_true, c3, zero_add]
        unfold Grid.get
        rw [c4, List.getElem?_cons_succ]
      · have c3 : ¬ (i0 ≤ i ∧ i < i0 + (rs.length + 1)) := by omega
        simp [c1, c2, c3]

/-- **`convert_array_to_df`**: the clusters made from an array credit pixel `(i, j)` with exactly
its positive part (so for a non-negative array: with exactly its entry). -/
theorem credit_arrayToDf (g : Geo) (hh : 0 < g.h) (hw : 0 < g.w) (a : Grid) (ha : Wf g a)
    (i j : Nat) (hi : i < g.rows) (hj : j < g.cols) :
    credit g (i, j) (arrayToDf g a) = max (a.get i j) 0 := by
  unfold arrayToDf
  rw [credit_gridToDf g hh hw a 0 (by have := ha.1; omega) ha.2 i j hj,
    if_pos ⟨Nat.zero_le i, by have := ha.1; omega⟩, Nat.sub_zero]

/-! ### the accounting theorem -/

/-- per-pixel charge a state stands for: the array while there is no cluster, else the clusters -/
def Rep (g : Geo) (s : St) (i j : Nat) : ℚ :=
  if s.frame = [] then s.arr.get i j else credit g (i, j) s.clusters

/-- invariant of histories of non-negative additions without removals -/
structure Good (g : Geo) (s : St) : Prop where
  wf : Wf g s.arr
  nonneg : s.frame = [] → ∀ i j, 0 ≤ s.arr.get i j

/-- the operations the accounting clause quantifies over: additions are non-negative, no removal -/
def Admissible : Op → Prop
  | .addArray a => ∀ i j, 0 ≤ a.get i j
  | .remove _ => False
  | _ => True

theorem labelFrom_map (n : Nat) (cs : List Cluster) : (labelFrom n cs).map (·.2) = cs := by
  induction cs generalizing n with
  | nil => rfl
  | cons c cs ih => simp [labelFrom, ih]

theorem labelFrom_eq_nil {n : Nat} {cs : List Cluster} : labelFrom n cs = [] ↔ cs = [] := by
  cases cs <;> simp [labelFrom]

theorem good_init (g : Geo) : Good g (init g) :=
  ⟨wf_zeros g, fun _ i j => by simp [init, get_zeros]⟩

/-- **What the detector reports is what the state stands for** (in every state). -/
theorem report_get (g : Geo) (s : St) (i j : Nat) :
    (report g s).get i j = Rep g s i j := by
  unfold report readArr Rep
  by_cases hf : s.frame = []
  · simp [hf]
  · have : s.frame.isEmpty = false := by simpa using hf
    simp only [this, hf, if_false, Bool.false_eq_true]
    exact (dfToArray_spec g s.clusters i j).2

theorem addClustersCore_spec (g : Geo) (hh : 0 < g.h) (hw : 0 < g.w) (s : St) (hs : Good g s)
    (cs : List Cluster) (i j : Nat) (hi : i < g.rows) (hj : j < g.cols) :
    Good g (addClustersCore g s cs) ∧
    Rep g (addClustersCore g s cs) i j = Rep g s i j + credit g (i, j) cs := by
  unfold addClustersCore
  by_cases hf : s.frame = []
  · have hfe : s.frame.isEmpty = true := by simpa using hf
    simp only [hfe, if_true]
    by_cases hz : allZero s.arr = true
    · simp only [hz, if_true]
      refine ⟨⟨hs.wf, fun _ => hs.nonneg hf⟩, ?_⟩
      unfold Rep St.clusters
      simp only [labelFrom_eq_nil, labelFrom_map, hf, if_true]
      by_cases hc : cs = []
      · subst hc; simp [credit]
      · simp [hc, allZero_get hz]
    · simp only [hz, if_false, Bool.false_eq_true]
      refine ⟨⟨hs.wf, fun _ => hs.nonneg hf⟩, ?_⟩
      have hconv : credit g (i, j) (arrayToDf g s.arr) = s.arr.get i j := by
        rw [credit_arrayToDf g hh hw s.arr hs.wf i j hi hj]
        exact max_eq_left (hs.nonneg hf i j)
      unfold Rep St.clusters
      simp only [labelFrom_eq_nil, labelFrom_map, hf, if_true]
      by_cases hc : arrayToDf g s.arr ++ cs = []
      · -- nothing positive in the array and no new cluster: the array entry is 0
        rw [if_pos hc]
        have h0 : credit g (i, j) (arrayToDf g s.arr ++ cs) = 0 := by rw [hc]; rfl
        rw [credit_append, hconv] at h0
        obtain ⟨_, hcs⟩ := List.append_eq_nil_iff.mp hc
        subst hcs
        simp [credit]
      · rw [if_neg hc, credit_append, hconv]
  · have hfe : s.frame.isEmpty = false := by simpa using hf
    simp only [hfe, if_false, Bool.false_eq_true]
    have hne : s.clusters ++ cs ≠ [] := by
      intro e
      have : s.clusters = [] := (List.append_eq_nil_iff.mp e).1
      apply hf
      simpa [St.clusters] using this
    refine ⟨⟨hs.wf, ?_⟩, ?_⟩
    · intro hnil
      simp only [labelFrom_eq_nil] at hnil
      exact absurd hnil hne
    · unfold Rep
      simp only [labelFrom_eq_nil, hne, hf, if_false]
      show credit g (i, j) ((labelFrom 0 (s.clusters ++ cs)).map (·.2)) = _
      rw [labelFrom_map, credit_append]

/-- one admissible operation: the invariant is kept and the represented charge of every pixel
moves exactly as the statement's accumulator does -/
theorem step_spec (g : Geo) (hh : 0 < g.h) (hw : 0 < g.w) (s : St) (hs : Good g s) (op : Op)
    (hop : Admissible op) (i j : Nat) (hi : i < g.rows) (hj : j < g.cols) :
    Good g (step g s op).1 ∧ Rep g (step g s op).1 i j = accStep g i j (Rep g s i j) op := by
  cases op with
  | addArray a =>
    simp only [step, accStep]
    by_cases hsh : shapeOk g a = true
    · have ha : Wf g a := (shapeOk_iff g a).mp hsh
      simp only [hsh, Bool.not_true, Bool.false_eq_true, if_false, if_true]
      by_cases hf : s.frame = []
      · have hfe : s.frame.isEmpty = true := by simpa using hf
        simp only [hfe, if_true]
        refine ⟨⟨wf_addGrid hs.wf ha, ?_⟩, ?_⟩
        · intro _ i' j'
          rw [get_addGrid hs.wf ha]
          have := hs.nonneg hf i' j'
          have := hop i' j'
          linarith
        · unfold Rep
          simp only [hf, if_true]
          exact get_addGrid hs.wf ha i j
      · have hfe : s.frame.isEmpty = false := by simpa using hf
        simp only [hfe, if_false, Bool.false_eq_true]
        obtain ⟨h1, h2⟩ := addClustersCore_spec g hh hw s hs (arrayToDf g a) i j hi hj
        refine ⟨h1, ?_⟩
        rw [h2, credit_arrayToDf g hh hw a ha i j hi hj, max_eq_left (hop i j)]
    · simp only [hsh, Bool.not_false, if_true, if_false, Bool.false_eq_true]
      exact ⟨hs, trivial⟩
  | addClusters cs =>
    simp only [step, accStep]
    exact addClustersCore_spec g hh hw s hs cs i j hi hj
  | read =>
    simp only [step, accStep, readArr]
    by_cases hf : s.frame = []
    · have hfe : s.frame.isEmpty = true := by simpa using hf
      simp only [hfe, if_true]
      exact ⟨hs, trivial⟩
    · have hfe : s.frame.isEmpty = false := by simpa using hf
      simp only [hfe, if_false, Bool.false_eq_true]
      refine ⟨⟨(dfToArray_spec g s.clusters 0 0).1, fun h => absurd h hf⟩, ?_⟩
      unfold Rep
      simp only [hf, if_false]
      rfl
  | remove ids => exact absurd hop (by simp [Admissible])
  | reset =>
    simp only [step, accStep]
    refine ⟨⟨wf_zeros g, fun _ i' j' => by simp [get_zeros]⟩, ?_⟩
    simp [Rep, get_zeros]
  | roundtrip relabel =>
    simp only [step, accStep, readArr]
    by_cases hf : s.frame = []
    · have hfe : s.frame.isEmpty = true := by simpa using hf
      simp only [hfe, if_true]
      have hc : s.clusters = [] := by simp [St.clusters, hf]
      refine ⟨⟨hs.wf, fun _ => hs.nonneg hf⟩, ?_⟩
      cases relabel <;> simp [Rep, hf, hc, labelFrom]
    · have hfe : s.frame.isEmpty = false := by simpa using hf
      simp only [hfe, if_false, Bool.false_eq_true]
      have hc : s.clusters ≠ [] := by
        intro e; apply hf; simpa [St.clusters] using e
      refine ⟨⟨(dfToArray_spec g s.clusters 0 0).1, ?_⟩, ?_⟩
      · intro hnil
        cases relabel
        · exact absurd hnil hf
        · simp only [if_true] at hnil
          exact absurd (labelFrom_eq_nil.mp hnil) hc
      · cases relabel
        · simp [Rep, hf, St.clusters]
        · simp only [Rep, if_true, labelFrom_eq_nil]
          have e : ({ arr := dfToArray g s.clusters, frame := s.frame, nextid := s.nextid } : St).clusters = s.clusters := rfl
          simp only [e, hc, if_false, hf]
          show credit g (i, j) ((labelFrom 0 s.clusters).map (·.2)) = _
          rw [labelFrom_map]

/-- **Charge is accounted identically as arrays and as clusters.**  For every history of
non-negative array additions, cluster additions, reads and resets — in any interleaving and of any
length — started in any state satisfying the invariant, every pixel of the state stands for
exactly what the statement's accumulator says. -/
theorem rep_eq_acc (g : Geo) (hh : 0 < g.h) (hw : 0 < g.w) (ops : List Op)
    (hops : ∀ op ∈ ops, Admissible op) (s : St) (hs : Good g s)
    (i j : Nat) (hi : i < g.rows) (hj : j < g.cols) :
    Good g (run g s ops) ∧ Rep g (run g s ops) i j = acc g i j (Rep g s i j) ops := by
  induction ops generalizing s with
  | nil => exact ⟨hs, rfl⟩
  | cons op ops ih =>
    obtain ⟨h1, h2⟩ := step_spec g hh hw s hs op (hops op (by simp)) i j hi hj
    obtain ⟨h3, h4⟩ := ih (fun o ho => hops o (by simp [ho])) _ h1
    refine ⟨h3, ?_⟩
    simp only [run, acc, List.foldl_cons]
    rw [h4, h2]
    rfl

/-- … in particular, from a fresh bucket: **the per-pixel charge the detector reports equals the
sum of everything added since the last reset**, whether it came as whole arrays, as positioned
clusters, or interleaved. -/
theorem report_eq_acc (g : Geo) (hh : 0 < g.h) (hw : 0 < g.w) (ops : List Op)
    (hops : ∀ op ∈ ops, Admissible op) (i j : Nat) (hi : i < g.rows) (hj : j < g.cols) :
    (report g (run g (init g) ops)).get i j = acc g i j 0 ops := by
  obtain ⟨h1, h2⟩ := rep_eq_acc g hh hw ops hops (init g) (good_init g) i j hi hj
  rw [report_get g _, h2]
  congr 1
  simp [Rep, init, get_zeros]

/-- instance: the same array added twice with another one in between counts twice — `2a + b`,
whatever happens to the caller's ndarray object in the meantime (arrays are values). -/
theorem readd_same_array (g : Geo) (hh : 0 < g.h) (hw : 0 < g.w) (a b : Grid)
    (ha : Wf g a) (hb : Wf g b) (ha0 : ∀ i j, 0 ≤ a.get i j) (hb0 : ∀ i j, 0 ≤ b.get i j)
    (i j : Nat) (hi : i < g.rows) (hj : j < g.cols) :
    (report g (run g (init g) [.addArray a, .addArray b, .addArray a])).get i j =
      2 * a.get i j + b.get i j := by
  rw [report_eq_acc g hh hw _ _ i j hi hj]
  · have h1 := (shapeOk_iff g a).mpr ha
    have h2 := (shapeOk_iff g b).mpr hb
    simp only [acc, List.foldl_cons, List.foldl_nil, accStep, h1, h2, if_true]
    ring
  · intro op hop
    simp only [List.mem_cons, List.mem_nil_iff, or_false] at hop
    rcases hop with rfl | rfl | rfl
    · exact ha0
    · exact hb0
    · exact ha0

/-- **Rebuilding the detector from its dictionary or from a saved file does not change the reported
charge** (in any state: arrays only, clusters, clusters after removals), for all four detector
classes — in particular clusters are not counted a second time on top of the saved array. -/
theorem roundtrip_keeps_report (g : Geo) (s : St) (relabel : Bool) :
    report g (step g s (.roundtrip relabel)).1 = report g s ∧
    (step g s (.roundtrip relabel)).1.clusters = s.clusters := by
  simp only [step, readArr]
  by_cases hf : s.frame = []
  · have hfe : s.frame.isEmpty = true := by simpa using hf
    have hc : s.clusters = [] := by simp [St.clusters, hf]
    cases relabel <;> simp [report, readArr, hf, labelFrom, St.clusters]
  · have hfe : s.frame.isEmpty = false := by simpa using hf
    have hc : s.clusters ≠ [] := by
      intro e; apply hf; simpa [St.clusters] using e
    cases relabel
    · simp [report, readArr, hfe, St.clusters]
    · simp [report, readArr, hfe, St.clusters, labelFrom_map]

/-- the array returned by a read has the detector's shape in every state satisfying the invariant -/
theorem report_wf (g : Geo) (s : St) (hs : Good g s) : Wf g (report g s) := by
  unfold report readArr
  by_cases hf : s.frame = []
  · have hfe : s.frame.isEmpty = true := by simpa using hf
    simp only [hfe, if_true]; exact hs.wf
  · have hfe : s.frame.isEmpty = false := by simpa using hf
    simp only [hfe, if_false, Bool.false_eq_true]
    exact (dfToArray_spec g s.clusters 0 0).1

/-- **A reset returns the report to zero** (from any state whatsoever). -/
theorem reset_zero (g : Geo) (s : St) (i j : Nat) :
    (report g (step g s .reset).1).get i j = 0 ∧ (step g s .reset).1.frame = [] := by
  simp [step, report, readArr, get_zeros]

/-- **A cluster inside the area adds its number to exactly the pixel containing it**, and
**a cluster outside the area is credited to no pixel at all** — whatever is already there. -/
theorem cluster_credit (g : Geo) (hh : 0 < g.h) (hw : 0 < g.w) (s : St) (hs : Good g s)
    (c : Cluster) (i j : Nat) (hi : i < g.rows) (hj : j < g.cols) :
    Rep g (step g s (.addClusters [c])).1 i j =
      Rep g s i j + if bin g c = some (i, j) then c.number else 0 := by
  have := (step_spec g hh hw s hs (.addClusters [c]) trivial i j hi hj).2
  rw [this]
  simp [accStep, credit]

theorem outside_never_credited (g : Geo) (hh : 0 < g.h) (hw : 0 < g.w) (s : St) (hs : Good g s)
    (c : Cluster) (hout : bin g c = none) (i j : Nat) (hi : i < g.rows) (hj : j < g.cols) :
    Rep g (step g s (.addClusters [c])).1 i j = Rep g s i j := by
  rw [cluster_credit g hh hw s hs c i j hi hj, hout]
  simp

/-- a cluster is outside exactly when its floor index pair is not a pixel of the detector:
negative positions, positions at or beyond `rows·h` / `cols·w` -/
theorem bin_none_iff (g : Geo) (c : Cluster) :
    bin g c = none ↔ ¬ (0 ≤ idxV g c ∧ idxV g c < g.rows ∧ 0 ≤ idxH g c ∧ idxH g c < g.cols) := by
  unfold bin
  simp only
  split <;> simp_all

/-- **Partial removal**: after removing clusters by index label while others remain, the report
is the sum of the remaining clusters, and those are exactly the ones whose label was not listed. -/
theorem partial_remove (g : Geo) (s : St) (ids : List Nat) (hids : ids ≠ [])
    (hrem : (step g s (.remove ids)).1.frame ≠ []) (i j : Nat) :
    (step g s (.remove ids)).1.frame = s.frame.filter (fun e => !ids.contains e.1) ∧
    (report g (step g s (.remove ids)).1).get i j =
      credit g (i, j) (step g s (.remove ids)).1.clusters := by
  have he : ids.isEmpty = false := by simpa using hids
  refine ⟨by simp [step, he], ?_⟩
  unfold report readArr
  have : (step g s (.remove ids)).1.frame.isEmpty = false := by simpa using hrem
  simp only [this, if_false, Bool.false_eq_true]
  exact (dfToArray_spec g _ i j).2

/-- **Removing the last clusters leaves no charge**, whether or not the array was read while
they existed; **a removal issued while there is no cluster at all** (the bucket holds only charge
added as arrays) **changes nothing**. -/
theorem remove_last_or_none (g : Geo) (s : St) (ids : List Nat) (i j : Nat) :
    (s.frame ≠ [] → (step g s (.remove ids)).1.frame = [] →
      (report g (step g s (.remove ids)).1).get i j = 0) ∧
    (s.frame = [] → (step g s (.remove ids)).1.frame = [] ∧
      (step g s (.remove ids)).1.arr = s.arr ∧ report g (step g s (.remove ids)).1 = report g s) := by
  constructor
  · intro hne hnew
    have h1 : s.frame.isEmpty = false := by simpa using hne
    simp only [step] at hnew ⊢
    simp only [report, readArr, hnew, List.isEmpty_nil, if_true, h1, Bool.not_false, Bool.and_self]
    exact get_zeros g i j
  · intro he
    simp [step, he, report, readArr]

-- non-vacuity of `report_eq_acc`: array, clusters (one outside, one on a pixel border), array
-- again (converted to clusters), read, on a 2×3 detector with 10 × 5 pixels
example :
    let g : Geo := ⟨2, 3, 10, 5⟩
    let ops : List Op :=
      [.addArray [[1, 0, 2], [0, 0, 3]],
       .addClusters [⟨7, 15, 5⟩, ⟨100, -1, 2⟩, ⟨4, 0, 14⟩, ⟨9, 20, 1⟩],
       .read, .addArray [[0, 1, 0], [0, 0, 1]]]
    report g (run g (init g) ops) = [[1, 1, 6], [0, 7, 4]] ∧
    (List.range 2).all (fun i => (List.range 3).all (fun j =>
      (report g (run g (init g) ops)).get i j == acc g i j 0 ops)) = true := by
  decide +kernel

/-! ### the loop before the repair (counter-witnesses) -/

-- negative vertical position: the unchecked loop credits the LAST row (negative index wraps)
example : landingUnrepaired ⟨3, 4, 10, 5⟩ ⟨1, -1, 5 / 2⟩ = .pixel 2 0 ∧
    bin ⟨3, 4, 10, 5⟩ ⟨1, -1, 5 / 2⟩ = none := by decide +kernel

-- one pixel beyond the last column: credited to the FIRST pixel of the NEXT row
example : landingUnrepaired ⟨3, 4, 10, 5⟩ ⟨1, 5, 20⟩ = .pixel 1 0 ∧
    bin ⟨3, 4, 10, 5⟩ ⟨1, 5, 20⟩ = none := by decide +kernel

-- beyond the last row: the write lands outside the buffer
example : landingUnrepaired ⟨3, 4, 10, 5⟩ ⟨1, 30, 5 / 2⟩ = .outsideBuffer ∧
    bin ⟨3, 4, 10, 5⟩ ⟨1, 30, 5 / 2⟩ = none := by decide +kernel

end PyxelModel.C14
