import PyxelModel.Model.C07
import PyxelModel.Props.C05
import Mathlib.Data.List.Perm.Basic
/-!
# C07 — property theorems (statement: properties.jsonl C07; labelled **partial** in DESIGN §6)

What is proved: for *pure* tasks (each run is a function of the base configuration and its own
parameter tuple only — established for the real code by C06's separation measurement and, for
seeded models, by C04's seed scoping) the assembled result does not depend on the completion order,
on the worker assignment, or on tasks being executed more than once; file indices are a bijection
with the elements of the parameter array; the parameter array of each mode is the enumeration the
sequential path uses.  What is *not* modelled: data races inside third-party code, the GIL.
-/
namespace PyxelModel.C07

open PyxelModel.C05

variable {α τ δ : Type}

/-! ## 1. schedule independence -/

theorem assemble_length (n : Nat) (events : List (Done δ)) : (assemble n events).length = n := by
  unfold assemble
  suffices h : ∀ acc : List (Option δ),
      (events.foldl (fun acc e => acc.set e.task (some e.value)) acc).length = acc.length by
    rw [h]; simp
  induction events with
  | nil => intro acc; rfl
  | cons e es ih => intro acc; simp [List.foldl_cons, ih]

theorem foldl_set_getElem? (eval : τ → δ) (w : Nat → Nat) (tasks : List τ) (σ : List Nat)
    (acc : List (Option δ)) (hacc : acc.length = tasks.length) (k : Nat) (hk : k < tasks.length) :
    ((runIn eval σ w tasks).foldl (fun acc e => acc.set e.task (some e.value)) acc)[k]? =
      if k ∈ σ then some (some (eval tasks[k])) else acc[k]? := by
  induction σ generalizing acc with
  | nil => simp [runIn]
  | cons i σ ih =>
    unfold runIn at ih ⊢
    rw [List.filterMap_cons]
    cases hi : tasks[i]? with
    | none =>
      have hne : k ≠ i := by
        intro e; subst e
        rw [List.getElem?_eq_getElem hk] at hi; cases hi
      simp only [Option.map_none]
      rw [ih acc hacc]
      simp [hne]
    | some t =>
      simp only [Option.map_some, List.foldl_cons]
      rw [ih _ (by simpa using hacc)]
      by_cases hki : k = i
      · subst hki
        have : tasks[k] = t := by
          rw [List.getElem?_eq_getElem hk] at hi; exact Option.some.inj hi
        by_cases hm : k ∈ σ
        · simp [hm]
        · simp [hm, List.getElem?_set_self (by omega : k < acc.length), this]
      · have hik : i ≠ k := fun e => hki e.symm
        simp [hki, List.getElem?_set_ne hik]

/-- **Schedule independence.**  Whatever the completion order `σ` (any list of task numbers in which
every task occurs at least once — re-executions and out-of-range entries allowed), whatever the worker
assignment `w`, the assembled output is the list of the tasks' own values, in task order. -/
theorem assemble_schedule_independent (eval : τ → δ) (w : Nat → Nat) (tasks : List τ) (σ : List Nat)
    (hσ : ∀ k, k < tasks.length → k ∈ σ) :
    assemble tasks.length (runIn eval σ w tasks) = tasks.map (fun t => some (eval t)) := by
  apply List.ext_getElem?
  intro k
  by_cases hk : k < tasks.length
  · unfold assemble
    rw [foldl_set_getElem? eval w tasks σ _ (by simp) k hk, if_pos (hσ k hk)]
    simp [List.getElem?_eq_getElem hk]
  · have h1 : (assemble tasks.length (runIn eval σ w tasks)).length ≤ k := by
      rw [assemble_length]; omega
    rw [List.getElem?_eq_none h1, List.getElem?_eq_none (by simpa using Nat.le_of_not_lt hk)]

/-- in particular for every permutation of the tasks (each finishes exactly once), any two schedules
and worker assignments give the same result — which is the sequential one (`σ = 0, 1, 2, …`, one worker) -/
theorem parallel_eq_sequential (eval : τ → δ) (tasks : List τ) (σ : List Nat) (w : Nat → Nat)
    (hσ : σ.Perm (List.range tasks.length)) :
    assemble tasks.length (runIn eval σ w tasks) =
      assemble tasks.length (runIn eval (List.range tasks.length) (fun _ => 0) tasks) := by
  rw [assemble_schedule_independent eval w tasks σ
        (fun k hk => hσ.symm.subset (List.mem_range.mpr hk)),
      assemble_schedule_independent eval _ tasks _ (fun k hk => List.mem_range.mpr hk)]

/-- `executor.map` over the island seeds (calibration): island `i` of the archipelago is the one built
from seed `i`, whatever order the pool's threads finish in -/
theorem islands_order (mk : Nat → δ) (seeds : List Nat) (σ : List Nat) (w : Nat → Nat)
    (hσ : σ.Perm (List.range seeds.length)) :
    assemble seeds.length (runIn mk σ w seeds) = seeds.map (fun s => some (mk s)) :=
  assemble_schedule_independent mk w seeds σ (fun k hk => hσ.symm.subset (List.mem_range.mpr hk))

-- non-vacuity: three tasks finishing in the order 2, 0, 1, task 0 executed twice, on two workers
example :
    assemble 3 (runIn (fun t : Nat => t * t) [2, 0, 1, 0] (fun i => i % 2) [5, 6, 7])
      = [some 25, some 36, some 49] := by decide

/-- assembling events of tasks that share a store: positions filled in completion order -/
def assembleShared {S : Type} (step : S → τ → δ × S) (σ : List Nat) (tasks : List τ) (s : S) :
    List (Option δ) :=
  assemble tasks.length (runShared step σ tasks s)

-- the purity hypothesis is not decorative: a task that reads a shared counter gives schedule-dependent
-- results (first-finished task sees 0)
example :
    assembleShared (fun (s : Nat) (t : Nat) => (t + s, s + 1)) [0, 1] [10, 20] 0 ≠
    assembleShared (fun (s : Nat) (t : Nat) => (t + s, s + 1)) [1, 0] [10, 20] 0 := by decide

/-! ## 2. file indices ↔ elements of the parameter array -/

theorem range_flatMap_mul (d m : Nat) :
    (List.range d).flatMap (fun i => (List.range m).map (fun j => i * m + j)) = List.range (d * m) := by
  induction d with
  | zero => simp
  | succ d ih =>
    rw [List.range_succ, List.flatMap_append, ih, Nat.succ_mul, List.range_add]
    simp

/-- **row-major numbering enumerates the grid**: listing the index tuples of a grid of shape `dims`
in `itertools.product` order and taking `arange(size).reshape(shape)` at each gives 0, 1, …, size−1. -/
theorem flatIndex_enumerates (dims : List Nat) :
    (prod (dims.map List.range)).map (flatIndex dims) = List.range (size dims) := by
  induction dims with
  | nil => simp [prod, flatIndex, size]
  | cons d ds ih =>
    simp only [List.map_cons, prod, List.map_flatMap, List.map_map, size]
    rw [← range_flatMap_mul]
    apply List.flatMap_congr
    intro i _
    have : (flatIndex (d :: ds) ∘ fun x => i :: x) = (fun j => i * size ds + j) ∘ flatIndex ds := by
      funext I; simp [flatIndex]
    rw [this, ← List.map_map, ih]

theorem length_box (dims : List Nat) : (prod (dims.map List.range)).length = size dims := by
  have := congrArg List.length (flatIndex_enumerates dims)
  simpa using this

/-- **file index ↔ grid position is a bijection**: injective on the box, and every number below the
size is the index of a (unique) position of the box. -/
theorem flatIndex_bijective (dims : List Nat) :
    (∀ I ∈ prod (dims.map List.range), flatIndex dims I < size dims) ∧
    (∀ I ∈ prod (dims.map List.range), ∀ J ∈ prod (dims.map List.range),
        flatIndex dims I = flatIndex dims J → I = J) ∧
    (∀ k < size dims, ∃ I ∈ prod (dims.map List.range), flatIndex dims I = k) := by
  have h := flatIndex_enumerates dims
  refine ⟨?_, ?_, ?_⟩
  · intro I hI
    have : flatIndex dims I ∈ List.range (size dims) := h ▸ List.mem_map_of_mem hI
    exact List.mem_range.mp this
  · have hnd : ((prod (dims.map List.range)).map (flatIndex dims)).Nodup := h ▸ List.nodup_range
    intro I hI J hJ e
    exact List.inj_on_of_nodup_map hnd hI hJ e
  · intro k hk
    have : k ∈ (prod (dims.map List.range)).map (flatIndex dims) := h ▸ List.mem_range.mpr hk
    obtain ⟨I, hI, e⟩ := List.mem_map.mp this
    exact ⟨I, hI, e⟩

/-- **files ↔ combinations one-to-one (product mode)**: the `k`-th task of the parameter array (row-major)
has file index `k` and runs exactly the value tuple at its grid position; as many files as tasks. -/
theorem files_one_to_one (vals : List (List α)) :
    ((idxs vals).map (flatIndex (vals.map List.length))) = List.range (prod vals).length ∧
    (∀ p ∈ (idxs vals).zip (prod vals), pick? vals p.1 = some p.2) := by
  refine ⟨?_, (zip_idx_val vals).1⟩
  have h := flatIndex_enumerates (vals.map List.length)
  rw [List.map_map] at h
  have e : (vals.map (List.range ∘ List.length)) = vals.map (fun l => List.range l.length) := rfl
  rw [e] at h
  unfold idxs
  rw [h, ← length_box, List.map_map, e, ← idxs, (zip_idx_val vals).2]

/-! ## 3. the parameter array of each mode is the sequential path's enumeration -/

theorem range_filterMap_getElem? (l : List α) :
    (List.range l.length).filterMap (fun i => l[i]?) = l := by
  induction l with
  | nil => simp
  | cons x xs ih =>
    rw [List.length_cons, List.range_succ_eq_map, List.filterMap_cons, List.filterMap_map]
    simpa [Function.comp_def] using ih

theorem reorder_perm {order : List Nat} {l : List α} (h : order.Perm (List.range l.length)) :
    (reorder order l).Perm l := by
  unfold reorder
  have h1 := h.filterMap (fun i => l[i]?)
  rwa [range_filterMap_getElem?] at h1

theorem prod_perm {ls ls' : List (List α)} (h : List.Forall₂ List.Perm ls ls') :
    (prod ls).Perm (prod ls') := by
  induction h with
  | nil => exact List.Perm.refl _
  | @cons l l' ls ls' hl _ ih =>
    simp only [prod]
    refine (List.Perm.flatMap_right _ hl).trans ?_
    apply List.Perm.flatMap_left
    intro x _
    exact ih.map _

theorem reorderAll_forall₂ {orders : List (List Nat)} {vals : List (List α)}
    (h : List.Forall₂ (fun o (l : List α) => o.Perm (List.range l.length)) orders vals) :
    List.Forall₂ List.Perm (reorderAll orders vals) vals := by
  induction h with
  | nil => exact List.Forall₂.nil
  | cons ho _ ih => exact List.Forall₂.cons (reorder_perm ho) ih

/-- **`create_params` of product mode = the sequential path's enumeration, as a labelled set**: whatever
order pandas puts each axis in (any permutation per axis), the parameter array holds exactly the value
tuples of `productRuns` — each as often as there — and each element is labelled by its own values. -/
theorem createParams_product (orders : List (List Nat)) (ps : List (Param α))
    (h : List.Forall₂ (fun o (l : List α) => o.Perm (List.range l.length)) orders
          ((enabledSteps ps).map (·.values))) :
    (parGrid orders ps).Perm ((productRuns ps).map (fun r => r.params.map (·.2))) := by
  rw [product_values_complete]
  exact prod_perm (reorderAll_forall₂ h)

/-- the task built from a tuple of the parameter array gets the assignment `keyⱼ ↦ tupleⱼ` -/
theorem taskAssignment_product {ps : List (Param α)} {r : Run α} (hr : r ∈ productRuns ps) :
    taskAssignment ((enabledSteps ps).map (·.key)) (r.params.map (·.2)) = r.params := by
  obtain ⟨_, v, _, hv, hp, _⟩ := product_run_spec hr
  have hlen : ((enabledSteps ps).map (·.key)).length = v.length := by
    rw [length_of_mem_prod hv]; simp [evals]
  rw [hp, ekeys, taskAssignment, L.map_snd_zip_of_length_eq _ _ hlen]

/-- **both paths apply a run's changes in the same (declared) order**, product mode: whatever the setters do — also
setters that depend on each other — the processor of the parallel task equals the processor of the sequential run. -/
theorem parallel_applies_declared_order_product {σ : Type} (set : σ → String → α → σ) (s : σ)
    {ps : List (Param α)} {r : Run α} (hr : r ∈ productRuns ps) :
    applyChanges set s (taskAssignment ((enabledSteps ps).map (·.key)) (r.params.map (·.2))) =
      applyChanges set s r.params := by
  rw [taskAssignment_product hr]

-- the order is behaviour: with setters that depend on each other, applying the same changes in sorted key order
-- (instead of the declared order) configures another processor
example :
    let set : Nat → String → Nat → Nat := fun s k v => if k = "gain" then v else s + v
    applyChanges set 0 [("voltage", 1), ("gain", 5)] = 5 ∧ applyChanges set 0 [("gain", 5), ("voltage", 1)] = 6 := by
  decide

-- non-vacuity: values [3,1,2] × ["z","x"] with pandas' sorted axes
example :
    parGrid [[1, 2, 0], [1, 0]]
      ([⟨"a", ["3", "1", "2"], true, false⟩, ⟨"b", ["z", "x"], true, false⟩] : List (Param String))
      = [["1", "x"], ["1", "z"], ["2", "x"], ["2", "z"], ["3", "x"], ["3", "z"]] := by decide

theorem zip_map_self {β : Type} (keys : List String) (g : String → β) :
    keys.zip (keys.map g) = keys.map (fun k => (k, g k)) := by
  induction keys with
  | nil => rfl
  | cons k ks ih => simp [ih]

/-- **`create_params` of sequential mode (repaired) = the sequential path's enumeration**: task `n` of the
parameter array is given exactly the assignment of run `n` of `get_parameters_item` (one parameter
changed, the others at their configured values), in the same order. -/
theorem createParams_sequential (d : String → α) (ps : List (Param α)) :
    (seqTuples d ps).map (taskAssignment (ekeys ps).eraseDups) =
      (sequentialRuns d ps).map (·.params) := by
  unfold seqTuples
  rw [List.map_map]
  apply List.map_congr_left
  intro r hr
  obtain ⟨j, k, p, v, _, _, rfl⟩ := sequential_no_other_run hr
  simp only [Function.comp, taskAssignment]
  show (ekeys ps).eraseDups.zip ((ekeys ps).eraseDups.map _) = _
  rw [zip_map_self]
  unfold assign
  apply List.map_congr_left
  intro k' hk'
  have := assign_lookup d (ekeys ps).eraseDups p.key v hk'
  unfold assign at this
  simp only [lookupD, this]

/-- … and sequential mode: task `n` configures exactly the processor that run `n` of the sequential path configures -/
theorem parallel_applies_declared_order_sequential {σ : Type} (set : σ → String → α → σ) (s : σ)
    (d : String → α) (ps : List (Param α)) :
    (seqTuples d ps).map (fun t => applyChanges set s (taskAssignment (ekeys ps).eraseDups t)) =
      (sequentialRuns d ps).map (fun r => applyChanges set s r.params) := by
  have h := congrArg (List.map (applyChanges set s)) (createParams_sequential d ps)
  simpa only [List.map_map, Function.comp_def] using h

-- the code before the repair: 3 + 2 values gave 2 zipped combinations instead of 5 one-at-a-time runs
example :
    oldSeqTuples ([⟨"a", [1, 2, 3], true, false⟩, ⟨"b", [10, 20], true, false⟩] : List (Param Nat))
      = [[1, 10], [2, 20]] ∧
    seqTuples (fun k => if k = "a" then 7 else 8)
        ([⟨"a", [1, 2, 3], true, false⟩, ⟨"b", [10, 20], true, false⟩] : List (Param Nat))
      = [[1, 8], [2, 8], [3, 8], [7, 10], [7, 20]] := by decide

/-! ### custom mode: the column-wise conversion of the table gives the rows' own cuts -/

theorem convertCustom_getElem? (rows : List (List α)) (i : Nat) (es : List CParam) (j : Nat) :
    (convertCustom rows i es)[j]? =
      (es[j]?).map (fun p => rows.map (fun row => cutOne row (i + coff es j) p.width)) := by
  induction es generalizing i j with
  | nil => simp [convertCustom]
  | cons q qs ih =>
    cases j with
    | zero => simp [convertCustom, coff]
    | succ j =>
      simp only [convertCustom, List.getElem?_cons_succ, ih]
      have : i + coff (q :: qs) (j + 1) = i + q.cols + coff qs j := by simp [coff]; omega
      rw [this]

/-- **`create_params` of custom mode (repaired) = the sequential path's enumeration**: when the table
passes `CustomMode.build`'s checks, the tuple of task `m` is, parameter by parameter, exactly what
run `m` of the sequential path assigns (same columns, scalar for a bare `_`, list otherwise). -/
theorem createParams_custom (ncols : Nat) (rows : List (List α)) (ps : List CParam)
    {rs : List (CRun (CVal α))} (h : customRuns ncols rows ps = .ok rs) :
    customTuples rows ps = rs.map (fun r => r.params.map (fun kv => some kv.2)) := by
  have hrs : rowsFrom (cenabled ps) 0 rows = some rs := customRuns_ok_rowsFrom h
  obtain ⟨hlen, hall⟩ := rowsFrom_spec hrs
  apply List.ext_getElem?
  intro m
  unfold customTuples
  simp only [List.getElem?_map]
  by_cases hm : m < rows.length
  · obtain ⟨a, ha, hrm⟩ := hall m rows[m] (List.getElem?_eq_getElem hm)
    obtain ⟨halen, hcols⟩ := cutRow_spec ha
    rw [hrm]
    simp only [List.getElem?_range hm, Option.map_some, Option.some.injEq]
    apply List.ext_getElem?
    intro j
    simp only [List.getElem?_map, convertCustom_getElem?, Nat.zero_add]
    cases hj : (cenabled ps)[j]? with
    | none =>
      have : a.length ≤ j := by
        rw [halen]; exact List.getElem?_eq_none_iff.mp hj
      simp [List.getElem?_eq_none this]
    | some p =>
      obtain ⟨v, hv, hout⟩ := hcols j p hj
      rw [Nat.zero_add] at hv
      simp [hout, List.getElem?_eq_getElem hm, hv]
  · have h1 : (List.range rows.length)[m]? = none := by
      rw [List.getElem?_eq_none]; simpa using Nat.le_of_not_lt hm
    have h2 : rs[m]? = none := by
      rw [List.getElem?_eq_none]; omega
    simp [h1, h2]

-- the code before the repair: a one-element placeholder list was cut as a scalar (the sequential path
-- gives a one-element list), and a column range not starting at 0 failed on the first label lookup
example : oldCutOnePar 0 [7, 8, 9] 1 (some 1) = some (CVal.scalar 8) ∧
    cutOne [7, 8, 9] 1 (some 1) = some (CVal.vec [8]) ∧
    oldCutOnePar 2 [7, 8, 9] 0 none = (none : Option (CVal Nat)) := by decide

-- non-vacuity of `createParams_custom`
example :
    customTuples [[1, 2, 3], [4, 5, 6]] [⟨"s", none, true⟩, ⟨"v", some 2, true⟩]
      = [[some (.scalar 1), some (.vec [2, 3])], [some (.scalar 4), some (.vec [5, 6])]] := by decide

end PyxelModel.C07
