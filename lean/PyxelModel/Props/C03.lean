import PyxelModel.Model.C03
/-!
# C03 — property theorems (statement: properties.jsonl C03)

Recorder: for **every** number of steps and every sequence of end-of-step bucket states.
Debug capture: for **every** number of steps, every list of models per step and every effect
`Snap → Snap` of each model (not only the writer probes), both readout modes, any prior content.
-/
namespace PyxelModel.C03

/-! ## the recorder -/

section record
variable {T : Type}

/-- the environment's conversions leave a dtype alone when nothing has to be converted
(`np.result_type(d, d) = d`, `astype(d)` of a `d` array is the identity) -/
structure Numerics.Sane (N : Numerics) : Prop where
  promote_self : ∀ d, N.promote d d = d
  conv_self : ∀ d v, N.conv d d v = v

theorem recordFrom_times (N : Numerics) (acc : Tree T) (l : List (T × Snap)) :
    (recordFrom N acc l).times = acc.times ++ l.map (·.1) := by
  induction l generalizing acc with
  | nil => simp [recordFrom]
  | cons x l ih =>
    obtain ⟨abs, s⟩ := x
    simp [recordFrom, ih, combine, stepTree]

/-- **labels**: the time coordinate of the result is the list of the steps' absolute times, in
step order — one label per readout -/
theorem labels_are_absolute_times (N : Numerics) (steps : List (T × Snap)) (t : Tree T)
    (h : record N steps = some t) : t.times = steps.map (·.1) := by
  cases steps with
  | nil => simp [record] at h
  | cons x l =>
    obtain ⟨abs, s⟩ := x
    simp only [record, Option.some.injEq] at h
    subst h
    simp [recordFrom_times, stepTree]

theorem concatVar_length (N : Numerics) (v w : Var) :
    (concatVar N v w).slices.length = v.slices.length + w.slices.length := by
  simp [concatVar]

theorem castVar_length (N : Numerics) (v : Var) (d : Dt) :
    (castVar N v d).slices.length = v.slices.length := by
  unfold castVar; split <;> simp

theorem varOf_length (a : Option Arr) : (varOf a).slices.length = 1 := by
  cases a <;> rfl

theorem combine_length (N : Numerics) (acc : Tree T) (abs : T) (s : Snap) (b : Bk) :
    ((combine N acc abs s).get b).slices.length = (acc.get b).slices.length + 1 := by
  cases b <;> simp only [combine, Tree.get, stepTree, concatVar_length, varOf_length]
  cases s.image <;> simp [castVar_length, concatVar_length, varOf_length]

theorem recordFrom_length (N : Numerics) (acc : Tree T) (l : List (T × Snap)) (b : Bk) :
    ((recordFrom N acc l).get b).slices.length = (acc.get b).slices.length + l.length := by
  induction l generalizing acc with
  | nil => simp [recordFrom]
  | cons x l ih =>
    obtain ⟨abs, s⟩ := x
    simp only [recordFrom, ih, combine_length, List.length_cons]; omega

/-- **exactly one slice per readout**, for every bucket -/
theorem one_slice_per_readout (N : Numerics) (steps : List (T × Snap)) (t : Tree T)
    (h : record N steps = some t) (b : Bk) : (t.get b).slices.length = steps.length := by
  cases steps with
  | nil => simp [record] at h
  | cons x l =>
    obtain ⟨abs, s⟩ := x
    simp only [record, Option.some.injEq] at h
    subst h
    rw [recordFrom_length]
    cases b <;> simp [Tree.get, stepTree, varOf_length] <;> omega

theorem concatVar_same (N : Numerics) (hN : N.Sane) (d : Dt) (xs : List (Option (List Int)))
    (vals : List Int) :
    concatVar N ⟨d, xs⟩ (varOf (some ⟨d, vals⟩)) = ⟨d, xs ++ [some vals]⟩ := by
  have hc : (N.conv d d) = id := funext (hN.conv_self d)
  simp [concatVar, varOf, hN.promote_self, hc]

theorem castVar_same (N : Numerics) (v : Var) : castVar N v v.dt = v := by
  simp [castVar]

theorem recordFrom_get (N : Numerics) (hN : N.Sane) (b : Bk) (d : Dt)
    (acc : Tree T) (xs : List (Option (List Int))) (hacc : acc.get b = ⟨d, xs⟩)
    (l : List (T × Snap)) (hl : ∀ s ∈ l, ∃ vals, s.2.get b = some ⟨d, vals⟩) :
    (recordFrom N acc l).get b = ⟨d, xs ++ l.map (fun s => (s.2.get b).map (·.vals))⟩ := by
  induction l generalizing acc xs with
  | nil => simp [recordFrom, hacc]
  | cons x l ih =>
    obtain ⟨abs, s⟩ := x
    obtain ⟨vals, hv⟩ := hl (abs, s) (by simp)
    simp only at hv
    have hstep : (combine N acc abs s).get b = ⟨d, xs ++ [some vals]⟩ := by
      cases b <;> simp only [Tree.get, Snap.get] at hacc hv <;>
        simp only [combine, Tree.get, stepTree, hacc, hv, concatVar_same N hN]
      exact castVar_same N ⟨d, xs ++ [some vals]⟩
    simp only [recordFrom]
    rw [ih (combine N acc abs s) (xs ++ [some vals]) hstep (fun s' hs' => hl s' (List.mem_cons_of_mem _ hs'))]
    simp [hv]

/-- **every slice equals the detector's state at the end of that step, and the dtype is kept**:
for a bucket that holds an array of dtype `d` at the end of every step, the result variable has
dtype `d` and its slice `i` is exactly the array held at the end of step `i` — for every number
of steps.  (For a bucket initialised in some steps only the statement claims nothing.) -/
theorem slice_equals_step_state (N : Numerics) (hN : N.Sane) (steps : List (T × Snap)) (t : Tree T)
    (h : record N steps = some t) (b : Bk) (d : Dt)
    (hb : ∀ s ∈ steps, ∃ vals, s.2.get b = some ⟨d, vals⟩) :
    t.get b = ⟨d, steps.map (fun s => (s.2.get b).map (·.vals))⟩ := by
  cases steps with
  | nil => simp [record] at h
  | cons x l =>
    obtain ⟨abs, s⟩ := x
    simp only [record, Option.some.injEq] at h
    subst h
    obtain ⟨vals, hv⟩ := hb (abs, s) (by simp)
    simp only at hv
    have h0 : (stepTree abs s).get b = ⟨d, [some vals]⟩ := by
      cases b <;> simp only [Snap.get] at hv <;> simp [Tree.get, stepTree, hv, varOf]
    rw [recordFrom_get N hN b d _ _ h0 l (fun s' hs' => hb s' (List.mem_cons_of_mem _ hs'))]
    simp [hv]

/-- **the image keeps its unsigned-integer type** (all four widths, any number of steps, any
values — also above 2^53) -/
theorem image_dtype_kept (N : Numerics) (hN : N.Sane) (steps : List (T × Snap)) (t : Tree T)
    (h : record N steps = some t) (d : Dt) (hd : d.isUnsigned = true)
    (hb : ∀ s ∈ steps, ∃ vals, s.2.image = some ⟨d, vals⟩) :
    t.image.dt = d ∧ t.image.dt.isUnsigned = true ∧
      t.image.slices = steps.map (fun s => s.2.image.map (·.vals)) := by
  have := slice_equals_step_state N hN steps t h .image d hb
  simp only [Tree.get, Snap.get] at this
  rw [this]; exact ⟨rfl, hd, rfl⟩

/-- the flat layout is used only on request, only when the scene is empty and only when no other
node clashes with the buckets' coordinates; the bucket tree put under either key is the same value
(`record` does not depend on the layout) -/
theorem layoutKey_flat_iff (w e c : Bool) :
    layoutKey w e c = "/" ↔ (w = false ∧ e = true ∧ c = false) := by
  cases w <;> cases e <;> cases c <;> simp [layoutKey]

/-- a result is always produced under one of the two keys (no clash makes the run fail) -/
theorem layoutKey_total (w e c : Bool) : layoutKey w e c = "/" ∨ layoutKey w e c = "/bucket" := by
  cases w <;> cases e <;> cases c <;> simp [layoutKey]

end record

/-- sanity of the numerics the driver uses (same-dtype conversions are identities) -/
theorem stdNumerics_sane : stdNumerics.Sane :=
  ⟨fun d => by simp [stdNumerics], fun d v => by simp [stdNumerics]⟩

-- non-vacuity: three steps, uint64 image with values above 2^53, float32 signal; photon never set
example :
    record stdNumerics
      [((3:Nat), (⟨none, some ⟨.f64, [0,0]⟩, some ⟨.f64, [0,0]⟩, some ⟨.f32, [7,7]⟩, some ⟨.u64, [2^53+1, 5]⟩⟩ : Snap)),
       (5, ⟨none, some ⟨.f64, [0,0]⟩, some ⟨.f64, [4,4]⟩, some ⟨.f32, [8,8]⟩, some ⟨.u64, [2^63+5, 5]⟩⟩),
       (9, ⟨none, some ⟨.f64, [0,0]⟩, some ⟨.f64, [4,4]⟩, some ⟨.f32, [9,8]⟩, some ⟨.u64, [7, 5]⟩⟩)]
    = some ⟨[3, 5, 9], ⟨.f64, [none, none, none]⟩, ⟨.f64, [some [0,0], some [0,0], some [0,0]]⟩,
            ⟨.f64, [some [0,0], some [4,4], some [4,4]]⟩, ⟨.f32, [some [7,7], some [8,8], some [9,8]]⟩,
            ⟨.u64, [some [2^53+1, 5], some [2^63+5, 5], some [7, 5]]⟩⟩ := by decide +kernel

-- counter-witness for the pinned combination (`xr.merge` through float64): with two readouts the
-- 64-bit image values 2^53+1 and 2^63+5 come back as 2^53 and 2^63
example :
    imageOrig [some ⟨.u64, [2^53+1]⟩, some ⟨.u64, [2^63+5]⟩] = [some [2^53], some [2^63]] := by
  decide +kernel

/-! ## the debug capture -/

theorem visible_idem (s : Snap) : visible (visible s) = visible s := by
  unfold visible
  cases h : s.charge with
  | none => simp
  | some a => by_cases hz : a.vals.all (· == 0) = true <;> simp [hz]

/-- what `capture` stores: exactly the visible buckets that `last` does not hold with the same
values -/
theorem mem_capture (last now : Snap) (b : Bk) (a : Arr) :
    (b, a) ∈ capture last now ↔
      (visible now).get b = some a ∧ ∀ l, last.get b = some l → l.vals ≠ a.vals := by
  unfold capture
  simp only [List.mem_filterMap]
  constructor
  · rintro ⟨b', _, h⟩
    cases hv : (visible now).get b' with
    | none => simp [hv] at h
    | some a' =>
      simp only [hv] at h
      cases hl : last.get b' with
      | none =>
        simp only [hl, Option.some.injEq, Prod.mk.injEq] at h
        obtain ⟨rfl, rfl⟩ := h
        exact ⟨hv, by simp [hl]⟩
      | some l =>
        simp only [hl] at h
        by_cases hs : sameVals a' l = true
        · simp [hs] at h
        · simp only [hs, Bool.false_eq_true, if_false, Option.some.injEq, Prod.mk.injEq] at h
          obtain ⟨rfl, rfl⟩ := h
          refine ⟨hv, ?_⟩
          intro l' hl'
          rw [hl] at hl'; cases hl'
          intro e; apply hs; simp [sameVals, e]
  · rintro ⟨hv, hne⟩
    refine ⟨b, by cases b <;> simp [Bk.all], ?_⟩
    simp only [hv]
    cases hl : last.get b with
    | none => rfl
    | some l =>
      have := hne l hl
      have hs : sameVals a l = false := by
        simp only [sameVals, beq_eq_false_iff_ne]; exact fun e => this e.symm
      simp [hs]

/-- **"the buckets that this model changed"**: a bucket is recorded for a model iff it is visible
after the model and was not held with these values just before the model ran -/
theorem mem_changedBy (before after : Snap) (b : Bk) (a : Arr) :
    (b, a) ∈ changedBy before after ↔
      (visible after).get b = some a ∧ ∀ l, (visible before).get b = some l → l.vals ≠ a.vals :=
  mem_capture _ _ _ _

theorem runModels_spec (i : Nat) (ms : List ModelRun) (det : Snap) (acc : List Rec) :
    runModels i ms det (visible det) acc =
      (ms.foldl (fun d m => m.effect d) det, visible (ms.foldl (fun d m => m.effect d) det),
       acc ++ specModels i ms det) := by
  induction ms generalizing det acc with
  | nil => simp [runModels, specModels]
  | cons m ms ih =>
    simp only [runModels, List.foldl_cons, specModels]
    rw [ih]
    simp [changedBy, List.append_assoc]

/-- **Debug mode records, after each model, the buckets that this model changed** — for every
number of steps, every list of models, every effect of each model, both modes: the recorded
sets are those recomputed from the true state before and after each model (`specDebugFrom`); the
bookkeeping variable `last` never lags behind the detector. -/
theorem debug_records_changed_buckets (n : Nat) (nd : Bool) (i : Nat) (det : Snap)
    (steps : List (List ModelRun)) :
    (runDebugFrom n nd i det steps).2 = specDebugFrom n nd i det steps := by
  induction steps generalizing i det with
  | nil => rfl
  | cons ms rest ih =>
    simp only [runDebugFrom, specDebugFrom]
    rw [runModels_spec]
    simp only [List.nil_append]
    rw [← ih]

/-- **… without altering the final result**: the bucket states of every step are those of the
run without debug -/
theorem debug_does_not_alter (n : Nat) (nd : Bool) (i : Nat) (det : Snap)
    (steps : List (List ModelRun)) :
    (runDebugFrom n nd i det steps).1 = runPlainFrom n nd det steps := by
  induction steps generalizing i det with
  | nil => rfl
  | cons ms rest ih =>
    simp only [runDebugFrom, runPlainFrom]
    rw [runModels_spec]
    simp only
    rw [ih]

theorem runDebug_eq_plain (n : Nat) (nd : Bool) (prior : Snap) (steps : List (List ModelRun)) :
    (runDebug n nd prior steps).1 = runPlain n nd prior steps :=
  debug_does_not_alter n nd 0 _ steps

/-- one record per executed model, in execution order, under its step / group / model name —
also for a model that changed nothing -/
def keysFrom : Nat → List (List ModelRun) → List (Nat × String × String)
  | _, [] => []
  | i, ms :: rest => ms.map (fun m => (i, m.group, m.name)) ++ keysFrom (i + 1) rest

theorem specModels_keys (i : Nat) (ms : List ModelRun) (det : Snap) :
    (specModels i ms det).map (fun r => (r.step, r.group, r.name)) =
      ms.map (fun m => (i, m.group, m.name)) := by
  induction ms generalizing det with
  | nil => rfl
  | cons m ms ih => simp [specModels, ih]

theorem one_record_per_executed_model (n : Nat) (nd : Bool) (i : Nat) (det : Snap)
    (steps : List (List ModelRun)) :
    ((runDebugFrom n nd i det steps).2).map (fun r => (r.step, r.group, r.name)) =
      keysFrom i steps := by
  rw [debug_records_changed_buckets]
  induction steps generalizing i det with
  | nil => rfl
  | cons ms rest ih => simp [specDebugFrom, keysFrom, specModels_keys, ih]

/-- the values stored for a model are the bucket contents right after that model -/
theorem recorded_values_are_after_state (before after : Snap) (b : Bk) (a : Arr)
    (h : (b, a) ∈ changedBy before after) : (visible after).get b = some a :=
  ((mem_changedBy before after b a).mp h).1

-- non-vacuity + counter-witness (DESIGN section 7): destructive, two steps, one model per step.
-- Step 0 sets photon to 5 and adds 4 to pixel; step 1 sets photon to 5 again and leaves pixel.
-- Repaired capture: step 1 records photon (it was empty after the reset) and not pixel.
-- Pinned capture: step 1 records pixel (the reset's change) and not photon.
def demoSteps : List (List ModelRun) :=
  [[⟨"photon_collection", "a", fun s => (WriteOp.set .photon ⟨.f64, [5, 5]⟩).apply ((WriteOp.add .pixel 4).apply s)⟩],
   [⟨"photon_collection", "a", fun s => (WriteOp.set .photon ⟨.f64, [5, 5]⟩).apply s⟩]]

def demoPrior : Snap := ⟨none, none, none, none, none⟩

example :
    (runDebug 2 false demoPrior demoSteps).2 =
      [⟨0, "photon_collection", "a", [(.photon, ⟨.f64, [5, 5]⟩), (.pixel, ⟨.f64, [4, 4]⟩)]⟩,
       ⟨1, "photon_collection", "a", [(.photon, ⟨.f64, [5, 5]⟩)]⟩] := by decide +kernel

example :
    runDebugOrigFrom 2 false 0 (demoPrior.emptied 2 true) none demoSteps =
      [⟨0, "photon_collection", "a", [(.photon, ⟨.f64, [5, 5]⟩), (.pixel, ⟨.f64, [4, 4]⟩)]⟩,
       ⟨1, "photon_collection", "a", [(.pixel, ⟨.f64, [0, 0]⟩)]⟩] := by decide +kernel

end PyxelModel.C03
