import PyxelModel.Props.C04
/-!
# C04 — running modes: many seeded runs in one process

An exposure with several readout steps is ONE seeded region around all steps (`run_pipeline`); an observation is
a sequence of such runs, one per parameter combination (the sequential path stops at the first failing run);
"whatever ran earlier in the process" is any guarded prefix.  The theorems say that every run of the sequence
produces what it produces standalone from ANY generator state, that the order of the runs only permutes the
results, that the process-wide generator ends where it started, and that a model with its own seed inside a seeded
pipeline neither perturbs nor is perturbed by the pipeline's stream.
-/
namespace PyxelModel.C04

variable {G D : Type} (gen : Gen G D)

/-- any number of seeded runs leaves the process-wide generator where it was -/
theorem runs_restore (runs : List Prog) (h : ∀ p ∈ runs, Guarded p = true) (g : G) :
    (execRuns gen g runs).1 = g := by
  induction runs generalizing g with
  | nil => rfl
  | cons p ps ih =>
    have hp := h p (by simp)
    simp only [execRuns]
    split
    · exact guarded_restores gen p hp g
    · simp only
      rw [guarded_restores gen p hp g]
      exact ih (fun q hq => h q (by simp [hq])) g

/-- **Every run gives what it gives standalone, from any prior state, whatever ran before it.** -/
theorem run_in_sequence_eq_standalone (runs : List Prog) (h : ∀ p ∈ runs, Guarded p = true) (g g' : G)
    (i : Nat) (out : List D) (hi : (execRuns gen g runs).2.1[i]? = some out) :
    ∃ p, runs[i]? = some p ∧ out = (exec gen g' p).out := by
  induction runs generalizing g i with
  | nil => simp [execRuns] at hi
  | cons p ps ih =>
    have hp := h p (by simp)
    simp only [execRuns] at hi
    split at hi
    · cases i with
      | zero =>
        simp at hi
        exact ⟨p, by simp, by rw [← hi]; exact (guarded_deterministic gen p hp g g').1⟩
      | succ i => simp at hi
    · cases i with
      | zero =>
        simp at hi
        exact ⟨p, by simp, by rw [← hi]; exact (guarded_deterministic gen p hp g g').1⟩
      | succ i =>
        simp only [List.getElem?_cons_succ] at hi
        obtain ⟨q, hq, ho⟩ := ih (fun q hq => h q (by simp [hq])) _ i hi
        exact ⟨q, by simpa using hq, ho⟩

/-- when no run fails, the results are exactly the standalone results, in the order of the runs -/
theorem runs_eq_map_standalone (runs : List Prog) (h : ∀ p ∈ runs, Guarded p = true) (g g' : G)
    (hok : ∀ p ∈ runs, (exec gen g' p).failed = false) :
    (execRuns gen g runs).2.1 = runs.map (fun p => (exec gen g' p).out) ∧ (execRuns gen g runs).2.2 = false := by
  induction runs generalizing g with
  | nil => exact ⟨rfl, rfl⟩
  | cons p ps ih =>
    have hp := h p (by simp)
    have hd := guarded_deterministic gen p hp g g'
    have hf : (exec gen g p).failed = false := by rw [hd.2]; exact hok p (by simp)
    have := ih (fun q hq => h q (by simp [hq])) (exec gen g p).g (fun q hq => hok q (by simp [hq]))
    simp only [execRuns, hf, Bool.false_eq_true, if_false, List.map_cons]
    exact ⟨by rw [this.1, hd.1], this.2⟩

/-- **The order of the runs only permutes the results** (parallel and sequential observation, any subset
order): permuting non-failing seeded runs permutes their results and nothing else. -/
theorem runs_perm (runs runs' : List Prog) (hperm : runs.Perm runs')
    (h : ∀ p ∈ runs, Guarded p = true) (g g' : G)
    (hok : ∀ p ∈ runs, (exec gen g p).failed = false) :
    ((execRuns gen g runs).2.1).Perm ((execRuns gen g' runs').2.1) := by
  have h' : ∀ p ∈ runs', Guarded p = true := fun p hp => h p (hperm.mem_iff.mpr hp)
  have hok' : ∀ p ∈ runs', (exec gen g p).failed = false := fun p hp => hok p (hperm.mem_iff.mpr hp)
  rw [(runs_eq_map_standalone gen runs h g g hok).1, (runs_eq_map_standalone gen runs' h' g' g hok').1]
  exact hperm.map _

/-- repeating an exposure (same objects, later in the process, after any other seeded work and any number of
unrelated draws `k` by the caller) gives the same draws again -/
theorem exposure_repeatable (s : Nat) (models : List Prog) (steps : Nat) (g g' : G) :
    (exec gen g (exposure (some s) models steps)).out = (exec gen g' (exposure (some s) models steps)).out ∧
    (exec gen g (exposure (some s) models steps)).g = g :=
  ⟨(guarded_deterministic gen _ rfl g g').1, rfl⟩

/-- **A model with its own seed inside a pipeline**: its draws are those of its own seed (whatever the pipeline
seed and whatever was drawn before it), and the models after it continue the surrounding stream exactly where
the models before it left it. -/
theorem own_seed_inside_pipeline (a b body : Prog) (m : Nat) (g : G)
    (hbody : (exec gen (gen.seed m) body).failed = false) (ha : (exec gen g a).failed = false) :
    (exec gen g (.seq a (.seq (.seeded (some m) body) b))).out =
      (exec gen g a).out ++ (exec gen (gen.seed m) body).out ++ (exec gen (exec gen g a).g b).out ∧
    (exec gen g (.seq a (.seq (.seeded (some m) body) b))).g = (exec gen (exec gen g a).g b).g := by
  simp [exec, ha, hbody, List.append_assoc]

-- non-vacuity / executable instance: three runs (one with a nested own-seeded model), started from state 7
example : (execRuns toyGen 7 [pipeline (some 3) [.draw, .draw], pipeline (some 4) [.draw, .seeded (some 9) .draw, .draw],
    pipeline (some 3) [.draw, .draw]]) = (7, [[300, 301], [400, 900, 401], [300, 301]], false) := by decide
-- an unguarded run in the sequence does change what a later unseeded run sees
example : (execRuns toyGen 7 [.draw, .draw]).2.1 ≠ (execRuns toyGen 8 [.draw, .draw]).2.1 := by decide

end PyxelModel.C04
