import PyxelModel.Model.C09
/-!
# C09 — property theorems (statement: properties.jsonl C09)

For every schedule (any number of runs, readout steps, models), every position of the failing
model and every exception: the nested early-exit loops behave exactly like "execute the flat list
of calls in order and stop at the first one that raises", the exception that leaves the outermost
loop is that call's exception (same kind and message) with the group/model note and the enclosing
handler's notes appended, no result is produced, and nothing after the fault is executed.
-/
namespace PyxelModel.C09

/-! ## flat-list lemmas -/

theorem firstFault_append (l₁ l₂ : List (Ev × Call)) :
    firstFault (l₁ ++ l₂) = (firstFault l₁).or (firstFault l₂) := by
  induction l₁ with
  | nil => simp [firstFault]
  | cons x xs ih =>
    obtain ⟨ev, c⟩ := x
    simp only [List.cons_append, firstFault]
    cases c.fault with
    | some e => simp
    | none => simpa using ih

theorem upToFault_append (l₁ l₂ : List (Ev × Call)) :
    upToFault (l₁ ++ l₂) =
      if (firstFault l₁).isSome then upToFault l₁ else l₁.map (·.1) ++ upToFault l₂ := by
  induction l₁ with
  | nil => simp [firstFault]
  | cons x xs ih =>
    obtain ⟨ev, c⟩ := x
    cases hc : c.fault with
    | some e => simp [upToFault, firstFault, hc]
    | none =>
      simp only [List.cons_append, upToFault, firstFault, hc, Option.isSome_none,
        Bool.false_eq_true, if_false, ih, List.map_cons]
      split <;> simp

theorem upToFault_of_none {l : List (Ev × Call)} (h : firstFault l = none) :
    upToFault l = l.map (·.1) := by
  induction l with
  | nil => rfl
  | cons x xs ih =>
    obtain ⟨ev, c⟩ := x
    simp only [firstFault] at h
    cases hc : c.fault with
    | some e => rw [hc] at h; simp at h
    | none =>
      rw [hc] at h
      simp only [upToFault, hc, Option.isSome_none, Bool.false_eq_true, if_false, List.map_cons, ih h]

theorem firstFault_none_iff (l : List (Ev × Call)) :
    firstFault l = none ↔ ∀ x ∈ l, x.2.fault = none := by
  induction l with
  | nil => simp [firstFault]
  | cons x xs ih =>
    obtain ⟨ev, c⟩ := x
    simp only [firstFault, List.mem_cons, forall_eq_or_imp]
    cases hc : c.fault with
    | some e => simp
    | none => simpa using ih

theorem firstFault_mem {l : List (Ev × Call)} {ev : Ev} {c : Call} {e : Exc}
    (h : firstFault l = some (ev, c, e)) : (ev, c) ∈ l ∧ c.fault = some e := by
  induction l with
  | nil => simp [firstFault] at h
  | cons x xs ih =>
    obtain ⟨ev', c'⟩ := x
    simp only [firstFault] at h
    cases hc : c'.fault with
    | some e' =>
      rw [hc] at h
      simp only [Option.some.injEq, Prod.mk.injEq] at h
      obtain ⟨rfl, rfl, rfl⟩ := h
      exact ⟨by simp, hc⟩
    | none =>
      rw [hc] at h
      exact ⟨List.mem_cons_of_mem _ (ih h).1, (ih h).2⟩

/-- the executed calls are a prefix of the schedule that ends with the failing call -/
theorem upToFault_of_some {l : List (Ev × Call)} {ev : Ev} {c : Call} {e : Exc}
    (h : firstFault l = some (ev, c, e)) :
    ∃ pre post, l.map (·.1) = pre ++ ev :: post ∧ upToFault l = pre ++ [ev] := by
  induction l with
  | nil => simp [firstFault] at h
  | cons x xs ih =>
    obtain ⟨ev', c'⟩ := x
    simp only [firstFault] at h
    cases hc : c'.fault with
    | some e' =>
      rw [hc] at h
      simp only [Option.some.injEq, Prod.mk.injEq] at h
      obtain ⟨rfl, rfl, rfl⟩ := h
      exact ⟨[], xs.map (·.1), by simp, by simp [upToFault, hc]⟩
    | none =>
      rw [hc] at h
      obtain ⟨pre, post, h1, h2⟩ := ih h
      exact ⟨ev' :: pre, post, by simp [h1], by simp [upToFault, hc, h2]⟩

/-! ## each loop level refines the flat view -/

/-- what leaves `ModelGroup.run` for the first failing call -/
def noted (x : Ev × Call × Exc) : Exc := x.2.2.addNotes [groupNote x.2.1]

theorem runCalls_spec (r s k : Nat) (cs : List Call) :
    (runCalls r s k cs).1 = upToFault (flatCalls r s k cs) ∧
      (runCalls r s k cs).2 = (firstFault (flatCalls r s k cs)).map noted := by
  induction cs generalizing k with
  | nil => simp [runCalls, flatCalls, upToFault, firstFault]
  | cons c cs ih =>
    simp only [runCalls, flatCalls, upToFault, firstFault]
    cases hc : c.fault with
    | some e => simp [noted]
    | none => simp [(ih (k + 1)).1, (ih (k + 1)).2]

theorem runSteps_spec (r s : Nat) (sts : List (List Call)) :
    (runSteps r s sts).1 = upToFault (flatSteps r s sts) ∧
      (runSteps r s sts).2 = (firstFault (flatSteps r s sts)).map noted := by
  induction sts generalizing s with
  | nil => simp [runSteps, flatSteps, upToFault, firstFault]
  | cons st sts ih =>
    have h := runCalls_spec r s 0 st
    simp only [runSteps, flatSteps, firstFault_append, upToFault_append]
    cases hf : firstFault (flatCalls r s 0 st) with
    | some x =>
      rw [hf] at h
      simp only [Option.map_some] at h
      simp [h.1, h.2]
    | none =>
      rw [hf] at h
      simp only [Option.map_none] at h
      simp [h.1, h.2, (ih (s + 1)).1, (ih (s + 1)).2, upToFault_of_none hf]

/-- **Nested loops = flat execution.**  A sequence of runs executes exactly the calls of the flat
schedule up to and including the first one that raises; it ends with an error iff some call
raises, and the error is the enclosing handler's decoration of that call's noted exception. -/
theorem runSeq_spec (d : Nat → Exc → Exc) (r : Nat) (runs : List (List (List Call))) :
    (runSeq d r runs).1 = upToFault (flatRuns r runs) ∧
      (match firstFault (flatRuns r runs) with
       | some x => (runSeq d r runs).2 = .error (d x.1.run (noted x))
       | none => (runSeq d r runs).2 = .ok (List.range' r runs.length)) := by
  induction runs generalizing r with
  | nil => simp [runSeq, flatRuns, upToFault, firstFault]
  | cons run runs ih =>
    have h := runSteps_spec r 0 run
    have hrun : ∀ x, firstFault (flatSteps r 0 run) = some x → x.1.run = r := by
      intro x hx
      obtain ⟨ev, c, e⟩ := x
      have hm := (firstFault_mem hx).1
      have : ∀ (s : Nat) (sts : List (List Call)), (ev, c) ∈ flatSteps r s sts → ev.run = r := by
        intro s sts
        induction sts generalizing s with
        | nil => simp [flatSteps]
        | cons st sts ih2 =>
          simp only [flatSteps, List.mem_append]
          rintro (hm | hm)
          · have : ∀ (k : Nat) (cs : List Call), (ev, c) ∈ flatCalls r s k cs → ev.run = r := by
              intro k cs
              induction cs generalizing k with
              | nil => simp [flatCalls]
              | cons c' cs ih3 =>
                simp only [flatCalls, List.mem_cons, Prod.mk.injEq]
                rintro (⟨rfl, _⟩ | hm)
                · rfl
                · exact ih3 _ hm
            exact this 0 st hm
          · exact ih2 _ hm
      exact this 0 run hm
    simp only [runSeq, flatRuns, firstFault_append, upToFault_append]
    cases hf : firstFault (flatSteps r 0 run) with
    | some x =>
      rw [hf] at h
      simp only [Option.map_some] at h
      simp [h.1, h.2, hrun x hf]
    | none =>
      rw [hf] at h
      simp only [Option.map_none] at h
      have ih' := ih (r + 1)
      simp only [h.1, h.2, ih'.1, upToFault_of_none hf, Option.isSome_none, Bool.false_eq_true,
        if_false, Option.none_or, true_and]
      cases hf2 : firstFault (flatRuns (r + 1) runs) with
      | some x =>
        have := ih'.2
        rw [hf2] at this
        simp only at this
        simp [this]
      | none =>
        have := ih'.2
        rw [hf2] at this
        simp only at this
        simp [this, List.range'_succ]

/-! ## the clauses of the statement -/

/-- **A failing model fails the run, with its identity attached** (sequential observation).
If the first call that raises is call `c` of run `ev.run`, raising `e`, then the observation
raises an exception of the same kind and message whose notes are `e`'s own notes followed by the
group/model note of `c` and the parameter notes of *that* run. -/
theorem fault_propagates (params : List (List (String × String))) (runs : List (List (List Call)))
    (ev : Ev) (c : Call) (e : Exc) (h : firstFault (flatRuns 0 runs) = some (ev, c, e)) :
    ∃ e', (runSeq (decorateObs params) 0 runs).2 = .error e' ∧ e'.kind = e.kind ∧ e'.msg = e.msg ∧
      e'.notes = e.notes ++ [groupNote c] ++ paramNotes (params.getD ev.run []) ∧
      c.fault = some e := by
  have hs := (runSeq_spec (decorateObs params) 0 runs).2
  rw [h] at hs
  refine ⟨_, hs, rfl, rfl, ?_, (firstFault_mem h).2⟩
  simp [decorateObs, noted, Exc.addNotes]

/-- the same for any enclosing handler that keeps the message and the notes (calibration: the
fitness note is added and pygmo may re-raise under another type) -/
theorem fault_propagates_wrapped (d : Nat → Exc → Exc)
    (hmsg : ∀ r e, (d r e).msg = e.msg) (hnotes : ∀ r e n, n ∈ e.notes → n ∈ (d r e).notes)
    (runs : List (List (List Call)))
    (ev : Ev) (c : Call) (e : Exc) (h : firstFault (flatRuns 0 runs) = some (ev, c, e)) :
    ∃ e', (runSeq d 0 runs).2 = .error e' ∧ e'.msg = e.msg ∧ groupNote c ∈ e'.notes ∧
      (∀ n ∈ e.notes, n ∈ e'.notes) := by
  have hs := (runSeq_spec d 0 runs).2
  rw [h] at hs
  refine ⟨_, hs, ?_, ?_, ?_⟩
  · rw [hmsg]; rfl
  · apply hnotes; simp [noted, Exc.addNotes]
  · intro n hn; apply hnotes; simp [noted, Exc.addNotes, hn]

/-- exposure: exact kind and message, the group/model note, and no result -/
theorem exposure_fault_propagates (steps : List (List Call)) (ev : Ev) (c : Call) (e : Exc)
    (h : firstFault (flatSteps 0 0 steps) = some (ev, c, e)) :
    (runExposure steps).2 = .error (e.addNotes [groupNote c]) ∧
      (runExposure steps).1 = upToFault (flatSteps 0 0 steps) := by
  have hs := runSteps_spec 0 0 steps
  rw [h] at hs
  simp only [Option.map_some] at hs
  simp [runExposure, hs.1, hs.2, noted]

theorem exposure_no_fault (steps : List (List Call)) (h : firstFault (flatSteps 0 0 steps) = none) :
    (runExposure steps).2 = .ok () ∧ (runExposure steps).1 = (flatSteps 0 0 steps).map (·.1) := by
  have hs := runSteps_spec 0 0 steps
  rw [h] at hs
  simp only [Option.map_none] at hs
  simp [runExposure, hs.1, hs.2, upToFault_of_none h]

/-- **Nothing after the fault.**  The executed calls are the flat schedule cut after the failing
call: a prefix ending with it. -/
theorem nothing_after_fault (d : Nat → Exc → Exc) (runs : List (List (List Call)))
    (ev : Ev) (c : Call) (e : Exc) (h : firstFault (flatRuns 0 runs) = some (ev, c, e)) :
    ∃ pre post, (flatRuns 0 runs).map (·.1) = pre ++ ev :: post ∧
      (runSeq d 0 runs).1 = pre ++ [ev] := by
  obtain ⟨pre, post, h1, h2⟩ := upToFault_of_some h
  exact ⟨pre, post, h1, by rw [(runSeq_spec d 0 runs).1, h2]⟩

theorem flatRuns_run_ge (r : Nat) (runs : List (List (List Call))) :
    ∀ x ∈ flatRuns r runs, r ≤ x.1.run := by
  induction runs generalizing r with
  | nil => simp [flatRuns]
  | cons run runs ih =>
    intro x hx
    simp only [flatRuns, List.mem_append] at hx
    rcases hx with hx | hx
    · have : ∀ (s : Nat) (sts : List (List Call)), x ∈ flatSteps r s sts → x.1.run = r := by
        intro s sts
        induction sts generalizing s with
        | nil => simp [flatSteps]
        | cons st sts ih2 =>
          simp only [flatSteps, List.mem_append]
          rintro (hm | hm)
          · have : ∀ (k : Nat) (cs : List Call), x ∈ flatCalls r s k cs → x.1.run = r := by
              intro k cs
              induction cs generalizing k with
              | nil => simp [flatCalls]
              | cons c' cs ih3 =>
                simp only [flatCalls, List.mem_cons]
                rintro (rfl | hm)
                · rfl
                · exact ih3 _ hm
            exact this 0 st hm
          · exact ih2 _ hm
      exact Nat.le_of_eq (this 0 run hx).symm
    · exact Nat.le_trans (Nat.le_succ r) (ih (r + 1) x hx)

/-- **Sequential runs that had not started are not executed**: no call of a run later than the
failing one appears in the trace. -/
theorem later_runs_not_started (d : Nat → Exc → Exc) (runs : List (List (List Call))) (r : Nat) :
    ∀ (ev : Ev) (c : Call) (e : Exc), firstFault (flatRuns r runs) = some (ev, c, e) →
      ∀ ev' ∈ (runSeq d r runs).1, ev'.run ≤ ev.run := by
  induction runs generalizing r with
  | nil => intro ev c e h; simp [flatRuns, firstFault] at h
  | cons run runs ih =>
    intro ev c e h ev' hev'
    rw [(runSeq_spec d r (run :: runs)).1] at hev'
    simp only [flatRuns, firstFault_append, upToFault_append] at h hev'
    have hrun : ∀ x ∈ flatSteps r 0 run, x.1.run = r := by
      intro x hx
      have h1 := flatRuns_run_ge r [run] x (by simpa [flatRuns] using hx)
      -- every call of `flatSteps r …` carries run index `r`
      have : ∀ (s : Nat) (sts : List (List Call)), x ∈ flatSteps r s sts → x.1.run = r := by
        intro s sts
        induction sts generalizing s with
        | nil => simp [flatSteps]
        | cons st sts ih2 =>
          simp only [flatSteps, List.mem_append]
          rintro (hm | hm)
          · have : ∀ (k : Nat) (cs : List Call), x ∈ flatCalls r s k cs → x.1.run = r := by
              intro k cs
              induction cs generalizing k with
              | nil => simp [flatCalls]
              | cons c' cs ih3 =>
                simp only [flatCalls, List.mem_cons]
                rintro (rfl | hm)
                · rfl
                · exact ih3 _ hm
            exact this 0 st hm
          · exact ih2 _ hm
      exact this 0 run hx
    cases hf : firstFault (flatSteps r 0 run) with
    | some x =>
      rw [hf] at h hev'
      simp only [Option.some_or, Option.some.injEq, Option.isSome_some, if_true] at h hev'
      subst h
      obtain ⟨pre, post, h1, h2⟩ := upToFault_of_some hf
      have hmem : ev' ∈ (flatSteps r 0 run).map (·.1) := by
        rw [h1]; rw [h2] at hev'
        simp only [List.mem_append, List.mem_cons, List.not_mem_nil, or_false] at hev' ⊢
        rcases hev' with h | h
        · exact Or.inl h
        · exact Or.inr (Or.inl h)
      obtain ⟨y, hy, rfl⟩ := List.mem_map.mp hmem
      rw [hrun y hy, hrun _ (firstFault_mem hf).1]
      exact Nat.le_refl _
    | none =>
      rw [hf] at h hev'
      simp only [Option.none_or, Option.isSome_none, Bool.false_eq_true, if_false,
        List.mem_append] at h hev'
      have hge := flatRuns_run_ge (r + 1) runs (ev, c) (firstFault_mem h).1
      rcases hev' with hm | hm
      · obtain ⟨y, hy, rfl⟩ := List.mem_map.mp hm
        rw [hrun y hy]; simp at hge; omega
      · rw [← (runSeq_spec d (r + 1) runs).1] at hm
        exact ih (r + 1) ev c e h ev' hm

/-- **No result on fault, no error without fault.**  A result (the list of completed runs) is
returned iff no call raises — and then every run completed and every call was executed. -/
theorem result_iff_no_fault (d : Nat → Exc → Exc) (runs : List (List (List Call))) :
    (∃ ids, (runSeq d 0 runs).2 = .ok ids) ↔ ∀ x ∈ flatRuns 0 runs, x.2.fault = none := by
  rw [← firstFault_none_iff]
  have hs := (runSeq_spec d 0 runs).2
  cases hf : firstFault (flatRuns 0 runs) with
  | some x => rw [hf] at hs; simp [hs]
  | none => rw [hf] at hs; simp [hs]

theorem no_fault_no_error (d : Nat → Exc → Exc) (runs : List (List (List Call)))
    (h : ∀ x ∈ flatRuns 0 runs, x.2.fault = none) :
    (runSeq d 0 runs).2 = .ok (List.range runs.length) ∧
      (runSeq d 0 runs).1 = (flatRuns 0 runs).map (·.1) := by
  have hf := (firstFault_none_iff _).mpr h
  have hs := runSeq_spec d 0 runs
  rw [hf] at hs
  exact ⟨by simpa [List.range_eq_range'] using hs.2, by rw [hs.1, upToFault_of_none hf]⟩

/-! ## parallel observation: the failure surfaces at construction or at `.load()` -/

theorem task_error_iff (r : Nat) (run : List (List Call)) (e : Exc) :
    task r run = .error e ↔ (firstFault (flatSteps r 0 run)).map noted = some e := by
  unfold task
  rw [← (runSteps_spec r 0 run).2]
  cases (runSteps r 0 run).2 <;> simp

theorem task_ok_iff (r : Nat) (run : List (List Call)) (v : Nat) :
    task r run = .ok v ↔ firstFault (flatSteps r 0 run) = none ∧ v = r := by
  unfold task
  have h := (runSteps_spec r 0 run).2
  cases hr : (runSteps r 0 run).2 with
  | some e =>
    rw [hr] at h
    cases hf : firstFault (flatSteps r 0 run) <;> simp_all
  | none =>
    rw [hr] at h
    cases hf : firstFault (flatSteps r 0 run) with
    | none => simp; exact eq_comm
    | some x => rw [hf] at h; simp at h

/-- whatever `.load()` raises is the group-noted exception of one of the failing runs -/
theorem loadPar_error (tasks : List (Nat × List (List Call))) (σ : List Nat) (e : Exc)
    (h : loadPar tasks σ = .error e) :
    ∃ i ∈ σ, ∃ r run, tasks[i]? = some (r, run) ∧
      (firstFault (flatSteps r 0 run)).map noted = some e := by
  induction σ with
  | nil => simp [loadPar] at h
  | cons i σ ih =>
    unfold loadPar at h
    cases ht : tasks[i]? with
    | none =>
      rw [ht] at h
      obtain ⟨j, hj, rest⟩ := ih h
      exact ⟨j, List.mem_cons_of_mem _ hj, rest⟩
    | some p =>
      obtain ⟨r, run⟩ := p
      rw [ht] at h
      simp only at h
      cases hk : task r run with
      | error e' =>
        rw [hk] at h
        simp only [Except.error.injEq] at h
        subst h
        exact ⟨i, by simp, r, run, ht, (task_error_iff r run e').mp hk⟩
      | ok v =>
        rw [hk] at h
        obtain ⟨j, hj, rest⟩ := ih h
        exact ⟨j, List.mem_cons_of_mem _ hj, rest⟩

/-- **Never silently missing, stale or zero-filled.**  `.load()` returns data only if every task it
computed ran without any model raising, and the data are then the tasks' own results. -/
theorem loadPar_ok (tasks : List (Nat × List (List Call))) (σ : List Nat) (d : List Nat)
    (h : loadPar tasks σ = .ok d) :
    d = tasks.map (·.1) ∧
      ∀ i ∈ σ, ∀ r run, tasks[i]? = some (r, run) → firstFault (flatSteps r 0 run) = none := by
  induction σ with
  | nil =>
    simp only [loadPar, Except.ok.injEq] at h
    exact ⟨h.symm, by simp⟩
  | cons i σ ih =>
    unfold loadPar at h
    cases ht : tasks[i]? with
    | none =>
      rw [ht] at h
      refine ⟨(ih h).1, ?_⟩
      intro j hj r run hjr
      rcases List.mem_cons.mp hj with rfl | hj
      · rw [ht] at hjr; simp at hjr
      · exact (ih h).2 j hj r run hjr
    | some p =>
      obtain ⟨r, run⟩ := p
      rw [ht] at h
      simp only at h
      cases hk : task r run with
      | error e' => rw [hk] at h; simp at h
      | ok v =>
        rw [hk] at h
        refine ⟨(ih h).1, ?_⟩
        intro j hj r' run' hjr
        rcases List.mem_cons.mp hj with rfl | hj
        · rw [ht] at hjr
          simp only [Option.some.injEq, Prod.mk.injEq] at hjr
          obtain ⟨rfl, rfl⟩ := hjr
          exact ((task_ok_iff r run v).mp hk).1
        · exact (ih h).2 j hj r' run' hjr

/-- **The lazy failure surfaces when results are computed.**  If some run contains a raising call,
then either construction raises (the eagerly executed first combination fails) or every `.load()`
that computes all tasks — in any completion order `σ` — raises. -/
theorem lazy_fault_surfaces_on_compute (runs : List (List (List Call))) (i : Nat)
    (run : List (List Call)) (hi : runs[i]? = some run)
    (hfault : firstFault (flatSteps i 0 run) ≠ none) :
    (∃ e, buildPar runs = .error e) ∨
      ∃ tasks, buildPar runs = .ok tasks ∧ ∀ σ, i ∈ σ → ∃ e, loadPar tasks σ = .error e := by
  cases runs with
  | nil => simp at hi
  | cons r0 rest =>
    cases hk : task 0 r0 with
    | error e => exact Or.inl ⟨e, by simp [buildPar, hk]⟩
    | ok v =>
      refine Or.inr ⟨((r0 :: rest).zipIdx).map (fun p => (p.2, p.1)), by simp [buildPar, hk], ?_⟩
      intro σ hσ
      cases hl : loadPar (((r0 :: rest).zipIdx).map (fun p => (p.2, p.1))) σ with
      | error e => exact ⟨e, rfl⟩
      | ok d =>
        exfalso
        have := (loadPar_ok _ σ d hl).2 i hσ i run (by
          simp only [List.getElem?_map, List.getElem?_zipIdx, hi, Option.map_some, Nat.zero_add])
        exact hfault this

/-! ## non-vacuity -/

def exFault : Exc := ⟨"ZeroDivisionError", "boom", ["own note"]⟩
def exRun (f : Option Exc) : List (List Call) :=
  [[⟨"photon_collection", "a", "probes.fault", none⟩, ⟨"charge_collection", "b", "probes.fault", f⟩],
   [⟨"photon_collection", "a", "probes.fault", none⟩, ⟨"charge_collection", "b", "probes.fault", none⟩]]

example : firstFault (flatRuns 0 [exRun none, exRun (some exFault), exRun none]) =
    some (⟨1, 0, 1⟩, ⟨"charge_collection", "b", "probes.fault", some exFault⟩, exFault) := by decide
example : runSeq (decorateObs [[("k", "1")], [("k", "2")], [("k", "3")]]) 0
      [exRun none, exRun (some exFault), exRun none] =
    ([⟨0, 0, 0⟩, ⟨0, 0, 1⟩, ⟨0, 1, 0⟩, ⟨0, 1, 1⟩, ⟨1, 0, 0⟩, ⟨1, 0, 1⟩],
     .error ⟨"ZeroDivisionError", "boom",
       ["own note", "This error is raised in group 'charge_collection' at model 'b' (probes.fault).",
        "This error occurred in 'Observation' mode with the following parameters:", "  - k: 2"]⟩) := by
  rfl
example : ∃ e, loadPar [(0, exRun none), (1, exRun (some exFault))] [1, 0] = .error e ∧
    e.msg = "boom" := ⟨_, rfl, rfl⟩
example : buildPar [exRun (some exFault), exRun none] =
    .error (exFault.addNotes ["This error is raised in group 'charge_collection' at model 'b' (probes.fault)."]) := by
  rfl

end PyxelModel.C09
