import PyxelModel.Model.C13
import PyxelModel.Generated.C13
/-!
# C13 — property theorems (statement: properties.jsonl C13)

All theorems quantify over every container kind, every detector shape, every operand
(any shape, any dtype, ndarray or not, with or without negative entries) and, where they
speak about histories, over operation sequences of any length.  `tl` is the table of
`TYPE_LIST`s; the only thing needed of it is `TlOk tl` (each list is inside the types the
statement allows), which is proved for the table regenerated from today's source.
-/
namespace PyxelModel.C13

/-- every dtype a class accepts is one the statement allows for that kind -/
def TlOk (tl : Kind → List DType) : Prop := ∀ k d, d ∈ tl k → allowed k d = true

/-- The `TYPE_LIST`s found in today's source: floating point only for Photon, Pixel, Signal,
Phase; unsigned integers only for Image; none of them empty. -/
theorem generated_typeLists_ok :
    TlOk (tableOf PyxelModel.Generated.C13.typeLists) ∧
    ∀ k, tableOf PyxelModel.Generated.C13.typeLists k ≠ [] := by
  refine ⟨?_, ?_⟩
  · intro k
    cases k <;> decide
  · intro k
    cases k <;> decide

/-! ### what a successful validation guarantees -/

theorem validateBase_ok {c : Cfg} {v : Operand} {a : Arr Content} (h : validateBase c v = .ok a) :
    a.is3d = false ∧ a.shape = [c.rows, c.cols] ∧ a.dtype ∈ c.tl c.kind ∧
    ∃ hn i, v = .nd true a.shape a.dtype hn i ∧ a.content = .input i hn := by
  unfold validateBase at h
  split at h
  · rename_i isNd s d hn i
    split at h
    · cases h
    · split at h
      · cases h
      · split at h
        · cases h
        · rename_i h1 h2 h3
          injection h with h; subst h
          simp only [Bool.not_eq_eq_eq_not, Bool.not_true,
            bne_iff_ne, ne_eq, Decidable.not_not] at h1 h2 h3
          refine ⟨rfl, h3, ?_, hn, i, ?_, rfl⟩
          · simpa [Cfg.inTl] using h2
          · simp [h1]
  · cases h

theorem validatePhoton2_ok {c : Cfg} {v : Operand} {a : Arr Content}
    (h : validatePhoton2 c v = .ok a) :
    a.is3d = false ∧ a.shape = [c.rows, c.cols] ∧ a.dtype ∈ c.tl c.kind ∧ a.content.noNeg = true ∧
    ∃ hn i, v = .nd true a.shape a.dtype hn i ∧
      a.content = (if hn then Content.clipped i else Content.input i hn) := by
  unfold validatePhoton2 at h
  split at h
  · rename_i isNd s d hn i
    split at h
    · cases h
    · split at h
      · cases h
      · split at h
        · cases h
        · split at h
          · cases h
          · rename_i h1 h2 _ h3
            injection h with h; subst h
            simp only [Bool.not_eq_eq_eq_not, Bool.not_true,
              bne_iff_ne, ne_eq, Decidable.not_not] at h1 h2 h3
            refine ⟨rfl, h3, ?_, ?_, hn, i, ?_, rfl⟩
            · simpa [Cfg.inTl] using h2
            · cases hn <;> simp [Content.noNeg]
            · simp [h1]
  · cases h

theorem shape3 {s : List Nat} {r c : Nat} (h1 : s.length = 3) (h2 : s.drop 1 = [r, c]) :
    ∃ w, s = [w, r, c] := by
  match s, h1 with
  | [w, a, b], _ =>
    simp only [List.drop_succ_cons, List.drop_zero, List.cons.injEq, and_true] at h2
    exact ⟨w, by rw [h2.1, h2.2]⟩

theorem validatePhoton3_ok {c : Cfg} {v : Operand} {a : Arr Content}
    (h : validatePhoton3 c v = .ok a) :
    a.is3d = true ∧ (∃ w, a.shape = [w, c.rows, c.cols]) ∧ a.dtype ∈ c.tl c.kind ∧
    a.content.noNeg = true ∧
    ∃ hn i, v = .xr .std true a.shape a.dtype hn i ∧
      a.content = (if hn then Content.clipped i else Content.input i hn) := by
  unfold validatePhoton3 at h
  split at h
  · rename_i dims hasCoord s d hn i
    split at h
    · cases h
    · split at h
      · cases h
      · split at h
        · cases h
        · split at h
          · cases h
          · split at h
            · cases h
            · rename_i h1 h2 h3 h4 h5
              injection h with h; subst h
              simp only [Bool.not_eq_eq_eq_not, Bool.not_true,
                bne_iff_ne, ne_eq, Decidable.not_not] at h1 h2 h3 h4 h5
              refine ⟨rfl, shape3 h2 h4, ?_, ?_, hn, i, ?_, rfl⟩
              · simpa [Cfg.inTl] using h1
              · cases hn <;> simp [Content.noNeg]
              · simp [h3, h5]
  all_goals cases h

/-! ### the invariant -/

theorem inv_init (k : Kind) (rows cols : Nat) : Inv k rows cols (none : State) := trivial

theorem inv_of_base {c : Cfg} (htl : TlOk c.tl) {v : Operand} {a : Arr Content}
    (h : validateBase c v = .ok a) : Inv c.kind c.rows c.cols (some a) := by
  obtain ⟨h1, h2, h3, _⟩ := validateBase_ok h
  exact ⟨htl _ _ h3, Or.inl ⟨h1, h2⟩⟩

theorem inv_of_photon2 {c : Cfg} (htl : TlOk c.tl) {v : Operand} {a : Arr Content}
    (h : validatePhoton2 c v = .ok a) : Inv c.kind c.rows c.cols (some a) := by
  obtain ⟨h1, h2, h3, _⟩ := validatePhoton2_ok h
  exact ⟨htl _ _ h3, Or.inl ⟨h1, h2⟩⟩

theorem inv_of_photon3 {c : Cfg} (htl : TlOk c.tl) (hk : c.kind = .photon) {v : Operand}
    {a : Arr Content} (h : validatePhoton3 c v = .ok a) : Inv c.kind c.rows c.cols (some a) := by
  obtain ⟨h1, h2, h3, _⟩ := validatePhoton3_ok h
  exact ⟨htl _ _ h3, Or.inr ⟨hk, h1, h2⟩⟩

theorem inv_bumped {k : Kind} {rows cols : Nat} {a : Arr Content} (v : Operand)
    (h : Inv k rows cols (some a)) : Inv k rows cols (some (bumped a v)) := h

/-- **Every operation preserves the invariant**: whatever is applied — an assignment of any
operand, an update, an in-place addition, a reset, a read — the container afterwards is empty or
holds a detector-shaped array (plus a wavelength axis for a 3-D photon) of an allowed type. -/
theorem inv_step (c : Cfg) (htl : TlOk c.tl) (s : State) (op : Op)
    (h : Inv c.kind c.rows c.cols s) : Inv c.kind c.rows c.cols (step c s op).1 := by
  obtain ⟨tl, kind, rows, cols⟩ := c
  cases op with
  | set v =>
    cases kind <;> simp only [step] <;> split <;>
      first | exact h | (rename_i hv; first | exact inv_of_photon2 htl hv | exact inv_of_base htl hv)
  | set3 v =>
    cases kind <;> simp only [step] <;> first | exact h | skip
    split
    · rename_i hv; exact inv_of_photon3 htl rfl hv
    · exact h
  | update v =>
    cases kind <;> simp only [step] <;> first | exact h | skip
    all_goals
      cases v with
      | none => exact trivial
      | some v =>
        simp only
        split
        · rename_i hv; exact inv_of_base htl hv
        · exact h
  | iadd v =>
    cases kind <;> simp only [step]
    · -- photon
      cases s with
      | none =>
        simp only
        split
        · rename_i a hv
          by_cases hx : isXr v = true
          · rw [if_pos hx] at hv; exact inv_of_photon3 htl rfl hv
          · rw [if_neg hx] at hv; exact inv_of_photon2 htl hv
        · exact h
      | some a =>
        simp only
        split
        · exact h
        · split
          · exact h
          · split
            · exact h
            · exact inv_bumped v h
    all_goals
      cases s with
      | none =>
        simp only
        split
        · rename_i hv; exact inv_of_base htl hv
        · exact h
      | some a =>
        simp only
        split
        · exact h
        · repeat' split
          all_goals exact inv_bumped v h
  | adopt v =>
    cases kind <;> simp only [step] <;> first | exact h | skip
    · cases v with
      | none => exact trivial
      | some v =>
        simp only
        split
        · rename_i a hv
          by_cases hx : isXr v = true
          · rw [if_pos hx] at hv; exact inv_of_photon3 htl rfl hv
          · rw [if_neg hx] at hv; exact inv_of_photon2 htl hv
        · exact h
    all_goals
      cases v with
      | none => exact h
      | some v =>
        simp only
        split
        · exact h
        · split
          · rename_i hv; exact inv_of_base htl hv
          · exact h
  | load v sameType sameGeo =>
    simp only [step]
    split
    · exact h
    · split
      · exact h
      · cases v with
        | none => cases kind <;> exact trivial
        | some v =>
          cases kind <;> simp only
          · split
            · rename_i a hv
              by_cases hx : isXr v = true
              · rw [if_pos hx] at hv; exact inv_of_photon3 htl rfl hv
              · rw [if_neg hx] at hv; exact inv_of_photon2 htl hv
            · exact h
          all_goals
            split
            · rename_i hv; exact inv_of_base htl hv
            · exact h
  | emptyAll reset =>
    cases kind <;> simp only [step] <;> first | exact trivial | skip
    · -- pixel
      split
      · exact ⟨rfl, Or.inl ⟨rfl, rfl⟩⟩
      · exact h
    · -- phase: `*= 0` keeps shape and dtype
      cases s with
      | none => exact h
      | some a =>
        simp only
        split
        · exact h
        · repeat' split
          all_goals exact h
  | empty =>
    cases kind <;> simp only [step] <;> first | exact trivial | skip
    exact ⟨rfl, Or.inl ⟨rfl, rfl⟩⟩
  | read =>
    simp only [step]; cases s <;> simp only <;> first | exact h | (split <;> exact h)
  | read3 =>
    cases kind <;> simp only [step] <;> first | exact h | skip
    cases s <;> simp only <;> first | exact h | (split <;> exact h)
  | readDtype => simp only [step]; cases s <;> exact h
  | readShape =>
    cases kind <;> simp only [step] <;> first | exact h | skip
    cases s <;> exact h

/-- **The invariant holds along every history** (induction over the operation sequence): every
intermediate state of every sequence of operations, from any state satisfying it. -/
theorem inv_run (c : Cfg) (htl : TlOk c.tl) (ops : List Op) (s : State)
    (h : Inv c.kind c.rows c.cols s) :
    ∀ r ∈ runFrom c s ops, Inv c.kind c.rows c.cols r.1 := by
  induction ops generalizing s with
  | nil => intro r hr; simp [runFrom] at hr
  | cons op ops ih =>
    intro r hr
    simp only [runFrom, List.mem_cons] at hr
    rcases hr with hr | hr
    · rw [hr]; exact inv_step c htl s op h
    · exact ih _ (inv_step c htl s op h) r hr

/-- the final state of any history from a fresh (empty) container satisfies the invariant -/
theorem inv_reachable (c : Cfg) (htl : TlOk c.tl) (ops : List Op) :
    Inv c.kind c.rows c.cols (finalFrom c none ops) := by
  suffices ∀ s, Inv c.kind c.rows c.cols s → Inv c.kind c.rows c.cols (finalFrom c s ops) from
    this none trivial
  induction ops with
  | nil => intro s h; exact h
  | cons op ops ih => intro s h; exact ih _ (inv_step c htl s op h)

/-- the Boolean the driver reports is the invariant -/
theorem invB_iff {γ : Type} (k : Kind) (rows cols : Nat) (s : Option (Arr γ)) :
    invB k rows cols s = true ↔ Inv k rows cols s := by
  cases s with
  | none => simp [invB, Inv]
  | some a =>
    simp only [invB, Inv, Bool.and_eq_true, Bool.or_eq_true, Bool.not_eq_true', beq_iff_eq]
    constructor
    · rintro ⟨h1, h2 | ⟨⟨⟨hk, h3⟩, h4⟩, h5⟩⟩
      · exact ⟨h1, Or.inl h2⟩
      · exact ⟨h1, Or.inr ⟨hk, h3, shape3 h4 h5⟩⟩
    · rintro ⟨h1, h2 | ⟨hk, h3, w, h4⟩⟩
      · exact ⟨h1, Or.inl h2⟩
      · exact ⟨h1, Or.inr ⟨⟨⟨hk, h3⟩, by rw [h4]; rfl⟩, by rw [h4]; rfl⟩⟩

-- non-vacuity: a history mixing rejected and accepted operations on a 3×4 image container
example :
    let c : Cfg := ⟨tableOf PyxelModel.Generated.C13.typeLists, .image, 3, 4⟩
    (runFrom c none
      [.iadd (.nd true [3, 4] .float64 false 0),        -- float onto image: TypeError
       .iadd (.nd true [3, 4] .uint16 false 1),         -- stored through the setter
       .iadd (.nd true [4] .uint8 false 2),             -- broadcast row added in place
       .set (.nd true [4, 3] .uint16 false 3),          -- wrong shape: ValueError
       .iadd (.pyint (-1) 4),                           -- OverflowError
       .read, .empty, .read]).map (fun r => (r.1.map (·.content), r.2.toOption.isSome))
    = [(none, false), (some (.input 1 false), true), (some (.plus (.input 1 false) 2), true),
       (some (.plus (.input 1 false) 2), false), (some (.plus (.input 1 false) 2), false),
       (some (.plus (.input 1 false) 2), true), (none, true), (none, false)] := by decide

/-! ### rejected assignments -/

/-- **An assignment that raises leaves the previous content untouched** (`.array =`,
`.array_3d =`, `update`, `detector.<bucket> = other`, `load_detector`), in every state — no
invariant needed. -/
theorem failed_assignment_leaves_state (c : Cfg) (s : State) (op : Op) (hop : isAssign op = true)
    (e : Err) (h : (step c s op).2 = .error e) : (step c s op).1 = s := by
  obtain ⟨tl, kind, rows, cols⟩ := c
  cases op with
  | set v =>
    cases kind <;> simp only [step] at h ⊢ <;> split <;> first | rfl | (rename_i hv; simp [hv] at h)
  | set3 v =>
    cases kind <;> simp only [step] at h ⊢ <;> first | rfl | skip
    split
    · rename_i hv; simp [hv] at h
    · rfl
  | update v =>
    cases kind <;> simp only [step] at h ⊢ <;> first | rfl | skip
    all_goals
      cases v with
      | none => simp at h
      | some v =>
        simp only at h ⊢
        split
        · rename_i hv; simp [hv] at h
        · rfl
  | adopt v =>
    cases kind <;> simp only [step] at h ⊢ <;> first | rfl | skip
    · cases v with
      | none => simp at h
      | some v =>
        simp only at h ⊢
        split
        · rename_i hv; simp [hv] at h
        · rfl
    all_goals
      cases v with
      | none => rfl
      | some v =>
        simp only at h ⊢
        split
        · rfl
        · split
          · rename_i hv; simp_all
          · rfl
  | load v sameType sameGeo =>
    simp only [step] at h ⊢
    split
    · rfl
    · split
      · rfl
      · cases v with
        | none => cases kind <;> simp_all
        | some v =>
          cases kind <;> simp only at h ⊢ <;> split <;> first | rfl | (rename_i hv; simp_all)
  | iadd _ | empty | emptyAll _ | read | read3 | readDtype | readShape => simp [isAssign] at hop

/-- a failed in-place addition also leaves the state untouched, in every state the invariant
allows, for numpy / Python right-hand sides (for an xarray right-hand side on a numpy-backed
container numpy has already added into the buffer when the setter rejects the result; the
statement only speaks about assignments, see `failed_assignment_leaves_state`). -/
theorem failed_iadd_leaves_state (c : Cfg) (htl : ∀ d, allowed c.kind d = true → c.inTl d = true)
    (s : State) (v : Operand) (hinv : Inv c.kind c.rows c.cols s)
    (hv : isXr v = false ∨ c.kind = .photon)
    (e : Err) (h : (step c s (.iadd v)).2 = .error e) : (step c s (.iadd v)).1 = s := by
  obtain ⟨tl, kind, rows, cols⟩ := c
  cases kind <;> simp only [step] at h ⊢
  · cases s with
    | none =>
      simp only at h ⊢
      split
      · rename_i hv'; simp [hv'] at h
      · rfl
    | some a =>
      simp only at h ⊢
      split
      · rfl
      · split
        · rfl
        · split
          · rfl
          · simp_all
  all_goals
    have hx : isXr v = false := by
      rcases hv with hv | hv
      · exact hv
      · cases hv
    cases s with
    | none =>
      simp only at h ⊢
      split
      · rename_i hv'; simp [hv'] at h
      · rfl
    | some a =>
      obtain ⟨hal, hsh | ⟨hk, _⟩⟩ := hinv
      · simp only at h ⊢
        split
        · rfl
        · rename_i hn
          have h2 : Cfg.inTl ⟨tl, _, rows, cols⟩ a.dtype = true := htl _ hal
          simp only [hn, hx, h2, hsh.2] at h
          simp at h
      · cases hk

/-- **An assignment that violates the invariant raises** (and, by the theorem above, changes
nothing): if `.array = v` succeeds then `v` is an ndarray of the detector's shape and of an
allowed type; the stored array is `v` itself (negatives clipped to 0 for photons). -/
theorem set_ok_only_valid (c : Cfg) (htl : TlOk c.tl) (s : State) (v : Operand) (o : Obs)
    (h : (step c s (.set v)).2 = .ok o) :
    ∃ dt hn i, v = .nd true [c.rows, c.cols] dt hn i ∧ allowed c.kind dt = true ∧
      (step c s (.set v)).1 = some ⟨false, [c.rows, c.cols], dt,
        if c.kind = .photon ∧ hn = true then .clipped i else .input i hn⟩ := by
  obtain ⟨tl, kind, rows, cols⟩ := c
  cases kind <;> simp only [step] at h ⊢
  · split
    · rename_i a hv
      obtain ⟨h1, h2, h3, _, hn, i, h5, h6⟩ := validatePhoton2_ok hv
      refine ⟨a.dtype, hn, i, by rw [h5, h2], htl _ _ h3, ?_⟩
      obtain ⟨x1, x2, x3, x4⟩ := a
      simp only at h1 h2 h6
      subst h1 h2 h6
      cases hn <;> simp
    · rename_i hv; simp [hv] at h
  all_goals
    split
    · rename_i a hv
      obtain ⟨h1, h2, h3, hn, i, h5, h6⟩ := validateBase_ok hv
      refine ⟨a.dtype, hn, i, by rw [h5, h2], htl _ _ h3, ?_⟩
      obtain ⟨x1, x2, x3, x4⟩ := a
      simp only at h1 h2 h6
      subst h1 h2 h6
      simp
    · rename_i hv; simp [hv] at h

/-- the same for `.array_3d = v` on a photon container -/
theorem set3_ok_only_valid (c : Cfg) (htl : TlOk c.tl) (hk : c.kind = .photon) (s : State)
    (v : Operand) (o : Obs) (h : (step c s (.set3 v)).2 = .ok o) :
    ∃ w dt hn i, v = .xr .std true [w, c.rows, c.cols] dt hn i ∧ allowed c.kind dt = true ∧
      (step c s (.set3 v)).1 = some ⟨true, [w, c.rows, c.cols], dt,
        if hn = true then .clipped i else .input i hn⟩ := by
  obtain ⟨tl, kind, rows, cols⟩ := c
  cases hk
  simp only [step] at h ⊢
  split
  · rename_i a hv
    obtain ⟨h1, ⟨w, h2⟩, h3, _, hn, i, h5, h6⟩ := validatePhoton3_ok hv
    refine ⟨w, a.dtype, hn, i, by rw [h5, h2], htl _ _ h3, ?_⟩
    obtain ⟨x1, x2, x3, x4⟩ := a
    simp only at h1 h2 h6
    subst h1 h2 h6
    cases hn <;> simp
  · rename_i hv; simp [hv] at h

/-- **Assigned photon counts are never negative**: after any successful assignment to a photon
container (2-D, 3-D, `+=` on an empty one, or `detector.photon = other`, which all go through the
setters) the stored content
is one that has no negative entry (the caller's array if it had none, else its clipped copy). -/
theorem photon_nonneg_after_assign (c : Cfg) (hk : c.kind = .photon) (s : State) (v : Operand)
    (op : Op) (hop : op = .set v ∨ op = .set3 v ∨ (op = .iadd v ∧ s = none) ∨ op = .adopt (some v))
    (o : Obs)
    (h : (step c s op).2 = .ok o) :
    ∃ a, (step c s op).1 = some a ∧ a.content.noNeg = true := by
  obtain ⟨tl, kind, rows, cols⟩ := c
  cases hk
  rcases hop with rfl | rfl | ⟨rfl, rfl⟩ | rfl <;> simp only [step] at h ⊢
  · split
    · rename_i a hv; exact ⟨a, rfl, (validatePhoton2_ok hv).2.2.2.1⟩
    · rename_i hv; simp [hv] at h
  · split
    · rename_i a hv; exact ⟨a, rfl, (validatePhoton3_ok hv).2.2.2.1⟩
    · rename_i hv; simp [hv] at h
  · split
    · rename_i a hv
      refine ⟨a, rfl, ?_⟩
      by_cases hx : isXr v = true
      · rw [if_pos hx] at hv; exact (validatePhoton3_ok hv).2.2.2.1
      · rw [if_neg hx] at hv; exact (validatePhoton2_ok hv).2.2.2.1
    · rename_i hv; simp [hv] at h
  · split
    · rename_i a hv
      refine ⟨a, rfl, ?_⟩
      by_cases hx : isXr v = true
      · rw [if_pos hx] at hv; exact (validatePhoton3_ok hv).2.2.2.1
      · rw [if_neg hx] at hv; exact (validatePhoton2_ok hv).2.2.2.1
    · rename_i hv; simp [hv] at h

-- non-vacuity: a photon array with negative entries is accepted and stored clipped
example :
    (step ⟨tableOf PyxelModel.Generated.C13.typeLists, .photon, 2, 2⟩ none
      (.set (.nd true [2, 2] .float32 true 7))) =
    (some ⟨false, [2, 2], .float32, .clipped 7⟩, .ok .unit) := by rfl

/-- counter-witness for the code before the repair C13-photon-iadd-empty (`self._array = other`
on an empty photon container): storing the operand as it comes breaks the invariant for a
wrong-shaped int64 array, which the repaired `step` rejects. -/
example :
    let c : Cfg := ⟨tableOf PyxelModel.Generated.C13.typeLists, .photon, 3, 4⟩
    ¬ Inv c.kind c.rows c.cols (some (⟨false, [5, 5], .int64, .input 0 false⟩ : Arr Content)) ∧
    step c none (.iadd (.nd true [5, 5] .int64 false 0)) = (none, .error .valueError) := by
  refine ⟨?_, by rfl⟩
  rw [← invB_iff]; decide

/-- counter-witness for the code before the repair C13-detector-photon-setter
(`self.photon._array = obj._array`): adopting the 5×5 array of another detector's photon bucket
breaks the invariant of a 3×4 detector; the repaired `step` rejects it and keeps the content. -/
example :
    let c : Cfg := ⟨tableOf PyxelModel.Generated.C13.typeLists, .photon, 3, 4⟩
    ¬ Inv c.kind c.rows c.cols (some (⟨false, [5, 5], .float64, .input 0 false⟩ : Arr Content)) ∧
    step c none (.adopt (some (.nd true [5, 5] .float64 false 0))) = (none, .error .valueError) := by
  refine ⟨?_, by rfl⟩
  rw [← invB_iff]; decide

/-- **A refused `load_detector` changes nothing**: a file of another detector type or of another
geometry raises and leaves the bucket exactly as it was (in particular no bucket of the file is
installed before the refusal). -/
theorem refused_load_leaves_state (c : Cfg) (s : State) (v : Option Operand)
    (sameType sameGeo : Bool) (h : sameType = false ∨ sameGeo = false) :
    ∃ e, step c s (.load v sameType sameGeo) = (s, .error e) := by
  rcases h with rfl | rfl
  · exact ⟨.typeError, by simp [step]⟩
  · cases sameType
    · exact ⟨.typeError, by simp [step]⟩
    · exact ⟨.valueError, by simp [step]⟩

/-! ### reading -/

/-- **Reading an empty container raises** — `.array`, `.array_3d`, `.dtype` — and the state stays
empty; in particular after `empty()` (except Pixel, which is reset to zeros) and after
`update(None)` nothing stale can be read. -/
theorem read_empty_errors (c : Cfg) (op : Op) (hop : op = .read ∨ op = .readDtype ∨
    (op = .read3 ∧ c.kind = .photon)) : step c none op = (none, .error .valueError) := by
  obtain ⟨tl, kind, rows, cols⟩ := c
  rcases hop with rfl | rfl | ⟨rfl, hk⟩
  · rfl
  · rfl
  · cases hk; rfl

theorem read_after_reset_errors (c : Cfg) (s : State) (hk : c.kind ≠ .pixel) :
    step c (step c s .empty).1 .read = (none, .error .valueError) := by
  obtain ⟨tl, kind, rows, cols⟩ := c
  cases kind <;> first | rfl | exact absurd rfl hk

theorem read_after_update_none_errors (c : Cfg) (s : State) (hk : c.kind ≠ .photon) :
    step c (step c s (.update none)).1 .read = (none, .error .valueError) := by
  obtain ⟨tl, kind, rows, cols⟩ := c
  cases kind <;> first | rfl | exact absurd rfl hk

/-- a successful read returns exactly the stored array, and reads never change the state -/
theorem read_returns_state (c : Cfg) (s : State) (a : Arr Content)
    (h : (step c s .read).2 = .ok (.arr a)) : s = some a ∧ (step c s .read).1 = s := by
  cases s with
  | none => simp [step] at h
  | some b =>
    simp only [step] at h ⊢
    split at h
    · simp at h
    · rename_i hn
      simp only [hn]
      simp only [Except.ok.injEq, Obs.arr.injEq] at h
      exact ⟨by rw [h], by simp⟩

theorem reads_pure (c : Cfg) (s : State) (op : Op)
    (hop : op = .read ∨ op = .read3 ∨ op = .readDtype ∨ op = .readShape) :
    (step c s op).1 = s := by
  obtain ⟨tl, kind, rows, cols⟩ := c
  rcases hop with rfl | rfl | rfl | rfl <;> cases kind <;> cases s <;> simp only [step] <;>
    first | rfl | (split <;> rfl)

/-- **`detector.empty(reset)`**, bucket by bucket, from any state: photon, signal and image are
emptied whatever `reset` is (so a non-destructive readout cannot leave the previous frame behind);
pixel becomes the all-zero array on a destructive reset and is kept otherwise. -/
theorem emptyAll_effect (c : Cfg) (s : State) (reset : Bool) :
    (c.kind = .photon ∨ c.kind = .signal ∨ c.kind = .image →
      step c s (.emptyAll reset) = (none, .ok .unit)) ∧
    (c.kind = .pixel → step c s (.emptyAll reset) =
      (if reset then some ⟨false, [c.rows, c.cols], .float64, .zeros⟩ else s, .ok .unit)) := by
  obtain ⟨tl, kind, rows, cols⟩ := c
  refine ⟨?_, ?_⟩
  · rintro (hk | hk | hk) <;> cases hk <;> rfl
  · intro hk; cases hk
    cases reset <;> rfl

/-- … and **nothing stale can be read afterwards**: reading the photon, signal or image bucket
right after `detector.empty(reset)` raises, for both values of `reset` and from any state. -/
theorem read_after_emptyAll_errors (c : Cfg) (s : State) (reset : Bool)
    (hk : c.kind = .photon ∨ c.kind = .signal ∨ c.kind = .image) :
    step c (step c s (.emptyAll reset)).1 .read = (none, .error .valueError) := by
  rw [(emptyAll_effect c s reset).1 hk]
  rfl

/-- the phase bucket of an MKID keeps its shape and dtype through `detector.empty(reset)`: it is
left alone when empty or on a non-destructive readout, and multiplied by zero in place otherwise -/
theorem emptyAll_phase (c : Cfg) (hk : c.kind = .phase) (a : Arr Content) (reset : Bool) :
    ∃ a', (step c (some a) (.emptyAll reset)).1 = some a' ∧ a'.shape = a.shape ∧
      a'.dtype = a.dtype ∧ a'.is3d = a.is3d ∧
      a'.content = (if reset then .timesZero a.content else a.content) := by
  obtain ⟨tl, kind, rows, cols⟩ := c
  cases hk
  cases reset
  · exact ⟨a, rfl, rfl, rfl, rfl, rfl⟩
  · simp only [step, Bool.not_true, Bool.false_eq_true, if_false, if_true]
    repeat' split
    all_goals exact ⟨_, rfl, rfl, rfl, rfl, rfl⟩

/-- Pixel's reset is the all-zero float64 array of the detector's shape (never stale content) -/
theorem pixel_reset_zero (c : Cfg) (hk : c.kind = .pixel) (s : State) :
    (step c s .empty).1 = some ⟨false, [c.rows, c.cols], .float64, .zeros⟩ := by
  obtain ⟨tl, kind, rows, cols⟩ := c
  cases hk; rfl

/-! ### equality -/

variable {γ : Type} [DecidableEq γ]

def Box.Inv (b : Box γ) : Prop := PyxelModel.C13.Inv b.kind b.rows b.cols b.st

/-- **Two containers compare equal exactly when they have the same kind and shape and are both
empty or hold equal arrays** (for all pairs of containers satisfying the invariant). -/
theorem equality_spec (x y : Box γ) (hx : x.Inv) (hy : y.Inv) : eqOp x y = true ↔ eqSpec x y := by
  obtain ⟨kx, rx, cx, sx⟩ := x
  obtain ⟨ky, ry, cy, sy⟩ := y
  unfold Box.Inv at hx hy
  simp only at hx hy
  unfold eqOp eqSpec
  by_cases hk : kx = ky
  case neg => simp [hk]
  subst hk
  simp only [bne_self_eq_false, Bool.false_eq_true, if_false, true_and]
  cases kx
  · -- photon: the public shape is the stored array's shape
    cases sx <;> cases sy <;> simp only [Box.pubShape]
    · simp
    · simp
    · simp
    · rename_i a b
      simp only [arrEq, Bool.and_eq_true, beq_iff_eq, decide_eq_true_eq, reduceCtorEq, false_and,
        false_or, Option.some.injEq, exists_and_left, exists_eq_left']
      constructor
      · rintro ⟨⟨_, h2⟩, h3⟩; exact ⟨h2, h3⟩
      · rintro ⟨h2, h3⟩
        refine ⟨⟨?_, h2⟩, h3⟩
        -- both 2-D or both 3-D, from the shapes being equal
        obtain ⟨_, ⟨h1, h4⟩ | ⟨_, h1, w, h4⟩⟩ := hx <;>
          obtain ⟨_, ⟨h5, h6⟩ | ⟨_, h5, w', h6⟩⟩ := hy
        · rw [h1, h5]
        · rw [h4, h6] at h2; simp at h2
        · rw [h4, h6] at h2; simp at h2
        · rw [h1, h5]
  all_goals
    simp only [Box.pubShape]
    by_cases hs : (rx, cx) = (ry, cy)
    case neg =>
      have : [rx, cx] ≠ [ry, cy] := by
        intro e; apply hs; simp only [List.cons.injEq, and_true] at e; rw [e.1, e.2]
      simp [hs, this]
    · have e : [rx, cx] = [ry, cy] := by
        simp only [Prod.mk.injEq] at hs; rw [hs.1, hs.2]
      simp only [hs, bne_self_eq_false, Bool.false_eq_true, if_false, e, true_and]
      cases sx <;> cases sy
      · simp
      · simp
      · simp
      · rename_i a b
        simp only [arrEq, Bool.and_eq_true, beq_iff_eq, decide_eq_true_eq, reduceCtorEq,
          false_and, false_or, Option.some.injEq, exists_and_left, exists_eq_left']
        constructor
        · rintro ⟨_, h3⟩; exact h3
        · intro h3
          simp only [Prod.mk.injEq] at hs
          obtain ⟨_, ⟨h1, h4⟩ | ⟨hk, _⟩⟩ := hx
          · obtain ⟨_, ⟨h5, h6⟩ | ⟨hk, _⟩⟩ := hy
            · exact ⟨⟨by rw [h1, h5], by rw [h4, h6, hs.1, hs.2]⟩, h3⟩
            · cases hk
          · cases hk

/-- the Boolean `spec` the driver reports is the statement -/
theorem eqSpecB_iff (x y : Box γ) : eqSpecB x y = true ↔ eqSpec x y := by
  unfold eqSpecB eqSpec
  cases hx : x.st <;> cases hy : y.st <;> simp [and_assoc]

theorem arrEq_comm (a b : Arr γ) : arrEq a b = arrEq b a := by
  unfold arrEq
  rw [Bool.eq_iff_iff]
  simp only [Bool.and_eq_true, beq_iff_eq, decide_eq_true_eq]
  constructor <;> rintro ⟨⟨h1, h2⟩, h3⟩ <;> exact ⟨⟨h1.symm, h2.symm⟩, h3.symm⟩

/-- **Equality is symmetric and never raises**, for all containers (no invariant needed) -/
theorem equality_symm (x y : Box γ) : eqOp x y = eqOp y x := by
  obtain ⟨kx, rx, cx, sx⟩ := x
  obtain ⟨ky, ry, cy, sy⟩ := y
  unfold eqOp
  by_cases hk : kx = ky
  case neg =>
    have hk' : ¬ ky = kx := fun e => hk e.symm
    simp [hk, hk']
  subst hk
  simp only [bne_self_eq_false, Bool.false_eq_true, if_false]
  by_cases hs : (rx, cx) = (ry, cy)
  · simp only [Prod.mk.injEq] at hs
    obtain ⟨rfl, rfl⟩ := hs
    cases kx <;> cases sx <;> cases sy <;> simp [arrEq_comm]
  · have hs' : ¬ (ry, cy) = (rx, cx) := fun e => hs e.symm
    cases kx <;> cases sx <;> cases sy <;> simp [hs, hs', arrEq_comm]

theorem equality_refl (x : Box γ) : eqOp x x = true := by
  obtain ⟨k, r, c, s⟩ := x
  unfold eqOp
  cases k <;> cases s <;> simp [arrEq]

/-- an empty and a non-empty container are never equal, in either order -/
theorem equality_empty_full (x y : Box γ) (hx : x.st = none) (a : Arr γ) (hy : y.st = some a) :
    eqOp x y = false ∧ eqOp y x = false := by
  obtain ⟨kx, rx, cx, sx⟩ := x
  obtain ⟨ky, ry, cy, sy⟩ := y
  simp only at hx hy
  subst hx hy
  unfold eqOp
  constructor <;> cases kx <;> cases ky <;> simp

-- counter-witness for the code before the repair C13-eq-empty: empty == full is True and
-- full == empty raises, although the statement (and the repaired `eqOp`) say False twice
example :
    let e : Box Nat := ⟨.pixel, 2, 2, none⟩
    let f : Box Nat := ⟨.pixel, 2, 2, some ⟨false, [2, 2], .float64, 1⟩⟩
    eqOpUnrepaired e f = some true ∧ eqOpUnrepaired f e = none ∧
    eqOp e f = false ∧ eqOp f e = false ∧ eqSpecB e f = false := by decide

-- non-vacuity of `equality_spec`: two full image containers with equal values, and with different ones
example :
    let f (t : Nat) : Box Nat := ⟨.image, 2, 3, some ⟨false, [2, 3], .uint16, t⟩⟩
    (f 1).Inv ∧ eqOp (f 1) (f 1) = true ∧ eqOp (f 1) (f 2) = false := by
  refine ⟨⟨by decide, Or.inl ⟨rfl, rfl⟩⟩, by decide, by decide⟩

end PyxelModel.C13
