import PyxelModel.Model.C18
import PyxelModel.Generated.C18
import PyxelModel.Lemmas.C18Tables
/-!
# C18 — property theorems (statement: properties.jsonl C18)

Quantifiers: every detector type of the generated tables, every assignment of contents to the
containers (every subset initialised, arbitrary payloads), every property assignment; every
pipeline prefix and suffix around the load model.
-/
namespace PyxelModel.C18

variable {P : Type}

/-! ### dictionaries -/

theorem lookup_toDict (W : List String) (s : Store P) (k : String) :
    (toDict W s).lookup k = if k ∈ W then some (s k) else none := by
  unfold toDict
  induction W with
  | nil => simp
  | cons w ws ih =>
    simp only [List.map_cons, List.lookup_cons, List.mem_cons]
    by_cases h : k = w
    · subst h; simp
    · have : (k == w) = false := by simpa using h
      simp only [this, ih, h, false_or]

theorem getD_toDict (W : List String) (s : Store P) (k : String) :
    getD (toDict W s) k = if k ∈ W then s k else none := by
  unfold getD
  rw [lookup_toDict]
  by_cases h : k ∈ W <;> simp [h]

/-- **Containers: what is written and read back is what was there**, for every subset of
initialised containers and arbitrary contents — provided every container of the type is written
and every written key is read. -/
theorem roundtrip_store (K W R : List String) (hKW : ∀ k ∈ K, k ∈ W) (hWR : ∀ k ∈ W, k ∈ R)
    (s : Store P) (hs : ∀ k, k ∉ K → s k = none) : fromDict R (toDict W s) = s := by
  funext k
  unfold fromDict
  rw [getD_toDict]
  by_cases hW : k ∈ W
  · simp [hW, hWR k hW]
  · have : s k = none := hs k (fun hK => hW (hKW k hK))
    by_cases hR : k ∈ R <;> simp [hW, hR, this]

/-- what is lost when a written key is not read (the MKID `phase` defect) or a container is not
written: exactly that container comes back uninitialised, the others are unaffected -/
theorem roundtrip_store_general (W R : List String) (s : Store P) (k : String) :
    fromDict R (toDict W s) k = if k ∈ R ∧ k ∈ W then s k else none := by
  unfold fromDict
  rw [getD_toDict]
  by_cases hR : k ∈ R <;> by_cases hW : k ∈ W <;> simp [hR, hW]

theorem propsFromDict_toDict (CP WP : List String) (h1 : ∀ k ∈ WP, k ∈ CP) (h2 : ∀ k ∈ CP, k ∈ WP)
    (p : Store P) (hp : ∀ k, k ∉ CP → p k = none) :
    propsFromDict CP (toDict WP p) = .ok p := by
  unfold propsFromDict
  have hfind : (toDict WP p).find? (fun e => !(CP.contains e.1)) = none := by
    rw [List.find?_eq_none]
    intro e he
    unfold toDict at he
    obtain ⟨k, hk, rfl⟩ := List.mem_map.mp he
    simp [h1 k hk]
  rw [hfind]
  simp only
  congr 1
  funext k
  rw [getD_toDict]
  by_cases hC : k ∈ CP
  · simp [hC, h2 k hC]
  · simp [hC, hp k hC]

theorem Tables.ok_iff (t : Tables) : t.ok = true ↔
    (∀ k ∈ t.containers, k ∈ t.written) ∧ (∀ k ∈ t.written, k ∈ t.read) ∧
    (∀ k ∈ t.ctorParams, k ∈ t.writtenProps) ∧ (∀ k ∈ t.writtenProps, k ∈ t.ctorParams) := by
  unfold Tables.ok
  simp only [Bool.and_eq_true, List.all_eq_true, List.contains_iff_mem, and_assoc]

/-- **A detector saved to a file and loaded back is the same detector** — type, shape, every
property and every container, whatever subset of containers is initialised and whatever they
hold — for every key table that passes `Tables.ok`. -/
theorem roundtrip (t : Tables) (ht : t.ok = true) (d : Det P)
    (hs : ∀ k, k ∉ t.containers → d.store k = none)
    (hp : ∀ k, k ∉ t.ctorParams → d.props k = none) :
    load t (save t d) = .ok d := by
  obtain ⟨h1, h2, h3, h4⟩ := (Tables.ok_iff t).mp ht
  unfold load save
  simp only
  rw [propsFromDict_toDict t.ctorParams t.writtenProps h4 h3 d.props hp]
  simp only
  rw [roundtrip_store t.containers t.written t.read h1 h2 d.store hs]

/-! ### today's tables -/

/-- the four detector types are the ones the statement names, each has containers at all, and
`from_dict` fetches the three property groups -/
theorem det_types_complete :
    PyxelModel.Generated.C18.detTypes = ["CCD", "CMOS", "MKID", "APD"] ∧
    PyxelModel.Generated.C18.detTypes.all (fun ty =>
      ["photon", "charge", "pixel", "signal", "image", "scene", "data"].all
        ((tablesOf ty).containers.contains ·) &&
      lookupT PyxelModel.Generated.C18.readProps ty == ["characteristics", "environment", "geometry"])
      = true ∧
    (tablesOf "MKID").containers.contains "phase" = true := by decide

/-- every key written by `to_dict()` of a fully populated detector is read by `from_dict()` -/
theorem written_subset_read :
    PyxelModel.Generated.C18.detTypes.all (fun ty =>
      (tablesOf ty).written.all ((tablesOf ty).read.contains ·)) = true := by decide

/-- … and the whole of `Tables.ok` (containers ⊆ written ⊆ read, property keys = constructor
parameters) holds for each type as the code stands today -/
theorem generated_tables_ok :
    PyxelModel.Generated.C18.detTypes.all (fun ty => (tablesOf ty).ok) = true := by decide

/-- **The round trip for the four detector types of today's code.** -/
theorem roundtrip_all_types (ty : String) (hty : ty ∈ PyxelModel.Generated.C18.detTypes) (d : Det P)
    (hs : ∀ k, k ∉ (tablesOf ty).containers → d.store k = none)
    (hp : ∀ k, k ∉ (tablesOf ty).ctorParams → d.props k = none) :
    load (tablesOf ty) (save (tablesOf ty) d) = .ok d :=
  roundtrip (tablesOf ty) (List.all_eq_true.mp generated_tables_ok ty hty) d hs hp

-- non-vacuity: an MKID with photon and phase initialised, the rest empty
example : (match load (tablesOf "MKID") (save (tablesOf "MKID")
      (⟨"MKID", (3, 4), (fun k => if k = "geometry.row" then some 3 else none),
        (fun k => if k = "photon" then some 11 else if k = "phase" then some 22 else none)⟩ : Det Nat)) with
    | .ok d => (d.store "photon", d.store "phase", d.store "pixel", d.props "geometry.row")
    | .error _ => (none, none, none, none)) = (some 11, some 22, none, some 3) := by decide

-- counter-witness for the code before `C18-mkid-phase`: `phase` written but not read
example :
    let t : Tables := { (tablesOf "MKID") with read := (tablesOf "MKID").read.filter (· != "phase") }
    t.ok = false ∧
    fromDict t.read (toDict t.written (fun k => if k = "phase" then some 22 else none)) "phase"
      = (none : Option Nat) := by decide

/-! ### the load model inside a pipeline -/

theorem runSteps_append (step : Running P → Step P → Except String (Running P))
    (r : Running P) (a b : List (Step P)) :
    runSteps step r (a ++ b) =
      match runSteps step r a with
      | .error e => .error e
      | .ok r' => runSteps step r' b := by
  induction a generalizing r with
  | nil => simp [runSteps]
  | cons s ss ih =>
    simp only [List.cons_append, runSteps]
    cases step r s with
    | error e => rfl
    | ok r' => exact ih r'

theorem runStep_keeps_ty_shape {r r' : Running P} {s : Step P} (h : runStep r s = .ok r') :
    r'.ty = r.ty ∧ r'.shape = r.shape := by
  cases s with
  | write k v => simp only [runStep, Except.ok.injEq] at h; subst h; exact ⟨rfl, rfl⟩
  | load ty shape file =>
    simp only [runStep] at h
    split at h
    · cases h
    · split at h
      · cases h
      · simp only [Except.ok.injEq] at h; subst h; exact ⟨rfl, rfl⟩

theorem runSteps_keeps_ty_shape {ss : List (Step P)} :
    ∀ {r r' : Running P}, runSteps runStep r ss = .ok r' → r'.ty = r.ty ∧ r'.shape = r.shape := by
  induction ss with
  | nil => intro r r' h; simp only [runSteps, Except.ok.injEq] at h; subst h; exact ⟨rfl, rfl⟩
  | cons s ss ih =>
    intro r r' h
    simp only [runSteps] at h
    cases hs : runStep r s with
    | error e => rw [hs] at h; cases h
    | ok r1 =>
      rw [hs] at h
      have h1 := runStep_keeps_ty_shape hs
      have h2 := ih h
      exact ⟨h2.1.trans h1.1, h2.2.trans h1.2⟩

/-- **The load model replaces the running detector's data with the file's**: whatever the models
before it did (`pre`, any length, any writes — as long as they ran), the pipeline continues
exactly as if it had started from the file's containers; later models and the final result see
the loaded state. -/
theorem load_model_replaces_state (r0 r1 : Running P) (pre post : List (Step P))
    (file : Store P) (hpre : runSteps runStep r0 pre = .ok r1) :
    runSteps runStep r0 (pre ++ Step.load r0.ty r0.shape file :: post)
      = runSteps runStep ⟨r0.ty, r0.shape, file⟩ post := by
  rw [runSteps_append, hpre]
  simp only [runSteps, runStep]
  obtain ⟨h1, h2⟩ := runSteps_keeps_ty_shape hpre
  simp only [h1, h2, ne_eq, not_true_eq_false, if_false]

/-- the model placed right after the load sees exactly the file's containers -/
theorem next_model_sees_loaded_state (r0 r1 : Running P) (pre : List (Step P)) (file : Store P)
    (hpre : runSteps runStep r0 pre = .ok r1) :
    runSteps runStep r0 (pre ++ [Step.load r0.ty r0.shape file]) = .ok ⟨r0.ty, r0.shape, file⟩ := by
  rw [load_model_replaces_state r0 r1 pre [] file hpre]
  rfl

/-- a container that no later model writes holds the file's content in the final result -/
theorem final_result_holds_loaded (r : Running P) (post : List (Step P)) (k : String)
    (hpost : ∀ s ∈ post, ∃ k' v, s = Step.write k' v ∧ k' ≠ k) :
    ∃ r', runSteps runStep r post = .ok r' ∧ r'.store k = r.store k := by
  induction post generalizing r with
  | nil => exact ⟨r, rfl, rfl⟩
  | cons s ss ih =>
    obtain ⟨k', v, rfl, hk⟩ := hpost s (by simp)
    simp only [runSteps, runStep]
    obtain ⟨r', h1, h2⟩ := ih { r with store := fun q => if q = k' then v else r.store q }
      (fun s hs => hpost s (by simp [hs]))
    refine ⟨r', h1, ?_⟩
    rw [h2]
    simp [Ne.symm hk]

/-- **History theorem: every execution of the load model yields the file's containers**, however
often it has been executed before and whatever happened in between (writes by models, the
emptying of the containers before a new readout, earlier loads of the same or of another file):
the state right after the `i`-th step, if that step is a load, is exactly the file's. -/
theorem every_load_yields_file (ss : List (Step P)) :
    ∀ (r0 : Running P) (tr : List (Running P)), runTrace runStep r0 ss = .ok tr →
      ∀ (i : Nat) (ty : String) (shape : Nat × Nat) (file : Store P),
        ss[i]? = some (Step.load ty shape file) → ∃ r, tr[i]? = some r ∧ r.store = file := by
  induction ss with
  | nil => intro r0 tr _ i ty shape file h; simp at h
  | cons s ss ih =>
    intro r0 tr htr i ty shape file hi
    simp only [runTrace] at htr
    cases hs : runStep r0 s with
    | error e => rw [hs] at htr; cases htr
    | ok r1 =>
      rw [hs] at htr
      simp only at htr
      cases ht : runTrace runStep r1 ss with
      | error e => rw [ht] at htr; cases htr
      | ok tr1 =>
        rw [ht] at htr
        simp only [Except.ok.injEq] at htr
        subst htr
        cases i with
        | zero =>
          simp only [List.getElem?_cons_zero, Option.some.injEq] at hi
          subst hi
          refine ⟨r1, by simp, ?_⟩
          simp only [runStep] at hs
          split at hs
          · cases hs
          · split at hs
            · cases hs
            · simp only [Except.ok.injEq] at hs; subst hs; rfl
        | succ i =>
          simp only [List.getElem?_cons_succ] at hi
          obtain ⟨r, hr, hf⟩ := ih r1 tr1 ht i ty shape file hi
          exact ⟨r, by simpa using hr, hf⟩

-- non-vacuity: two readouts; the containers are emptied before the second one and the load model runs
-- again on the same file: both executions give the file's photon
example : (match runTrace runStep (⟨"CCD", (3, 4), fun _ => none⟩ : Running Nat)
      [.load "CCD" (3, 4) (fun k => if k = "photon" then some 7 else none), .write "pixel" (some 1),
       .write "photon" none,
       .load "CCD" (3, 4) (fun k => if k = "photon" then some 7 else none)] with
    | .ok tr => tr.map (·.store "photon")
    | .error _ => []) = [some 7, some 7, none, some 7] := by decide

-- counter-witness for the cached-and-shared variant (seeded defect C18-2): the emptying before the
-- second readout empties the cached object, and the second load hands it out again
example : (match runStepsShared (⟨⟨"CCD", (3, 4), fun _ => none⟩, none, false⟩ : Shared Nat)
      [.load "CCD" (3, 4) (fun k => if k = "photon" then some 7 else none),
       .write "photon" none,
       .load "CCD" (3, 4) (fun k => if k = "photon" then some 7 else none)] with
    | .ok w => w.run.store "photon"
    | .error _ => some 0) = none := by decide

-- the state after the load is *exactly* the file's: a container that is uninitialised in the file is
-- uninitialised afterwards, whatever the running detector held (`next_model_sees_loaded_state`); the
-- variant that skips the file's empty containers (seeded defect C18-4) keeps stale data instead
example : (match runSteps runStep (⟨"CCD", (3, 4), fun _ => none⟩ : Running Nat)
      [.write "photon" (some 1), .write "image" (some 2),
       .load "CCD" (3, 4) (fun k => if k = "photon" then some 7 else none)] with
    | .ok r => (r.store "photon", r.store "image")
    | .error _ => (none, none)) = (some 7, none) := by decide
example : (match runSteps runStepSkipEmpty (⟨"CCD", (3, 4), fun _ => none⟩ : Running Nat)
      [.write "photon" (some 1), .write "image" (some 2),
       .load "CCD" (3, 4) (fun k => if k = "photon" then some 7 else none)] with
    | .ok r => (r.store "photon", r.store "image")
    | .error _ => (none, none)) = (some 7, some 2) := by decide

/-- a stored detector of another type or another shape is refused -/
theorem load_mismatch_rejected (r : Running P) (ty : String) (shape : Nat × Nat) (file : Store P) :
    (ty ≠ r.ty → runStep r (.load ty shape file) = .error "TypeError") ∧
    (ty = r.ty → shape ≠ r.shape → runStep r (.load ty shape file) = .error "ValueError") := by
  constructor
  · intro h; simp [runStep, h]
  · intro h1 h2; simp [runStep, h1, h2]

-- non-vacuity: photon written, detector loaded, signal written afterwards
example : (match runSteps runStep (⟨"CCD", (3, 4), fun _ => none⟩ : Running Nat)
      [.write "photon" (some 1), .load "CCD" (3, 4) (fun k => if k = "photon" then some 7 else if k = "pixel" then some 8 else none),
       .write "signal" (some 3)] with
    | .ok r => (r.store "photon", r.store "pixel", r.store "signal")
    | .error _ => (none, none, none)) = (some 7, some 8, some 3) := by decide

-- counter-witness for the code before `C18-load-detector` (a local name is rebound): nothing changes
example : (match runSteps runStepNoop (⟨"CCD", (3, 4), fun _ => none⟩ : Running Nat)
      [.write "photon" (some 1), .load "CCD" (3, 4) (fun k => if k = "photon" then some 7 else none)] with
    | .ok r => r.store "photon"
    | .error _ => none) = some 1 := by decide

end PyxelModel.C18
