import PyxelModel.Model.C08
import PyxelModel.Lemmas.C08
import PyxelModel.Generated.C08
/-!
# C08 — property theorems (statement: properties.jsonl C08)

All theorems quantify over **every** settings tree (any depth, any number of slots, any kinds), every
key (any number of parts), every value and every family of validators `accepts`.  The functional model
returns the new processor only on success: "rejected" literally means that no new state exists, so
"rejected and nothing changed" is `setP … = .error _`.
-/
namespace PyxelModel.C08

/-! ## facts about today's source (regenerated on every run) -/

/-- `Processor.set` refuses a name that does not exist (the existence check is in the source). -/
theorem set_is_strict : PyxelModel.Generated.C08.setIsStrict = true := by decide

/-- `Processor.set` does not overwrite a method or another attribute of the class (such a name is a
read-only slot of the tree: `has` is true, assignment is refused). -/
theorem set_refuses_class_attributes : PyxelModel.Generated.C08.setRefusesClassAttrs = true := by decide

/-- `validate_steps` only derives a model name from keys that contain `.arguments`. -/
theorem enabled_sweep_fixed : PyxelModel.Generated.C08.enabledSweepFixed = true := by decide

/-- every entry point assigns through `Processor.set` (sweep, calibration, overrides). -/
theorem entry_points_use_set : PyxelModel.Generated.C08.entryPointsUseSet = true := by decide

/-! ## helper lemmas on slot lists -/

theorem find_replace_same {cs : Children} {a : String} {acc : Access} {c x : Tree}
    (h : find cs a = some (acc, c)) : find (replace cs a x) a = some (acc, x) := by
  induction cs with
  | nil => simp [find] at h
  | cons e r ih =>
    obtain ⟨m, a', t⟩ := e
    unfold find at h
    unfold replace
    by_cases hm : m = a
    · simp only [hm, if_true] at h ⊢
      simp only [find, if_true]
      cases h; rfl
    · simp only [hm, if_false] at h ⊢
      simp only [find, hm, if_false]
      exact ih h

theorem find_replace_ne {cs : Children} {a b : String} {x : Tree} (h : b ≠ a) :
    find (replace cs a x) b = find cs b := by
  induction cs with
  | nil => simp [replace]
  | cons e r ih =>
    obtain ⟨m, a', t⟩ := e
    unfold replace
    by_cases hm : m = a
    · simp only [hm, if_true]
      have : a ≠ b := fun e => h e.symm
      simp [find, this]
    · simp only [hm, if_false]
      by_cases hb : m = b
      · simp [find, hb]
      · simp [find, hb, ih]

theorem find_append_none {cs : Children} {a : String} {e : Access × Tree}
    (h : find cs a = none) : find (cs ++ [(a, e.1, e.2)]) a = some e := by
  induction cs with
  | nil => simp [find]
  | cons x r ih =>
    obtain ⟨m, a', t⟩ := x
    unfold find at h
    by_cases hm : m = a
    · simp [hm] at h
    · simp only [hm, if_false] at h
      simp only [List.cons_append, find, hm, if_false]
      exact ih h

theorem find_append_ne {cs : Children} {a b : String} {e : Access × Tree} (h : b ≠ a) :
    find (cs ++ [(a, e.1, e.2)]) b = find cs b := by
  induction cs with
  | nil =>
    have : a ≠ b := fun e => h e.symm
    simp [find, this]
  | cons x r ih =>
    obtain ⟨m, a', t⟩ := x
    by_cases hm : m = b
    · simp [find, hm]
    · simp [find, hm, ih]

/-- `setP` only ever returns objects (never a bare value, never `None`). -/
theorem setP_ok_is_node {strict : Bool} {accepts : Nat → Val → Except Err Unit}
    {t t' : Tree} {p : List String} {v : Val} (h : setP strict accepts t p v = .ok t') :
    ∃ k cs, t' = .node k cs := by
  match t, p with
  | _, [] => simp [setP] at h
  | .node k cs, [a] =>
    unfold setP at h
    split at h
    · cases h
    · cases h; exact ⟨_, _, rfl⟩
    · split at h
      · cases h; exact ⟨_, _, rfl⟩
      · cases h
    · split at h
      · cases h
      · cases h; exact ⟨_, _, rfl⟩
  | .leaf _, [a] => simp [setP] at h
  | .pynone, [a] => simp [setP] at h
  | .node k cs, p :: q :: ps =>
    unfold setP at h
    split at h
    · cases h
    · split at h
      · cases h; exact ⟨_, _, rfl⟩
      · cases h
    · split at h <;> cases h
  | .leaf _, _ :: _ :: _ => simp [setP] at h
  | .pynone, _ :: _ :: _ => simp [setP] at h

/-! ## reading back -/

/-- **Reading back returns the assigned value** — for every tree, key, value, validator family, with or
without the existence check. -/
theorem get_set_same {strict : Bool} {accepts : Nat → Val → Except Err Unit}
    {t t' : Tree} {p : List String} {v : Val} (h : setP strict accepts t p v = .ok t') :
    getP t' p = .ok (.leaf (some v)) := by
  induction p generalizing t t' with
  | nil => simp [setP] at h
  | cons a ps ih =>
    match t, ps with
    | .node k cs, [] =>
      unfold setP at h
      split at h
      · cases h
      · next hf =>
        cases h
        simp [getP, find_replace_same hf]
      · next hf =>
        split at h
        · cases h
          simp [getP, find_replace_same hf]
        · cases h
      · next hf =>
        split at h
        · cases h
        · cases h
          simp [getP, find_append_none (e := (Access.rw, Tree.leaf (some v))) hf]
    | .leaf _, [] => simp [setP] at h
    | .pynone, [] => simp [setP] at h
    | .node k cs, q :: qs =>
      unfold setP at h
      split at h
      · cases h
      · next acc c hne hf =>
        split at h
        · next c' hc =>
          cases h
          obtain ⟨k', cs', rfl⟩ := setP_ok_is_node hc
          have := ih hc
          simp only [getP, find_replace_same hf]
          exact this
        · cases h
      · split at h <;> cases h
    | .leaf _, _ :: _ => simp [setP] at h
    | .pynone, _ :: _ => simp [setP] at h

/-- Non-vacuity: a three-level key on a concrete processor. -/
example :
    let t : Tree := .node .obj [("detector", .rw, .node .obj [("geometry", .ro,
      .node .obj [("row", .rw, .leaf (some (.int 3))), ("col", .rw, .leaf (some (.int 4)))])])]
    ∃ t', setP true (fun _ _ => .ok ()) t ["detector", "geometry", "row"] (.int 7) = .ok t' ∧
      getP t' ["detector", "geometry", "row"] = .ok (.leaf (some (.int 7))) ∧
      getP t' ["detector", "geometry", "col"] = .ok (.leaf (some (.int 4))) :=
  ⟨_, rfl, rfl, rfl⟩

/-! ## frame: nothing else changes -/

/-- **Assigning through a key changes that setting and nothing else**: every key `q` that is neither a
prefix nor an extension of `p` reads exactly what it read before (value *or* error) — all depths. -/
theorem get_set_other {strict : Bool} {accepts : Nat → Val → Except Err Unit}
    {t t' : Tree} {p q : List String} {v : Val} (h : setP strict accepts t p v = .ok t')
    (hpq : ¬ p <+: q) (hqp : ¬ q <+: p) : getP t' q = getP t q := by
  induction p generalizing t t' q with
  | nil => simp [setP] at h
  | cons a ps ih =>
    match q with
    | [] => exact absurd List.nil_prefix hqp
    | b :: qs =>
    match t, ps with
    | .node k cs, [] =>
      have hba : b ≠ a := by
        rintro rfl
        exact hpq (by simp)
      unfold setP at h
      split at h
      · cases h
      · cases h; simp [getP, find_replace_ne hba]
      · split at h
        · cases h; simp [getP, find_replace_ne hba]
        · cases h
      · split at h
        · cases h
        · cases h
          simp [getP, find_append_ne (e := (Access.rw, Tree.leaf (some v))) hba]
    | .leaf _, [] => simp [setP] at h
    | .pynone, [] => simp [setP] at h
    | .node k cs, r :: rs =>
      unfold setP at h
      split at h
      · cases h
      · next acc c hne hf =>
        split at h
        · next c' hc =>
          cases h
          by_cases hba : b = a
          · subst hba
            obtain ⟨k', cs', rfl⟩ := setP_ok_is_node hc
            have h1 : ¬ (r :: rs) <+: qs := fun hh => hpq (by simpa using hh)
            have h2 : ¬ qs <+: (r :: rs) := fun hh => hqp (by simpa using hh)
            have := ih hc h1 h2
            simp only [getP, find_replace_same hf, hf]
            rw [this]
          · simp [getP, find_replace_ne hba]
        · cases h
      · split at h <;> cases h
    | .leaf _, _ :: _ => simp [setP] at h
    | .pynone, _ :: _ => simp [setP] at h

/-- the same frame statement for `has` -/
theorem has_set_other {strict : Bool} {accepts : Nat → Val → Except Err Unit}
    {t t' : Tree} {p q : List String} {v : Val} (h : setP strict accepts t p v = .ok t')
    (hpq : ¬ p <+: q) (hqp : ¬ q <+: p) : hasP t' q = hasP t q := by
  induction p generalizing t t' q with
  | nil => simp [setP] at h
  | cons a ps ih =>
    match q with
    | [] => exact absurd List.nil_prefix hqp
    | b :: qs =>
    match t, ps with
    | .node k cs, [] =>
      have hba : b ≠ a := by
        rintro rfl
        exact hpq (by simp)
      have key : ∀ cs', find cs' b = find cs b → hasP (.node k cs') (b :: qs) = hasP (.node k cs) (b :: qs) := by
        intro cs' hx
        cases qs with
        | nil => simp [hasP, hx]
        | cons _ _ => simp [hasP, hx]
      unfold setP at h
      split at h
      · cases h
      · cases h; exact key _ (find_replace_ne hba)
      · split at h
        · cases h; exact key _ (find_replace_ne hba)
        · cases h
      · split at h
        · cases h
        · cases h
          exact key _ (find_append_ne (e := (Access.rw, Tree.leaf (some v))) hba)
    | .leaf _, [] => simp [setP] at h
    | .pynone, [] => simp [setP] at h
    | .node k cs, r :: rs =>
      unfold setP at h
      split at h
      · cases h
      · next acc c hne hf =>
        split at h
        · next c' hc =>
          cases h
          by_cases hba : b = a
          · subst hba
            obtain ⟨k', cs', rfl⟩ := setP_ok_is_node hc
            have h1 : ¬ (r :: rs) <+: qs := fun hh => hpq (by simpa using hh)
            have h2 : ¬ qs <+: (r :: rs) := fun hh => hqp (by simpa using hh)
            have hrec := ih hc h1 h2
            cases qs with
            | nil => exact absurd (by simp) hqp
            | cons s ss =>
              simp only [hasP, find_replace_same hf, hf]
              rw [hrec]
          · cases qs with
            | nil => simp [hasP, find_replace_ne hba]
            | cons _ _ => simp [hasP, find_replace_ne hba]
        · cases h
      · split at h <;> cases h
    | .leaf _, _ :: _ => simp [setP] at h
    | .pynone, _ :: _ => simp [setP] at h

/-! ## histories: several assignments, copies of the processor

The model is functional: `copy.deepcopy`, `Processor.replace`, `create_new_processor` and
`update_processor` hand the *value* `t` to a new owner, and nothing done through the copy can reach the
original (`t` is still `t`).  What remains to be said is what a processor reads after a whole history of
assignments made through it. -/

theorem setAll_append {strict : Bool} {accepts : Nat → Val → Except Err Unit} {t t' : Tree}
    {as bs : List (List String × Val)} (h : setAll strict accepts t (as ++ bs) = .ok t') :
    ∃ t1, setAll strict accepts t as = .ok t1 ∧ setAll strict accepts t1 bs = .ok t' := by
  induction as generalizing t with
  | nil => exact ⟨t, rfl, h⟩
  | cons a as ih =>
    obtain ⟨p, v⟩ := a
    simp only [List.cons_append, setAll] at h ⊢
    cases hs : setP strict accepts t p v with
    | error e => rw [hs] at h; cases h
    | ok t2 =>
      rw [hs] at h
      exact ih h

/-- a history of assignments to keys unrelated to `q` leaves what `q` reads untouched -/
theorem get_after_unrelated_history {strict : Bool} {accepts : Nat → Val → Except Err Unit} {t t' : Tree}
    {bs : List (List String × Val)} {q : List String} (h : setAll strict accepts t bs = .ok t')
    (hb : ∀ b ∈ bs, ¬ b.1 <+: q ∧ ¬ q <+: b.1) : getP t' q = getP t q := by
  induction bs generalizing t with
  | nil => simp only [setAll] at h; cases h; rfl
  | cons b bs ih =>
    obtain ⟨p, v⟩ := b
    simp only [setAll] at h
    cases hs : setP strict accepts t p v with
    | error e => rw [hs] at h; cases h
    | ok t2 =>
      rw [hs] at h
      have h1 := hb (p, v) (by simp)
      rw [ih h (fun b hb' => hb b (by simp [hb'])), get_set_other hs h1.1 h1.2]

/-- **After any history of assignments made through one processor, a key reads the last value assigned
to it through that processor** (provided no later assignment went to a prefix or an extension of it) —
whatever was assigned before, to this key or to others, on this processor or on the one it was copied
from. -/
theorem get_after_history {strict : Bool} {accepts : Nat → Val → Except Err Unit} {t t' : Tree}
    {as bs : List (List String × Val)} {p : List String} {v : Val}
    (h : setAll strict accepts t (as ++ (p, v) :: bs) = .ok t')
    (hb : ∀ b ∈ bs, ¬ b.1 <+: p ∧ ¬ p <+: b.1) : getP t' p = .ok (.leaf (some v)) := by
  obtain ⟨t1, _, h2⟩ := setAll_append h
  simp only [setAll] at h2
  cases hs : setP strict accepts t1 p v with
  | error e => rw [hs] at h2; cases h2
  | ok t2 =>
    rw [hs] at h2
    rw [get_after_unrelated_history h2 hb, get_set_same hs]

/-- Non-vacuity: override, (copy), sweep value on the same key, another key in between. -/
example :
    let t : Tree := .node .obj [("m", .rw, .node .args [("level", .rw, .leaf (some (.int 1))), ("seed", .rw, .leaf (some .none))])]
    ∃ t', setAll true (fun _ _ => .ok ()) t
        [(["m", "level"], .int 50), (["m", "seed"], .int 7), (["m", "level"], .int 200)] = .ok t' ∧
      getP t' ["m", "level"] = .ok (.leaf (some (.int 200))) ∧ getP t' ["m", "seed"] = .ok (.leaf (some (.int 7))) :=
  ⟨_, rfl, rfl, rfl⟩

/-! ## calibration variables: every key receives its own slice, whatever the declaration order -/

theorem slices_keys (vars : List (List String × Option Nat)) (xs : List Val) :
    (slices vars xs).map Prod.fst = vars.map Prod.fst := by
  induction vars generalizing xs with
  | nil => rfl
  | cons v r ih =>
    obtain ⟨k, w⟩ := v
    cases w <;> simp [slices, ih]

/-- **After `update_processor`, every calibration key reads exactly the slice computed for it** — scalar
and vector variables in any order and number, provided the keys are distinct settings (pairwise unrelated);
nothing assigned for a later variable can disturb an earlier one. -/
theorem get_after_calUpdate {strict : Bool} {accepts : Nat → Val → Except Err Unit} {t t' : Tree}
    {vars : List (List String × Option Nat)} {xs : List Val}
    (h : calUpdate strict accepts t vars xs = .ok t')
    (hk : (vars.map Prod.fst).Pairwise (fun p q => ¬ q <+: p ∧ ¬ p <+: q))
    {k : List String} {v : Val} (hm : (k, v) ∈ slices vars xs) : getP t' k = .ok (.leaf (some v)) := by
  unfold calUpdate at h
  obtain ⟨as, bs, hsplit⟩ := List.append_of_mem hm
  rw [hsplit] at h
  apply get_after_history h
  intro b hb
  have hkeys : ((as ++ (k, v) :: bs).map Prod.fst).Pairwise (fun p q => ¬ q <+: p ∧ ¬ p <+: q) := by
    rw [← hsplit, slices_keys]; exact hk
  rw [List.map_append, List.map_cons, List.pairwise_append] at hkeys
  have := (List.pairwise_cons.mp hkeys.2.1).1 b.1 (List.mem_map.mpr ⟨b, hb, rfl⟩)
  exact this

/-- Non-vacuity: a vector variable first, then a scalar, then another vector (the order of seeded defect C08-9). -/
example :
    let t : Tree := .node .args [("a", .rw, .leaf none), ("b", .rw, .leaf none), ("c", .rw, .leaf none)]
    ∃ t', calUpdate true (fun _ _ => .ok ()) t [(["a"], some 2), (["b"], none), (["c"], some 1)]
        [.int 10, .int 11, .int 12, .int 13] = .ok t' ∧
      getP t' ["a"] = .ok (.leaf (some (.list [.int 10, .int 11]))) ∧
      getP t' ["b"] = .ok (.leaf (some (.int 12))) ∧ getP t' ["c"] = .ok (.leaf (some (.list [.int 13]))) :=
  ⟨_, rfl, rfl, rfl, rfl⟩

/-! ## command-line overrides are never cut -/

def joinEq : List (List Char) → List Char
  | [] => []
  | [a] => a
  | a :: b :: r => a ++ '=' :: joinEq (b :: r)

theorem splitOnEq_ne_nil (cs : List Char) : splitOnEq cs ≠ [] := by
  induction cs with
  | nil => simp [splitOnEq]
  | cons c r ih =>
    unfold splitOnEq
    split
    · simp
    · split <;> simp

theorem joinEq_splitOnEq (cs : List Char) : joinEq (splitOnEq cs) = cs := by
  induction cs with
  | nil => rfl
  | cons c r ih =>
    unfold splitOnEq
    by_cases hc : c = '='
    · simp only [hc, if_true]
      cases hs : splitOnEq r with
      | nil => exact absurd hs (splitOnEq_ne_nil r)
      | cons h t => rw [hs] at ih; simp [joinEq, ih]
    · simp only [hc, if_false]
      cases hs : splitOnEq r with
      | nil => exact absurd hs (splitOnEq_ne_nil r)
      | cons h t =>
        rw [hs] at ih
        cases t with
        | nil => simp only [joinEq] at ih ⊢; rw [ih]
        | cons b r' => simp only [joinEq] at ih ⊢; rw [← ih]; simp

theorem splitOnEq_no_eq (cs : List Char) : ∀ p ∈ splitOnEq cs, '=' ∉ p := by
  induction cs with
  | nil => simp [splitOnEq]
  | cons c r ih =>
    unfold splitOnEq
    by_cases hc : c = '='
    · simp only [hc, if_true]
      intro p hp
      rcases List.mem_cons.mp hp with rfl | hp
      · simp
      · exact ih p hp
    · simp only [hc, if_false]
      cases hs : splitOnEq r with
      | nil => exact absurd hs (splitOnEq_ne_nil r)
      | cons h t =>
        rw [hs] at ih
        intro p hp
        rcases List.mem_cons.mp hp with rfl | hp
        · have := ih h (by simp)
          intro hm
          rcases List.mem_cons.mp hm with e | e
          · exact hc e.symm
          · exact this e
        · exact ih p (by simp [hp])

/-- **An accepted override is `key=value` with the whole rest of the text as value**: nothing is dropped, and
neither part contains a `=` (a text with no or several `=` is refused, before anything runs). -/
theorem parseOverride_ok {cs k v : List Char} (h : parseOverride cs = .ok (k, v)) :
    cs = k ++ '=' :: v ∧ '=' ∉ k ∧ '=' ∉ v := by
  unfold parseOverride at h
  split at h
  · next k' v' hs =>
    cases h
    have hj := joinEq_splitOnEq cs
    have hn := splitOnEq_no_eq cs
    rw [hs] at hj hn
    exact ⟨by simpa [joinEq] using hj.symm, hn k (by simp), hn v (by simp)⟩
  · cases h

theorem splitOnEq_of_no_eq {v : List Char} (h : '=' ∉ v) : splitOnEq v = [v] := by
  induction v with
  | nil => rfl
  | cons c r ih =>
    have hc : c ≠ '=' := fun e => h (by simp [e])
    have hr : '=' ∉ r := fun e => h (by simp [e])
    simp [splitOnEq, hc, ih hr]

/-- conversely every `key=value` without further `=` is accepted as written -/
theorem parseOverride_of_single_eq {k v : List Char} (hk : '=' ∉ k) (hv : '=' ∉ v) :
    parseOverride (k ++ '=' :: v) = .ok (k, v) := by
  have : splitOnEq (k ++ '=' :: v) = [k, v] := by
    induction k with
    | nil => simp [splitOnEq, splitOnEq_of_no_eq hv]
    | cons c r ih =>
      have hc : c ≠ '=' := fun e => hk (by simp [e])
      have hr : '=' ∉ r := fun e => hk (by simp [e])
      simp [splitOnEq, hc, ih hr]
  simp [parseOverride, this]

example : parseOverride "a.b=run=7/flat.fits".toList = .error .value := by rfl
example : parseOverride "a.b=7".toList = .ok ("a.b".toList, "7".toList) := by rfl

/-! ## a key either resolves to exactly one existing slot, or is rejected -/

/-- `has` answers `True` exactly for the keys that name an existing slot (`slotAt` is a function:
the slot is unique by construction). -/
theorem has_true_iff_resolves {t : Tree} {p : List String} :
    hasP t p = .ok true ↔ (slotAt t p).isSome = true := by
  induction p generalizing t with
  | nil => simp [hasP, slotAt]
  | cons a ps ih =>
    match t, ps with
    | .node k cs, [] => simp [hasP, slotAt]
    | .leaf _, [] => simp [hasP, slotAt]
    | .pynone, [] => simp [hasP, slotAt]
    | .leaf _, _ :: _ => simp [hasP, slotAt]
    | .pynone, _ :: _ => simp [hasP, slotAt]
    | .node k cs, q :: qs =>
      unfold hasP slotAt
      cases hf : find cs a with
      | none =>
        by_cases hk : k = .group <;> simp [hk]
      | some e =>
        obtain ⟨acc, c⟩ := e
        cases c with
        | leaf o =>
          cases o with
          | none => simp [slotAt]
          | some x => simpa using ih (t := .leaf (some x))
        | node k' cs' => simpa using ih (t := .node k' cs')
        | pynone => simpa using ih (t := .pynone)

/-- what the validators say about assigning `v` to a slot with access `a` -/
def writable (accepts : Nat → Val → Except Err Unit) (v : Val) : Access → Bool
  | .rw => true
  | .ro => false
  | .guarded g => (accepts g v).isOk

/-- **With the existence check, an assignment succeeds exactly when the key names an existing slot that
may be written** (and the validator of a validated field accepts the value).  In particular a misspelt
or truncated-into-nothing key is refused — whatever the kind of object, whatever the depth. -/
theorem set_ok_iff_resolves {accepts : Nat → Val → Except Err Unit} {t : Tree} {p : List String} {v : Val} :
    (∃ t', setP true accepts t p v = .ok t') ↔
      ∃ a c, slotAt t p = some (a, c) ∧ writable accepts v a = true := by
  induction p generalizing t with
  | nil => simp [setP, slotAt]
  | cons a ps ih =>
    match t, ps with
    | .leaf _, [] => simp [setP, slotAt]
    | .pynone, [] => simp [setP, slotAt]
    | .leaf _, _ :: _ => simp [setP, slotAt]
    | .pynone, _ :: _ => simp [setP, slotAt]
    | .node k cs, [] =>
      unfold setP slotAt
      cases hf : find cs a with
      | none => simp
      | some e =>
        obtain ⟨acc, c⟩ := e
        cases acc with
        | rw => simp [writable]
        | ro => simp [writable]
        | guarded g =>
          cases hg : accepts g v with
          | ok u => simp [writable, hg, Except.isOk, Except.toBool]
          | error e => simp [writable, hg, Except.isOk, Except.toBool]
    | .node k cs, q :: qs =>
      unfold setP slotAt
      cases hf : find cs a with
      | none => by_cases hk : k = .group <;> simp [hk]
      | some e =>
        obtain ⟨acc, c⟩ := e
        have hrec := ih (t := c)
        cases c with
        | leaf o =>
          cases o with
          | none => simp [slotAt]
          | some x =>
            simp only []
            rw [← hrec]
            constructor
            · rintro ⟨t', h⟩
              split at h
              · exact ⟨_, by assumption⟩
              · cases h
            · rintro ⟨c', h⟩
              exact ⟨_, by rw [h]⟩
        | node k' cs' =>
          simp only []
          rw [← hrec]
          constructor
          · rintro ⟨t', h⟩
            split at h
            · exact ⟨_, by assumption⟩
            · cases h
          · rintro ⟨c', h⟩
            exact ⟨_, by rw [h]⟩
        | pynone =>
          simp only []
          rw [← hrec]
          constructor
          · rintro ⟨t', h⟩
            split at h
            · exact ⟨_, by assumption⟩
            · cases h
          · rintro ⟨c', h⟩
            exact ⟨_, by rw [h]⟩

/-- **A key that names no existing setting is rejected** (statement: "or is rejected before any pipeline
runs"; nothing has been modified: no new processor exists).  Needs the existence check. -/
theorem set_missing_rejected {accepts : Nat → Val → Except Err Unit} {t : Tree} {p : List String} {v : Val}
    (h : hasP t p ≠ .ok true) : ∃ e, setP true accepts t p v = .error e := by
  cases hs : setP true accepts t p v with
  | error e => exact ⟨e, rfl⟩
  | ok t' =>
    obtain ⟨a, c, hsl, _⟩ := set_ok_iff_resolves.mp ⟨t', hs⟩
    exact absurd (has_true_iff_resolves.mpr (by simp [hsl])) h

/-- `Arguments` refuses an undeclared argument even without the existence check (all depths). -/
theorem set_undeclared_argument_rejected {strict : Bool} {accepts : Nat → Val → Except Err Unit}
    {cs : Children} {a : String} {v : Val} (h : find cs a = none) :
    setP strict accepts (.node .args cs) [a] v = .error .attr := by
  simp [setP, h]

/-- Counter-witness for the pinned code (`strict = false`): a misspelt field name on a plain object is
accepted and **creates** a setting, the real one keeps its value. -/
example :
    let t : Tree := .node .obj [("characteristics", .ro, .node .obj [("quantum_efficiency", .guarded 0, .leaf (some (.num 1)))])]
    let p := ["characteristics", "quantum_eficiency"]
    hasP t p = .ok false ∧
    (∃ t', setP false (fun _ _ => .ok ()) t p (.num 0) = .ok t' ∧ getP t' p = .ok (.leaf (some (.num 0))) ∧
      getP t' ["characteristics", "quantum_efficiency"] = .ok (.leaf (some (.num 1)))) ∧
    setP true (fun _ _ => .ok ()) t p (.num 0) = .error .attr :=
  ⟨rfl, ⟨_, rfl, rfl, rfl⟩, rfl⟩

/-- what `get` returns is the resolved slot's content; an unset validated field reads as `ValueError` -/
theorem get_eq_slot {t c : Tree} {p : List String} {a : Access} (h : slotAt t p = some (a, c)) :
    (c = .leaf none ∧ getP t p = .error .value) ∨ (c ≠ .leaf none ∧ getP t p = .ok c) := by
  induction p generalizing t with
  | nil => simp [slotAt] at h
  | cons b ps ih =>
    match t, ps with
    | .leaf _, [] => simp [slotAt] at h
    | .pynone, [] => simp [slotAt] at h
    | .leaf _, _ :: _ => simp [slotAt] at h
    | .pynone, _ :: _ => simp [slotAt] at h
    | .node k cs, [] =>
      simp only [slotAt] at h
      simp only [getP, h]
      cases c with
      | leaf o => cases o <;> simp
      | node _ _ => simp
      | pynone => simp
    | .node k cs, q :: qs =>
      simp only [slotAt] at h
      cases hf : find cs b with
      | none => simp [hf] at h
      | some e =>
        obtain ⟨acc, d⟩ := e
        simp only [hf] at h
        have := ih h
        simp only [getP, hf]
        cases d with
        | leaf o =>
          cases o with
          | none => simp [slotAt] at h
          | some x => simpa using this
        | node _ _ => simpa using this
        | pynone => simpa using this

/-! ## `validate_steps`: sweeping an undeclared argument or an argument of a disabled model is an error -/

theorem find_map {β : Type} (l : List β) (f : β → String) (acc : β → Access) (tr : β → Tree) (n : String) :
    find (l.map fun x => (f x, acc x, tr x)) n =
      (l.find? (fun x => decide (f x = n))).map fun x => (acc x, tr x) := by
  induction l with
  | nil => simp [find]
  | cons x r ih =>
    by_cases h : f x = n
    · simp [find, h]
    · simp [find, h, ih]

theorem sw_args : startsWith "arguments" "arguments" = true := by decide
theorem sw_enabled : startsWith "enabled" "arguments" = false := by decide
theorem ew_pipeline : endsWith "pipeline" "pipeline" = true := by decide

theorem find_args_isSome (kvs : List (String × Val)) (a : String) :
    (find (kvs.map fun kv => (kv.1, Access.rw, Tree.leaf (some kv.2))) a).isSome = decide (a ∈ kvs.map Prod.fst) := by
  induction kvs with
  | nil => simp [find]
  | cons kv r ih =>
    by_cases h : kv.1 = a
    · simp [find, h]
    · have h' : ¬ a = kv.1 := fun e => h e.symm
      simp [find, h, h', ih]

theorem has_processor (det : Tree) (gs) (q : String) (qs : List String) :
    hasP (processorTree det gs) ("pipeline" :: q :: qs) = hasP (pipelineTree gs) (q :: qs) := by
  have e1 : ("detector" = "pipeline") = False := by decide
  simp [processorTree, hasP, find, e1, pipelineTree]

theorem get_processor (det : Tree) (gs) (qs : List String) :
    getP (processorTree det gs) ("pipeline" :: qs) = getP (pipelineTree gs) qs := by
  have e1 : ("detector" = "pipeline") = False := by decide
  simp [processorTree, getP, find, e1, pipelineTree]

theorem has_pipeline (gs : List (String × Option (List ModelCfg))) (g q : String) (qs : List String) :
    hasP (pipelineTree gs) (g :: q :: qs) =
      match gs.find? (fun e => decide (e.1 = g)) with
      | some (_, some ms) => hasP (groupTree ms) (q :: qs)
      | _ => .ok false := by
  have hfg : find (gs.map fun g => (g.1, Access.ro, groupSlot g.2)) g =
      (gs.find? (fun e => decide (e.1 = g))).map fun g => (Access.ro, groupSlot g.2) := find_map gs _ _ _ g
  unfold pipelineTree
  rw [hasP, hfg]
  cases gs.find? (fun e => decide (e.1 = g)) with
  | none => simp
  | some ge =>
    obtain ⟨gn, gms⟩ := ge
    cases gms with
    | none => cases qs <;> simp [hasP, groupSlot]
    | some ms => simp [groupSlot, groupTree]

theorem get_pipeline (gs : List (String × Option (List ModelCfg))) (g : String) (qs : List String) :
    getP (pipelineTree gs) (g :: qs) =
      match gs.find? (fun e => decide (e.1 = g)) with
      | some (_, some ms) => getP (groupTree ms) qs
      | some (_, none) => getP .pynone qs
      | none => .error .attr := by
  have hfg : find (gs.map fun g => (g.1, Access.ro, groupSlot g.2)) g =
      (gs.find? (fun e => decide (e.1 = g))).map fun g => (Access.ro, groupSlot g.2) := find_map gs _ _ _ g
  unfold pipelineTree
  rw [getP, hfg]
  cases gs.find? (fun e => decide (e.1 = g)) with
  | none => simp
  | some ge =>
    obtain ⟨gn, gms⟩ := ge
    cases gms with
    | none => simp [groupSlot]
    | some ms => simp [groupSlot, groupTree]

theorem has_group (ms : List ModelCfg) (m q : String) (qs : List String) :
    hasP (groupTree ms) (m :: q :: qs) =
      match ms.find? (fun c => decide (c.name = m)) with
      | some c => hasP (modelTree c) (q :: qs)
      | none => .error .key := by
  have hfm : find (ms.map fun m => (m.name, Access.rw, modelTree m)) m =
      (ms.find? (fun c => decide (c.name = m))).map fun m => (Access.rw, modelTree m) := find_map ms _ _ _ m
  unfold groupTree
  rw [hasP, hfm]
  cases ms.find? (fun c => decide (c.name = m)) with
  | none => simp
  | some c => simp [modelTree]

theorem get_group (ms : List ModelCfg) (m : String) (qs : List String) :
    getP (groupTree ms) (m :: qs) =
      match ms.find? (fun c => decide (c.name = m)) with
      | some c => getP (modelTree c) qs
      | none => .error .attr := by
  have hfm : find (ms.map fun m => (m.name, Access.rw, modelTree m)) m =
      (ms.find? (fun c => decide (c.name = m))).map fun m => (Access.rw, modelTree m) := find_map ms _ _ _ m
  unfold groupTree
  rw [getP, hfm]
  cases ms.find? (fun c => decide (c.name = m)) with
  | none => simp
  | some c => simp [modelTree]

theorem has_model_arg (c : ModelCfg) (a : String) :
    hasP (modelTree c) ["arguments", a] = .ok (decide (a ∈ c.args.map Prod.fst)) := by
  have e2 : ("enabled" = "arguments") = False := by decide
  have e3 : ("name" = "arguments") = False := by decide
  simp [modelTree, hasP, find, e2, e3, argsTree, find_args_isSome]

theorem has_model_enabled (c : ModelCfg) : hasP (modelTree c) ["enabled"] = .ok true := by
  simp [modelTree, hasP, find]

theorem get_model_enabled (c : ModelCfg) :
    getP (modelTree c) ["enabled"] = .ok (.leaf (some (.bool c.enabled))) := by
  simp [modelTree, getP, find]

/-- **`validate_steps` on a model-argument key is the statement's rule** — for every configuration
(any groups, absent groups, any number of models, duplicate names, any argument lists), any detector
subtree, with or without the `.enabled` repair.  (`g`, `m` not starting with `arguments`: the code
searches the *text* `.arguments`.) -/
theorem validate_argument_spec (fixed : Bool) (det : Tree) (gs : List (String × Option (List ModelCfg)))
    (g m a : String) (vals : List Val) (custom : Bool)
    (hg : startsWith g "arguments" = false) (hm : startsWith m "arguments" = false) :
    validateStep fixed (processorTree det gs) ["pipeline", g, m, "arguments", a] vals custom =
      validateArgSpec gs g m a vals custom := by
  have hidx : argIdx ["pipeline", g, m, "arguments", a] = some 3 := by
    simp [argIdx, argIdxFrom, hg, hm, sw_args]
  have hpd : pipelineDot ["pipeline", g, m, "arguments", a] = true := by
    simp [pipelineDot, ew_pipeline]
  unfold validateStep validateArgSpec cfgModel enabledOf
  rw [hidx, hpd, has_processor, has_pipeline]
  simp only [List.take, List.cons_append, List.nil_append, get_processor, get_pipeline, if_true]
  cases gs.find? (fun e => decide (e.1 = g)) with
  | none => simp
  | some ge =>
    obtain ⟨gn, gms⟩ := ge
    cases gms with
    | none => simp
    | some ms =>
      simp only [has_group, get_group]
      cases ms.find? (fun c => decide (c.name = m)) with
      | none => simp
      | some c =>
        simp only [has_model_arg, get_model_enabled]
        by_cases ha : a ∈ c.args.map Prod.fst
        · by_cases hen : c.enabled = true
          · simp [ha, hen, truthy]
          · simp [ha, hen, truthy]
        · simp [ha]

/-- **Sweeping a model's `enabled` flag** (repaired `validate_steps`): accepted exactly when the model
exists — whether or not it is currently enabled. -/
theorem validate_enabled_spec (det : Tree) (gs : List (String × Option (List ModelCfg)))
    (g m : String) (vals : List Val) (custom : Bool)
    (hg : startsWith g "arguments" = false) (hm : startsWith m "arguments" = false) :
    validateStep true (processorTree det gs) ["pipeline", g, m, "enabled"] vals custom =
      match cfgModel gs g m with
      | none => .error .key
      | some _ => if vals.any isUnderscore && !custom then .error .value else .ok () := by
  have hidx : argIdx ["pipeline", g, m, "enabled"] = none := by
    simp [argIdx, argIdxFrom, hg, hm, sw_enabled]
  have hpd : pipelineDot ["pipeline", g, m, "enabled"] = true := by
    simp [pipelineDot, ew_pipeline]
  unfold validateStep cfgModel
  rw [hidx, hpd, has_processor, has_pipeline]
  cases gs.find? (fun e => decide (e.1 = g)) with
  | none => simp
  | some ge =>
    obtain ⟨gn, gms⟩ := ge
    cases gms with
    | none => simp
    | some ms =>
      simp only [has_group]
      cases ms.find? (fun c => decide (c.name = m)) with
      | none => simp
      | some c => simp [has_model_enabled]


example : validateStep true (processorTree .pynone [("photon_collection",
      some [⟨"illumination", true, [("level", .int 1)]⟩, ⟨"shot_noise", false, [("seed", .none)]⟩])])
    ["pipeline", "photon_collection", "illumination", "arguments", "level"] [.int 1, .int 2] false = .ok () := by
  rfl

example : validateStep true (processorTree .pynone [("photon_collection",
      some [⟨"illumination", true, [("level", .int 1)]⟩, ⟨"shot_noise", false, [("seed", .none)]⟩])])
    ["pipeline", "photon_collection", "shot_noise", "arguments", "seed"] [.int 1, .int 2] false = .error .value := by
  rfl

/-- Counter-witness for the pinned `validate_steps` (`fixed = false`): the existing flag of an existing,
enabled model is refused with `AttributeError` (`key[:-1] + ".enabled"` names nothing). -/
example : validateStep false (processorTree .pynone [("photon_collection",
      some [⟨"illumination", true, [("level", .int 1)]⟩])])
    ["pipeline", "photon_collection", "illumination", "enabled"] [.bool true, .bool false] false
      = .error .attr := by
  rfl

example : validateStep true (processorTree .pynone [("photon_collection",
      some [⟨"illumination", false, [("level", .int 1)]⟩])])
    ["pipeline", "photon_collection", "illumination", "enabled"] [.bool true, .bool false] false
      = .ok () := by
  rfl

/-! ## textual values are converted to the number, list or string they literally denote -/

/-- **Literal round trip.**  For every literal of the grammar — `None`, booleans, integers of any size,
decimal / scientific floats, quoted strings, lists and tuples nested to any depth — converting its text
gives exactly the value it denotes (structural induction over nested literals; no size bound). -/
theorem evalEntry_render (l : Lit) (hwf : l.wf = true) : evalChars (render l) = denote l := by
  have h := pVal_render l hwf ((render l).length + 1) [] (by have := fuel_le_length l; omega) rfl
  simp only [List.append_nil] at h
  simp [evalChars, h]

/-- the same through the `String` interface the driver uses -/
theorem evalEntry_render_string (l : Lit) (hwf : l.wf = true) :
    evalEntry (String.ofList (render l)) = denote l := by
  simp [evalEntry, evalEntry_render l hwf]

/-- `eval_entry` itself (with its final `assert`): every literal except a top-level `None` is accepted and
converted to what it denotes; `None` is refused. -/
theorem evalEntryPy_render (l : Lit) (hwf : l.wf = true) :
    evalEntryPy (String.ofList (render l)) =
      match l with
      | .none => .error .assertion
      | _ => .ok (denote l) := by
  unfold evalEntryPy
  rw [evalEntry_render_string l hwf]
  cases l <;> simp [denote]

/-- Non-vacuity: a nested literal with every kind of leaf. -/
example : evalEntry "[-5, 0.05e-3, 'ab', (None,), (True, False), (), [12.5]]" =
    denote (.list [.int true 5, .dec false 0 1 5 (some (true, 3)), .str false "ab".toList, .tuple [.none],
      .tuple [.bool true, .bool false], .tuple [], .list [.dec false 12 0 5 none]]) := by
  have : "[-5, 0.05e-3, 'ab', (None,), (True, False), (), [12.5]]" = String.ofList (render
      (.list [.int true 5, .dec false 0 1 5 (some (true, 3)), .str false "ab".toList, .tuple [.none],
        .tuple [.bool true, .bool false], .tuple [], .list [.dec false 12 0 5 none]])) := by decide
  rw [this]
  exact evalEntry_render_string _ (by decide)

/-- **A bare word is the string itself**: a text that starts like an identifier and is not one of the
three keywords is not a literal and converts to itself (file names, model names, `numpy`-free words). -/
theorem evalEntry_bareword (c : Char) (r : List Char) (hc : isIdStart c = true)
    (h1 : c :: r ≠ "None".toList) (h2 : c :: r ≠ "True".toList) (h3 : c :: r ≠ "False".toList) :
    evalChars (c :: r) = .str (String.ofList (c :: r)) := by
  have hsplit := spanP_append isIdChar (c :: r)
  unfold evalChars
  rw [List.length_cons, pVal_keyword _ r hc]
  unfold pKeyword
  by_cases e1 : (spanP isIdChar (c :: r)).1 = "None".toList
  · simp only [e1, if_true]
    cases hr : (spanP isIdChar (c :: r)).2 with
    | nil => rw [e1, hr] at hsplit; exact absurd (by simpa using hsplit.symm) h1
    | cons _ _ => rfl
  · by_cases e2 : (spanP isIdChar (c :: r)).1 = "True".toList
    · simp only [e2, if_true]
      cases hr : (spanP isIdChar (c :: r)).2 with
      | nil => rw [e2, hr] at hsplit; exact absurd (by simpa using hsplit.symm) h2
      | cons _ _ => rfl
    · by_cases e3 : (spanP isIdChar (c :: r)).1 = "False".toList
      · simp only [e3, if_true]
        cases hr : (spanP isIdChar (c :: r)).2 with
        | nil => rw [e3, hr] at hsplit; exact absurd (by simpa using hsplit.symm) h3
        | cons _ _ => rfl
      · simp only [e1, e2, e3, if_false]

example : evalEntry "image_01.fits" = .str "image_01.fits" := by
  have : "image_01.fits" = String.ofList ('i' :: "mage_01.fits".toList) := by decide
  rw [this, evalEntry, String.toList_ofList]
  exact evalEntry_bareword 'i' _ (by decide) (by decide) (by decide) (by decide)

end PyxelModel.C08
