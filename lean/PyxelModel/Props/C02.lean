import PyxelModel.Model.C02
import Mathlib.Algebra.Order.Field.Rat
import Mathlib.Tactic.Linarith
import Mathlib.Tactic.Abel
/-!
# C02 — property theorems (statement: properties.jsonl C02)

All theorems quantify over **every** schedule (any length, values incl. `±∞`/NaN where the type
is `X`), every start time, both modes, every prior detector content `prior` and every per-step
effect of the models `w : Nat → Det → Det`.
-/
namespace PyxelModel.C02

/-! ## order facts of the IEEE-like values -/

@[simp] theorem X.sub_def (a b : X) : a - b = X.sub a b := rfl
@[simp] theorem X.add_def (a b : X) : a + b = X.add a b := rfl

theorem X.lt_irrefl (a : X) : X.lt a a = false := by
  cases a <;> simp [X.lt]

theorem X.lt_trans {a b c : X} (h1 : X.lt a b = true) (h2 : X.lt b c = true) :
    X.lt a c = true := by
  cases a <;> cases b <;> cases c <;> simp_all [X.lt]
  exact _root_.lt_trans h1 h2

/-- `np.diff(...) > 0` is the comparison `a < b`, for all values incl. infinities and NaN -/
theorem X.diff_pos_iff_lt (a b : X) : X.lt X.zero (X.sub b a) = X.lt a b := by
  cases a <;> cases b <;> simp [X.lt, X.sub, X.zero]

/-- a NaN is never part of a comparison that holds -/
theorem X.lt_ne_nan {a b : X} (h : X.lt a b = true) : a ≠ X.nan ∧ b ≠ X.nan := by
  cases a <;> cases b <;> simp_all [X.lt]

/-! ## validation = the statement's notion of a valid schedule -/

theorem increasing_cons_cons (a b : X) (r : List X) :
    increasing (a :: b :: r) = (X.lt a b && increasing (b :: r)) := by
  simp [increasing, diffs, X.diff_pos_iff_lt]

theorem increasing_cons_iff (a : X) (r : List X) :
    increasing (a :: r) = true ↔ (∀ b ∈ r, X.lt a b = true) ∧ increasing r = true := by
  induction r generalizing a with
  | nil => simp [increasing, diffs]
  | cons b r ih =>
    rw [increasing_cons_cons, Bool.and_eq_true]
    constructor
    · rintro ⟨hab, hbr⟩
      refine ⟨?_, hbr⟩
      intro c hc
      rcases List.mem_cons.mp hc with rfl | hc
      · exact hab
      · exact X.lt_trans hab (((ih b).mp hbr).1 c hc)
    · rintro ⟨hall, hbr⟩
      exact ⟨hall b (by simp), hbr⟩

/-- neighbours increasing (`np.all(np.diff(ts) > 0)`) ⇔ every earlier time is smaller than every
later one -/
theorem increasing_iff_pairwise (ts : List X) :
    increasing ts = true ↔ ts.Pairwise (fun a b => X.lt a b = true) := by
  induction ts with
  | nil => simp [increasing, diffs]
  | cons a r ih => rw [increasing_cons_iff, List.pairwise_cons, ih]

/-- **The (repaired) constructor check accepts exactly the valid schedules of the statement.** -/
theorem checkReadout_ok_iff (start : X) (ts : List X) :
    checkReadout start ts = .ok () ↔ ValidSpec start ts := by
  unfold ValidSpec
  cases ts with
  | nil => simp [checkReadout]
  | cons t0 r =>
    simp only [checkReadout]
    by_cases hz : (t0 :: r).any X.isZero = true
    · rw [if_pos hz]
      constructor
      · intro h; cases h
      · rintro ⟨_, hnz, _, _⟩
        obtain ⟨t, ht, htz⟩ := List.any_eq_true.mp hz
        rw [hnz t ht] at htz; cases htz
    · rw [if_neg hz]
      have hnz : ∀ t ∈ t0 :: r, X.isZero t = false := by
        intro t ht
        cases h : X.isZero t with
        | false => rfl
        | true => exact absurd (List.any_eq_true.mpr ⟨t, ht, h⟩) hz
      by_cases hs : X.lt start t0 = true
      · simp only [hs, Bool.not_true, Bool.false_eq_true, if_false]
        by_cases hi : increasing (t0 :: r) = true
        · simp only [hi, Bool.not_true, Bool.false_eq_true, if_false]
          have hp := (increasing_iff_pairwise _).mp hi
          refine ⟨fun _ => ⟨by simp, hnz, ?_, hp⟩, fun _ => by first | rfl | trivial⟩
          intro t ht
          rcases List.mem_cons.mp ht with rfl | ht
          · exact hs
          · exact X.lt_trans hs ((List.pairwise_cons.mp hp).1 t ht)
        · have hi' : increasing (t0 :: r) = false := by simpa using hi
          simp only [hi', Bool.not_false, if_true]
          constructor
          · intro h; cases h
          · rintro ⟨_, _, _, hp⟩
            exact absurd ((increasing_iff_pairwise _).mpr hp) hi
      · have hs' : X.lt start t0 = false := by simpa using hs
        simp only [hs', Bool.not_false, if_true]
        constructor
        · intro h; cases h
        · rintro ⟨_, _, hlt, _⟩
          rw [hlt t0 (by simp)] at hs'; cases hs'

/-- the validation repeated by `Detector.set_readout` accepts exactly the same schedules -/
theorem checkProps_ok_iff (start : X) (ts : List X) :
    checkProps start ts = .ok () ↔ ValidSpec start ts :=
  checkReadout_ok_iff start ts

/-- both validators give the same verdict (and the same error kind) on every 1-D schedule -/
theorem readout_and_properties_agree (start : X) (ts : List X) :
    checkReadout start ts = checkProps start ts := rfl

/-- the executable form used by the driver's `spec` answer is the declarative one -/
theorem validSpecB_iff (start : X) (ts : List X) : validSpecB start ts = true ↔ ValidSpec start ts := by
  have hp : ∀ l : List X, pairwiseLt l = true ↔ l.Pairwise (fun a b => X.lt a b = true) := by
    intro l
    induction l with
    | nil => simp [pairwiseLt]
    | cons a r ih => simp [pairwiseLt, ih]
  unfold validSpecB ValidSpec
  simp only [Bool.and_eq_true, hp, List.all_eq_true, Bool.not_eq_true', List.isEmpty_eq_false_iff]
  tauto

/-- a valid schedule contains no NaN and its start time is not a NaN -/
theorem valid_no_nan {start : X} {ts : List X} (h : ValidSpec start ts) :
    start ≠ X.nan ∧ ∀ t ∈ ts, t ≠ X.nan := by
  obtain ⟨hne, _, hlt, _⟩ := h
  refine ⟨?_, fun t ht => (X.lt_ne_nan (hlt t ht)).2⟩
  cases ts with
  | nil => exact absurd rfl hne
  | cons t0 r => exact (X.lt_ne_nan (hlt t0 (by simp))).1

/-- in a valid schedule only the *last* time can be infinite (`+∞`): every time that has a later
one is an exact finite number -/
theorem valid_finite_before_last {start : X} {ts : List X} (h : ValidSpec start ts)
    (i : Nat) (hi : i + 1 < ts.length) : ∃ q, ts[i]'(by omega) = X.fin q := by
  obtain ⟨_, _, hlt, hp⟩ := h
  have h1 : X.lt start (ts[i]'(by omega)) = true := hlt _ (List.getElem_mem _)
  have h2 : X.lt (ts[i]'(by omega)) (ts[i+1]) = true :=
    List.pairwise_iff_getElem.mp hp i (i+1) (by omega) hi (by omega)
  generalize ts[i]'(by omega) = a at h1 h2
  generalize ts[i+1] = b at h2
  cases a with
  | fin q => exact ⟨q, rfl⟩
  | nan => simp [X.lt] at h2
  | pinf => cases b <;> simp [X.lt] at h2
  | ninf => cases start <;> simp [X.lt] at h1

/-- the pinned validator agrees with the repaired one whenever the start time is a finite
non-negative number and the first time is not a NaN (the two proposed repairs only matter for
negative or NaN start times and a NaN single time) -/
theorem checkOrig_eq_of_nonneg_start (s : Rat) (hs : 0 ≤ s) (ts : List X)
    (hnan : ts.head? ≠ some X.nan) :
    checkOrig (X.fin s) ts = checkReadout (X.fin s) ts := by
  cases ts with
  | nil => rfl
  | cons t0 r =>
    have hge : X.ge (X.fin s) t0 = !(X.lt (X.fin s) t0) := by
      cases t0 with
      | nan => simp at hnan
      | fin q =>
        simp only [X.ge, X.lt, X.eqv]
        by_cases h1 : q < s
        · have : ¬ s < q := not_lt.mpr h1.le
          simp [h1, this]
        · by_cases h2 : s = q
          · subst h2; simp
          · have : s < q := lt_of_le_of_ne (not_lt.mp h1) h2
            simp [h1, h2, this]
      | pinf => simp [X.ge, X.lt, X.eqv]
      | ninf => simp [X.ge, X.lt, X.eqv]
    simp only [checkOrig, checkReadout]
    rw [hge]
    by_cases hz0 : X.isZero t0 = true
    · have : (t0 :: r).any X.isZero = true := by simp [hz0]
      simp [hz0, this]
    · have hz0' : X.isZero t0 = false := by simpa using hz0
      simp only [hz0', Bool.false_eq_true, if_false]
      by_cases hlt : X.lt (X.fin s) t0 = true
      · simp only [hlt, Bool.not_true, Bool.false_eq_true, if_false]
        by_cases hi : increasing (t0 :: r) = true
        · -- all later times are larger than t0 > s ≥ 0, hence non-zero
          have hall := ((increasing_cons_iff t0 r).mp hi).1
          have hany : (t0 :: r).any X.isZero = false := by
            rw [List.any_eq_false]
            intro t ht
            rcases List.mem_cons.mp ht with rfl | ht
            · simp [hz0']
            · have hst : X.lt (X.fin s) t = true := X.lt_trans hlt (hall t ht)
              cases t with
              | fin q =>
                simp only [X.lt, decide_eq_true_eq] at hst
                simp only [X.isZero, decide_eq_true_eq]
                intro h0; subst h0; exact absurd hst (not_lt.mpr hs)
              | _ => simp [X.isZero]
          simp [hany, hi]
        · have hi' : increasing (t0 :: r) = false := by simpa using hi
          by_cases hany : (t0 :: r).any X.isZero = true <;> simp [hany, hi']
      · have hlt' : X.lt (X.fin s) t0 = false := by simpa using hlt
        by_cases hany : (t0 :: r).any X.isZero = true <;> simp [hany, hlt']

/-- counter-witnesses for the pinned validator (DESIGN section 7): a zero time at a non-first
position, a NaN start time and a single NaN time are all accepted by it and refused by the
repaired one. -/
example : checkOrig (X.fin (-2)) [X.fin (-1), X.fin 0, X.fin 1] = .ok () ∧
          checkReadout (X.fin (-2)) [X.fin (-1), X.fin 0, X.fin 1] = .error .valueError := by
  decide +kernel
example : checkOrig X.nan [X.fin 1, X.fin 2] = .ok () ∧
          checkReadout X.nan [X.fin 1, X.fin 2] = .error .valueError := by decide +kernel
example : checkOrig (X.fin 0) [X.nan] = .ok () ∧
          checkReadout (X.fin 0) [X.nan] = .error .valueError := by decide +kernel

/-! ## time steps -/

section steps
variable {K : Type}

theorem steps_length [Sub K] (start : K) (ts : List K) : (steps start ts).length = ts.length := by
  induction ts generalizing start with
  | nil => rfl
  | cons t ts ih => simp [steps, ih]

/-- **step i is `t_i − t_(i−1)` with `t_(−1)` the start time** -/
theorem steps_getElem [Sub K] (start : K) (ts : List K) (i : Nat) (h : i < ts.length) :
    (steps start ts)[i]'(by rw [steps_length]; exact h) =
      ts[i] - (if i = 0 then start else ts[i-1]'(by omega)) := by
  induction ts generalizing start i with
  | nil => simp at h
  | cons t ts ih =>
    cases i with
    | zero => simp [steps]
    | succ j =>
      simp only [steps, List.getElem_cons_succ]
      rw [ih t j (by simpa using h)]
      cases j with
      | zero => simp
      | succ k => simp

/-- **the steps add up to `end − start`** (no interval lost or counted twice; reused by C17) -/
theorem steps_sum [AddCommGroup K] (start : K) (ts : List K) :
    (steps start ts).sum = lastOr start ts - start := by
  induction ts generalizing start with
  | nil => simp [steps, lastOr]
  | cons t ts ih =>
    simp only [steps, List.sum_cons, ih, lastOr]
    abel

/-- every step of a valid schedule is a positive duration (ordered-field version) -/
theorem steps_pos [Field K] [LinearOrder K] [IsStrictOrderedRing K] (start : K) (ts : List K)
    (h0 : ∀ t ∈ ts.head?, start < t) (hinc : ts.Pairwise (· < ·)) :
    ∀ s ∈ steps start ts, 0 < s := by
  induction ts generalizing start with
  | nil => simp [steps]
  | cons t ts ih =>
    intro s hs
    simp only [steps, List.mem_cons] at hs
    rcases hs with rfl | hs
    · have := h0 t (by simp); linarith
    · rw [List.pairwise_cons] at hinc
      refine ih t ?_ hinc.2 s hs
      intro t' ht'
      cases ts with
      | nil => simp at ht'
      | cons u us => simp at ht'; subst ht'; exact hinc.1 u (by simp)

/-- on finite values the `X` arithmetic is the rational arithmetic -/
theorem steps_fin (s : Rat) (ts : List Rat) :
    steps (X.fin s) (ts.map X.fin) = (steps s ts).map X.fin := by
  induction ts generalizing s with
  | nil => rfl
  | cons t ts ih => simp [steps, ih, X.sub]

/-- every step of a valid schedule is positive — also for `+∞` as last time -/
theorem steps_pos_X {start : X} {ts : List X} (h : ValidSpec start ts) :
    ∀ s ∈ steps start ts, X.lt X.zero s = true := by
  obtain ⟨-, -, hlt, hp⟩ := h
  have h0 : ∀ t ∈ ts.head?, X.lt start t = true := by
    intro t ht; exact hlt t (List.mem_of_mem_head? ht)
  clear hlt
  induction ts generalizing start with
  | nil => simp [steps]
  | cons t ts ih =>
    intro s hs
    simp only [steps, List.mem_cons] at hs
    rcases hs with rfl | hs
    · rw [X.sub_def, X.diff_pos_iff_lt]; exact h0 t (by simp)
    · rw [List.pairwise_cons] at hp
      cases ts with
      | nil => simp [steps] at hs
      | cons u us =>
        refine ih hp.2 ?_ s hs
        intro t' ht'
        exact hp.1 t' (List.mem_of_mem_head? ht')

end steps

-- non-vacuity: the docstring example of `calculate_steps`, and its sum
example : steps (1/2 : Rat) [1, 2, 4, 7, 10] = [1/2, 1, 2, 3, 3] := by decide +kernel
example : (steps (1/2 : Rat) [1, 2, 4, 7, 10]).sum = 10 - 1/2 := by decide +kernel

/-! ## the clock seen by the models -/

section clock
variable {K : Type} [Add K]

theorem loop_length (start : K) (nd : Bool) (n : Nat) (w : Nat → Det → Det) (i : Nat) (d : Det)
    (l : List (K × K)) : (loop start nd n w i d l).length = l.length := by
  induction l generalizing i d with
  | nil => rfl
  | cons p l ih => obtain ⟨t, s⟩ := p; simp [loop, ih]

theorem loop_clock (start : K) (nd : Bool) (n : Nat) (w : Nat → Det → Det) (i : Nat) (d : Det)
    (l : List (K × K)) (k : Nat) (h : k < l.length) :
    let o := (loop start nd n w i d l)[k]'(by rw [loop_length]; exact h)
    o.time = l[k].1 ∧ o.step = l[k].2 ∧ o.abs = start + l[k].1 ∧ o.count = i + k ∧
      o.first = (i + k == 0) ∧ o.last = (i + k == n - 1) ∧ o.numSteps = n := by
  induction l generalizing i d k with
  | nil => simp at h
  | cons p l ih =>
    obtain ⟨t, s⟩ := p
    cases k with
    | zero => simp [loop]
    | succ j =>
      simp only [loop, List.getElem_cons_succ]
      have := ih (i+1) (w i (d.emptied (!nd))) j (by simpa using h)
      simp only at this
      obtain ⟨h1, h2, h3, h4, h5, h6, h7⟩ := this
      refine ⟨h1, h2, h3, by omega, ?_, ?_, h7⟩
      · rw [h5]; congr 1; omega
      · rw [h6]; congr 1; omega

variable [Sub K]

/-- **the pipeline runs once per readout time** -/
theorem runs_once_per_time (start : K) (ts : List K) (nd : Bool) (prior : Det)
    (w : Nat → Det → Det) : (runLoop start ts nd prior w).length = ts.length := by
  simp [runLoop, loop_length, steps_length]

/-- **during step i the models observe** time `t_i`, time step `t_i − t_(i−1)` (`t_(−1)` the start
time), absolute time `start + t_i`, step counter `i`, the first/last flags of exactly the first
and the last step, and the number of steps. -/
theorem clock_seen (start : K) (ts : List K) (nd : Bool) (prior : Det) (w : Nat → Det → Det)
    (i : Nat) (h : i < ts.length) :
    let o := (runLoop start ts nd prior w)[i]'(by rw [runs_once_per_time]; exact h)
    o.time = ts[i] ∧
    o.step = ts[i] - (if i = 0 then start else ts[i-1]'(by omega)) ∧
    o.abs = start + ts[i] ∧
    o.count = i ∧
    o.first = decide (i = 0) ∧
    o.last = decide (i + 1 = ts.length) ∧
    o.numSteps = ts.length := by
  have hz : i < (ts.zip (steps start ts)).length := by simp [steps_length, h]
  have := loop_clock start nd ts.length w 0 (prior.emptied true) (ts.zip (steps start ts)) i hz
  simp only [Nat.zero_add, List.getElem_zip] at this
  obtain ⟨h1, h2, h3, h4, h5, h6, h7⟩ := this
  intro o
  refine ⟨h1, h2.trans (steps_getElem start ts i h), h3, h4, h5.trans ?_, h6.trans ?_, h7⟩
  · cases i <;> rfl
  · by_cases e : i + 1 = ts.length
    · simp [e]; omega
    · simp [e]; omega

/-- **in order**: the sequence of times seen is the schedule itself, the counters are 0,1,2,… -/
theorem times_in_order (start : K) (ts : List K) (nd : Bool) (prior : Det) (w : Nat → Det → Det) :
    (runLoop start ts nd prior w).map (·.time) = ts ∧
    (runLoop start ts nd prior w).map (·.count) = List.range ts.length := by
  constructor
  · apply List.ext_getElem
    · simp [runs_once_per_time]
    · intro i h1 h2
      simp only [List.getElem_map]
      exact (clock_seen start ts nd prior w i h2).1
  · apply List.ext_getElem
    · simp [runs_once_per_time]
    · intro i h1 h2
      simp only [List.getElem_map, List.getElem_range]
      have h3 : i < ts.length := by simpa [runs_once_per_time] using h1
      exact (clock_seen start ts nd prior w i h3).2.2.2.1

end clock

/-- the rational clock of a finite schedule: step `i` lasts `t_i − t_(i−1)` seconds as an exact
number (no NaN/∞ artefact of the extended arithmetic) -/
theorem clock_seen_finite (s : Rat) (ts : List Rat) (nd : Bool) (prior : Det) (w : Nat → Det → Det)
    (i : Nat) (h : i < ts.length) :
    let o := (runLoop (X.fin s) (ts.map X.fin) nd prior w)[i]'(by
      rw [runs_once_per_time, List.length_map]; exact h)
    o.time = X.fin ts[i] ∧
    o.step = X.fin (ts[i] - (if i = 0 then s else ts[i-1]'(by omega))) ∧
    o.abs = X.fin (s + ts[i]) := by
  have h' : i < (ts.map X.fin).length := by simpa using h
  obtain ⟨h1, h2, h3, _⟩ := clock_seen (X.fin s) (ts.map X.fin) nd prior w i h'
  refine ⟨by simpa using h1, ?_, by simpa [X.add] using h3⟩
  rw [h2]
  cases i with
  | zero => simp [X.sub]
  | succ j => simp [X.sub]

/-! ## bucket lifecycle -/

section buckets
variable {K : Type} [Add K]

/-- the state every run starts from, whatever the detector held before -/
def freshDet : Det := ⟨none, none, none, some 0, none, none⟩

theorem emptied_true (d : Det) : d.emptied true = freshDet := rfl

theorem loop_begin_empty (start : K) (nd : Bool) (n : Nat) (w : Nat → Det → Det) (i : Nat)
    (d : Det) (l : List (K × K)) :
    ∀ o ∈ loop start nd n w i d l,
      o.atBegin.scene = none ∧ o.atBegin.photon = none ∧ o.atBegin.charge = none ∧
      o.atBegin.signal = none ∧ o.atBegin.image = none := by
  induction l generalizing i d with
  | nil => simp [loop]
  | cons p l ih =>
    obtain ⟨t, s⟩ := p
    intro o ho
    simp only [loop, List.mem_cons] at ho
    rcases ho with rfl | ho
    · simp [Det.emptied]
    · exact ih _ _ o ho

theorem loop_end_is_w (start : K) (nd : Bool) (n : Nat) (w : Nat → Det → Det) (i : Nat)
    (d : Det) (l : List (K × K)) (k : Nat) (h : k < l.length) :
    ((loop start nd n w i d l)[k]'(by rw [loop_length]; exact h)).atEnd =
      w (i + k) ((loop start nd n w i d l)[k]'(by rw [loop_length]; exact h)).atBegin := by
  induction l generalizing i d k with
  | nil => simp at h
  | cons p l ih =>
    obtain ⟨t, s⟩ := p
    cases k with
    | zero => simp [loop]
    | succ j =>
      simp only [loop, List.getElem_cons_succ]
      rw [ih (i+1) _ j (by simpa using h)]
      congr 1; omega

theorem loop_begin_pixel (start : K) (nd : Bool) (n : Nat) (w : Nat → Det → Det) (i : Nat)
    (d : Det) (l : List (K × K)) (k : Nat) (h : k < (loop start nd n w i d l).length) :
    ((loop start nd n w i d l)[k]).atBegin.pixel =
      if nd then
        (if k = 0 then d.pixel else ((loop start nd n w i d l)[k-1]'(by omega)).atEnd.pixel)
      else some 0 := by
  induction l generalizing i d k with
  | nil => simp [loop] at h
  | cons p l ih =>
    obtain ⟨t, s⟩ := p
    cases k with
    | zero => cases nd <;> simp [loop, Det.emptied]
    | succ j =>
      simp only [loop, List.getElem_cons_succ]
      have := ih (i+1) (w i (d.emptied (!nd))) j (by simpa [loop] using h)
      rw [this]
      cases nd <;> cases j <;> simp

variable [Sub K]

/-- **at the beginning of every step the scene, photon, charge, signal and image containers are
empty** — for every prior content and every write pattern of the models -/
theorem begin_buckets_empty (start : K) (ts : List K) (nd : Bool) (prior : Det)
    (w : Nat → Det → Det) :
    ∀ o ∈ runLoop start ts nd prior w,
      o.atBegin.scene = none ∧ o.atBegin.photon = none ∧ o.atBegin.charge = none ∧
      o.atBegin.signal = none ∧ o.atBegin.image = none :=
  loop_begin_empty _ _ _ _ _ _ _

/-- **pixel at the beginning of step i**: all zero in destructive mode and in step 0; exactly the
previous step's final pixel content in non-destructive mode -/
theorem begin_pixel (start : K) (ts : List K) (nd : Bool) (prior : Det) (w : Nat → Det → Det)
    (i : Nat) (h : i < (runLoop start ts nd prior w).length) :
    ((runLoop start ts nd prior w)[i]).atBegin.pixel =
      if nd = true ∧ 0 < i then ((runLoop start ts nd prior w)[i-1]'(by omega)).atEnd.pixel
      else some 0 := by
  have := loop_begin_pixel start nd ts.length w 0 (prior.emptied true) (ts.zip (steps start ts)) i h
  unfold runLoop
  rw [this]
  cases nd <;> cases i <;> simp [Det.emptied]

/-- what the last probe of a step sees is the models' effect on what the first probe saw -/
theorem end_is_effect_of_begin (start : K) (ts : List K) (nd : Bool) (prior : Det)
    (w : Nat → Det → Det) (i : Nat) (h : i < (runLoop start ts nd prior w).length) :
    ((runLoop start ts nd prior w)[i]).atEnd = w i ((runLoop start ts nd prior w)[i]).atBegin := by
  have hz : i < (ts.zip (steps start ts)).length := by simpa [runLoop, loop_length] using h
  have := loop_end_is_w start nd ts.length w 0 (prior.emptied true) (ts.zip (steps start ts)) i hz
  simp only [Nat.zero_add] at this
  exact this

/-- **bucket contents left by an earlier run never leak**: the whole observation (every clock
value and every bucket state of every step) is the same for any two prior contents -/
theorem prior_never_leaks (start : K) (ts : List K) (nd : Bool) (prior prior' : Det)
    (w : Nat → Det → Det) : runLoop start ts nd prior w = runLoop start ts nd prior' w := rfl

/-- in particular step 0 starts from the fresh state in both modes -/
theorem step0_fresh (start : K) (t : K) (ts : List K) (nd : Bool) (prior : Det)
    (w : Nat → Det → Det) :
    ∃ o rest, runLoop start (t :: ts) nd prior w = o :: rest ∧ o.atBegin = freshDet := by
  refine ⟨_, _, rfl, ?_⟩
  cases nd <;> rfl

end buckets

-- non-vacuity: a non-destructive 3-step run on a dirty detector; the models add 5 to the pixel
-- bucket in every step and fill the photon bucket; pixel accumulates, photon never survives
example :
    ((runLoop (X.fin 0) [X.fin 1, X.fin 2, X.fin 4] true ⟨some 9, some 9, some 9, some 9, some 9, some 9⟩
      (planEffect [[.set .photon (some 7), .addPixel 5], [.addPixel 5], [.addPixel 5]])).map
        (fun o => (o.step, o.atBegin.photon, o.atBegin.pixel, o.atEnd.pixel)))
      = [(X.fin 1, none, some 0, some 5), (X.fin 1, none, some 5, some 10),
         (X.fin 2, none, some 10, some 15)] := by decide +kernel

/-! ## rejection of invalid schedules -/

/-- **A run executes models only on a valid schedule**: whatever `Readout` object reaches
`run_pipeline` (constructed, or changed afterwards through its weaker setters), the run is
accepted iff its schedule is valid; otherwise it is an error — and an error carries no
observation: no model has executed. -/
theorem run_ok_iff_valid (r : Readout) (prior : Det) (w : Nat → Det → Det) :
    (∃ obs, runPipeline r prior w = .ok obs) ↔ ValidSpec r.start r.times := by
  rw [← checkProps_ok_iff]
  unfold runPipeline
  cases h : checkProps r.start r.times with
  | error e => simp
  | ok u => cases u; simp

theorem invalid_rejected (r : Readout) (prior : Det) (w : Nat → Det → Det)
    (h : ¬ ValidSpec r.start r.times) : ∃ e, runPipeline r prior w = .error e := by
  cases hr : runPipeline r prior w with
  | error e => exact ⟨e, rfl⟩
  | ok obs => exact absurd ((run_ok_iff_valid r prior w).mp ⟨obs, hr⟩) h

/-- a valid schedule is run, and the observation is the loop's -/
theorem valid_runs (r : Readout) (prior : Det) (w : Nat → Det → Det)
    (h : ValidSpec r.start r.times) :
    runPipeline r prior w = .ok (runLoop r.start r.times r.nd prior w) := by
  unfold runPipeline
  rw [(checkProps_ok_iff _ _).mpr h]

/-- the constructor: for a list/tuple (or an evaluated string / file) the truthiness shortcut
`elif times:` never refuses a valid schedule and the checks refuse every invalid one -/
theorem make_seq_ok_iff (xs : List X) (start : X) (nd : Bool) :
    (∃ r, Readout.make (.seq xs) start nd = .ok r) ↔ ValidSpec start xs := by
  rw [← checkReadout_ok_iff]
  cases xs with
  | nil => simp [Readout.make, resolve, checkReadout]
  | cons x xs =>
    simp only [Readout.make, resolve]
    cases h : checkReadout start (x :: xs) with
    | error e => simp
    | ok u => cases u; simp

/-- a scalar `times=x` is the one-time schedule `[x]` (a zero scalar is refused as "not
specified": it is invalid anyway) -/
theorem make_scalar_ok_iff (x : X) (start : X) (nd : Bool) :
    (∃ r, Readout.make (.scalar x) start nd = .ok r) ↔ ValidSpec start [x] := by
  rw [← checkReadout_ok_iff]
  simp only [Readout.make, resolve]
  by_cases hz : X.isZero x = true
  · simp [hz, checkReadout]
  · have hz' : X.isZero x = false := by simpa using hz
    simp only [hz', Bool.false_eq_true, if_false]
    cases h : checkReadout start [x] with
    | error e => simp
    | ok u => cases u; simp

/-- a successfully constructed `Readout` holds a valid schedule -/
theorem make_ok_valid (src : Src) (start : X) (nd : Bool) (r : Readout)
    (h : Readout.make src start nd = .ok r) : ValidSpec r.start r.times ∧ r.nd = nd := by
  unfold Readout.make at h
  cases hres : resolve src with
  | error e => rw [hres] at h; cases h
  | ok p =>
    obtain ⟨ts, flag⟩ := p
    rw [hres] at h
    simp only at h
    cases hc : checkReadout start ts with
    | error e => rw [hc] at h; cases h
    | ok u =>
      cases u
      rw [hc] at h
      cases h
      exact ⟨(checkReadout_ok_iff _ _).mp hc, rfl⟩

/-- **whole session** (constructor, any sequence of setter calls, run): if it yields observations,
they are the clock/bucket observations of a *valid* schedule — the one the object holds when the
run starts; every other session ends in an error without any observation. -/
theorem session_ok_valid (src : Src) (start : X) (nd : Bool) (ops : List Op) (prior : Det)
    (w : Nat → Det → Det) (obs : List (Obs X))
    (h : session src start nd ops prior w = .ok obs) :
    ∃ r : Readout, ValidSpec r.start r.times ∧ obs = runLoop r.start r.times r.nd prior w := by
  unfold session at h
  cases hm : Readout.make src start nd with
  | error e => rw [hm] at h; cases h
  | ok r0 =>
    rw [hm] at h
    simp only at h
    have hv := (run_ok_iff_valid (r0.applyOps ops) prior w).mp ⟨obs, h⟩
    refine ⟨r0.applyOps ops, hv, ?_⟩
    rw [valid_runs _ _ _ hv] at h
    cases h; rfl

/-- **every running mode**: each execution of the pipeline inside an Observation or a Calibration
is the run of a fresh detector, whatever the detector handed in (or left by the previous
evaluation) held — the reset is part of the engine `run_pipeline`, not of Exposure mode -/
theorem runMany_each_fresh (r : Readout) (priors : List Det) (w : Nat → Det → Det) :
    ∀ x ∈ runMany r priors w, x = runPipeline r freshDet w := by
  intro x hx
  obtain ⟨p, _, rfl⟩ := List.mem_map.mp hx
  rfl

/-- scanning the readout time keeps the configured start time and mode: every run of the sweep is
the run of the one-time schedule `[v]` with the Observation's own start time -/
theorem sweep_keeps_start (r r' : Readout) (v : X) (h : r.replaceTimes v = .ok r') :
    r'.start = r.start ∧ r'.nd = r.nd ∧ r'.times = [v] := by
  unfold Readout.replaceTimes Readout.make at h
  simp only [resolve] at h
  by_cases hz : X.isZero v = true
  · simp [hz] at h
  · have hz' : X.isZero v = false := by simpa using hz
    simp only [hz', Bool.false_eq_true, if_false] at h
    cases hc : checkReadout r.start [v] with
    | error e => rw [hc] at h; cases h
    | ok u => cases u; rw [hc] at h; cases h; exact ⟨rfl, rfl, rfl⟩

theorem sweep_run_iff_valid (r : Readout) (v : X) :
    (∃ r', r.replaceTimes v = .ok r') ↔ ValidSpec r.start [v] :=
  make_scalar_ok_iff v r.start r.nd

/-- **YAML route**: a falsy `times:` entry (0, 0.0, −0.0, `[]`, `""`) is not a schedule — it is
refused, never replaced by the default schedule -/
theorem yaml_falsy_times_rejected (t : YamlTimes) (start : X) (nd : Bool)
    (h : t = .num (X.fin 0) ∨ t = .seq [] ∨ t = .emptyStr) :
    ∃ e, Readout.make (srcOfYaml t none) start nd = .error e := by
  rcases h with rfl | rfl | rfl <;> simp [srcOfYaml, Readout.make, resolve, X.isZero]

/-- only an absent / `null` entry gives the default schedule `[1]` -/
theorem yaml_default_iff (t : YamlTimes) : srcOfYaml t none = .default ↔ t = .absent := by
  cases t <;> simp [srcOfYaml]

-- non-vacuity: the setter lets a non-monotonic schedule into the object; the run refuses it
example :
    Readout.make (.seq [X.fin 1, X.fin 2]) (X.fin 0) false = .ok ⟨[X.fin 1, X.fin 2], X.fin 0, false⟩ ∧
    (⟨[X.fin 1, X.fin 2], X.fin 0, false⟩ : Readout).applyOps [.setTimes [X.fin 3, X.fin 2]]
      = ⟨[X.fin 3, X.fin 2], X.fin 0, false⟩ ∧
    runPipeline ⟨[X.fin 3, X.fin 2], X.fin 0, false⟩ freshDet (fun _ d => d) = .error .valueError := by
  decide +kernel

end PyxelModel.C02
