import PyxelModel.Model.C05
import PyxelModel.Lemmas.C05
/-!
# C05 — property theorems (statement: properties.jsonl C05)

All theorems quantify over *all* parameter lists (any number of parameters, any value lists of any
length, any enabled/disabled pattern), all tables (custom mode) and all default settings
(sequential mode); `α` is an arbitrary value type and `f` an arbitrary run function.
-/
namespace PyxelModel.C05

variable {α : Type}

/-! ## 1. product mode: exactly the Cartesian product, each element once, correctly indexed -/

theorem prod_length (ls : List (List α)) : (prod ls).length = (ls.map List.length).prod := by
  induction ls with
  | nil => rfl
  | cons l ls ih =>
    simp only [prod, List.map_cons, List.prod_cons, List.length_flatMap, List.length_map, ih]
    induction l with
    | nil => simp
    | cons x xs _ => simp [List.sum_cons, Nat.succ_mul, Nat.add_comm]

/-- membership in the product = componentwise membership (the full box and nothing else) -/
theorem mem_prod {ls : List (List α)} {v : List α} :
    v ∈ prod ls ↔ List.Forall₂ (fun x l => x ∈ l) v ls := by
  induction ls generalizing v with
  | nil => simp [prod]
  | cons l ls ih =>
    simp only [prod, List.mem_flatMap, List.mem_map]
    constructor
    · rintro ⟨x, hx, w, hw, rfl⟩
      exact List.Forall₂.cons hx (ih.mp hw)
    · intro h
      cases h with
      | cons hx hrest => exact ⟨_, hx, _, ih.mpr hrest, rfl⟩

/-- no element of the product is produced twice when no value list repeats a value -/
theorem prod_nodup {ls : List (List α)} (h : ∀ l ∈ ls, l.Nodup) : (prod ls).Nodup := by
  induction ls with
  | nil => simp [prod]
  | cons l ls ih =>
    have hl : l.Nodup := h l (by simp)
    have hrest : (prod ls).Nodup := ih (fun l' hl' => h l' (by simp [hl']))
    simp only [prod]
    rw [List.nodup_flatMap]
    refine ⟨?_, ?_⟩
    · intro x _
      exact hrest.map (fun a b hab => by simpa using hab)
    · refine hl.imp_of_mem ?_
      intro a b _ _ hab v
      simp only [List.mem_map]
      rintro ⟨w, _, rfl⟩ ⟨w', _, h'⟩
      simp at h'
      exact hab h'.1.symm

theorem idxs_length (ls : List (List α)) : (idxs ls).length = (ls.map List.length).prod := by
  unfold idxs
  rw [prod_length]
  simp [List.map_map, Function.comp_def]

/-- the index tuples are exactly the box `∏ [0, nᵢ)` -/
theorem mem_idxs {ls : List (List α)} {I : List Nat} :
    I ∈ idxs ls ↔ List.Forall₂ (fun i l => i < l.length) I ls := by
  unfold idxs
  rw [mem_prod, List.forall₂_map_right_iff]
  simp only [List.mem_range]

theorem idxs_nodup (ls : List (List α)) : (idxs ls).Nodup := by
  unfold idxs
  apply prod_nodup
  intro l hl
  obtain ⟨l', _, rfl⟩ := List.mem_map.mp hl
  exact List.nodup_range

/-- lexicographic order on index tuples of equal length -/
def lexLt : List Nat → List Nat → Prop
  | i :: is, j :: js => i < j ∨ (i = j ∧ lexLt is js)
  | _, _ => False

theorem prod_pairwise_lex {ls : List (List Nat)} (h : ∀ l ∈ ls, l.Pairwise (· < ·)) :
    (prod ls).Pairwise lexLt := by
  induction ls with
  | nil => simp [prod]
  | cons l ls ih =>
    have hl : l.Pairwise (· < ·) := h l (by simp)
    have hrest := ih (fun l' hl' => h l' (by simp [hl']))
    simp only [prod]
    induction l with
    | nil => simp
    | cons x xs ihx =>
      rw [List.flatMap_cons, List.pairwise_append]
      have hx := List.pairwise_cons.mp hl
      refine ⟨?_, ihx (fun l' hl' => ?_) hx.2, ?_⟩
      · rw [List.pairwise_map]
        exact hrest.imp (fun {a b} hab => Or.inr ⟨rfl, hab⟩)
      · rcases List.mem_cons.mp hl' with e | e
        · subst e; exact hx.2
        · exact h l' (by simp [e])
      · intro a ha b hb
        obtain ⟨a', _, rfl⟩ := List.mem_map.mp ha
        obtain ⟨y, hy, hb'⟩ := List.mem_flatMap.mp hb
        obtain ⟨b', _, rfl⟩ := List.mem_map.mp hb'
        exact Or.inl (hx.1 y hy)

/-- **`_product_indices` enumerates the box in lexicographic order** (hence each index tuple once) -/
theorem idxs_lex_sorted (ls : List (List α)) : (idxs ls).Pairwise lexLt := by
  unfold idxs
  apply prod_pairwise_lex
  intro l hl
  obtain ⟨l', _, rfl⟩ := List.mem_map.mp hl
  exact List.pairwise_lt_range

theorem pick?_of_mem_idxs {ls : List (List α)} {I : List Nat} (h : I ∈ idxs ls) :
    ∃ v, pick? ls I = some v := by
  rw [mem_idxs] at h
  induction h with
  | nil => exact ⟨[], rfl⟩
  | @cons i l is ls hi _ ih =>
    obtain ⟨vs, hvs⟩ := ih
    exact ⟨l[i] :: vs, by simp [pick?, List.getElem?_eq_getElem hi, hvs]⟩

/-- `pick?` reads component `j` of the result from position `I[j]` of the `j`-th value list -/
theorem pick?_getElem {ls : List (List α)} {I : List Nat} {v : List α} (h : pick? ls I = some v)
    (j : Nat) : v[j]? = (ls[j]?).bind (fun l => (I[j]?).bind (fun i => l[i]?)) := by
  induction ls generalizing I v j with
  | nil =>
    cases I with
    | nil => simp [pick?] at h; subst h; simp
    | cons => simp [pick?] at h
  | cons l ls ih =>
    cases I with
    | nil => simp [pick?] at h
    | cons i is =>
      simp only [pick?, Option.bind_eq_some_iff, Option.map_eq_some_iff] at h
      obtain ⟨x, hx, xs, hxs, rfl⟩ := h
      cases j with
      | zero => simp [hx]
      | succ j => simpa using ih hxs j

theorem pick?_cons_of_lt {l : List α} {ls : List (List α)} {i : Nat} {I : List Nat}
    (hi : i < l.length) : pick? (l :: ls) (i :: I) = (pick? ls I).map (l[i] :: ·) := by
  simp [pick?, List.getElem?_eq_getElem hi]

/-- the `k`-th value tuple of `itertools.product(*steps)` is the one the `k`-th index tuple selects -/
theorem map_pick?_idxs (ls : List (List α)) :
    (idxs ls).map (pick? ls) = (prod ls).map some := by
  induction ls with
  | nil => simp [idxs, prod, pick?]
  | cons l ls ih =>
    have hid : idxs (l :: ls) =
        (List.range l.length).flatMap (fun i => (idxs ls).map (i :: ·)) := by
      simp [idxs, prod]
    rw [hid, List.map_flatMap, prod, List.map_flatMap]
    apply L.range_flatMap_eq
    intro i hi
    rw [List.map_map, List.map_map]
    have : (pick? (l :: ls) ∘ fun x => i :: x) = (Option.map (l[i] :: ·)) ∘ pick? ls := by
      funext I; simp [pick?_cons_of_lt hi]
    rw [this, ← List.map_map, ih, List.map_map]
    rfl

/-- **labels match values**: zipping the index product with the value product pairs every index
tuple with exactly the values it selects (`valuesᵢ[indexᵢ]`), and the zip truncates nothing. -/
theorem zip_idx_val (ls : List (List α)) :
    (∀ p ∈ (idxs ls).zip (prod ls), pick? ls p.1 = some p.2) ∧
    (idxs ls).length = (prod ls).length := by
  refine ⟨?_, by rw [idxs_length, prod_length]⟩
  intro p hp
  obtain ⟨n, hn, hpn⟩ := List.mem_iff_getElem.mp hp
  have h1 := congrArg (fun L => L[n]?) (map_pick?_idxs ls)
  simp only [List.getElem?_map] at h1
  rw [List.length_zip] at hn
  have hn1 : n < (idxs ls).length := by omega
  have hn2 : n < (prod ls).length := by omega
  rw [List.getElem?_eq_getElem hn1, List.getElem?_eq_getElem hn2] at h1
  simp only [Option.map_some] at h1
  rw [← hpn]
  simpa using h1

theorem length_of_mem_prod {ls : List (List α)} {v : List α} (h : v ∈ prod ls) :
    v.length = ls.length := (mem_prod.mp h).length_eq

/-- abbreviations for the enabled keys / value lists of a parameter list -/
def ekeys (ps : List (Param α)) : List String := (enabledSteps ps).map (·.key)
def evals (ps : List (Param α)) : List (List α) := (enabledSteps ps).map (·.values)

theorem productRuns_eq (ps : List (Param α)) :
    productRuns ps =
      ((idxs (evals ps)).zip (prod (evals ps))).mapIdx
        (fun n iv => ⟨iv.1, (ekeys ps).zip iv.2, n⟩) := rfl

/-- **as many runs as the Cartesian product has elements** -/
theorem productRuns_length (ps : List (Param α)) :
    (productRuns ps).length = ((enabledSteps ps).map (·.values.length)).prod := by
  rw [productRuns_eq, List.length_mapIdx, List.length_zip, idxs_length, prod_length,
    Nat.min_self, evals, List.map_map]
  rfl

/-- **the runs' index tuples are exactly `_product_indices`** -/
theorem product_indices (ps : List (Param α)) :
    (productRuns ps).map (·.index) = idxs (evals ps) := by
  rw [productRuns_eq, L.map_mapIdx]
  dsimp only
  rw [L.mapIdx_const_fst _ Prod.fst]
  exact L.map_fst_zip_of_length_eq _ _ (zip_idx_val (evals ps)).2

/-- **product mode covers the full Cartesian product and nothing else**: the runs' value tuples are
exactly `itertools.product` of the enabled parameters' value lists (same order, same multiplicity). -/
theorem product_values_complete (ps : List (Param α)) :
    (productRuns ps).map (fun r => r.params.map (·.2)) = prod (evals ps) := by
  rw [productRuns_eq, L.map_mapIdx]
  dsimp only
  rw [L.mapIdx_const_fst _
    (fun iv : List Nat × List α => (((ekeys ps).zip iv.2).map (fun x => x.2)))]
  have hz := (zip_idx_val (evals ps)).2
  have : ((idxs (evals ps)).zip (prod (evals ps))).map
      (fun iv => ((ekeys ps).zip iv.2).map (·.2)) =
      ((idxs (evals ps)).zip (prod (evals ps))).map Prod.snd := by
    apply List.map_congr_left
    intro iv hiv
    have hv := length_of_mem_prod (List.of_mem_zip hiv).2
    apply L.map_snd_zip_of_length_eq
    rw [hv, ekeys, evals, List.length_map, List.length_map]
  rw [this]
  exact L.map_snd_zip_of_length_eq _ _ hz

/-- **the box in lexicographic order, each index tuple exactly once, nothing outside the box** -/
theorem product_complete_nodup (ps : List (Param α)) :
    ((productRuns ps).map (·.index)).Pairwise lexLt ∧
    ((productRuns ps).map (·.index)).Nodup ∧
    (∀ I, I ∈ (productRuns ps).map (·.index) ↔
      List.Forall₂ (fun i (p : Param α) => i < p.values.length) I (enabledSteps ps)) := by
  rw [product_indices]
  refine ⟨idxs_lex_sorted _, idxs_nodup _, fun I => ?_⟩
  rw [mem_idxs, evals, List.forall₂_map_right_iff]

/-- the runs are numbered 0, 1, 2, … in enumeration order -/
theorem product_runIndex (ps : List (Param α)) :
    (productRuns ps).map (·.runIndex) = List.range (productRuns ps).length := by
  rw [productRuns_eq, L.map_mapIdx, List.length_mapIdx]
  exact L.mapIdx_idx _

/-- every run carries the values its index tuple selects, under the enabled keys in order -/
theorem product_run_spec {ps : List (Param α)} {r : Run α} (hr : r ∈ productRuns ps) :
    r.index ∈ idxs (evals ps) ∧
    ∃ v, pick? (evals ps) r.index = some v ∧ v ∈ prod (evals ps) ∧
      r.params = (ekeys ps).zip v ∧ (productRuns ps)[r.runIndex]? = some r := by
  rw [productRuns_eq] at hr ⊢
  obtain ⟨n, hn, rfl⟩ := List.mem_iff_getElem.mp hr
  rw [List.length_mapIdx] at hn
  simp only [List.getElem_mapIdx]
  have hmem : ((idxs (evals ps)).zip (prod (evals ps)))[n] ∈
      (idxs (evals ps)).zip (prod (evals ps)) := List.getElem_mem hn
  have hz := (zip_idx_val (evals ps)).1 _ hmem
  have hm := List.of_mem_zip hmem
  refine ⟨hm.1, _, hz, hm.2, rfl, ?_⟩
  simp [List.getElem?_mapIdx, List.getElem?_eq_getElem hn]

/-- **`r.assignment keyⱼ = valuesⱼ[r.indexⱼ]`**: entry `j` of a run's assignment is the `j`-th enabled
key with the value at position `index[j]` of that parameter's list — nothing else. -/
theorem product_values {ps : List (Param α)} {r : Run α} (hr : r ∈ productRuns ps) (j : Nat) :
    r.params[j]? =
      ((enabledSteps ps)[j]?).bind (fun p =>
        (r.index[j]?).bind (fun i => (p.values[i]?).map (fun v => (p.key, v)))) := by
  obtain ⟨_, v, hv, _, hp, _⟩ := product_run_spec hr
  rw [hp]
  have h := pick?_getElem hv j
  simp only [evals, List.getElem?_map] at h
  rw [List.zip, List.getElem?_zipWith', h, ekeys, List.getElem?_map]
  cases (enabledSteps ps)[j]? with
  | none => rfl
  | some p =>
    cases r.index[j]? with
    | none => rfl
    | some i => cases p.values[i]? <;> rfl

-- non-vacuity: 2 × 3 product with a disabled parameter in between
example :
    productRuns ([⟨"k1", [10, 20], true, false⟩, ⟨"off", [7, 8, 9], false, false⟩,
                  ⟨"k2", [1, 2, 3], true, true⟩] : List (Param Nat))
      = [⟨[0, 0], [("k1", 10), ("k2", 1)], 0⟩, ⟨[0, 1], [("k1", 10), ("k2", 2)], 1⟩,
         ⟨[0, 2], [("k1", 10), ("k2", 3)], 2⟩, ⟨[1, 0], [("k1", 20), ("k2", 1)], 3⟩,
         ⟨[1, 1], [("k1", 20), ("k2", 2)], 4⟩, ⟨[1, 2], [("k1", 20), ("k2", 3)], 5⟩] := by decide

/-! ## 2. sequential mode: one parameter at a time, the others keep their configured values -/

/-- position of the first run of the `j`-th enabled parameter -/
def offset (es : List (Param α)) (j : Nat) : Nat := ((es.take j).map (·.values.length)).sum

theorem seqFrom_length (d : String → α) (keys : List String) (n : Nat) (es : List (Param α)) :
    (seqFrom d keys n es).length = (es.map (·.values.length)).sum := by
  induction es generalizing n with
  | nil => rfl
  | cons p ps ih => simp [seqFrom, ih]

/-- **as many runs as the value lists have entries in total (`Σ nᵢ`)** -/
theorem sequential_length (d : String → α) (ps : List (Param α)) :
    (sequentialRuns d ps).length = ((enabledSteps ps).map (·.values.length)).sum :=
  seqFrom_length _ _ _ _

theorem seqFrom_getElem? (d : String → α) (keys : List String) (n : Nat) (es : List (Param α))
    {j k : Nat} {p : Param α} {v : α} (hj : es[j]? = some p) (hk : p.values[k]? = some v) :
    (seqFrom d keys n es)[offset es j + k]? =
      some ⟨n + offset es j + k, assign d keys p.key v, n + offset es j + k⟩ := by
  induction es generalizing n j with
  | nil => simp at hj
  | cons q qs ih =>
    have hklt : k < p.values.length := (List.getElem?_eq_some_iff.mp hk).1
    cases j with
    | zero =>
      simp only [List.getElem?_cons_zero, Option.some.injEq] at hj
      subst hj
      have hlt : k < (q.values.mapIdx (fun k v =>
          (⟨n + k, assign d keys q.key v, n + k⟩ : CRun α))).length := by
        simpa using hklt
      simp only [offset, List.take_zero, List.map_nil, List.sum_nil, Nat.zero_add, Nat.add_zero,
        seqFrom]
      rw [List.getElem?_append_left hlt, List.getElem?_mapIdx, hk]
      rfl
    | succ j =>
      simp only [List.getElem?_cons_succ] at hj
      have hoff : offset (q :: qs) (j + 1) = q.values.length + offset qs j := by
        simp [offset]
      have hlen : (q.values.mapIdx (fun k v =>
          (⟨n + k, assign d keys q.key v, n + k⟩ : CRun α))).length = q.values.length := by
        simp
      rw [hoff]
      simp only [seqFrom]
      rw [List.getElem?_append_right (by rw [hlen]; omega), hlen]
      have e : q.values.length + offset qs j + k - q.values.length = offset qs j + k := by omega
      rw [e, ih (n + q.values.length) hj]
      congr 2 <;> omega

/-- **the `k`-th run of the `j`-th enabled parameter** sits at position `Σ_{i<j} nᵢ + k`, carries that
position as its `id` and run number, and its assignment is the configured values with exactly
`keyⱼ ↦ valuesⱼ[k]` changed. -/
theorem sequential_runs (d : String → α) (ps : List (Param α)) {j k : Nat} {p : Param α} {v : α}
    (hj : (enabledSteps ps)[j]? = some p) (hk : p.values[k]? = some v) :
    (sequentialRuns d ps)[offset (enabledSteps ps) j + k]? =
      some ⟨offset (enabledSteps ps) j + k,
            assign d (ekeys ps).eraseDups p.key v,
            offset (enabledSteps ps) j + k⟩ := by
  have := seqFrom_getElem? d (ekeys ps).eraseDups 0 (enabledSteps ps) hj hk
  simp only [Nat.zero_add] at this
  exact this

/-- and there is no other run: every run is the `k`-th run of some enabled parameter -/
theorem mem_seqFrom {d : String → α} {keys : List String} {n : Nat} {es : List (Param α)}
    {r : CRun α} (hr : r ∈ seqFrom d keys n es) :
    ∃ j k p v, es[j]? = some p ∧ p.values[k]? = some v ∧
      r = ⟨n + offset es j + k, assign d keys p.key v, n + offset es j + k⟩ := by
  induction es generalizing n with
  | nil => simp [seqFrom] at hr
  | cons q qs ih =>
    simp only [seqFrom, List.mem_append, List.mem_mapIdx] at hr
    rcases hr with ⟨k, hk, rfl⟩ | hr
    · exact ⟨0, k, q, q.values[k], by simp, by simp, by simp [offset]⟩
    · obtain ⟨j, k, p, v, hj, hk, rfl⟩ := ih hr
      refine ⟨j + 1, k, p, v, by simpa using hj, hk, ?_⟩
      have hoff : offset (q :: qs) (j + 1) = q.values.length + offset qs j := by
        simp [offset]
      rw [hoff]
      congr 1 <;> omega

theorem sequential_no_other_run {d : String → α} {ps : List (Param α)} {r : CRun α}
    (hr : r ∈ sequentialRuns d ps) :
    ∃ j k p v, (enabledSteps ps)[j]? = some p ∧ p.values[k]? = some v ∧
      r = ⟨offset (enabledSteps ps) j + k, assign d (ekeys ps).eraseDups p.key v,
           offset (enabledSteps ps) j + k⟩ := by
  obtain ⟨j, k, p, v, hj, hk, h⟩ := mem_seqFrom hr
  simp only [Nat.zero_add] at h
  exact ⟨j, k, p, v, hj, hk, h⟩

theorem seqFrom_index (d : String → α) (keys : List String) (n : Nat) (es : List (Param α)) :
    (seqFrom d keys n es).map (·.index) = List.range' n (es.map (·.values.length)).sum := by
  induction es generalizing n with
  | nil => rfl
  | cons p ps ih =>
    simp only [seqFrom, List.map_append, ih, List.map_cons, List.sum_cons, L.map_mapIdx]
    rw [← List.range'_append_1]
    congr 1
    apply List.ext_getElem?
    intro i
    by_cases hi : i < p.values.length
    · simp [hi]
    · simp [hi]

/-- the run ids of sequential mode are 0, 1, …, N−1 in order (no id missing or used twice) -/
theorem sequential_ids (d : String → α) (ps : List (Param α)) :
    (sequentialRuns d ps).map (·.index) = List.range (sequentialRuns d ps).length := by
  rw [sequential_length, sequentialRuns, seqFrom_index, List.range_eq_range']

theorem assign_keys (d : String → α) (keys : List String) (key : String) (v : α) :
    (assign d keys key v).map (·.1) = keys := by
  simp [assign, List.map_map, Function.comp_def]

/-- **only the stepped parameter changes**: reading the assignment at any of the keys gives the new
value for the stepped key and the configured value `d k` for every other key. -/
theorem assign_lookup (d : String → α) (keys : List String) (key : String) (v : α) {k : String}
    (hk : k ∈ keys) :
    (assign d keys key v).lookup k = some (if k = key then v else d k) := by
  induction keys with
  | nil => cases hk
  | cons x xs ih =>
    simp only [assign, List.map_cons, List.lookup_cons]
    by_cases hx : k = x
    · subst hx; simp
    · have : (k == x) = false := by simpa using hx
      rw [this]
      rcases List.mem_cons.mp hk with e | e
      · exact absurd e hx
      · exact ih e

theorem seqFrom_congr {d d' : String → α} {keys : List String} (h : ∀ k ∈ keys, d k = d' k)
    (n : Nat) (es : List (Param α)) : seqFrom d keys n es = seqFrom d' keys n es := by
  induction es generalizing n with
  | nil => rfl
  | cons p ps ih =>
    simp only [seqFrom, ih]
    congr 1
    apply List.ext_getElem?
    intro i
    simp only [List.getElem?_mapIdx]
    congr 1
    funext v
    have : assign d keys p.key v = assign d' keys p.key v := by
      unfold assign
      apply List.map_congr_left
      intro k hk
      rw [h k hk]
    rw [this]

/-- **the configured values are those of the current call**: the runs of a sequential observation depend
on the configuration only through the configured values of the swept keys of the processor handed to
*this* call — two calls (with the same `Observation`) on configurations that agree on those keys give
the same runs, and nothing else (no earlier call, no other setting) enters. -/
theorem sequential_defaults_of_current_call {d d' : String → α} (ps : List (Param α))
    (h : ∀ k ∈ ekeys ps, d k = d' k) : sequentialRuns d ps = sequentialRuns d' ps := by
  unfold sequentialRuns
  exact seqFrom_congr (fun k hk => h k (List.mem_eraseDups.mp hk)) 0 _

-- non-vacuity: 2 + 3 runs, defaults kept for the other key
example :
    sequentialRuns (fun k => if k = "a" then 100 else 200)
      ([⟨"a", [1, 2], true, false⟩, ⟨"x", [5], false, false⟩, ⟨"b", [7, 8, 9], true, false⟩] :
        List (Param Nat))
      = [⟨0, [("a", 1), ("b", 200)], 0⟩, ⟨1, [("a", 2), ("b", 200)], 1⟩,
         ⟨2, [("a", 100), ("b", 7)], 2⟩, ⟨3, [("a", 100), ("b", 8)], 3⟩,
         ⟨4, [("a", 100), ("b", 9)], 4⟩] := by decide

/-! ## 3. custom mode: one run per table row, columns assigned in declaration order -/

/-- first column of the `j`-th enabled parameter: `Σ_{i<j} widthᵢ` -/
def coff (es : List CParam) (j : Nat) : Nat := ((es.take j).map (·.cols)).sum

theorem cutRow_spec {row : List α} {i : Nat} {es : List CParam} {out : List (String × CVal α)}
    (h : cutRow row i es = some out) :
    out.length = es.length ∧
    ∀ j p, es[j]? = some p →
      ∃ v, cutOne row (i + coff es j) p.width = some v ∧ out[j]? = some (p.key, v) := by
  induction es generalizing i out with
  | nil => simp [cutRow] at h; subst h; simp
  | cons q qs ih =>
    simp only [cutRow] at h
    split at h
    · rename_i v rest hv hrest
      cases h
      obtain ⟨hlen, hall⟩ := ih hrest
      refine ⟨by simp [hlen], ?_⟩
      intro j p hj
      cases j with
      | zero =>
        simp only [List.getElem?_cons_zero, Option.some.injEq] at hj
        subst hj
        exact ⟨v, by simpa [coff] using hv, by simp⟩
      | succ j =>
        simp only [List.getElem?_cons_succ] at hj
        obtain ⟨w, hw, hout⟩ := hall j p hj
        refine ⟨w, ?_, by simpa using hout⟩
        have : i + coff (q :: qs) (j + 1) = i + q.cols + coff qs j := by
          simp [coff]; omega
        rw [this]; exact hw
    · cases h

theorem cutRow_isSome {row : List α} {i : Nat} {es : List CParam}
    (h : i + totalCols es ≤ row.length) : ∃ out, cutRow row i es = some out := by
  induction es generalizing i with
  | nil => exact ⟨[], rfl⟩
  | cons q qs ih =>
    have htot : totalCols (q :: qs) = q.cols + totalCols qs := by simp [totalCols]
    obtain ⟨rest, hrest⟩ := ih (i := i + q.cols) (by omega)
    have hone : ∃ v, cutOne row i q.width = some v := by
      cases hw : q.width with
      | none =>
        have : q.cols = 1 := by simp [CParam.cols, hw]
        have hi : i < row.length := by omega
        exact ⟨CVal.scalar row[i], by simp [cutOne, List.getElem?_eq_getElem hi]⟩
      | some w =>
        have : q.cols = w := by simp [CParam.cols, hw]
        exact ⟨_, by simp only [cutOne]; rw [if_pos (by omega)]⟩
    obtain ⟨v, hv⟩ := hone
    exact ⟨(q.key, v) :: rest, by simp [cutRow, hv, hrest]⟩

theorem rowsFrom_spec {es : List CParam} {n : Nat} {rows : List (List α)}
    {rs : List (CRun (CVal α))} (h : rowsFrom es n rows = some rs) :
    rs.length = rows.length ∧
    ∀ (m : Nat) (row : List α), rows[m]? = some row →
      ∃ a, cutRow row 0 es = some a ∧ rs[m]? = some (⟨n + m, a, n + m⟩ : CRun (CVal α)) := by
  induction rows generalizing n rs with
  | nil => simp [rowsFrom] at h; subst h; simp
  | cons row rows ih =>
    simp only [rowsFrom] at h
    split at h
    · rename_i a rest ha hrest
      cases h
      obtain ⟨hlen, hall⟩ := ih hrest
      refine ⟨by simp [hlen], ?_⟩
      intro m row' hm
      cases m with
      | zero =>
        simp only [List.getElem?_cons_zero, Option.some.injEq] at hm
        subst hm
        exact ⟨a, ha, by simp⟩
      | succ m =>
        simp only [List.getElem?_cons_succ] at hm
        obtain ⟨a', ha', hrs⟩ := hall m row' hm
        refine ⟨a', ha', ?_⟩
        simp only [List.getElem?_cons_succ, hrs]
        congr 2 <;> omega
    · cases h

theorem rowsFrom_isSome {es : List CParam} {n : Nat} {rows : List (List α)}
    (h : ∀ row ∈ rows, totalCols es ≤ row.length) : ∃ rs, rowsFrom es n rows = some rs := by
  induction rows generalizing n with
  | nil => exact ⟨[], rfl⟩
  | cons row rows ih =>
    obtain ⟨a, ha⟩ := cutRow_isSome (row := row) (i := 0) (es := es)
      (by simpa using h row (by simp))
    obtain ⟨rest, hrest⟩ := ih (n := n + 1) (fun r hr => h r (by simp [hr]))
    exact ⟨⟨n, a, n⟩ :: rest, by simp [rowsFrom, ha, hrest]⟩

/-- **one run per table row, numbered by row; the `j`-th enabled parameter receives the columns
`[offsetⱼ, offsetⱼ + widthⱼ)` of that row, `offsetⱼ = Σ_{i<j} widthᵢ`** — as a scalar when it is
declared with the bare `_`, as the list of those `w` entries when declared with `w` placeholders.
Hypotheses: what `CustomMode.build` checks (at least one placeholder, as many placeholders as
columns) and that the table is rectangular. -/
theorem custom_columns (ncols : Nat) (rows : List (List α)) (ps : List CParam)
    (h0 : totalCols (cenabled ps) ≠ 0) (hc : totalCols (cenabled ps) = ncols)
    (hrect : ∀ row ∈ rows, row.length = ncols) :
    ∃ rs, customRuns ncols rows ps = .ok rs ∧ rs.length = rows.length ∧
      ∀ (m : Nat) (row : List α), rows[m]? = some row →
        ∃ a : List (String × CVal α),
          rs[m]? = some (⟨m, a, m⟩ : CRun (CVal α)) ∧ a.length = (cenabled ps).length ∧
          ∀ j p, (cenabled ps)[j]? = some p →
            ∃ v, a[j]? = some (p.key, v) ∧
              (p.width = none →
                ∃ x, row[coff (cenabled ps) j]? = some x ∧ v = CVal.scalar x) ∧
              (∀ w, p.width = some w →
                coff (cenabled ps) j + w ≤ row.length ∧
                v = CVal.vec ((row.drop (coff (cenabled ps) j)).take w)) := by
  obtain ⟨rs, hrs⟩ := rowsFrom_isSome (es := cenabled ps) (n := 0) (rows := rows)
    (fun row hr => by rw [hrect row hr, hc]; exact Nat.le_refl _)
  obtain ⟨hlen, hall⟩ := rowsFrom_spec hrs
  refine ⟨rs, ?_, hlen, ?_⟩
  · simp only [customRuns, if_neg h0]
    rw [if_neg (by simpa using hc), hrs]
  · intro m row hm
    obtain ⟨a, ha, hrm⟩ := hall m row hm
    obtain ⟨halen, hcols⟩ := cutRow_spec ha
    refine ⟨a, by simpa only [Nat.zero_add] using hrm, halen, ?_⟩
    intro j p hj
    obtain ⟨v, hv, hout⟩ := hcols j p hj
    rw [Nat.zero_add] at hv
    refine ⟨v, hout, ?_, ?_⟩
    · intro hw
      rw [hw] at hv
      simp only [cutOne, Option.map_eq_some_iff] at hv
      obtain ⟨x, hx, rfl⟩ := hv
      exact ⟨x, hx, rfl⟩
    · intro w hw
      rw [hw] at hv
      simp only [cutOne] at hv
      split at hv
      · rename_i hle
        cases hv
        exact ⟨hle, rfl⟩
      · cases hv

/-- a table whose column count is not the number of placeholders is refused before any run -/
theorem custom_rejects_wrong_width (ncols : Nat) (rows : List (List α)) (ps : List CParam)
    (hc : totalCols (cenabled ps) ≠ ncols) :
    ∃ e, customRuns ncols rows ps = .error e := by
  unfold customRuns
  by_cases h0 : totalCols (cenabled ps) = 0
  · exact ⟨.missingPlaceholder, by simp only [if_pos h0]⟩
  · exact ⟨.columnCount, by simp only [if_neg h0, if_pos hc]⟩

-- non-vacuity: scalar, 2-vector, disabled parameter, 1-vector; two rows
example :
    customRuns 4 [[1, 2, 3, 4], [5, 6, 7, 8]]
      [⟨"s", none, true⟩, ⟨"v", some 2, true⟩, ⟨"off", none, false⟩, ⟨"w", some 1, true⟩]
      = .ok [⟨0, [("s", .scalar 1), ("v", .vec [2, 3]), ("w", .vec [4])], 0⟩,
             ⟨1, [("s", .scalar 5), ("v", .vec [6, 7]), ("w", .vec [8])], 1⟩] := by decide

/-! ## 4. disabled parameters are ignored -/

/-- the runs of every mode depend on the enabled parameters only: two declarations that differ in
disabled parameters (added, removed, moved, with any values) give the same runs. -/
theorem disabled_ignored_product {ps ps' : List (Param α)}
    (h : ps.filter (·.enabled) = ps'.filter (·.enabled)) : productRuns ps = productRuns ps' := by
  simp only [productRuns, enabledSteps, h]

theorem disabled_ignored_sequential (d : String → α) {ps ps' : List (Param α)}
    (h : ps.filter (·.enabled) = ps'.filter (·.enabled)) :
    sequentialRuns d ps = sequentialRuns d ps' := by
  simp only [sequentialRuns, enabledSteps, h]

theorem disabled_ignored_custom (ncols : Nat) (rows : List (List α)) {ps ps' : List CParam}
    (h : ps.filter (·.enabled) = ps'.filter (·.enabled)) :
    customRuns ncols rows ps = customRuns ncols rows ps' := by
  unfold customRuns cenabled
  rw [h]

/-- in particular dropping the disabled parameters changes nothing -/
theorem disabled_ignored (d : String → α) (ps : List (Param α)) :
    productRuns (ps.filter (·.enabled)) = productRuns ps ∧
    sequentialRuns d (ps.filter (·.enabled)) = sequentialRuns d ps :=
  ⟨disabled_ignored_product (by simp), disabled_ignored_sequential d (by simp)⟩

/-- **disabled parameters are ignored by the validation too**: whatever a disabled parameter points at (a missing key,
an argument of a switched-off model, placeholders), the verdict is that of the enabled parameters alone. -/
theorem validate_ignores_disabled (custom : Bool) (fs : List StepFacts) :
    validateSteps custom fs = validateSteps custom (fs.filter (·.enabled)) := by
  induction fs with
  | nil => rfl
  | cons f fs ih =>
    by_cases he : f.enabled = true
    · simp only [validateSteps, List.filter_cons, he, Bool.not_true, if_true]
      simp only [Bool.false_eq_true, if_false, ih]
    · have he' : f.enabled = false := by simpa using he
      simp only [validateSteps, List.filter_cons, he', Bool.not_false, if_true, Bool.false_eq_true, if_false, ih]

/-- a declaration whose enabled parameters are all sound is accepted, whatever the disabled ones are -/
theorem validate_ok_of_enabled_sound (custom : Bool) (fs : List StepFacts)
    (h : ∀ f ∈ fs, f.enabled = true → f.hasKey = true ∧ f.modelOn = true ∧ (f.placeholder = true → custom = true)) :
    validateSteps custom fs = .ok () := by
  induction fs with
  | nil => rfl
  | cons f fs ih =>
    have ih' := ih (fun g hg => h g (List.mem_cons_of_mem _ hg))
    by_cases he : f.enabled = true
    · obtain ⟨h1, h2, h3⟩ := h f (by simp) he
      simp only [validateSteps, he, h1, h2, Bool.not_true, Bool.false_eq_true, if_false]
      by_cases hp : f.placeholder = true
      · have hc := h3 hp
        subst hc
        simp [hp, ih']
      · have hp' : f.placeholder = false := by simpa using hp
        simp [hp', ih']
    · have he' : f.enabled = false := by simpa using he
      simp only [validateSteps, he', Bool.not_false, if_true, ih']

-- non-vacuity: a disabled parameter on a switched-off model and one with a missing key are ignored; an enabled one is not
example : validateSteps false [⟨false, true, false, false⟩, ⟨true, true, true, false⟩, ⟨false, false, true, true⟩] = .ok () ∧
    validateSteps false [⟨true, true, false, false⟩] = .error .modelNotEnabled := by decide

/-- a product run assigns only keys of *enabled* parameters, with values from their own lists -/
theorem product_assigns_enabled_only {ps : List (Param α)} {r : Run α} (hr : r ∈ productRuns ps)
    {kv : String × α} (hkv : kv ∈ r.params) :
    ∃ p ∈ ps, p.enabled = true ∧ p.key = kv.1 ∧ kv.2 ∈ p.values := by
  obtain ⟨j, hj, rfl⟩ := List.mem_iff_getElem.mp hkv
  have h := product_values hr j
  rw [List.getElem?_eq_getElem hj] at h
  have h' := h.symm
  simp only [Option.bind_eq_some_iff, Option.map_eq_some_iff] at h'
  obtain ⟨p, hp, i, _, v, hv, he⟩ := h'
  have hpm : p ∈ enabledSteps ps := List.mem_of_getElem? hp
  have hpm' := List.mem_filter.mp hpm
  refine ⟨p, hpm'.1, by simpa using hpm'.2, ?_, ?_⟩
  · rw [← he]
  · rw [← he]; exact List.mem_of_getElem? hv

/-! ## 5. selecting by label yields the data produced with exactly those values -/

/-- generic: in a result whose labels are pairwise different, looking a run's label up yields that
run's data (no entry is stored under another run's label, none is shadowed). -/
theorem lookup_result {ρ Lb δ : Type} [BEq Lb] [LawfulBEq Lb] (label : ρ → Lb) (f : ρ → δ) (runs : List ρ)
    (hnd : (runs.map label).Nodup) {r : ρ} (hr : r ∈ runs) :
    (result label f runs).lookup (label r) = some (f r) :=
  L.lookup_map_of_nodup runs label f hnd hr

theorem result_length {ρ Lb δ : Type} (label : ρ → Lb) (f : ρ → δ) (runs : List ρ) :
    (result label f runs).length = runs.length := by simp [result]

/-- parallel path (labels are the values): distinct as soon as no value list repeats a value -/
theorem labelPar_nodup {ps : List (Param α)} (h : ∀ p ∈ enabledSteps ps, p.values.Nodup) :
    ((productRuns ps).map labelPar).Nodup := by
  have : (productRuns ps).map labelPar = prod (evals ps) := product_values_complete ps
  rw [this]
  apply prod_nodup
  intro l hl
  obtain ⟨p, hp, rfl⟩ := List.mem_map.mp hl
  exact h p hp

theorem pick?_cons_eq_some {l : List α} {ls : List (List α)} {i : Nat} {is : List Nat}
    {v : List α} (h : pick? (l :: ls) (i :: is) = some v) :
    ∃ x xs, l[i]? = some x ∧ pick? ls is = some xs ∧ v = x :: xs := by
  simp only [pick?, Option.bind_eq_some_iff, Option.map_eq_some_iff] at h
  obtain ⟨x, hx, xs, hxs, rfl⟩ := h
  exact ⟨x, xs, hx, hxs, rfl⟩

theorem labelSeqAux_inj [DecidableEq α] {es : List (Param α)}
    (hnd : ∀ p ∈ es, p.multi = false → p.values.Nodup)
    {I I' : List Nat} {v v' : List α}
    (hv : pick? (es.map (·.values)) I = some v) (hv' : pick? (es.map (·.values)) I' = some v')
    (h : labelSeqAux es I ((es.map (·.key)).zip v) = labelSeqAux es I' ((es.map (·.key)).zip v')) :
    I = I' := by
  induction es generalizing I I' v v' with
  | nil =>
    cases I with
    | nil => cases I' with
      | nil => rfl
      | cons => simp [pick?] at hv'
    | cons => simp [pick?] at hv
  | cons p es ih =>
    cases I with
    | nil => simp [pick?] at hv
    | cons i is =>
      cases I' with
      | nil => simp [pick?] at hv'
      | cons i' is' =>
        simp only [List.map_cons] at hv hv'
        obtain ⟨x, xs, hx, hxs, rfl⟩ := pick?_cons_eq_some hv
        obtain ⟨x', xs', hx', hxs', rfl⟩ := pick?_cons_eq_some hv'
        simp only [List.map_cons, List.zip_cons_cons, labelSeqAux, List.cons.injEq] at h
        have htl := ih (fun q hq => hnd q (by simp [hq])) hxs hxs' h.2
        have hhd : i = i' := by
          by_cases hm : p.multi = true
          · simpa [hm] using h.1
          · have hm' : p.multi = false := by simpa using hm
            have hxx : x = x' := by simpa [hm'] using h.1
            subst hxx
            have hnd' := hnd p (by simp) hm'
            obtain ⟨hi, hxi⟩ := List.getElem?_eq_some_iff.mp hx
            obtain ⟨hi', hxi'⟩ := List.getElem?_eq_some_iff.mp hx'
            exact (List.Nodup.getElem_inj_iff hnd').mp (hxi.trans hxi'.symm)
        rw [hhd, htl]

/-- sequential path (vector-valued parameters labelled by position, scalar ones by value): distinct
as soon as no *scalar* value list repeats a value -/
theorem labelSeq_nodup [DecidableEq α] {ps : List (Param α)}
    (h : ∀ p ∈ enabledSteps ps, p.multi = false → p.values.Nodup) :
    ((productRuns ps).map (labelSeq ps)).Nodup := by
  have hidx : ((productRuns ps).map (·.index)).Nodup := (product_complete_nodup ps).2.1
  have hruns : (productRuns ps).Nodup := List.Nodup.of_map _ hidx
  refine List.Nodup.map_on ?_ hruns
  intro r hr r' hr' hl
  obtain ⟨_, v, hv, _, hp, _⟩ := product_run_spec hr
  obtain ⟨_, v', hv', _, hp', _⟩ := product_run_spec hr'
  have hI : r.index = r'.index := by
    apply labelSeqAux_inj h hv hv'
    simpa only [labelSeq, hp, hp', ekeys] using hl
  exact List.inj_on_of_nodup_map hidx hr hr' hI

/-- **selecting the entry labelled with given parameter values yields the data produced with exactly
those values** — product mode, both paths, for any run function `f` and any index tuple of the box:
the entry found under the label of the run with index `I` is `f` of the assignment
`keyⱼ ↦ valuesⱼ[Iⱼ]`. -/
theorem lookup_by_label [DecidableEq α] {δ : Type} (f : Run α → δ) {ps : List (Param α)}
    {r : Run α} (hr : r ∈ productRuns ps) :
    ((∀ p ∈ enabledSteps ps, p.multi = false → p.values.Nodup) →
      (result (labelSeq ps) f (productRuns ps)).lookup (labelSeq ps r) = some (f r)) ∧
    ((∀ p ∈ enabledSteps ps, p.values.Nodup) →
      (result labelPar f (productRuns ps)).lookup (labelPar r) = some (f r)) :=
  ⟨fun h => lookup_result _ f _ (labelSeq_nodup h) hr,
   fun h => lookup_result _ f _ (labelPar_nodup h) hr⟩

/-- sequential and custom mode are labelled by run id: always distinct -/
theorem lookup_by_id_sequential {δ : Type} (f : CRun α → δ) (d : String → α) {ps : List (Param α)}
    {r : CRun α} (hr : r ∈ sequentialRuns d ps) :
    (result (·.index) f (sequentialRuns d ps)).lookup r.index = some (f r) := by
  apply lookup_result (fun r : CRun α => r.index) f _ _ hr
  rw [sequential_ids]
  exact List.nodup_range

theorem customRuns_ok_rowsFrom {ncols : Nat} {rows : List (List α)} {ps : List CParam}
    {rs : List (CRun (CVal α))} (h : customRuns ncols rows ps = .ok rs) :
    rowsFrom (cenabled ps) 0 rows = some rs := by
  unfold customRuns at h
  dsimp only at h
  split at h
  · cases h
  · split at h
    · cases h
    · split at h
      · rename_i rs' hrs'; cases h; exact hrs'
      · cases h

/-- the run ids of custom mode are the row numbers 0, 1, …, N−1 -/
theorem custom_ids {ncols : Nat} {rows : List (List α)} {ps : List CParam}
    {rs : List (CRun (CVal α))} (h : customRuns ncols rows ps = .ok rs) :
    rs.map (·.index) = List.range rs.length := by
  obtain ⟨hlen, hall⟩ := rowsFrom_spec (customRuns_ok_rowsFrom h)
  apply List.ext_getElem?
  intro m
  by_cases hm : m < rs.length
  · obtain ⟨a, _, hrm⟩ := hall m rows[m] (List.getElem?_eq_getElem (hlen ▸ hm))
    rw [List.getElem?_eq_getElem hm, Option.some.injEq] at hrm
    simp [hm, hrm]
  · simp [hm]

theorem lookup_by_id_custom {δ : Type} (f : CRun (CVal α) → δ) {ncols : Nat} {rows : List (List α)}
    {ps : List CParam} {rs : List (CRun (CVal α))} (h : customRuns ncols rows ps = .ok rs)
    {r : CRun (CVal α)} (hr : r ∈ rs) :
    (result (·.index) f rs).lookup r.index = some (f r) := by
  apply lookup_result (fun r : CRun (CVal α) => r.index) f _ _ hr
  rw [custom_ids h]
  exact List.nodup_range

-- the hypothesis of `lookup_by_label` is not decorative: a repeated value makes two runs share a label
example :
    (result labelPar (fun r => r.runIndex)
      (productRuns ([⟨"k", [5, 5], true, false⟩] : List (Param Nat)))).lookup [5] = some 0 ∧
    (productRuns ([⟨"k", [5, 5], true, false⟩] : List (Param Nat))).length = 2 := by decide

/-! ## 6. dimension names: different parameters never share a name (repaired code) -/

theorem ending_length (n : Nat) (l : List String) : (ending n l).length = min n l.length := by
  simp only [ending, List.length_drop]; omega

theorem ending_of_le {n : Nat} {l : List String} (h : l.length ≤ n) : ending n l = l := by
  have : l.length - n = 0 := by omega
  simp [ending, this]

theorem ending_ending {m n : Nat} (h : m ≤ n) (l : List String) :
    ending m (ending n l) = ending m l := by
  have hl := ending_length n l
  unfold ending at hl ⊢
  rw [hl, List.drop_drop]
  congr 1
  omega

theorem findEnding_some {others : List Key} {parts : Key} {fuel n₀ : Nat} {e : List String}
    (h : findEnding others parts fuel n₀ = some e) :
    ∃ n, n₀ ≤ n ∧ e = ending n parts ∧ ∀ o ∈ others, ending n o ≠ ending n parts := by
  induction fuel generalizing n₀ with
  | zero => simp [findEnding] at h
  | succ fuel ih =>
    simp only [findEnding] at h
    split at h
    · rename_i hall
      cases h
      refine ⟨n₀, Nat.le_refl _, rfl, ?_⟩
      intro o ho
      have := List.all_eq_true.mp hall o ho
      simpa using this
    · obtain ⟨n, hn, he, hall⟩ := ih h
      exact ⟨n, by omega, he, hall⟩

theorem findEnding_isSome {others : List Key} {parts : Key} {fuel n₀ n : Nat}
    (hn : n₀ ≤ n) (hfuel : n < n₀ + fuel) (hall : ∀ o ∈ others, ending n o ≠ ending n parts) :
    ∃ e, findEnding others parts fuel n₀ = some e := by
  induction fuel generalizing n₀ with
  | zero => omega
  | succ fuel ih =>
    simp only [findEnding]
    split
    · exact ⟨_, rfl⟩
    · rename_i hnot
      have hne : n₀ ≠ n := by
        intro e; subst e
        apply hnot
        rw [List.all_eq_true]
        intro o ho
        simpa using hall o ho
      exact ih (n₀ := n₀ + 1) (by omega) (by omega)

theorem le_foldl_max (ls : List Key) (m : Nat) :
    m ≤ ls.foldl (fun m o => max m o.length) m ∧
    ∀ o ∈ ls, o.length ≤ ls.foldl (fun m o => max m o.length) m := by
  induction ls generalizing m with
  | nil => simp
  | cons x xs ih =>
    simp only [List.foldl_cons]
    obtain ⟨h1, h2⟩ := ih (max m x.length)
    refine ⟨by omega, ?_⟩
    intro o ho
    rcases List.mem_cons.mp ho with rfl | ho
    · omega
    · exact h2 o ho

/-- what the repaired `_get_short_name_with_model` returns for a key of a set of keys whose
`arguments`-free forms are pairwise different: an ending of at least two parts that no other key of
the set shares. -/
theorem qualified_spec {keys : List Key} (hnd : (keys.map filt).Nodup) {k : Key} (hk : k ∈ keys)
    (hlen : 2 ≤ (filt k).length) :
    ∃ n, 2 ≤ n ∧ qualified keys k = ending n (filt k) ∧
      ∀ k' ∈ keys, k' ≠ k → ending n (filt k') ≠ ending n (filt k) := by
  set others := (keys.filter (· ≠ k)).map filt with hothers
  set maxLen := (filt k :: others).foldl (fun m o => max m o.length) 0 with hmax
  have hmaxle := (le_foldl_max (filt k :: others) 0).2
  have hpl : (filt k).length ≤ maxLen := hmaxle _ (by simp)
  have hother : ∀ o ∈ others, ending maxLen o ≠ ending maxLen (filt k) := by
    intro o ho
    rw [ending_of_le (hmaxle o (by simp [ho])), ending_of_le hpl]
    obtain ⟨k', hk', rfl⟩ := List.mem_map.mp ho
    have hk'' := List.mem_filter.mp hk'
    intro e
    have := List.inj_on_of_nodup_map hnd hk''.1 hk e
    simp [this] at hk''
  obtain ⟨e, he⟩ := findEnding_isSome (others := others) (parts := filt k) (fuel := maxLen - 1)
    (n₀ := 2) (n := maxLen) (by omega) (by omega) hother
  obtain ⟨n, hn, hen, hall⟩ := findEnding_some he
  refine ⟨n, hn, ?_, ?_⟩
  · simp only [qualified, ← hothers, ← hmax, he, hen]
  · intro k' hk' hne
    exact hall _ (List.mem_map.mpr ⟨k', List.mem_filter.mpr ⟨hk', by simpa using hne⟩, rfl⟩)

theorem two_le_count_of_ne {β γ : Type} [BEq γ] [LawfulBEq γ] (f : β → γ) {l : List β} {a b : β}
    (ha : a ∈ l) (hb : b ∈ l) (hab : a ≠ b) (hf : f a = f b) : 2 ≤ (l.map f).count (f a) := by
  induction l with
  | nil => cases ha
  | cons x xs ih =>
    rw [List.map_cons, List.count_cons]
    rcases List.mem_cons.mp ha with rfl | ha' <;> rcases List.mem_cons.mp hb with rfl | hb'
    · exact absurd rfl hab
    · have : 0 < (xs.map f).count (f a) :=
        List.count_pos_iff.mpr (hf ▸ List.mem_map_of_mem hb')
      have e : (f a == f a) = true := by simp
      simp only [e, ↓reduceIte]; omega
    · have : 0 < (xs.map f).count (f a) := List.count_pos_iff.mpr (List.mem_map_of_mem ha')
      have e : (f b == f a) = true := by simp [hf]
      simp only [e, ↓reduceIte]; omega
    · have := ih ha' hb'
      split <;> omega

theorem shortName_length_le (k : Key) : (shortName k).length ≤ 1 := by
  unfold shortName
  split
  · simp
  · rw [ending_length]; omega

/-- **the dimension names of different parameters are different** (all key sets whose
`arguments`-free dotted forms are pairwise different and have at least two parts — every real
`detector.…` / `pipeline.…` key has three or more). -/
theorem dimNames_injective (keys : List Key) (hnd : (keys.map filt).Nodup)
    (hlen : ∀ k ∈ keys, 2 ≤ (filt k).length) : (dimNames keys).Nodup := by
  have hkeys : keys.Nodup := List.Nodup.of_map _ hnd
  refine List.Nodup.map_on ?_ hkeys
  intro k hk k' hk' heq
  by_contra hne
  unfold dimName at heq
  by_cases hd : 1 < (keys.map shortName).count (shortName k) <;>
    by_cases hd' : 1 < (keys.map shortName).count (shortName k')
  · rw [if_pos hd, if_pos hd'] at heq
    obtain ⟨n, _, hq, hall⟩ := qualified_spec hnd hk (hlen k hk)
    obtain ⟨n', _, hq', hall'⟩ := qualified_spec hnd hk' (hlen k' hk')
    rw [hq, hq'] at heq
    rcases Nat.le_total n n' with hle | hle
    · have := congrArg (ending n) heq
      rw [ending_ending (Nat.le_refl n), ending_ending hle] at this
      exact hall k' hk' (Ne.symm hne) this.symm
    · have := congrArg (ending n') heq
      rw [ending_ending hle, ending_ending (Nat.le_refl n')] at this
      exact hall' k hk hne this
  · rw [if_pos hd, if_neg hd'] at heq
    obtain ⟨n, hn, hq, _⟩ := qualified_spec hnd hk (hlen k hk)
    have h1 := congrArg List.length heq
    rw [hq, ending_length] at h1
    have := shortName_length_le k'
    have := hlen k hk
    omega
  · rw [if_neg hd, if_pos hd'] at heq
    obtain ⟨n, hn, hq, _⟩ := qualified_spec hnd hk' (hlen k' hk')
    have h1 := congrArg List.length heq
    rw [hq, ending_length] at h1
    have := shortName_length_le k
    have := hlen k' hk'
    omega
  · rw [if_neg hd, if_neg hd'] at heq
    exact hd (Nat.lt_of_succ_le (two_le_count_of_ne shortName hk hk' hne heq))

/-- keys whose last parts already differ keep the plain short names (`level`, `temperature`, …) -/
theorem dimNames_short_when_distinct (keys : List Key) (h : (keys.map shortName).Nodup) :
    dimNames keys = keys.map shortName := by
  unfold dimNames
  apply List.map_congr_left
  intro k hk
  unfold dimName
  rw [if_neg]
  have := List.nodup_iff_count_le_one.mp h (shortName k)
  omega

-- the two collisions of DESIGN §7, repaired: model argument vs detector field, one model name in two groups
example :
    dimNames [["pipeline", "photon_collection", "m", "arguments", "quantum_efficiency"],
              ["detector", "characteristics", "quantum_efficiency"],
              ["detector", "environment", "temperature"]]
      = [["m", "quantum_efficiency"], ["characteristics", "quantum_efficiency"], ["temperature"]] := by
  decide
example :
    dimNames [["pipeline", "photon_collection", "m", "arguments", "a"],
              ["pipeline", "charge_generation", "m", "arguments", "a"],
              ["pipeline", "charge_generation", "n", "arguments", "a"]]
      = [["photon_collection", "m", "a"], ["charge_generation", "m", "a"], ["n", "a"]] := by decide
-- counter-witnesses for the code before the repair: a crash (`none`) and two equal names
example :
    oldDimName [["pipeline", "photon_collection", "m", "arguments", "quantum_efficiency"],
                ["detector", "characteristics", "quantum_efficiency"]]
      ["detector", "characteristics", "quantum_efficiency"] = none := by decide
example :
    let keys := [["pipeline", "photon_collection", "m", "arguments", "a"],
                 ["pipeline", "charge_generation", "m", "arguments", "a"]]
    keys.map (oldDimName keys) = [some ["m", "a"], some ["m", "a"]] := by decide

end PyxelModel.C05
