import PyxelModel.Model.C19
import PyxelModel.Generated.C19
import Std.Data.String.ToNat
/-!
# C19 — property theorems (statement: properties.jsonl C19)

Quantifiers: every content of the parent folder, every prefix / time stamp, every number of
simultaneously starting simulations and **every interleaving** of their retry loops; every save
list, every number of runs, every content.
-/
namespace PyxelModel.C19

/-! ### directory names are injective in the attempt counter -/

theorem suffix_inj {k k' : Nat} (h : suffix k = suffix k') : k = k' := by
  unfold suffix at h
  by_cases h0 : k = 0 <;> by_cases h0' : k' = 0 <;> simp [h0, h0'] at h
  · omega
  · have h' : (Nat.repr k).toList = (Nat.repr k').toList := by simpa using h
    exact Nat.repr_injective (String.toList_injective h')

theorem dirName_inj {pre stamp : List Char} {k k' : Nat}
    (h : dirName pre stamp k = dirName pre stamp k') : k = k' := by
  unfold dirName at h
  exact suffix_inj (List.append_cancel_left h)

/-- counting: if the first `n` candidate names are all taken, the folder holds at least `n` names -/
theorem taken_le_length (pre stamp : List Char) (fs : List (List Char)) (k n : Nat)
    (h : ∀ j, k ≤ j → j < k + n → dirName pre stamp j ∈ fs) : n ≤ fs.length := by
  have hnd : ((List.range n).map (fun j => dirName pre stamp (k + j))).Nodup := by
    unfold List.Nodup
    rw [List.pairwise_map]
    refine List.Pairwise.imp ?_ (List.nodup_range (n := n))
    intro a b hab e
    have := dirName_inj e
    omega
  have hsub : (List.range n).map (fun j => dirName pre stamp (k + j)) ⊆ fs := by
    intro x hx
    obtain ⟨j, hj, rfl⟩ := List.mem_map.mp hx
    exact h (k + j) (by omega) (by have := List.mem_range.mp hj; omega)
  have := hnd.length_le_of_subset hsub
  simpa using this

/-! ### one process -/

theorem mkdirExcl_some {fs fs' : List (List Char)} {d : List Char} (h : mkdirExcl fs d = some fs') :
    d ∉ fs ∧ fs' = d :: fs := by
  unfold mkdirExcl at h
  split at h
  · cases h
  · simp only [Option.some.injEq] at h; exact ⟨by assumption, h.symm⟩

theorem createDirFrom_some {pre stamp : List Char} {fs : List (List Char)} {fuel k : Nat}
    {d : List Char} {fs' : List (List Char)}
    (h : createDirFrom pre stamp fs fuel k = some (d, fs')) :
    d ∉ fs ∧ fs' = d :: fs ∧
      ∃ k', k ≤ k' ∧ d = dirName pre stamp k' ∧ ∀ j, k ≤ j → j < k' → dirName pre stamp j ∈ fs := by
  induction fuel generalizing k with
  | zero => simp [createDirFrom] at h
  | succ fuel ih =>
    unfold createDirFrom at h
    cases hm : mkdirExcl fs (dirName pre stamp k) with
    | some fs1 =>
      rw [hm] at h
      simp only [Option.some.injEq, Prod.mk.injEq] at h
      obtain ⟨rfl, rfl⟩ := h
      obtain ⟨h1, h2⟩ := mkdirExcl_some hm
      exact ⟨h1, h2, k, Nat.le_refl _, rfl, fun j hj hj' => by omega⟩
    | none =>
      rw [hm] at h
      obtain ⟨h1, h2, k', hk, hd, hall⟩ := ih h
      refine ⟨h1, h2, k', by omega, hd, ?_⟩
      intro j hj hj'
      by_cases hjk : j = k
      · subst hjk
        unfold mkdirExcl at hm
        split at hm
        · assumption
        · cases hm
      · exact hall j (by omega) hj'

theorem createDirFrom_none {pre stamp : List Char} {fs : List (List Char)} {fuel k : Nat}
    (h : createDirFrom pre stamp fs fuel k = none) :
    ∀ j, k ≤ j → j < k + fuel → dirName pre stamp j ∈ fs := by
  induction fuel generalizing k with
  | zero => intro j h1 h2; omega
  | succ fuel ih =>
    unfold createDirFrom at h
    cases hm : mkdirExcl fs (dirName pre stamp k) with
    | some fs1 => rw [hm] at h; cases h
    | none =>
      rw [hm] at h
      intro j hj hj'
      by_cases hjk : j = k
      · subst hjk
        unfold mkdirExcl at hm
        split at hm
        · assumption
        · cases hm
      · exact ih h j (by omega) (by omega)

/-- **Termination obligation of the retry loop**: `len(folder) + 1` attempts always suffice — the
`while True` loop of `create_output_directory` ends for every folder content. -/
theorem createDir_terminates (pre stamp : List Char) (fs : List (List Char)) :
    ∃ d fs', createDir pre stamp fs = some (d, fs') := by
  unfold createDir
  cases h : createDirFrom pre stamp fs (fs.length + 1) 0 with
  | some r => exact ⟨r.1, r.2, rfl⟩
  | none =>
    have := taken_le_length pre stamp fs 0 (fs.length + 1) (createDirFrom_none h)
    omega

/-- **The directory a simulation writes into is freshly created**: it did not exist before, it is
the only thing added to the parent folder, and it is the *first* free name of the sequence
`stamp, stamp_1, stamp_2, …`. -/
theorem dir_fresh {pre stamp : List Char} {fs fs' : List (List Char)} {d : List Char}
    (h : createDir pre stamp fs = some (d, fs')) :
    d ∉ fs ∧ fs' = d :: fs ∧
      ∃ k, d = dirName pre stamp k ∧ ∀ j, j < k → dirName pre stamp j ∈ fs := by
  obtain ⟨h1, h2, k, _, hd, hall⟩ := createDirFrom_some h
  exact ⟨h1, h2, k, hd, fun j hj => hall j (Nat.zero_le _) hj⟩

/-- **Two starts within the same second** (same prefix, same stamp — or any other pair) get
different directories, and the second leaves the first in place. -/
theorem same_second_distinct {pre stamp pre' stamp' : List Char} {fs fs1 fs2 : List (List Char)}
    {d1 d2 : List Char}
    (h1 : createDir pre stamp fs = some (d1, fs1)) (h2 : createDir pre' stamp' fs1 = some (d2, fs2)) :
    d1 ≠ d2 ∧ d1 ∈ fs2 ∧ d2 ∈ fs2 ∧ ∀ x ∈ fs, x ∈ fs2 := by
  obtain ⟨_, e1, _⟩ := dir_fresh h1
  obtain ⟨n2, e2, _⟩ := dir_fresh h2
  subst e1; subst e2
  refine ⟨?_, by simp, by simp, fun x hx => by simp [hx]⟩
  intro e; subst e; simp at n2

-- non-vacuity: the stamp and `_1` are taken (one by a plain file of that name), `_2` is created
example : createDir "run_".toList "20260102_030405".toList
    ["run_20260102_030405_1".toList, "other".toList, "run_20260102_030405".toList]
    = some ("run_20260102_030405_2".toList,
        ["run_20260102_030405_2".toList, "run_20260102_030405_1".toList, "other".toList,
         "run_20260102_030405".toList]) := by decide


/-! ### any number of simultaneous starts, any interleaving -/

theorem filterMap_set_same {α β} (f : α → Option β) (l : List α) (i : Nat) (a a' : α)
    (h : l[i]? = some a) (hf : f a' = f a) : (l.set i a').filterMap f = l.filterMap f := by
  induction l generalizing i with
  | nil => simp at h
  | cons x xs ih =>
    cases i with
    | zero =>
      simp only [List.getElem?_cons_zero, Option.some.injEq] at h
      subst h
      simp [List.filterMap_cons, hf]
    | succ i =>
      simp only [List.getElem?_cons_succ] at h
      simp [List.filterMap_cons, ih i h]

theorem filterMap_set_new_length {α β} (f : α → Option β) (l : List α) (i : Nat) (a a' : α) (b : β)
    (h : l[i]? = some a) (hf : f a = none) (hf' : f a' = some b) :
    ((l.set i a').filterMap f).length = (l.filterMap f).length + 1 := by
  induction l generalizing i with
  | nil => simp at h
  | cons x xs ih =>
    cases i with
    | zero =>
      simp only [List.getElem?_cons_zero, Option.some.injEq] at h
      subst h
      simp [hf, hf']
    | succ i =>
      simp only [List.getElem?_cons_succ] at h
      have := ih i h
      simp only [List.set_cons_succ, List.filterMap_cons]
      cases f x <;> simp [this]

theorem mem_filterMap_set_new {α β} (f : α → Option β) (l : List α) (i : Nat) (a a' : α) (b : β)
    (h : l[i]? = some a) (hf : f a = none) (hf' : f a' = some b) (y : β) :
    y ∈ (l.set i a').filterMap f ↔ y = b ∨ y ∈ l.filterMap f := by
  induction l generalizing i with
  | nil => simp at h
  | cons x xs ih =>
    cases i with
    | zero =>
      simp only [List.getElem?_cons_zero, Option.some.injEq] at h
      subst h
      simp [hf, hf']
    | succ i =>
      simp only [List.getElem?_cons_succ] at h
      have := ih i h
      simp only [List.set_cons_succ, List.filterMap_cons]
      cases f x <;> simp [this]
      · constructor
        · rintro (h | h | h) <;> simp [h]
        · rintro (h | h | h) <;> simp [h]

/-- the invariant of the shared folder under any interleaving, relative to the folder's content
`fs0` at the moment the simulations start -/
structure Inv (fs0 : List (List Char)) (n : Nat) (s : Sys) : Prop where
  len : s.procs.length = n
  nodup : s.fs.Nodup
  mono : ∀ x ∈ fs0, x ∈ s.fs
  doneIn : ∀ (i : Nat) (p : Proc) (d : List Char),
    s.procs[i]? = some p → p.done = some d → d ∈ s.fs ∧ d ∉ fs0
  distinct : ∀ (i j : Nat) (p q : Proc) (d : List Char), i ≠ j → s.procs[i]? = some p →
    s.procs[j]? = some q → p.done = some d → q.done ≠ some d
  tried : ∀ (i : Nat) (p : Proc), s.procs[i]? = some p → p.done = none →
    ∀ j, j < p.k → dirName p.pre p.stamp j ∈ s.fs
  kle : ∀ (i : Nat) (p : Proc), s.procs[i]? = some p → p.k ≤ s.fs.length
  card : s.fs.length = fs0.length + (doneDirs s.procs).length

theorem inv_init (fs0 : List (List Char)) (hnd : fs0.Nodup) (starts : List (List Char × List Char)) :
    Inv fs0 starts.length (initSys fs0 starts) := by
  have hp : ∀ (i : Nat) (p : Proc), (initSys fs0 starts).procs[i]? = some p →
      p.k = 0 ∧ p.done = none := by
    intro i p h
    simp only [initSys, List.getElem?_map] at h
    cases hs : starts[i]? with
    | none => simp [hs] at h
    | some ps => simp [hs] at h; subst h; exact ⟨rfl, rfl⟩
  have hdd : doneDirs (initSys fs0 starts).procs = [] := by
    simp [doneDirs, initSys, List.filterMap_map, Function.comp_def]
  refine ⟨by simp [initSys], hnd, fun x hx => hx, ?_, ?_, ?_, ?_, ?_⟩
  · intro i p d h hd; rw [(hp i p h).2] at hd; cases hd
  · intro i j p q d _ h _ hd; rw [(hp i p h).2] at hd; cases hd
  · intro i p h _ j hj; rw [(hp i p h).1] at hj; omega
  · intro i p h; rw [(hp i p h).1]; omega
  · rw [hdd]; simp [initSys]

theorem inv_step {fs0 : List (List Char)} {n : Nat} {s : Sys} (hinv : Inv fs0 n s) (i : Nat) :
    Inv fs0 n (step s i) := by
  unfold step
  cases hi : s.procs[i]? with
  | none => simpa using hinv
  | some p =>
    simp only
    unfold stepProc
    obtain ⟨ppre, pstamp, pk, pdone⟩ := p
    cases pdone with
    | some d0 =>
      simp only
      have : s.procs.set i ⟨ppre, pstamp, pk, some d0⟩ = s.procs := by
        apply List.ext_getElem?
        intro j
        by_cases hj : i = j
        · subst hj; rw [List.getElem?_set_self (by
            have := List.getElem?_eq_some_iff.mp hi; exact this.1)]; exact hi.symm
        · rw [List.getElem?_set_ne hj]
      rw [this]
      exact hinv
    | none =>
      simp only
      have hd : (⟨ppre, pstamp, pk, none⟩ : Proc).done = none := rfl
      generalize hpdef : (⟨ppre, pstamp, pk, none⟩ : Proc) = p at hi hd
      have hpre : p.pre = ppre := by subst hpdef; rfl
      have hstamp : p.stamp = pstamp := by subst hpdef; rfl
      have hk : p.k = pk := by subst hpdef; rfl
      rw [← hpre, ← hstamp, ← hk]
      clear hpdef
      have hilt : i < s.procs.length := (List.getElem?_eq_some_iff.mp hi).1
      cases hm : mkdirExcl s.fs (dirName p.pre p.stamp p.k) with
      | none =>
        -- the name is taken: count one more attempt
        have htaken : dirName p.pre p.stamp p.k ∈ s.fs := by
          unfold mkdirExcl at hm; split at hm
          · assumption
          · cases hm
        simp only
        have hget : ∀ j q, (s.procs.set i (⟨p.pre, p.stamp, p.k + 1, none⟩ : Proc))[j]? = some q →
            (j = i ∧ q = (⟨p.pre, p.stamp, p.k + 1, none⟩ : Proc)) ∨ (j ≠ i ∧ s.procs[j]? = some q) := by
          intro j q hq
          by_cases hj : i = j
          · subst hj; rw [List.getElem?_set_self hilt] at hq
            simp only [Option.some.injEq] at hq; exact Or.inl ⟨rfl, hq.symm⟩
          · rw [List.getElem?_set_ne hj] at hq; exact Or.inr ⟨fun e => hj e.symm, hq⟩
        have hdd : doneDirs (s.procs.set i (⟨p.pre, p.stamp, p.k + 1, none⟩ : Proc)) = doneDirs s.procs :=
          filterMap_set_same _ _ _ p _ hi (by simp [hd])
        refine ⟨by simp [hinv.len], hinv.nodup, hinv.mono, ?_, ?_, ?_, ?_, ?_⟩
        · intro j q d hq hqd
          rcases hget j q hq with ⟨_, rfl⟩ | ⟨_, hq'⟩
          · simp at hqd
          · exact hinv.doneIn j q d hq' hqd
        · intro j j' q q' d hne hq hq' hqd
          rcases hget j q hq with ⟨_, rfl⟩ | ⟨hj, hq1⟩
          · simp at hqd
          · rcases hget j' q' hq' with ⟨_, rfl⟩ | ⟨_, hq1'⟩
            · simp
            · exact hinv.distinct j j' q q' d hne hq1 hq1' hqd
        · intro j q hq hqd jj hjj
          rcases hget j q hq with ⟨_, rfl⟩ | ⟨_, hq'⟩
          · simp only at hjj ⊢
            by_cases e : jj = p.k
            · subst e; exact htaken
            · exact hinv.tried i p hi hd jj (by omega)
          · exact hinv.tried j q hq' hqd jj hjj
        · intro j q hq
          rcases hget j q hq with ⟨_, rfl⟩ | ⟨_, hq'⟩
          · simp only
            apply taken_le_length p.pre p.stamp s.fs 0 (p.k + 1)
            intro jj _ hjj
            by_cases e : jj = p.k
            · subst e; exact htaken
            · exact hinv.tried i p hi hd jj (by omega)
          · exact hinv.kle j q hq'
        · rw [hdd]; exact hinv.card
      | some fs' =>
        -- the name is free: it is created, atomically, and the process is done
        obtain ⟨hfree, rfl⟩ := mkdirExcl_some hm
        simp only
        have hget : ∀ j q, (s.procs.set i (⟨p.pre, p.stamp, p.k, some (dirName p.pre p.stamp p.k)⟩ : Proc))[j]?
            = some q →
            (j = i ∧ q = (⟨p.pre, p.stamp, p.k, some (dirName p.pre p.stamp p.k)⟩ : Proc)) ∨
            (j ≠ i ∧ s.procs[j]? = some q) := by
          intro j q hq
          by_cases hj : i = j
          · subst hj; rw [List.getElem?_set_self hilt] at hq
            simp only [Option.some.injEq] at hq; exact Or.inl ⟨rfl, hq.symm⟩
          · rw [List.getElem?_set_ne hj] at hq; exact Or.inr ⟨fun e => hj e.symm, hq⟩
        have hnot0 : dirName p.pre p.stamp p.k ∉ fs0 := fun h => hfree (hinv.mono _ h)
        refine ⟨by simp [hinv.len], List.nodup_cons.mpr ⟨hfree, hinv.nodup⟩,
          fun x hx => List.mem_cons_of_mem _ (hinv.mono x hx), ?_, ?_, ?_, ?_, ?_⟩
        · intro j q d hq hqd
          rcases hget j q hq with ⟨_, rfl⟩ | ⟨_, hq'⟩
          · simp only [Option.some.injEq] at hqd; subst hqd
            exact ⟨by simp, hnot0⟩
          · have := hinv.doneIn j q d hq' hqd
            exact ⟨List.mem_cons_of_mem _ this.1, this.2⟩
        · intro j j' q q' d hne hq hq' hqd
          rcases hget j q hq with ⟨rfl, rfl⟩ | ⟨hj, hq1⟩
          · simp only [Option.some.injEq] at hqd; subst hqd
            rcases hget j' q' hq' with ⟨rfl, _⟩ | ⟨_, hq1'⟩
            · exact absurd rfl hne
            · intro e
              exact hfree (hinv.doneIn j' q' _ hq1' e).1
          · rcases hget j' q' hq' with ⟨_, rfl⟩ | ⟨_, hq1'⟩
            · simp only [ne_eq, Option.some.injEq]
              intro e; subst e
              exact hfree (hinv.doneIn j q _ hq1 hqd).1
            · exact hinv.distinct j j' q q' d hne hq1 hq1' hqd
        · intro j q hq hqd jj hjj
          rcases hget j q hq with ⟨_, rfl⟩ | ⟨_, hq'⟩
          · simp at hqd
          · exact List.mem_cons_of_mem _ (hinv.tried j q hq' hqd jj hjj)
        · intro j q hq
          rcases hget j q hq with ⟨_, rfl⟩ | ⟨_, hq'⟩
          · have := hinv.kle i p hi; simp only [List.length_cons]; omega
          · have := hinv.kle j q hq'; simp only [List.length_cons]; omega
        · have := filterMap_set_new_length (·.done) s.procs i p
            (⟨p.pre, p.stamp, p.k, some (dirName p.pre p.stamp p.k)⟩ : Proc) _ hi hd rfl
          simp only [doneDirs, List.length_cons] at this ⊢
          rw [this, hinv.card]; simp only [doneDirs]; omega

theorem inv_run {fs0 : List (List Char)} {n : Nat} (sched : List Nat) :
    ∀ {s : Sys}, Inv fs0 n s → Inv fs0 n (runSched s sched) := by
  induction sched with
  | nil => intro s h; exact h
  | cons i rest ih => intro s h; exact ih (inv_step h i)

/-- **Concurrent starts, all interleavings.**  However the retry loops of any number of
simulations starting into one parent folder are interleaved (same second or not, same prefix or
not), at every moment: the directories obtained so far are pairwise different, none existed
before, all exist now, and everything that was in the folder is still there. -/
theorem concurrent_distinct (fs0 : List (List Char)) (hnd : fs0.Nodup)
    (starts : List (List Char × List Char)) (sched : List Nat) :
    let s := runSched (initSys fs0 starts) sched
    (∀ (i j : Nat) (p q : Proc) (d : List Char), i ≠ j → s.procs[i]? = some p →
        s.procs[j]? = some q → p.done = some d → q.done ≠ some d) ∧
    (∀ (i : Nat) (p : Proc) (d : List Char), s.procs[i]? = some p → p.done = some d →
        d ∉ fs0 ∧ d ∈ s.fs) ∧
    (∀ x ∈ fs0, x ∈ s.fs) ∧
    s.fs.length = fs0.length + (doneDirs s.procs).length := by
  have h := inv_run (n := starts.length) sched (inv_init fs0 hnd starts)
  exact ⟨h.distinct, fun i p d hp hd => (h.doneIn i p d hp hd).symm, h.mono, h.card⟩

/-- **No start can be kept retrying for ever**: in any interleaving, a simulation has failed at
most `|folder| + number of simulations` times. -/
theorem attempts_bounded (fs0 : List (List Char)) (hnd : fs0.Nodup)
    (starts : List (List Char × List Char)) (sched : List Nat) (i : Nat) (p : Proc)
    (hp : (runSched (initSys fs0 starts) sched).procs[i]? = some p) :
    p.k ≤ fs0.length + starts.length := by
  have h := inv_run (n := starts.length) sched (inv_init fs0 hnd starts)
  have h1 := h.kle i p hp
  have h2 : (doneDirs (runSched (initSys fs0 starts) sched).procs).length ≤ starts.length := by
    rw [← h.len]; exact List.length_filterMap_le _ _
  have := h.card
  omega


/-! ### progress: a start that keeps being scheduled obtains its directory -/

theorem step_procs_other (s : Sys) (i j : Nat) (h : i ≠ j) : (step s i).procs[j]? = s.procs[j]? := by
  unfold step
  cases hi : s.procs[i]? with
  | none => rfl
  | some p => simp only; rw [List.getElem?_set_ne h]

theorem step_procs_self (s : Sys) (i : Nat) (p : Proc) (hp : s.procs[i]? = some p) :
    ∃ p', (step s i).procs[i]? = some p' ∧
      (p.done ≠ none → p' = p) ∧ (p'.done = none → p.done = none ∧ p'.k = p.k + 1) := by
  have hilt : i < s.procs.length := (List.getElem?_eq_some_iff.mp hp).1
  unfold step
  rw [hp]
  simp only
  rw [List.getElem?_set_self hilt]
  refine ⟨_, rfl, ?_, ?_⟩
  · intro hne
    unfold stepProc
    cases hd : p.done with
    | none => exact absurd hd hne
    | some d => rfl
  · unfold stepProc
    cases hd : p.done with
    | some d => simp only; intro h; rw [hd] at h; cases h
    | none =>
      simp only
      cases mkdirExcl s.fs (dirName p.pre p.stamp p.k) with
      | none => simp
      | some fs' => simp

theorem run_count (i : Nat) (sched : List Nat) :
    ∀ (s : Sys) (p : Proc), s.procs[i]? = some p →
      ∃ p', (runSched s sched).procs[i]? = some p' ∧
        (p'.done = none → p.done = none ∧ p'.k = p.k + sched.count i) := by
  induction sched with
  | nil => intro s p hp; exact ⟨p, hp, fun h => ⟨h, by simp⟩⟩
  | cons a rest ih =>
    intro s p hp
    by_cases ha : a = i
    · subst ha
      obtain ⟨p1, hp1, hsame, hundone⟩ := step_procs_self s a p hp
      obtain ⟨p', hp', hfin⟩ := ih (step s a) p1 hp1
      refine ⟨p', hp', ?_⟩
      intro h
      obtain ⟨h1, h2⟩ := hfin h
      obtain ⟨h3, h4⟩ := hundone h1
      refine ⟨h3, ?_⟩
      rw [h2, h4, List.count_cons_self]; omega
    · have hp1 : (step s a).procs[i]? = some p := by rw [step_procs_other s a i ha]; exact hp
      obtain ⟨p', hp', hfin⟩ := ih (step s a) p hp1
      refine ⟨p', hp', ?_⟩
      intro h
      obtain ⟨h1, h2⟩ := hfin h
      refine ⟨h1, ?_⟩
      rw [h2, List.count_cons_of_ne ha]

/-- **Every start terminates**: in any interleaving in which simulation `i` has been given more
than `|folder| + number of simulations` turns, it has obtained its directory. -/
theorem every_start_finishes (fs0 : List (List Char)) (hnd : fs0.Nodup)
    (starts : List (List Char × List Char)) (sched : List Nat) (i : Nat) (hi : i < starts.length)
    (hturns : fs0.length + starts.length < sched.count i) :
    ∃ p d, (runSched (initSys fs0 starts) sched).procs[i]? = some p ∧ p.done = some d := by
  have h0 : (initSys fs0 starts).procs[i]? = some ⟨starts[i].1, starts[i].2, 0, none⟩ := by
    simp [initSys, List.getElem?_map, List.getElem?_eq_getElem hi]
  obtain ⟨p', hp', hfin⟩ := run_count i sched _ _ h0
  cases hd : p'.done with
  | some d => exact ⟨p', d, hp', hd⟩
  | none =>
    have hb := attempts_bounded fs0 hnd starts sched i p' hp'
    have := (hfin hd).2
    simp only at this
    omega

-- non-vacuity: three same-second starts into a folder that already holds the stamp, interleaved
example :
    (runSched (initSys ["run_S".toList] [("run_".toList, "S".toList), ("run_".toList, "S".toList),
        ("x".toList, "S".toList)]) [0, 1, 1, 0, 2, 0, 1, 1]).procs.map (·.done)
    = [some "run_S_2".toList, some "run_S_1".toList, some "xS".toList] := by decide


/-! ### file names -/

theorem append_cons_split {a a' r r' : List Char} {c : Char} (ha : c ∉ a) (ha' : c ∉ a')
    (h : a ++ c :: r = a' ++ c :: r') : a = a' ∧ r = r' := by
  induction a generalizing a' with
  | nil =>
    cases a' with
    | nil => simpa using h
    | cons x xs =>
      simp only [List.nil_append, List.cons_append, List.cons.injEq] at h
      exact absurd h.1 (by intro e; subst e; simp at ha')
  | cons y ys ih =>
    cases a' with
    | nil =>
      simp only [List.nil_append, List.cons_append, List.cons.injEq] at h
      exact absurd h.1.symm (by intro e; subst e; simp at ha)
    | cons x xs =>
      simp only [List.cons_append, List.cons.injEq] at h
      obtain ⟨e, rest⟩ := ih (a' := xs) (by intro m; exact ha (by simp [m]))
        (by intro m; exact ha' (by simp [m])) h.2
      exact ⟨by rw [h.1, e], rest⟩

theorem append_cons_ne {a a' r r' : List Char} {c c' : Char} (hcc : c ≠ c')
    (ha : c' ∉ a) (ha' : c ∉ a') : a ++ c :: r ≠ a' ++ c' :: r' := by
  induction a generalizing a' with
  | nil =>
    cases a' with
    | nil => intro h; simp at h; exact hcc h.1
    | cons x xs =>
      simp only [List.nil_append, List.cons_append, ne_eq, List.cons.injEq, not_and]
      intro e; subst e; simp at ha'
  | cons y ys ih =>
    cases a' with
    | nil =>
      simp only [List.nil_append, List.cons_append, ne_eq, List.cons.injEq, not_and]
      intro e; subst e; simp at ha
    | cons x xs =>
      simp only [List.cons_append, ne_eq, List.cons.injEq, not_and]
      intro _
      exact ih (a' := xs) (by intro m; exact ha (by simp [m])) (by intro m; exact ha' (by simp [m]))

theorem bucket_name_clean (b : Bucket) : '.' ∉ b.name ∧ '_' ∉ b.name := by
  cases b <;> decide

theorem bucket_name_inj {b b' : Bucket} (h : b.name = b'.name) : b = b' := by
  cases b <;> cases b' <;> first | rfl | (exact absurd h (by decide))

theorem digits_clean (n : Nat) : '.' ∉ (Nat.repr n).toList ∧ '_' ∉ (Nat.repr n).toList := by
  constructor <;> intro h <;> rw [Nat.toList_repr] at h <;>
    have := Nat.isDigit_of_mem_toDigits (by decide) (by decide) h <;> simp at this

theorem digits_inj {n n' : Nat} (h : (Nat.repr n).toList = (Nat.repr n').toList) : n = n' :=
  Nat.repr_injective (String.toList_injective h)

/-- **File naming is injective** within a mode: two requested (bucket, extension, run)
combinations never share a file name (in exposure mode there is a single run, and the run index
does not appear in the name). -/
theorem fileName_injective {m : Mode} {b b' : Bucket} {e e' : List Char} {r r' : Nat}
    (h : fileName m b e r = fileName m b' e' r') :
    b = b' ∧ e = e' ∧ (m ≠ .exposure → r = r') := by
  unfold fileName at h
  have h := List.append_cancel_left h
  cases m with
  | exposure =>
    simp only [runTag, List.nil_append] at h
    obtain ⟨hb, he⟩ := append_cons_split (bucket_name_clean b).1 (bucket_name_clean b').1 h
    exact ⟨bucket_name_inj hb, he, fun hne => absurd rfl hne⟩
  | parallel =>
    simp only [runTag, List.cons_append] at h
    obtain ⟨hb, h2⟩ := append_cons_split (bucket_name_clean b).2 (bucket_name_clean b').2 h
    obtain ⟨hr, he⟩ := append_cons_split (digits_clean r).1 (digits_clean r').1 h2
    exact ⟨bucket_name_inj hb, he, fun _ => digits_inj hr⟩
  | sequential =>
    simp only [runTag, List.cons_append, List.append_assoc] at h
    obtain ⟨hb, h2⟩ := append_cons_split (bucket_name_clean b).2 (bucket_name_clean b').2 h
    have h3 := List.append_cancel_left h2
    obtain ⟨hr, he⟩ := append_cons_split (digits_clean (r + 1)).1 (digits_clean (r' + 1)).1 h3
    exact ⟨bucket_name_inj hb, he, fun _ => by have := digits_inj hr; omega⟩

/-- the unreported exposure-style name written by `run_pipeline` inside a sequential observation
never collides with a per-run name -/
theorem exposure_name_ne_sequential (b b' : Bucket) (e e' : List Char) (r r' : Nat) :
    fileName .exposure b e r ≠ fileName .sequential b' e' r' := by
  unfold fileName
  intro h
  have h := List.append_cancel_left h
  simp only [runTag, List.nil_append, List.cons_append] at h
  exact append_cons_ne (by decide) (bucket_name_clean b).2 (bucket_name_clean b').1 h

section files
variable {C : Type}

theorem lookupF_cons (fs : Files C) (p q : Path) (c : C) :
    lookupF ((p, c) :: fs) q = if p = q then some c else lookupF fs q := by
  unfold lookupF
  by_cases h : p = q
  · simp [h]
  · simp [h]

theorem writeFile_other {w : Writer} {fs fs' : Files C} {p : Path} {c : C}
    (h : writeFile w fs p c = some fs') (q : Path) (hq : q ≠ p) : lookupF fs' q = lookupF fs q := by
  unfold writeFile at h
  cases hl : lookupF fs p with
  | none =>
    rw [hl] at h; simp only [Option.some.injEq] at h; subst h
    rw [lookupF_cons, if_neg (fun e : p = q => hq e.symm)]
  | some c0 =>
    rw [hl] at h
    cases w with
    | skip => simp only [Option.some.injEq] at h; subst h; rfl
    | excl => cases h
    | over =>
      simp only [Option.some.injEq] at h; subst h
      rw [lookupF_cons, if_neg (fun e : p = q => hq e.symm)]

/-- a refusing or skipping writer never changes what an existing path holds -/
theorem writeFile_keeps_existing {w : Writer} {fs fs' : Files C} {p : Path} {c : C} (hw : w ≠ .over)
    (h : writeFile w fs p c = some fs') (q : Path) (c0 : C) (hq : lookupF fs q = some c0) :
    lookupF fs' q = some c0 := by
  by_cases hqp : q = p
  · subst hqp
    unfold writeFile at h
    rw [hq] at h
    cases w with
    | skip => simp only [Option.some.injEq] at h; subst h; exact hq
    | excl => cases h
    | over => exact absurd rfl hw
  · rw [writeFile_other h q hqp]; exact hq

theorem writeFile_fresh {w : Writer} {fs : Files C} {p : Path} {c : C} (hp : lookupF fs p = none) :
    writeFile w fs p c = some ((p, c) :: fs) := by
  unfold writeFile; rw [hp]

theorem writeFile_skip_total (fs : Files C) (p : Path) (c : C) :
    ∃ fs', writeFile .skip fs p c = some fs' := by
  unfold writeFile
  cases lookupF fs p <;> simp

/-- **Pre-existing files are untouched**: whatever a run writes (with whichever writers, even the
overwriting text/CSV ones), every path outside the run's own directory holds what it held. -/
theorem preexisting_untouched {d : List Char} {ops : List (WriteOp C)} :
    ∀ {fs fs' : Files C} {rep : List (List Char)}, saveRun d fs ops = some (fs', rep) →
      ∀ q : Path, q.1 ≠ d → lookupF fs' q = lookupF fs q := by
  induction ops with
  | nil => intro fs fs' rep h q _; simp only [saveRun, Option.some.injEq, Prod.mk.injEq] at h; rw [h.1]
  | cons op ops ih =>
    intro fs fs' rep h q hq
    unfold saveRun at h
    cases hw : writeFile op.writer fs (d, op.name) op.content with
    | none => simp [hw] at h
    | some fs1 =>
      simp only [hw] at h
      cases hr : saveRun d fs1 ops with
      | none => simp [hr] at h
      | some r =>
        simp only [hr, Option.some.injEq, Prod.mk.injEq] at h
        rw [← h.1, ih hr q hq]
        exact writeFile_other hw q (fun e => hq (by rw [e]))

/-- … and with the writers that `run_mode` actually uses for its formats (skip / refuse), nothing
that exists is ever overwritten, inside or outside the run's directory. -/
theorem never_overwrites {d : List Char} {ops : List (WriteOp C)}
    (hw : ∀ op ∈ ops, op.writer ≠ .over) :
    ∀ {fs fs' : Files C} {rep : List (List Char)}, saveRun d fs ops = some (fs', rep) →
      ∀ (q : Path) (c0 : C), lookupF fs q = some c0 → lookupF fs' q = some c0 := by
  induction ops with
  | nil => intro fs fs' rep h q c0 hq; simp only [saveRun, Option.some.injEq, Prod.mk.injEq] at h; rw [← h.1]; exact hq
  | cons op ops ih =>
    intro fs fs' rep h q c0 hq
    unfold saveRun at h
    cases hwf : writeFile op.writer fs (d, op.name) op.content with
    | none => simp [hwf] at h
    | some fs1 =>
      simp only [hwf] at h
      cases hr : saveRun d fs1 ops with
      | none => simp [hr] at h
      | some r =>
        simp only [hr, Option.some.injEq, Prod.mk.injEq] at h
        rw [← h.1]
        exact ih (fun o ho => hw o (by simp [ho])) hr q c0
          (writeFile_keeps_existing (hw op (by simp)) hwf q c0 hq)

theorem saveRun_lookup_other {d : List Char} {ops : List (WriteOp C)} (nm : List Char)
    (hne : ∀ op ∈ ops, op.name ≠ nm) :
    ∀ {fs fs' : Files C} {rep : List (List Char)}, saveRun d fs ops = some (fs', rep) →
      lookupF fs' (d, nm) = lookupF fs (d, nm) := by
  induction ops with
  | nil => intro fs fs' rep h; simp only [saveRun, Option.some.injEq, Prod.mk.injEq] at h; rw [h.1]
  | cons op ops ih =>
    intro fs fs' rep h
    unfold saveRun at h
    cases hwf : writeFile op.writer fs (d, op.name) op.content with
    | none => simp [hwf] at h
    | some fs1 =>
      simp only [hwf] at h
      cases hr : saveRun d fs1 ops with
      | none => simp [hr] at h
      | some r =>
        simp only [hr, Option.some.injEq, Prod.mk.injEq] at h
        rw [← h.1, ih (fun o ho => hne o (by simp [ho])) hr]
        exact writeFile_other hwf _ (by
          intro e; simp only [Prod.mk.injEq] at e; exact hne op (by simp) e.2.symm)

/-- the engine behind the completeness theorems: if the reported writes have names that no other
write of the run shares, target paths that do not exist yet, and the unreported writes use the
skipping writer, then the run succeeds, reports exactly the reported names in order, and every
reported file holds the content it was written with at the end of the run -/
theorem saveRun_reported {d : List Char} {ops : List (WriteOp C)}
    (hskip : ∀ op ∈ ops, op.reported = false → op.writer = .skip)
    (hpw : ops.Pairwise (fun a b => (a.reported = true ∨ b.reported = true) → a.name ≠ b.name)) :
    ∀ {fs : Files C}, (∀ op ∈ ops, op.reported = true → lookupF fs (d, op.name) = none) →
      ∃ fs', saveRun d fs ops = some (fs', (ops.filter (·.reported)).map (·.name)) ∧
        ∀ op ∈ ops, op.reported = true → lookupF fs' (d, op.name) = some op.content := by
  induction ops with
  | nil => intro fs _; exact ⟨fs, rfl, fun op h => by simp at h⟩
  | cons op ops ih =>
    intro fs hfree
    obtain ⟨hhead, htail⟩ := List.pairwise_cons.mp hpw
    have hskip' : ∀ o ∈ ops, o.reported = false → o.writer = .skip :=
      fun o ho => hskip o (by simp [ho])
    -- the head write succeeds
    have hw : ∃ fs1, writeFile op.writer fs (d, op.name) op.content = some fs1 ∧
        (op.reported = true → lookupF fs1 (d, op.name) = some op.content) := by
      cases hrep : op.reported with
      | true =>
        have := hfree op (by simp) hrep
        exact ⟨_, writeFile_fresh this, fun _ => by rw [lookupF_cons]; simp⟩
      | false =>
        rw [hskip op (by simp) hrep]
        obtain ⟨fs1, h1⟩ := writeFile_skip_total fs (d, op.name) op.content
        exact ⟨fs1, h1, fun h => by cases h⟩
    obtain ⟨fs1, hw1, hw2⟩ := hw
    have hfree1 : ∀ o ∈ ops, o.reported = true → lookupF fs1 (d, o.name) = none := by
      intro o ho hr
      rw [writeFile_other hw1 (d, o.name) (by
        intro e; simp only [Prod.mk.injEq] at e
        exact hhead o ho (Or.inr hr) e.2.symm)]
      exact hfree o (by simp [ho]) hr
    obtain ⟨fs', hrun, hall⟩ := ih hskip' htail hfree1
    refine ⟨fs', ?_, ?_⟩
    · unfold saveRun
      simp only [hw1, hrun]
      cases hrep : op.reported <;> simp [hrep]
    · intro o ho hr
      rcases List.mem_cons.mp ho with rfl | ho'
      · rw [saveRun_lookup_other o.name (fun o' ho' => (hhead o' ho' (Or.inl hr)).symm) hrun]
        exact hw2 hr
      · exact hall o ho' hr


/-! ### completeness and attribution -/

/-- **Exposure and parallel observation: one reported file per requested combination, holding that
combination's data.**  `items` are the requested (run, bucket, extension) combinations in *any*
order of completion (the dask workers write concurrently into the run's directory); the
directory is fresh.  Then every write succeeds, the reported names are pairwise different, there
is exactly one per combination, and at the end each reported file holds the bucket of the run
it is attributed to. -/
theorem direct_complete (m : Mode) (d : List Char) (fs : Files C) (data : Nat → Bucket → C)
    (items : List (Nat × Bucket × List Char)) (hnd : items.Nodup)
    (hexp : m = .exposure → ∀ it ∈ items, it.1 = 0)
    (hfree : ∀ nm, lookupF fs (d, nm) = none) :
    ∃ fs', saveRun d fs (items.map (fun it =>
        (⟨.skip, fileName m it.2.1 it.2.2 it.1, data it.1 it.2.1, true⟩ : WriteOp C)))
      = some (fs', items.map (fun it => fileName m it.2.1 it.2.2 it.1)) ∧
      (items.map (fun it => fileName m it.2.1 it.2.2 it.1)).Nodup ∧
      ∀ it ∈ items, lookupF fs' (d, fileName m it.2.1 it.2.2 it.1) = some (data it.1 it.2.1) := by
  have hinj : ∀ a ∈ items, ∀ b ∈ items, a ≠ b →
      fileName m a.2.1 a.2.2 a.1 ≠ fileName m b.2.1 b.2.2 b.1 := by
    intro a ha b hb hab e
    obtain ⟨h1, h2, h3⟩ := fileName_injective e
    apply hab
    have hr : a.1 = b.1 := by
      by_cases hm : m = .exposure
      · rw [hexp hm a ha, hexp hm b hb]
      · exact h3 hm
    obtain ⟨a1, a2, a3⟩ := a
    obtain ⟨b1, b2, b3⟩ := b
    simp only at h1 h2 hr
    rw [h1, h2, hr]
  have hpw : (items.map (fun it =>
      (⟨.skip, fileName m it.2.1 it.2.2 it.1, data it.1 it.2.1, true⟩ : WriteOp C))).Pairwise
      (fun a b => (a.reported = true ∨ b.reported = true) → a.name ≠ b.name) := by
    rw [List.pairwise_map]
    exact List.Pairwise.imp_of_mem (fun ha hb hab _ => hinj _ ha _ hb hab) hnd
  obtain ⟨fs', hrun, hall⟩ := saveRun_reported (d := d) (fs := fs)
    (by intro op hop hr; obtain ⟨it, _, rfl⟩ := List.mem_map.mp hop; cases hr) hpw
    (fun op _ _ => hfree _)
  refine ⟨fs', ?_, ?_, ?_⟩
  · rw [hrun]; simp [List.filter_map, Function.comp_def, List.filter_eq_self.mpr]
  · unfold List.Nodup
    rw [List.pairwise_map]
    exact List.Pairwise.imp_of_mem (fun ha hb hab => hinj _ ha _ hb hab) hnd
  · intro it hit
    exact hall _ (List.mem_map.mpr ⟨it, hit, rfl⟩) rfl

theorem mem_opsObservation (data : Nat → Bucket → C) (combos : List (Bucket × List Char)) (n : Nat)
    (op : WriteOp C) :
    op ∈ opsObservation data combos n ↔ ∃ r, r < n ∧ ∃ be ∈ combos,
      op = ⟨.skip, fileName .exposure be.1 be.2 0, data r be.1, false⟩ ∨
      op = ⟨.excl, fileName .sequential be.1 be.2 r, data r be.1, true⟩ := by
  induction n with
  | zero => simp [opsObservation]
  | succ n ih =>
    simp only [opsObservation, opsSequential, List.mem_append, ih, List.mem_map]
    constructor
    · rintro (⟨r, hr, be, hbe, h⟩ | ⟨be, hbe, rfl⟩ | ⟨be, hbe, rfl⟩)
      · exact ⟨r, by omega, be, hbe, h⟩
      · exact ⟨n, by omega, be, hbe, Or.inl rfl⟩
      · exact ⟨n, by omega, be, hbe, Or.inr rfl⟩
    · rintro ⟨r, hr, be, hbe, h⟩
      by_cases hrn : r = n
      · subst hrn
        rcases h with rfl | rfl
        · exact Or.inr (Or.inl ⟨be, hbe, rfl⟩)
        · exact Or.inr (Or.inr ⟨be, hbe, rfl⟩)
      · exact Or.inl ⟨r, by omega, be, hbe, h⟩

theorem opsObservation_pairwise (data : Nat → Bucket → C) (combos : List (Bucket × List Char))
    (hnd : combos.Nodup) (n : Nat) :
    (opsObservation data combos n).Pairwise
      (fun a b => (a.reported = true ∨ b.reported = true) → a.name ≠ b.name) := by
  induction n with
  | zero => simp [opsObservation]
  | succ n ih =>
    simp only [opsObservation, opsSequential]
    rw [List.pairwise_append]
    refine ⟨ih, ?_, ?_⟩
    · rw [List.pairwise_append]
      refine ⟨?_, ?_, ?_⟩
      · rw [List.pairwise_map]
        exact List.pairwise_of_forall (fun _ _ h => by simp at h)
      · rw [List.pairwise_map]
        refine List.Pairwise.imp ?_ hnd
        intro a b hab _ e
        obtain ⟨h1, h2, _⟩ := fileName_injective e
        exact hab (Prod.ext h1 h2)
      · intro a ha b hb _
        obtain ⟨be, _, rfl⟩ := List.mem_map.mp ha
        obtain ⟨be', _, rfl⟩ := List.mem_map.mp hb
        exact exposure_name_ne_sequential _ _ _ _ _ _
    · intro a ha b hb hrep
      obtain ⟨r, hr, be, _, ha'⟩ := (mem_opsObservation data combos n a).mp ha
      rcases List.mem_append.mp hb with hb | hb
      · obtain ⟨be', _, rfl⟩ := List.mem_map.mp hb
        rcases ha' with rfl | rfl
        · simp at hrep
        · exact (exposure_name_ne_sequential _ _ _ _ _ _).symm
      · obtain ⟨be', _, rfl⟩ := List.mem_map.mp hb
        rcases ha' with rfl | rfl
        · exact exposure_name_ne_sequential _ _ _ _ _ _
        · intro e
          obtain ⟨_, _, h3⟩ := fileName_injective e
          have := h3 (by decide)
          omega

/-- **Sequential observation: one reported file per (run, bucket, extension), holding that run's
bucket.**  For any number of runs and any save list without repeated entries, into a fresh
directory: all writes succeed, the reported names are pairwise different, every requested
combination has its file, and that file holds the data of the run it is attributed to (the
unreported exposure-style copy written by run 0 never gets in the way). -/
theorem observation_complete (d : List Char) (fs : Files C) (data : Nat → Bucket → C)
    (combos : List (Bucket × List Char)) (hnd : combos.Nodup) (n : Nat)
    (hfree : ∀ nm, lookupF fs (d, nm) = none) :
    ∃ fs' rep, saveRun d fs (opsObservation data combos n) = some (fs', rep) ∧ rep.Nodup ∧
      (∀ nm, nm ∈ rep ↔ ∃ r, r < n ∧ ∃ be ∈ combos, nm = fileName .sequential be.1 be.2 r) ∧
      ∀ r, r < n → ∀ be ∈ combos,
        lookupF fs' (d, fileName .sequential be.1 be.2 r) = some (data r be.1) := by
  have hpw := opsObservation_pairwise data combos hnd n
  obtain ⟨fs', hrun, hall⟩ := saveRun_reported (d := d) (fs := fs)
    (ops := opsObservation data combos n)
    (by
      intro op hop hr
      obtain ⟨r, _, be, _, h | h⟩ := (mem_opsObservation data combos n op).mp hop
      · rw [h]
      · rw [h] at hr; cases hr)
    hpw (fun op _ _ => hfree _)
  refine ⟨fs', _, hrun, ?_, ?_, ?_⟩
  · unfold List.Nodup
    rw [List.pairwise_map]
    have := List.Pairwise.filter (fun o : WriteOp C => o.reported) hpw
    refine List.Pairwise.imp_of_mem ?_ this
    intro a b ha _ h
    exact h (Or.inl (by simpa using (List.mem_filter.mp ha).2))
  · intro nm
    simp only [List.mem_map, List.mem_filter]
    constructor
    · rintro ⟨op, ⟨hop, hrep⟩, rfl⟩
      obtain ⟨r, hr, be, hbe, h | h⟩ := (mem_opsObservation data combos n op).mp hop
      · rw [h] at hrep; cases hrep
      · exact ⟨r, hr, be, hbe, by rw [h]⟩
    · rintro ⟨r, hr, be, hbe, rfl⟩
      exact ⟨⟨.excl, fileName .sequential be.1 be.2 r, data r be.1, true⟩,
        ⟨(mem_opsObservation data combos n _).mpr ⟨r, hr, be, hbe, Or.inr rfl⟩, rfl⟩, rfl⟩
  · intro r hr be hbe
    exact hall ⟨.excl, fileName .sequential be.1 be.2 r, data r be.1, true⟩
      ((mem_opsObservation data combos n _).mpr ⟨r, hr, be, hbe, Or.inr rfl⟩) rfl

end files

-- non-vacuity: two runs, two combinations, into a fresh directory next to an old run's files
example :
    let old : Files Nat := [((['o'], fileName .sequential .image ['n','p','y'] 0), 99)]
    let data : Nat → Bucket → Nat := fun r b => 10 * r + (if b = .image then 1 else 2)
    (saveRun ['d'] old (opsObservation data [(.image, ['n','p','y']), (.photon, ['n','p','y'])] 2)).map
      (fun r => (r.2, lookupF r.1 (['d'], fileName .sequential .photon ['n','p','y'] 1),
                 lookupF r.1 (['o'], fileName .sequential .image ['n','p','y'] 0)))
    = some ([fileName .sequential .image ['n','p','y'] 0, fileName .sequential .photon ['n','p','y'] 0,
             fileName .sequential .image ['n','p','y'] 1, fileName .sequential .photon ['n','p','y'] 1],
            some 12, some 99) := by decide

-- what the refusing writers protect against: a second write to the same name is refused, the
-- skipping writer reports a file that holds somebody else's data, the text writer overwrites
example : writeFile .excl [((['d'], ['f']), 1)] (['d'], ['f']) 2 = none := by decide
example : (writeFile .skip [((['d'], ['f']), 1)] (['d'], ['f']) 2).map (lookupF · (['d'], ['f']))
    = some (some 1) := by decide
example : (writeFile .over [((['d'], ['f']), 1)] (['d'], ['f']) 2).map (lookupF · (['d'], ['f']))
    = some (some 2) := by decide


-- the dask path: a file planted in the run's directory before the first compute survives, and computing
-- the lazy result a second time (all writes repeated, here with other data) changes nothing
-- (`never_overwrites`: the writers of `save_to_files` skip an existing file); with an overwriting writer
-- (seeded defect C19-4) the second compute replaces the first one's file
example :
    let nm := fileName .parallel .image ['n','p','y'] 0
    let planted : Files Nat := [((['d'], fileName .parallel .pixel ['n','p','y'] 0), 99)]
    let combos := [(Bucket.image, ['n','p','y']), (Bucket.pixel, ['n','p','y'])]
    ((saveRun ['d'] planted (opsDirect .parallel 0 (fun _ => 1) combos ++ opsDirect .parallel 0 (fun _ => 2) combos)).map
      (fun r => (lookupF r.1 (['d'], nm), lookupF r.1 (['d'], fileName .parallel .pixel ['n','p','y'] 0))))
      = some (some 1, some 99) ∧
    ((writeFile .over [((['d'], nm), 1)] (['d'], nm) 2).map (lookupF · (['d'], nm))) = some (some 2) := by decide

-- a bucket requested by two non-adjacent entries of the save list (`image: [fits]`, `pixel: [npy]`,
-- `image: [npy]`): the model is per (bucket, extension, run) combination, so all three are reported for
-- each run whatever the order of the entries (`observation_complete` / `direct_complete` only need the
-- combinations to be pairwise different)
example : (saveRun ['d'] ([] : Files Nat) (opsObservation (fun r _ => r)
      [(.image, ['f','i','t','s']), (.pixel, ['n','p','y']), (.image, ['n','p','y'])] 2)).map (·.2.length)
    = some 6 := by decide

-- counter-witness for the code before the repair `C19-jpeg-extension`: `"jpeg"` was written with the
-- extension `jpg`, so a save list asking for both formats names one file twice and the refusing
-- writer aborts the observation
example : (saveRun ['d'] ([] : Files Nat)
    (opsObservation (fun _ _ => 0) [(.image, ['j','p','g']), (.image, ['j','p','g'])] 1)).isNone
    = true := by decide

/-! ### automatic numbering -/

theorem le_foldl_max (l : List Nat) (a : Nat) : a ≤ l.foldl max a ∧ ∀ x ∈ l, x ≤ l.foldl max a := by
  induction l generalizing a with
  | nil => simp
  | cons y ys ih =>
    simp only [List.foldl_cons, List.mem_cons]
    obtain ⟨h1, h2⟩ := ih (max a y)
    refine ⟨by omega, ?_⟩
    rintro x (rfl | hx)
    · omega
    · exact h2 x hx

/-- **Automatic numbering never reuses a number**: for every set of numbers already present in the folder,
the next number is larger than all of them (and is 1 in an empty folder). -/
theorem nextNumber_fresh (existing : List Nat) :
    (∀ x ∈ existing, x < nextNumber existing) ∧ nextNumber existing ∉ existing ∧ 1 ≤ nextNumber existing := by
  have hlt : ∀ x ∈ existing, x < nextNumber existing := by
    intro x hx
    unfold nextNumber maxOf
    cases existing with
    | nil => simp at hx
    | cons y ys =>
      simp only [List.isEmpty_cons, Bool.false_eq_true, if_false]
      have := (le_foldl_max (y :: ys) 0).2 x hx
      omega
  refine ⟨hlt, fun h => by have := hlt _ h; omega, ?_⟩
  unfold nextNumber
  split <;> omega

/-- any number of consecutive automatic saves into any folder get pairwise different numbers, none of which
was present: no save can hit an existing file or a file of an earlier readout -/
theorem autoSaves_fresh_distinct (n : Nat) : ∀ (existing : List Nat),
    (autoSaves existing n).Nodup ∧ ∀ k ∈ autoSaves existing n, k ∉ existing := by
  induction n with
  | zero => intro ex; simp [autoSaves]
  | succ n ih =>
    intro ex
    obtain ⟨hnd, hfresh⟩ := ih (nextNumber ex :: ex)
    obtain ⟨_, hnot, _⟩ := nextNumber_fresh ex
    simp only [autoSaves, List.nodup_cons, List.mem_cons]
    refine ⟨⟨fun h => (hfresh _ h) (by simp), hnd⟩, ?_⟩
    rintro k (rfl | hk)
    · exact hnot
    · exact fun h => hfresh k hk (by simp [h])

/-- into an empty folder the files are numbered 1, 2, …, n -/
theorem autoSaves_from_empty (n : Nat) : autoSaves [] n = (List.range n).map (· + 1) := by
  have key : ∀ (n m : Nat) (ex : List Nat), ex ≠ [] → maxOf ex = m →
      autoSaves ex n = (List.range n).map (· + (m + 1)) := by
    intro n
    induction n with
    | zero => intro m ex _ _; rfl
    | succ n ih =>
      intro m ex hne hm
      have hnext : nextNumber ex = m + 1 := by
        unfold nextNumber
        cases ex with
        | nil => exact absurd rfl hne
        | cons y ys => simp [hm]
      have hmax : maxOf ((m + 1) :: ex) = m + 1 := by
        unfold maxOf at hm ⊢
        simp only [List.foldl_cons]
        have e : max 0 (m + 1) = m + 1 := by omega
        rw [e]
        have h1 := le_foldl_max ex (m + 1)
        have h2 : ∀ x ∈ ex, x ≤ m := fun x hx => hm ▸ (le_foldl_max ex 0).2 x hx
        -- every element is ≤ m < m + 1, so the fold stays at m + 1
        have h3 : ∀ (l : List Nat) (a : Nat), (∀ x ∈ l, x ≤ a) → l.foldl max a = a := by
          intro l
          induction l with
          | nil => intro a _; rfl
          | cons y ys ihl =>
            intro a h
            simp only [List.foldl_cons]
            have : max a y = a := by have := h y (by simp); omega
            rw [this]
            exact ihl a (fun x hx => h x (by simp [hx]))
        exact h3 ex (m + 1) (fun x hx => by have := h2 x hx; omega)
      simp only [autoSaves, hnext]
      rw [ih (m + 1) ((m + 1) :: ex) (by simp) hmax, List.range_succ_eq_map]
      simp only [List.map_cons, List.map_map, Nat.zero_add, List.cons.injEq, true_and]
      apply List.map_congr_left
      intro a _
      simp only [Function.comp]
      omega
  cases n with
  | zero => rfl
  | succ n =>
    simp only [autoSaves]
    have h1 : nextNumber [] = 1 := rfl
    rw [h1, key n 1 [1] (by simp) rfl, List.range_succ_eq_map]
    simp only [List.map_cons, List.map_map, Nat.zero_add, List.cons.injEq, true_and]
    apply List.map_congr_left
    intro a _
    simp only [Function.comp]

-- non-vacuity, and the counter-witness for sorting the *names* as text (seeded defect C19-8): with ten
-- files present the text-sorted "last" file is number 9, so number 10 is handed out again
example : autoSaves [3, 1, 7] 3 = [8, 9, 10] ∧ nextNumber [1, 2, 3, 4, 5, 6, 7, 8, 9, 10] = 11 := by decide
example : nextNumberTextSorted [1, 2, 3, 4, 5, 6, 7, 8, 9, 10] = 10 := by decide +kernel

/-! ### tables observed on today's code -/

/-- the model's consecutive same-second starts into a folder -/
def seqDirs (pre stamp : List Char) : List (List Char) → Nat → List (List Char)
  | _, 0 => []
  | fs, n + 1 =>
    match createDir pre stamp fs with
    | some (d, fs') => d :: seqDirs pre stamp fs' n
    | none => []

/-- the directories the code created for consecutive same-second starts — into an empty folder, into one holding
the stamp (a directory) and `_1` (a plain file), into one holding only `_1` — are those of the model: exclusive
creation, first free name of `stamp, stamp_1, …` -/
theorem mkdir_is_exclusive_retry :
    PyxelModel.Generated.C19.observedDirs.all (fun e =>
      (seqDirs "run_".toList "20260102_030405".toList (e.1.map String.toList) e.2.length).map String.ofList == e.2
        && !e.2.isEmpty) = true ∧
    PyxelModel.Generated.C19.observedDirs.length = 3 := by decide +kernel

/-- what the code did to a file already present under the target name is the model's writer discipline:
`save_to_files` (exposure, dask observation) skips it; `Outputs.save_to_file` (sequential observation) refuses for
fits / npy / png / jpg / jpeg; only the text writer replaces it — and that format is refused by `save_to_files`,
through which every `run_mode` path goes first -/
theorem writer_disciplines :
    PyxelModel.Generated.C19.observedOnExisting =
      [("save_to_files", "fits", "skip"), ("save_to_files", "npy", "skip"), ("save_to_files", "jpg", "skip"),
       ("save_to_files", "jpeg", "skip"), ("save_to_file", "fits", "refuse"), ("save_to_file", "npy", "refuse"),
       ("save_to_file", "png", "refuse"), ("save_to_file", "jpg", "refuse"), ("save_to_file", "jpeg", "refuse"),
       ("save_to_file", "txt", "overwrite")] := by decide

def modeOfName : String → Option Mode
  | "exposure" => some .exposure | "sequential" => some .sequential | "parallel" => some .parallel | _ => none

def bucketOfName (n : String) : Option Bucket := Bucket.all.find? (fun b => String.ofList b.name == n)

/-- the file names the code produced for (mode, run, bucket, format) samples — run numbers 0, 4, 7, 10, 12 included —
are `fileName` of the model -/
theorem name_templates :
    PyxelModel.Generated.C19.observedNames.all (fun e =>
      match modeOfName e.1, bucketOfName e.2.2.1 with
      | some m, some b => String.ofList (fileName m b e.2.2.2.1.toList e.2.1) == e.2.2.2.2
      | _, _ => false) = true ∧
    PyxelModel.Generated.C19.observedNames.length = 21 := by decide +kernel

/-- the number the code gave to the next automatically numbered file, for folders holding files 1..9, 1..10, 1..12,
unordered and sparse sets, is `nextNumber` of the model (largest + 1, never a repeat) -/
theorem auto_numbering_as_observed :
    PyxelModel.Generated.C19.observedAutoNumbers.all (fun e => nextNumber e.1 == e.2) = true ∧
    PyxelModel.Generated.C19.observedAutoNumbers.length = 7 := by decide

end PyxelModel.C19
