import PyxelModel.Model.C12
import PyxelModel.Lemmas.C12
import Mathlib.Data.List.Sublists
/-!
# C12 — property theorems (statement: properties.jsonl C12)

The guard theorems quantify over **every number** (all rationals — hence every int and every finite double —
`nan`, `+inf`, `-inf`) and over every validated field found in today's source (`Generated/C12.lean`,
re-extracted on every run).  They are obtained from the kernel-evaluated finite test
(`decide +kernel` on the regenerated table) through `condEquiv_sound` (`Lemmas/C12.lean`), which is proved
once for all conditions.  A guard that changes in the source changes the table and these theorems are
re-checked against it.
-/
namespace PyxelModel.C12
open PyxelModel.Generated.C12

/-! ## constructor, setter and documented range agree -/

theorem table_ctor_setter_checked : table.all ctorSetterCheck = true := by decide +kernel

theorem table_setter_spec_checked : table.all setterSpecCheck = true := by decide +kernel

theorem table_ctor_spec_checked : table.all ctorSpecCheck = true := by decide +kernel

/-- **The constructor and the attribute setter enforce the same limits**: for every validated field and
every number, the constructor raises iff the setter raises (`nan` excepted for the array sizes, see
`nanSilent`). -/
theorem ctor_eq_setter {e : Entry} (he : e ∈ table) (x : Num)
    (hx : x = .nan → nanSilent e.cls e.field = false) (_hi : intDomain e x) :
    raises e.ctor x = raises e.setter x := by
  have h := List.all_eq_true.mp table_ctor_setter_checked e he
  exact condEquiv_sound h x (fun hn => by simp [withNanFor, hx hn])

/-- **The setter accepts exactly the documented range** (so an attribute assignment and — `Processor.set`
ending in `setattr` — a parameter sweep or override refuse exactly what is outside it). -/
theorem setter_eq_spec {e : Entry} (he : e ∈ table) {r : Range} (hr : specOf e.cls e.field = some r)
    (x : Num) (hx : x = .nan → nanSilent e.cls e.field = false) (_hi : intDomain e x) :
    accepts e.setter x = inRange r x := by
  have h := List.all_eq_true.mp table_setter_spec_checked e he
  simp only [setterSpecCheck, hr] at h
  rw [inRange_eq_accepts]
  unfold accepts
  rw [condEquiv_sound h x (fun hn => by simp [withNanFor, hx hn])]

/-- **The constructor (hence the YAML loader, which calls it) accepts exactly the documented range.** -/
theorem ctor_eq_spec {e : Entry} (he : e ∈ table) {r : Range} (hr : specOf e.cls e.field = some r)
    (x : Num) (hx : x = .nan → nanSilent e.cls e.field = false) (_hi : intDomain e x) :
    accepts e.ctor x = inRange r x := by
  have h := List.all_eq_true.mp table_ctor_spec_checked e he
  simp only [ctorSpecCheck, hr] at h
  rw [inRange_eq_accepts]
  unfold accepts
  rw [condEquiv_sound h x (fun hn => by simp [withNanFor, hx hn])]

/-- Non-vacuity: the table has the ADC resolution of the plain characteristics, its range is 4..64, and
the theorem says what happens at 3, 4, 64, 65, `nan`. -/
example : ∃ e ∈ table, e.cls = "Characteristics" ∧ e.field = "adc_bit_resolution" ∧
    specOf e.cls e.field = some ⟨4, false, some 64⟩ ∧
    inRange ⟨4, false, some 64⟩ (.fin 3) = false ∧ inRange ⟨4, false, some 64⟩ (.fin 4) = true ∧
    inRange ⟨4, false, some 64⟩ (.fin 64) = true ∧ inRange ⟨4, false, some 64⟩ (.fin 65) = false ∧
    inRange ⟨4, false, some 64⟩ .nan = false := by
  decide +kernel

/-- Counter-witnesses for the pinned code (guards as they stood at 5dd2444): the unchecked setter accepts
3 bits, the truthiness guard of the APD constructor accepts 0 bits, `np.min(v) < 0 or np.max(v) > 1`
accepts `nan`, the unchecked `pixel_scale` constructor accepts 1001. -/
example : accepts .ff (.fin 3) = true ∧
    accepts (.and .truthy (.not (.chain (.const 4) .le .x .le (.const 64)))) (.fin 0) = true ∧
    accepts (.or (.cmp .x .lt (.const 0)) (.cmp .x .gt (.const 1))) .nan = true ∧
    accepts (.or (.and .isNumber (.cmp .x .le (.const 0))) (.and (.not .isNumber) (.not .ff))) .nan = true ∧
    accepts .ff (.fin 1001) = true := by
  decide +kernel

/-! ## the table is the statement's table -/

/-- every field the statement's table names is guarded in the source … -/
theorem spec_fields_in_table : ∀ f ∈ specFields, f ∈ table.map (fun e => (e.cls, e.field)) := by
  decide +kernel

/-- … and every guarded numeric field of the source has a documented range in the statement's table
(a new validated field without a specification fails here). -/
theorem fields_covered : table.all (fun e => (specOf e.cls e.field).isSome) = true := by decide +kernel

theorem table_fields_nodup : (table.map (fun e => (e.cls, e.field))).Nodup := by decide +kernel

/-- the validated settings that are not numbers (voltage ranges and fit ranges: sequences; algorithm type,
result type, island topology: enumerations) — found by observing that the constructor or the setter refuses an
ill-typed value; exercised by the correspondence, not by the guard theorems -/
theorem opaque_fields_known :
    opaqueFields = ["APDCharacteristics.adc_voltage_range", "Algorithm.type", "Calibration.result_fit_range",
      "Calibration.result_type", "Calibration.target_fit_range", "Calibration.topology",
      "Characteristics.adc_voltage_range"] := by
  decide

/-- the integer-valued settings (declared `int` in the public signatures) are the documented ones; for them the
guard theorems speak about integers -/
theorem int_only_fields_known : intOnlyFields =
    [("Geometry", "row"), ("Geometry", "col"), ("Characteristics", "adc_bit_resolution"),
     ("APDCharacteristics", "adc_bit_resolution"), ("Calibration", "pygmo_seed"), ("Calibration", "num_islands"),
     ("Calibration", "num_best_decisions"), ("Algorithm", "generations"), ("Algorithm", "population_size"),
     ("Algorithm", "variant"), ("Algorithm", "variant_adptv")] := by decide


/-- a sweep / override / calibration variable reaches the property setter: `Processor.set` ends in
`setattr`, `create_new_processor` assigns through `Processor.set` -/
theorem sweep_goes_through_setter : sweepUsesSetter = true := by decide

/-! ## APD bias inputs -/

/-- the constructor's decisions observed on the grid (6 gains × 5 reset voltages × 5 common voltages, absent
included) are the documented rule -/
theorem apd_table_is_spec : apdTable.length = 150 ∧
    apdTable.all (fun r => apdSpec r.1 r.2.1 r.2.2.1 == r.2.2.2) = true := by decide +kernel

/-- accepted ⇒ exactly two of the three inputs were given -/
theorem apd_two_of_three {g p c : Option Rat} (h : apdSpec g p c = true) :
    (g.isSome && p.isSome && !c.isSome) || (g.isSome && !p.isSome && c.isSome) || (!g.isSome && p.isSome && c.isSome) = true := by
  cases g <;> cases p <;> cases c <;> simp_all [apdSpec]

/-- accepted with two voltages ⇒ the avalanche bias is at least 1 V (never equal or reversed voltages) -/
theorem apd_bias_at_least_one {p c : Rat} (h : apdSpec none (some p) (some c) = true) : 1 ≤ p - c := by
  simpa [apdSpec] using h

example : apdSpec none (some 3) (some 2) = true ∧ apdSpec none (some 3) (some (5/2)) = false ∧
    apdSpec none (some 2) (some 3) = false ∧ apdSpec (some 2) (some 5) none = true := by decide +kernel

/-! ## loading a section of the YAML document -/

theorem specOf_mem_specFields {cls f : String} {r : Range} (h : specOf cls f = some r) :
    (cls, f) ∈ specFields := by
  unfold specOf at h
  split at h <;> first | (simp at h; done) | (simp [specFields])

theorem ctorGuard_spec (cls f : String) (x : Num) (hx : x = .nan → nanSilent cls f = false)
    (hint : (cls, f) ∈ intOnlyFields → isIntegral x = true) :
    raises (ctorGuard table cls f) x =
      match specOf cls f with
      | some r => !inRange r x
      | none => false := by
  unfold ctorGuard
  cases hf : table.find? (fun e => e.cls = cls ∧ e.field = f) with
  | none =>
    have hnot : (cls, f) ∉ table.map (fun e => (e.cls, e.field)) := by
      intro hm
      obtain ⟨e, he, heq⟩ := List.mem_map.mp hm
      have := List.find?_eq_none.mp hf e he
      simp only [Prod.mk.injEq] at heq
      simp [heq.1, heq.2] at this
    cases hs : specOf cls f with
    | none => simp [raises]
    | some r => exact absurd (spec_fields_in_table _ (specOf_mem_specFields hs)) hnot
  | some e =>
    have he : e ∈ table := List.mem_of_find?_eq_some hf
    have hp := List.find?_some hf
    simp only [decide_eq_true_eq] at hp
    obtain ⟨hc, hfld⟩ := hp
    have hsome := List.all_eq_true.mp fields_covered e he
    cases hs : specOf e.cls e.field with
    | none => simp [hs] at hsome
    | some r =>
      have := ctor_eq_spec he hs x (by rw [hc, hfld]; exact hx) (by unfold intDomain; rw [hc, hfld]; exact hint)
      rw [← hc, ← hfld, hs]
      simp only [accepts] at this
      simp only
      rw [← this]
      simp

/-- **Loading a section**: the loader hands the mapping's entries to the constructor; the result is
refused iff some value is outside its documented range, and otherwise **every setting equals the value
written in the file**. -/
theorem load_section_spec (cls : String) (kv : List (String × Num))
    (hnan : ∀ e ∈ kv, e.2 = .nan → nanSilent cls e.1 = false)
    (hint : ∀ e ∈ kv, (cls, e.1) ∈ intOnlyFields → isIntegral e.2 = true) :
    loadSection table cls kv =
      if kv.all (fun e => match specOf cls e.1 with | some r => inRange r e.2 | none => true)
      then .ok kv else .error .value := by
  unfold loadSection
  have key : kv.any (fun e => raises (ctorGuard table cls e.1) e.2) =
      !kv.all (fun e => match specOf cls e.1 with | some r => inRange r e.2 | none => true) := by
    induction kv with
    | nil => simp
    | cons e es ih =>
      have h1 := ctorGuard_spec cls e.1 e.2 (hnan e (by simp)) (hint e (by simp))
      have h2 := ih (fun e' he' => hnan e' (by simp [he'])) (fun e' he' => hint e' (by simp [he']))
      simp only [List.any_cons, List.all_cons, h1, h2]
      cases specOf cls e.1 <;> simp [Bool.not_and]
  rw [key]
  cases kv.all (fun e => match specOf cls e.1 with | some r => inRange r e.2 | none => true) <;> simp

example : loadSection table "Characteristics"
    [("quantum_efficiency", .fin (1/2)), ("adc_bit_resolution", .fin 16)] =
      .ok [("quantum_efficiency", .fin (1/2)), ("adc_bit_resolution", .fin 16)] := by decide +kernel

example : loadSection table "Characteristics"
    [("quantum_efficiency", .fin (1/2)), ("adc_bit_resolution", .fin 65)] = .error .value := by decide +kernel

/-! ## exactly one running mode, exactly one detector -/

/-- every key the loader's decision looks at (today's source and the documented ones) -/
def queriedKeys : List String :=
  ("pipeline" :: modeKeys ++ detKeys ++ modeDispatch ++ detDispatch ++ docModeKeys ++ docDetKeys).eraseDups

/-- kernel-evaluated: on every subset of the queried keys the source's decision is the statement's -/
theorem build_eq_spec_on_subsets :
    queriedKeys.sublists.all (fun s =>
      sameResult (buildConfiguration modeKeys detKeys modeDispatch detDispatch modeOp detOp s) (specBuild s)) = true := by
  decide +kernel

theorem contains_filter_of_mem {K present : List String} {k : String} (hk : k ∈ K) :
    (K.filter (present.contains ·)).contains k = present.contains k := by
  cases h : present.contains k with
  | true =>
    rw [List.contains_iff_mem]
    exact List.mem_filter.mpr ⟨hk, h⟩
  | false =>
    cases h2 : (K.filter (present.contains ·)).contains k with
    | false => rfl
    | true =>
      have := (List.mem_filter.mp (List.contains_iff_mem.mp h2)).2
      rw [h] at this
      cases this

theorem filter_present_congr {K keys present : List String} (hs : ∀ k ∈ keys, k ∈ K) :
    keys.filter ((K.filter (present.contains ·)).contains ·) = keys.filter (present.contains ·) :=
  List.filter_congr (fun k hk => contains_filter_of_mem (hs k hk))

theorem find_present_congr {K keys present : List String} (hs : ∀ k ∈ keys, k ∈ K) :
    keys.find? ((K.filter (present.contains ·)).contains ·) = keys.find? (present.contains ·) := by
  induction keys with
  | nil => rfl
  | cons a as ih =>
    have ha := contains_filter_of_mem (present := present) (hs a (by simp))
    simp only [List.find?_cons, ha]
    rw [ih (fun k hk => hs k (by simp [hk]))]

theorem mem_queried {k : String}
    (h : k = "pipeline" ∨ k ∈ modeKeys ∨ k ∈ detKeys ∨ k ∈ modeDispatch ∨ k ∈ detDispatch ∨ k ∈ docModeKeys ∨ k ∈ docDetKeys) :
    k ∈ queriedKeys := by
  unfold queriedKeys
  rw [List.mem_eraseDups]
  simp only [List.mem_cons, List.mem_append]
  tauto

/-- the loader's decision only looks at the queried keys -/
theorem build_depends_on_queried (present : List String) :
    buildConfiguration modeKeys detKeys modeDispatch detDispatch modeOp detOp present =
      buildConfiguration modeKeys detKeys modeDispatch detDispatch modeOp detOp
        (queriedKeys.filter (present.contains ·)) := by
  unfold buildConfiguration countPresent
  rw [contains_filter_of_mem (mem_queried (Or.inl rfl)),
    filter_present_congr (fun k hk => mem_queried (Or.inr (Or.inl hk))),
    filter_present_congr (fun k hk => mem_queried (Or.inr (Or.inr (Or.inl hk)))),
    find_present_congr (fun k hk => mem_queried (Or.inr (Or.inr (Or.inr (Or.inl hk))))),
    find_present_congr (fun k hk => mem_queried (Or.inr (Or.inr (Or.inr (Or.inr (Or.inl hk))))))]

theorem spec_depends_on_queried (present : List String) :
    specBuild present = specBuild (queriedKeys.filter (present.contains ·)) := by
  unfold specBuild
  rw [contains_filter_of_mem (mem_queried (Or.inl rfl)),
    filter_present_congr (fun k hk => mem_queried (Or.inr (Or.inr (Or.inr (Or.inr (Or.inr (Or.inl hk))))))),
    filter_present_congr (fun k hk => mem_queried (Or.inr (Or.inr (Or.inr (Or.inr (Or.inr (Or.inr hk)))))))]

theorem sameResult_eq {a b : Except Err (String × String)} (h : sameResult a b = true) : a = b := by
  cases a <;> cases b <;> simp_all [sameResult]

/-- **The loader is the statement** — for every YAML mapping, whatever other keys it has and in whatever
order: it is loaded iff it names a pipeline, exactly one of the three running modes and exactly one of the
four detectors, and then the configuration holds exactly that mode and that detector; otherwise it is
refused (`ValueError`; `KeyError` without a pipeline). -/
theorem build_eq_spec (present : List String) :
    buildConfiguration modeKeys detKeys modeDispatch detDispatch modeOp detOp present = specBuild present := by
  rw [build_depends_on_queried, spec_depends_on_queried]
  have hsub : queriedKeys.filter (present.contains ·) ∈ queriedKeys.sublists :=
    List.mem_sublists.mpr List.filter_sublist
  exact sameResult_eq (by simpa using List.all_eq_true.mp build_eq_spec_on_subsets _ hsub)

/-- what the statement's rule says, spelled out: accepted documents have exactly one of each -/
theorem exactly_one_mode_and_detector {present : List String} {m d : String}
    (h : buildConfiguration modeKeys detKeys modeDispatch detDispatch modeOp detOp present = .ok (m, d)) :
    (∀ k ∈ docModeKeys, present.contains k = true ↔ k = m) ∧ m ∈ docModeKeys ∧
    (∀ k ∈ docDetKeys, present.contains k = true ↔ k = d) ∧ d ∈ docDetKeys := by
  rw [build_eq_spec] at h
  unfold specBuild at h
  split at h
  · cases h
  · split at h
    · next hm hd =>
      cases h
      have key : ∀ (keys : List String) (x : String), keys.filter (present.contains ·) = [x] →
          (∀ k ∈ keys, present.contains k = true ↔ k = x) ∧ x ∈ keys := by
        intro keys x hx
        have hx' : ∀ k, k ∈ keys.filter (present.contains ·) ↔ k = x := by
          intro k; rw [hx]; simp
        refine ⟨fun k hk => ?_, ?_⟩
        · rw [← hx' k, List.mem_filter]
          exact ⟨fun hp => ⟨hk, hp⟩, fun hp => hp.2⟩
        · exact (List.mem_filter.mp ((hx' x).mpr rfl)).1
      exact ⟨(key _ _ hm).1, (key _ _ hm).2, (key _ _ hd).1, (key _ _ hd).2⟩
    · cases h

/-- **No or several running modes or detectors are refused**, whatever else the document contains. -/
theorem not_exactly_one_refused {present : List String}
    (h : (docModeKeys.filter (present.contains ·)).length ≠ 1 ∨ (docDetKeys.filter (present.contains ·)).length ≠ 1) :
    ∃ e, buildConfiguration modeKeys detKeys modeDispatch detDispatch modeOp detOp present = .error e := by
  rw [build_eq_spec]
  unfold specBuild
  split
  · exact ⟨_, rfl⟩
  · split
    · next hm hd =>
      rcases h with h | h
      · exact absurd (by rw [hm]; rfl) h
      · exact absurd (by rw [hd]; rfl) h
    · exact ⟨_, rfl⟩

example : buildConfiguration modeKeys detKeys modeDispatch detDispatch modeOp detOp
    ["pipeline", "observation", "cmos_detector"] = .ok ("observation", "cmos_detector") := by decide +kernel

example : buildConfiguration modeKeys detKeys modeDispatch detDispatch modeOp detOp
    ["pipeline", "exposure", "observation", "ccd_detector"] = .error .value := by decide +kernel

example : buildConfiguration modeKeys detKeys modeDispatch detDispatch modeOp detOp ["pipeline", "exposure"] =
    .error .value := by decide +kernel

end PyxelModel.C12
