import PyxelModel.Model.C06
/-!
# C06 — property theorems (statement: properties.jsonl C06; labelled **partial** in DESIGN §6)

Proved for all heaps, all object values, all write sequences and all run sequences: a deep copy has the
value of the original and shares no object with it; writes made through a separated copy never change
the value of the original, however many and in whatever order; hence every run of an observation /
calibration starts from the value of the caller's object, whatever the other runs did, and the caller's
object keeps its value.  What is *assumed* and measured by the harness on the real object graphs of every
generated configuration: that pyxel's copies are separated (`Sep`) — i.e. that `deepcopy` of a
`Processor` really reaches every mutable part (the negative witness `shallow_copy_leaks` shows the
hypothesis is not decorative).
-/
namespace PyxelModel.C06

variable {α : Type}

/-! ## heaps only grow by allocation -/

theorem alloc_prefix (t : Tree α) (h : Heap α) : ∃ ext, (alloc t h).1 = h ++ ext := by
  induction t generalizing h with
  | leaf v => exact ⟨_, rfl⟩
  | nil => exact ⟨_, rfl⟩
  | cell n tc tr ihc ihr =>
    obtain ⟨e1, h1⟩ := ihc h
    obtain ⟨e2, h2⟩ := ihr (alloc tc h).1
    refine ⟨e1 ++ e2 ++ [Obj.cell n (alloc tc h).2 (alloc tr (alloc tc h).1).2], ?_⟩
    simp only [alloc]
    rw [h2, h1]
    simp only [List.append_assoc]

theorem alloc_length_le (t : Tree α) (h : Heap α) : h.length ≤ (alloc t h).1.length := by
  obtain ⟨e, he⟩ := alloc_prefix t h
  rw [he]; simp

theorem lookup_append {h ext : Heap α} {a : Nat} {o : Obj α} (ha : h[a]? = some o) :
    (h ++ ext)[a]? = some o := by
  have hlt : a < h.length := (List.getElem?_eq_some_iff.mp ha).1
  rw [List.getElem?_append_left hlt, ha]

theorem abs_mono {h : Heap α} {a : Nat} {t : Tree α} (ext : Heap α) (ha : Abs h a t) :
    Abs (h ++ ext) a t := by
  induction ha with
  | leaf hl => exact Abs.leaf (lookup_append hl)
  | nil hl => exact Abs.nil (lookup_append hl)
  | cell hl _ _ ihc ihr => exact Abs.cell (lookup_append hl) ihc ihr

/-- the value below an address is unique -/
theorem abs_functional {h : Heap α} {a : Nat} {t t' : Tree α} (h1 : Abs h a t) (h2 : Abs h a t') :
    t = t' := by
  induction h1 generalizing t' with
  | leaf hl =>
    cases h2 with
    | leaf hl' => rw [hl] at hl'; cases hl'; rfl
    | nil hl' => rw [hl] at hl'; cases hl'
    | cell hl' _ _ => rw [hl] at hl'; cases hl'
  | nil hl =>
    cases h2 with
    | leaf hl' => rw [hl] at hl'; cases hl'
    | nil hl' => rfl
    | cell hl' _ _ => rw [hl] at hl'; cases hl'
  | cell hl _ _ ihc ihr =>
    cases h2 with
    | leaf hl' => rw [hl] at hl'; cases hl'
    | nil hl' => rw [hl] at hl'; cases hl'
    | cell hl' hc' hr' =>
      rw [hl] at hl'; cases hl'
      rw [ihc hc', ihr hr']

/-- an object graph with a value is closed: everything reachable is allocated -/
theorem abs_reach_lt {h : Heap α} {a b : Nat} {t : Tree α} (ha : Abs h a t) (hr : Reach h a b) :
    b < h.length := by
  induction ha generalizing b with
  | leaf hl =>
    cases hr with
    | refl => exact (List.getElem?_eq_some_iff.mp hl).1
    | child hl' _ => rw [hl] at hl'; cases hl'
    | rest hl' _ => rw [hl] at hl'; cases hl'
  | nil hl =>
    cases hr with
    | refl => exact (List.getElem?_eq_some_iff.mp hl).1
    | child hl' _ => rw [hl] at hl'; cases hl'
    | rest hl' _ => rw [hl] at hl'; cases hl'
  | cell hl _ _ ihc ihr =>
    cases hr with
    | refl => exact (List.getElem?_eq_some_iff.mp hl).1
    | child hl' hr' => rw [hl] at hl'; cases hl'; exact ihc hr'
    | rest hl' hr' => rw [hl] at hl'; cases hl'; exact ihr hr'

theorem reach_trans {h : Heap α} {a b c : Nat} (h1 : Reach h a b) (h2 : Reach h b c) : Reach h a c := by
  induction h1 with
  | refl => exact h2
  | child hl _ ih => exact Reach.child hl (ih h2)
  | rest hl _ ih => exact Reach.rest hl (ih h2)

/-- a graph that has a value in `h` looks the same in any heap agreeing with `h` on that graph -/
theorem abs_of_agree {h h' : Heap α} {a : Nat} {t : Tree α} (ha : Abs h a t)
    (hag : ∀ b, Reach h a b → h'[b]? = h[b]?) : Abs h' a t := by
  induction ha with
  | leaf hl => exact Abs.leaf (by rw [hag _ Reach.refl]; exact hl)
  | nil hl => exact Abs.nil (by rw [hag _ Reach.refl]; exact hl)
  | cell hl _ _ ihc ihr =>
    refine Abs.cell (by rw [hag _ Reach.refl]; exact hl) (ihc ?_) (ihr ?_)
    · intro b hb; exact hag b (Reach.child hl hb)
    · intro b hb; exact hag b (Reach.rest hl hb)

theorem reach_of_agree {h h' : Heap α} {a b : Nat} {t : Tree α} (ha : Abs h a t)
    (hag : ∀ b, Reach h a b → h'[b]? = h[b]?) (hr : Reach h' a b) : Reach h a b := by
  induction ha generalizing b with
  | leaf hl =>
    have e := hag _ Reach.refl
    cases hr with
    | refl => exact Reach.refl
    | child hl' _ => rw [e, hl] at hl'; cases hl'
    | rest hl' _ => rw [e, hl] at hl'; cases hl'
  | nil hl =>
    have e := hag _ Reach.refl
    cases hr with
    | refl => exact Reach.refl
    | child hl' _ => rw [e, hl] at hl'; cases hl'
    | rest hl' _ => rw [e, hl] at hl'; cases hl'
  | cell hl _ _ ihc ihr =>
    have e := hag _ Reach.refl
    cases hr with
    | refl => exact Reach.refl
    | child hl' hr' =>
      rw [e, hl] at hl'; cases hl'
      exact Reach.child hl (ihc (fun b hb => hag b (Reach.child hl hb)) hr')
    | rest hl' hr' =>
      rw [e, hl] at hl'; cases hl'
      exact Reach.rest hl (ihr (fun b hb => hag b (Reach.rest hl hb)) hr')

theorem agree_append {h : Heap α} {a : Nat} {t : Tree α} (ext : Heap α) (ha : Abs h a t) :
    ∀ b, Reach h a b → (h ++ ext)[b]? = h[b]? := by
  intro b hb
  rw [List.getElem?_append_left (abs_reach_lt ha hb)]

/-! ## deepcopy: same value, no shared object -/

theorem alloc_root (t : Tree α) (h : Heap α) :
    h.length ≤ (alloc t h).2 ∧ (alloc t h).2 < (alloc t h).1.length := by
  cases t with
  | leaf v => simp [alloc]
  | nil => simp [alloc]
  | cell n tc tr =>
    have h1 := alloc_length_le tc h
    have h2 := alloc_length_le tr (alloc tc h).1
    simp only [alloc, List.length_append, List.length_cons, List.length_nil]
    omega

/-- **the copy has the value of the original** (`alloc t` builds an object graph of value `t`) -/
theorem alloc_abs (t : Tree α) (h : Heap α) : Abs (alloc t h).1 (alloc t h).2 t := by
  induction t generalizing h with
  | leaf v => exact Abs.leaf (by simp [alloc])
  | nil => exact Abs.nil (by simp [alloc])
  | cell n tc tr ihc ihr =>
    obtain ⟨e2, he2⟩ := alloc_prefix tr (alloc tc h).1
    have hc := ihc h
    have hr := ihr (alloc tc h).1
    refine Abs.cell (n := n) (c := (alloc tc h).2) (r := (alloc tr (alloc tc h).1).2) ?_ ?_ ?_
    · simp [alloc]
    · have := abs_mono (e2 ++ [Obj.cell n (alloc tc h).2 (alloc tr (alloc tc h).1).2]) hc
      simpa only [alloc, he2, List.append_assoc] using this
    · exact abs_mono _ hr

/-- **every object of the copy is new** -/
theorem alloc_reach_fresh (t : Tree α) (h : Heap α) {b : Nat}
    (hr : Reach (alloc t h).1 (alloc t h).2 b) : h.length ≤ b := by
  induction t generalizing h b with
  | leaf v =>
    cases hr with
    | refl => simp [alloc]
    | child hl _ => simp [alloc] at hl
    | rest hl _ => simp [alloc] at hl
  | nil =>
    cases hr with
    | refl => simp [alloc]
    | child hl _ => simp [alloc] at hl
    | rest hl _ => simp [alloc] at hl
  | cell n tc tr ihc ihr =>
    obtain ⟨e2, he2⟩ := alloc_prefix tr (alloc tc h).1
    have hle1 := alloc_length_le tc h
    have hle2 := alloc_length_le tr (alloc tc h).1
    have hroot : ((alloc (Tree.cell n tc tr) h).1)[(alloc (Tree.cell n tc tr) h).2]? =
        some (Obj.cell n (alloc tc h).2 (alloc tr (alloc tc h).1).2) := by simp [alloc]
    cases hr with
    | refl => simp only [alloc]; omega
    | child hl hr' =>
      rw [hroot] at hl; cases hl
      have hc := alloc_abs tc h
      have hfin : (alloc (Tree.cell n tc tr) h).1 =
          (alloc tc h).1 ++ (e2 ++ [Obj.cell n (alloc tc h).2 (alloc tr (alloc tc h).1).2]) := by
        simp only [alloc, he2, List.append_assoc]
      rw [hfin] at hr'
      exact ihc h (reach_of_agree hc (agree_append _ hc) hr')
    | rest hl hr' =>
      rw [hroot] at hl; cases hl
      have hrr := alloc_abs tr (alloc tc h).1
      have hfin : (alloc (Tree.cell n tc tr) h).1 =
          (alloc tr (alloc tc h).1).1 ++ [Obj.cell n (alloc tc h).2 (alloc tr (alloc tc h).1).2] := by
        simp only [alloc]
      rw [hfin] at hr'
      have := ihr (alloc tc h).1 (reach_of_agree hrr (agree_append _ hrr) hr')
      omega

theorem absFuel_sound {fuel : Nat} {h : Heap α} {a : Nat} {t : Tree α}
    (hf : absFuel fuel h a = some t) : Abs h a t := by
  induction fuel generalizing a t with
  | zero => simp [absFuel] at hf
  | succ fuel ih =>
    simp only [absFuel] at hf
    split at hf
    · cases hf
    · rename_i v hl; cases hf; exact Abs.leaf hl
    · rename_i hl; cases hf; exact Abs.nil hl
    · rename_i n c r hl
      split at hf
      · rename_i tc tr hc hr
        cases hf
        exact Abs.cell hl (ih hc) (ih hr)
      · cases hf

/-- **`deepcopy_abs_eq` / `deepcopy_sep`**: a deep copy leaves the original's value, has that same value,
and shares no object with the original. -/
theorem deepcopy_spec {fuel : Nat} {h h' : Heap α} {a a' : Nat}
    (hd : deepcopy fuel h a = some (h', a')) :
    ∃ t, Abs h a t ∧ Abs h' a t ∧ Abs h' a' t ∧ Sep h' a a' := by
  unfold deepcopy at hd
  cases hf : absFuel fuel h a with
  | none => rw [hf] at hd; cases hd
  | some t =>
    rw [hf] at hd
    simp only [Option.map_some, Option.some.injEq] at hd
    have ha := absFuel_sound hf
    obtain ⟨ext, hext⟩ := alloc_prefix t h
    have e1 : h' = (alloc t h).1 := by rw [hd]
    have e2 : a' = (alloc t h).2 := by rw [hd]
    refine ⟨t, ha, ?_, ?_, ?_⟩
    · rw [e1, hext]; exact abs_mono ext ha
    · rw [e1, e2]; exact alloc_abs t h
    · intro b hb hb'
      rw [e1] at hb hb'
      rw [e2] at hb'
      have hfresh := alloc_reach_fresh t h hb'
      rw [hext] at hb
      have := abs_reach_lt ha (reach_of_agree ha (agree_append ext ha) hb)
      omega

/-! ## writes through a separated copy never reach the original -/

theorem alloc_pointers_fresh (t : Tree α) (h : Heap α) {x c r : Nat} {n : String}
    (hx : h.length ≤ x) (hl : (alloc t h).1[x]? = some (Obj.cell n c r)) :
    h.length ≤ c ∧ h.length ≤ r := by
  induction t generalizing h x with
  | leaf v =>
    simp only [alloc] at hl
    rw [List.getElem?_append_right hx] at hl
    cases hxx : x - h.length with
    | zero => rw [hxx] at hl; simp at hl
    | succ k => rw [hxx] at hl; simp at hl
  | nil =>
    simp only [alloc] at hl
    rw [List.getElem?_append_right hx] at hl
    cases hxx : x - h.length with
    | zero => rw [hxx] at hl; simp at hl
    | succ k => rw [hxx] at hl; simp at hl
  | cell m tc tr ihc ihr =>
    obtain ⟨e2, he2⟩ := alloc_prefix tr (alloc tc h).1
    have hle1 := alloc_length_le tc h
    have hle2 := alloc_length_le tr (alloc tc h).1
    have hr1 := alloc_root tc h
    have hr2 := alloc_root tr (alloc tc h).1
    simp only [alloc] at hl
    by_cases h2 : x < (alloc tr (alloc tc h).1).1.length
    · rw [List.getElem?_append_left h2] at hl
      by_cases h1 : x < (alloc tc h).1.length
      · rw [he2, List.getElem?_append_left h1] at hl
        exact ihc h hx hl
      · have := ihr (alloc tc h).1 (Nat.le_of_not_lt h1) hl
        omega
    · rw [List.getElem?_append_right (Nat.le_of_not_lt h2)] at hl
      cases hxx : x - (alloc tr (alloc tc h).1).1.length with
      | zero =>
        rw [hxx] at hl
        simp only [List.getElem?_cons_zero, Option.some.injEq, Obj.cell.injEq] at hl
        obtain ⟨_, rfl, rfl⟩ := hl
        omega
      | succ k => rw [hxx] at hl; simp at hl

theorem applyWrite_length_le (h : Heap α) (w : Write α) : h.length ≤ (applyWrite h w).length := by
  cases w with
  | mutate target v => simp [applyWrite]
  | rebind target t =>
    simp only [applyWrite]
    split
    · simp only [List.length_set]; exact alloc_length_le t h
    · exact Nat.le_refl _
  | alias target src =>
    simp only [applyWrite]
    split
    · simp
    · exact Nat.le_refl _

/-- a write through the graph rooted at `root` leaves every allocated object outside that graph as it was -/
theorem applyWrite_frame {h : Heap α} {root : Nat} {w : Write α} (hw : Legal h root w) {b : Nat}
    (hb : b < h.length) (hnr : ¬ Reach h root b) : (applyWrite h w)[b]? = h[b]? := by
  cases w with
  | mutate target v =>
    have hne : target ≠ b := fun e => hnr (e ▸ hw)
    simp only [applyWrite, List.getElem?_set_ne hne]
  | rebind target t =>
    have hne : target ≠ b := fun e => hnr (e ▸ hw)
    simp only [applyWrite]
    split
    · obtain ⟨ext, hext⟩ := alloc_prefix t h
      rw [List.getElem?_set_ne hne, hext, List.getElem?_append_left hb]
    · rfl
  | alias target src =>
    have hne : target ≠ b := fun e => hnr (e ▸ hw.1)
    simp only [applyWrite]
    split
    · rw [List.getElem?_set_ne hne]
    · rfl

theorem old_cell_pointers {h : Heap α} {root x c r : Nat} {n : String}
    (hx : Reach h root x ∨ h.length ≤ x) (hl : h[x]? = some (Obj.cell n c r)) :
    Reach h root c ∧ Reach h root r := by
  have hlt : x < h.length := (List.getElem?_eq_some_iff.mp hl).1
  rcases hx with hx | hx
  · exact ⟨reach_trans hx (Reach.child hl Reach.refl), reach_trans hx (Reach.rest hl Reach.refl)⟩
  · omega

/-- the pointers of any cell that a legal write leaves in (or puts into) the copy's graph lead into the
old graph of the copy or to brand-new objects -/
theorem write_cell_pointers {h : Heap α} {root : Nat} {w : Write α} (hw : Legal h root w)
    {x c r : Nat} {n : String} (hx : Reach h root x ∨ h.length ≤ x)
    (hl : (applyWrite h w)[x]? = some (Obj.cell n c r)) :
    (Reach h root c ∨ h.length ≤ c) ∧ (Reach h root r ∨ h.length ≤ r) := by
  cases w with
  | mutate target v =>
    simp only [applyWrite, List.getElem?_set] at hl
    split at hl
    · split at hl <;> cases hl
    · have := old_cell_pointers hx hl
      exact ⟨Or.inl this.1, Or.inl this.2⟩
  | alias target src =>
    simp only [applyWrite] at hl
    split at hl
    · rename_i n0 c0 r0 htgt
      simp only [List.getElem?_set] at hl
      split at hl
      · split at hl
        · simp only [Option.some.injEq, Obj.cell.injEq] at hl
          obtain ⟨_, rfl, rfl⟩ := hl
          exact ⟨Or.inl hw.2, Or.inl (reach_trans hw.1 (Reach.rest htgt Reach.refl))⟩
        · cases hl
      · have := old_cell_pointers hx hl
        exact ⟨Or.inl this.1, Or.inl this.2⟩
    · have := old_cell_pointers hx hl
      exact ⟨Or.inl this.1, Or.inl this.2⟩
  | rebind target t =>
    simp only [applyWrite] at hl
    split at hl
    · rename_i n0 c0 r0 htgt
      simp only [List.getElem?_set] at hl
      split at hl
      · split at hl
        · simp only [Option.some.injEq, Obj.cell.injEq] at hl
          obtain ⟨_, rfl, rfl⟩ := hl
          exact ⟨Or.inr (alloc_root t h).1, Or.inl (reach_trans hw (Reach.rest htgt Reach.refl))⟩
        · cases hl
      · obtain ⟨ext, hext⟩ := alloc_prefix t h
        by_cases hxl : x < h.length
        · rw [hext, List.getElem?_append_left hxl] at hl
          have := old_cell_pointers hx hl
          exact ⟨Or.inl this.1, Or.inl this.2⟩
        · have := alloc_pointers_fresh t h (Nat.le_of_not_lt hxl) hl
          exact ⟨Or.inr this.1, Or.inr this.2⟩
    · have := old_cell_pointers hx hl
      exact ⟨Or.inl this.1, Or.inl this.2⟩

/-- after a legal write, whatever the copy's graph reaches was either in it before or is brand new -/
theorem reach_write_subset {h : Heap α} {root : Nat} {w : Write α} (hw : Legal h root w)
    {x b : Nat} (hx : Reach h root x ∨ h.length ≤ x) (hr : Reach (applyWrite h w) x b) :
    Reach h root b ∨ h.length ≤ b := by
  induction hr with
  | refl => exact hx
  | child hl _ ih => exact ih (write_cell_pointers hw hx hl).1
  | rest hl _ ih => exact ih (write_cell_pointers hw hx hl).2

/-- the invariant carried along a run: the original has value `t` and shares nothing with the copy -/
def Inv (h : Heap α) (a root : Nat) (t : Tree α) : Prop := Abs h a t ∧ Sep h a root

theorem inv_step {h : Heap α} {a root : Nat} {t : Tree α} {w : Write α}
    (hinv : Inv h a root t) (hw : Legal h root w) : Inv (applyWrite h w) a root t := by
  obtain ⟨habs, hsep⟩ := hinv
  have hag : ∀ b, Reach h a b → (applyWrite h w)[b]? = h[b]? :=
    fun b hb => applyWrite_frame hw (abs_reach_lt habs hb) (hsep b hb)
  refine ⟨abs_of_agree habs hag, ?_⟩
  intro b hb hb'
  have hb0 : Reach h a b := reach_of_agree habs hag hb
  rcases reach_write_subset hw (Or.inl Reach.refl) hb' with h1 | h1
  · exact hsep b hb0 h1
  · have := abs_reach_lt habs hb0; omega

/-- **`writes_through_copy_preserve_orig`**: if original and copy share no object, then no sequence of
writes made through the copy — of any length, mutating in place, re-binding attributes to new or to
existing objects of the copy — changes the value of the original; and the two stay separated. -/
theorem writes_through_copy_preserve_orig {h : Heap α} {a root : Nat} {t : Tree α}
    (habs : Abs h a t) (hsep : Sep h a root) (ws : List (Write α)) (hl : LegalAll root h ws) :
    Abs (applyAll h ws) a t ∧ Sep (applyAll h ws) a root := by
  induction ws generalizing h with
  | nil => exact ⟨habs, hsep⟩
  | cons w ws ih =>
    obtain ⟨hw, hrest⟩ := hl
    obtain ⟨h1, h2⟩ := inv_step ⟨habs, hsep⟩ hw
    exact ih h1 h2 hrest

/-! ## runs are independent of each other and of the caller's object -/

theorem alloc_sep {h : Heap α} {a : Nat} {t : Tree α} (habs : Abs h a t) :
    Abs (alloc t h).1 a t ∧ Sep (alloc t h).1 a (alloc t h).2 := by
  obtain ⟨ext, hext⟩ := alloc_prefix t h
  refine ⟨by rw [hext]; exact abs_mono ext habs, ?_⟩
  intro b hb hb'
  have hfresh := alloc_reach_fresh t h hb'
  rw [hext] at hb
  have := abs_reach_lt habs (reach_of_agree habs (agree_append ext habs) hb)
  omega

/-- **`runs_independent`** (1) (the base object is the whole graph handed to `run_mode`: processor, detector,
pipeline and the running-mode object with its readout): whatever runs are executed — any number, any order, each stopped after
any number of writes (failing runs) — the caller's object keeps its value … -/
theorem runs_preserve_base {t : Tree α} {h : Heap α} {base : Nat} (habs : Abs h base t)
    (runs : List (RunSpec α)) (hl : RunsLegal t h runs) : Abs (execRuns t h runs) base t := by
  induction runs generalizing h with
  | nil => exact habs
  | cons r rs ih =>
    obtain ⟨hw, hrest⟩ := hl
    obtain ⟨h1, h2⟩ := alloc_sep habs
    exact ih (writes_through_copy_preserve_orig h1 h2 _ hw).1 hrest

/-- … (2) and therefore every run, wherever it stands in the sequence, starts from a copy whose value is
the caller's value `t` — the value a standalone run would start from — and that copy shares no object
with the caller's object. -/
theorem runs_independent {t : Tree α} {h : Heap α} {base : Nat} (habs : Abs h base t)
    (pre : List (RunSpec α)) (r : RunSpec α) (post : List (RunSpec α))
    (hl : RunsLegal t h (pre ++ r :: post)) :
    let hk := execRuns t h pre
    Abs hk base t ∧ Abs (alloc t hk).1 (alloc t hk).2 t ∧ Sep (alloc t hk).1 base (alloc t hk).2 := by
  have hpre : RunsLegal t h pre := by
    clear habs
    induction pre generalizing h with
    | nil => trivial
    | cons p ps ih => exact ⟨hl.1, ih hl.2⟩
  have hb := runs_preserve_base habs pre hpre
  exact ⟨hb, alloc_abs t _, (alloc_sep hb).2⟩

/-- the executable `deepcopy` is that allocation -/
theorem deepcopy_eq_alloc {fuel : Nat} {h h' : Heap α} {a a' : Nat} {t : Tree α}
    (hd : deepcopy fuel h a = some (h', a')) (habs : Abs h a t) : (h', a') = alloc t h := by
  unfold deepcopy at hd
  cases hf : absFuel fuel h a with
  | none => rw [hf] at hd; cases hd
  | some t' =>
    rw [hf] at hd
    simp only [Option.map_some, Option.some.injEq] at hd
    rw [← hd, abs_functional (absFuel_sound hf) habs]

/-! ## the hypothesis is not decorative -/

/-- an object `{x: {y: 1}}` at address 4 -/
def demoHeap : Heap Nat := [Obj.leaf 1, Obj.nil, Obj.cell "y" 0 1, Obj.nil, Obj.cell "x" 2 3]

/-- **`shallow_copy_leaks`**: after `copy.copy` the write `copy.x.y := 7` (in place) changes the original,
after `deepcopy` the same write does not. -/
theorem shallow_copy_leaks :
    (∃ h' a', shallowCopy demoHeap 4 = some (h', a') ∧
        absFuel 5 (applyAll h' [Write.mutate 0 7]) 4 ≠ absFuel 5 demoHeap 4 ∧
        Legal h' a' (Write.mutate 0 7)) ∧
    (∃ h' a', deepcopy 5 demoHeap 4 = some (h', a') ∧
        absFuel 5 (applyAll h' [Write.mutate 5 7]) 4 = absFuel 5 demoHeap 4 ∧
        absFuel 5 (applyAll h' [Write.mutate 5 7]) a' ≠ absFuel 5 demoHeap 4) := by
  refine ⟨⟨_, _, rfl, by decide, ?_⟩, ⟨_, _, rfl, by decide, by decide⟩⟩
  exact Reach.child (n := "x") (c := 2) (r := 3) (by decide)
    (Reach.child (n := "y") (c := 0) (r := 1) (by decide) Reach.refl)

-- non-vacuity of the main theorem: a deep copy of the demo object, three writes through the copy
example :
    let c := alloc (Tree.cell "x" (Tree.cell "y" (Tree.leaf 1) Tree.nil) Tree.nil) demoHeap
    absFuel 6 (applyAll c.1 [Write.mutate 5 7, Write.rebind 9 (Tree.leaf 3), Write.alias 7 8]) 4
      = some (Tree.cell "x" (Tree.cell "y" (Tree.leaf 1) Tree.nil) Tree.nil) := by decide

end PyxelModel.C06
