import PyxelModel.Lemmas.C16
import PyxelModel.Lemmas.C16RN
import PyxelModel.Generated.C16
/-!
# C16 — digitised images are bounded, monotone, saturating and never wrap

Statement (properties.jsonl): for every signal frame and every allowed converter setting, the digitised
image contains only integers from 0 to 2^bits − 1, is non-decreasing in the input voltage, maps voltages
at or below the range minimum to 0 and at or above the range maximum to full scale, and is stored in an
unsigned type wide enough for full scale, so values never wrap around.  The successive-approximation
converter obeys the same bounds and monotonicity, and its noisy variant with zero noise reproduces it
exactly.

The converters are modelled in `Model/C16.lean` over `ℚ` with every binary64 rounding an explicit call of
`rnd`.  Parts A–C hold for **every** `rnd` with the laws `IsRounding` (monotone, fixes 0 and 1,
idempotent), every resolution, range, voltage (finite or ±∞).  Part D proves that `rn53`
(round-to-nearest-even, 53 bits, gradual underflow — binary64 without overflow) *is* such a rounding and
that the two extra binary64 facts hold, and instantiates A–C without any remaining hypothesis on
rounding.  Part E: kernel-evaluated facts about the pinned tree's algorithm (counter-witnesses).
-/
namespace PyxelModel.Props.C16
open PyxelModel.C16

/-! ## A. the unsigned type chosen by `get_dtype` -/

/-- the table regenerated from `/repo` by evaluating `get_dtype(0..70)` is the model `dtypeWidth` -/
theorem dtype_table_is_model :
    PyxelModel.Generated.C16.dtypeTable = (List.range 71).map (fun b => (b, dtypeWidth b)) := by
  decide

/-- every resolution 1..64 gets a type -/
theorem dtype_total (bits : ℕ) (h1 : 1 ≤ bits) (h2 : bits ≤ 64) : ∃ w, dtypeWidth bits = some w := by
  unfold dtypeWidth
  split_ifs
  · exact ⟨_, rfl⟩
  · exact ⟨_, rfl⟩
  · exact ⟨_, rfl⟩
  · exact ⟨_, rfl⟩
  · omega

/-- resolutions outside 1..64 are refused -/
theorem dtype_outside_refused (bits : ℕ) (h : bits = 0 ∨ 64 < bits) : dtypeWidth bits = none := by
  unfold dtypeWidth
  split_ifs <;> first | rfl | omega

/-- the type is one of the four unsigned widths and has at least `bits` bits -/
theorem dtype_wide_enough (bits w : ℕ) (h : dtypeWidth bits = some w) :
    bits ≤ w ∧ (w = 8 ∨ w = 16 ∨ w = 32 ∨ w = 64) := by
  unfold dtypeWidth at h
  split_ifs at h <;> simp at h <;> omega

/-- … hence full scale fits: nothing that is at most full scale can wrap -/
theorem fullScale_fits (bits w : ℕ) (h : dtypeWidth bits = some w) : fullScale bits < 2 ^ w := by
  have hw := (dtype_wide_enough bits w h).1
  have h1 : 2 ^ bits ≤ 2 ^ w := Nat.pow_le_pow_right (by norm_num) hw
  have h2 : 0 < 2 ^ bits := Nat.two_pow_pos _
  unfold fullScale
  omega

example : dtypeWidth 12 = some 16 ∧ fullScale 12 = 4095 := by decide

/-! ## B. simple ADC, any rounding -/

variable {rnd : ℚ → ℚ}

/-- **the code computes the specification**: for a legal setting the repaired `apply_simple_adc`
never hits an undefined cast, never wraps, and returns the saturating floor of the scaled fraction -/
theorem simpleAdc_eq_spec (hR : IsRounding rnd) {bits w : ℕ} {vmin vmax : ℚ} (hb : bits ≤ 64)
    (hw : bits ≤ w) (hr : vmin ≤ vmax) (hD : 0 < rnd (vmax - vmin)) (v : XV) :
    simpleAdc rnd bits w vmin vmax v = .ok (adcSpec rnd bits vmin vmax v) := by
  have hy0 := adcY_nonneg hR bits hr hD v
  simp only [simpleAdc, adcSpec]
  by_cases hs : rnd ((fullScale bits : ℕ) : ℚ) ≤ adcY rnd bits vmin vmax v
  · simp only [hs, decide_true, if_true]
    have h0 : trunc (0:ℚ) = 0 := by
      rw [trunc_of_nonneg (le_refl _)]; exact Rat.floor_intCast 0
    have hc : castU 64 0 = .ok 0 := by simp [castU]
    rw [h0, hc]
    simp only [Except.map, fullScale_mod bits w hw]
  · simp only [hs, decide_false, if_false, Bool.false_eq_true]
    have hle : adcY rnd bits vmin vmax v ≤ ((fullScale bits : ℕ) : ℚ) :=
      hR.le_of_lt_rnd (adcY_fix hR bits vmin vmax v) (not_le.mp hs)
    rw [trunc_of_nonneg hy0]
    have hf0 : 0 ≤ (adcY rnd bits vmin vmax v).floor := Rat.le_floor_iff.mpr (by simpa using hy0)
    have hfN : (adcY rnd bits vmin vmax v).floor ≤ (fullScale bits : ℤ) := by
      have h1 : ((adcY rnd bits vmin vmax v).floor : ℚ) ≤ ((fullScale bits : ℕ) : ℚ) :=
        le_trans (Rat.floor_le _) hle
      exact_mod_cast h1
    have h64 := fullScale_lt bits hb
    have hlt : (adcY rnd bits vmin vmax v).floor < 2 ^ 64 := by
      have : ((fullScale bits : ℕ) : ℤ) < 2 ^ 64 := by exact_mod_cast h64
      omega
    have hc : castU 64 (adcY rnd bits vmin vmax v).floor = .ok (adcY rnd bits vmin vmax v).floor.toNat := by
      simp only [castU, hf0, hlt, and_self, if_true]
    rw [hc]
    simp only [Except.map]
    congr 1
    apply Nat.mod_eq_of_lt
    have : (adcY rnd bits vmin vmax v).floor.toNat ≤ fullScale bits := by omega
    have : fullScale bits < 2 ^ w := by
      have h1 : 2 ^ bits ≤ 2 ^ w := Nat.pow_le_pow_right (by norm_num) hw
      have h2 : 0 < 2 ^ bits := Nat.two_pow_pos _
      unfold fullScale; omega
    omega

/-- codes are at most full scale -/
theorem adcSpec_le (hR : IsRounding rnd) (bits : ℕ) (vmin vmax : ℚ) (v : XV) :
    adcSpec rnd bits vmin vmax v ≤ fullScale bits := by
  simp only [adcSpec]
  split_ifs with hs
  · exact le_refl _
  · have hle : adcY rnd bits vmin vmax v ≤ ((fullScale bits : ℕ) : ℚ) :=
      hR.le_of_lt_rnd (adcY_fix hR bits vmin vmax v) (not_le.mp hs)
    have h1 : ((adcY rnd bits vmin vmax v).floor : ℚ) ≤ ((fullScale bits : ℕ) : ℚ) :=
      le_trans (Rat.floor_le _) hle
    have : (adcY rnd bits vmin vmax v).floor ≤ (fullScale bits : ℤ) := by exact_mod_cast h1
    omega

/-- a higher voltage never yields a lower code -/
theorem adcSpec_mono (hR : IsRounding rnd) (bits : ℕ) {vmin vmax : ℚ} (hr : vmin ≤ vmax)
    (hD : 0 < rnd (vmax - vmin)) {v v' : XV} (h : XV.le v v') :
    adcSpec rnd bits vmin vmax v ≤ adcSpec rnd bits vmin vmax v' := by
  have hy := adcY_mono hR bits hr hD h
  have hle := adcSpec_le hR bits vmin vmax v
  simp only [adcSpec] at hle ⊢
  split_ifs with h1 h2 h2
  · exact le_refl _
  · exact absurd (le_trans h1 hy) h2
  · rw [if_neg h1] at hle; exact hle
  · exact Int.toNat_le_toNat (Rat.floor_monotone hy)

/-- at or below the range minimum: code 0 -/
theorem adcSpec_floor (hR : IsRounding rnd) {bits : ℕ} (hb : 1 ≤ bits) {vmin vmax : ℚ}
    (hr : vmin ≤ vmax) {v : XV} (h : XV.le v (.fin vmin)) : adcSpec rnd bits vmin vmax v = 0 := by
  have hN : 1 ≤ fullScale bits := by
    unfold fullScale
    have : 2 ^ 1 ≤ 2 ^ bits := Nat.pow_le_pow_right (by norm_num) hb
    omega
  have h1 : (1:ℚ) ≤ rnd ((fullScale bits : ℕ) : ℚ) := by
    have := hR.mono (show (1:ℚ) ≤ ((fullScale bits : ℕ) : ℚ) by exact_mod_cast hN)
    rwa [hR.one] at this
  simp only [adcSpec, adcY_floor hR bits hr h]
  rw [if_neg (by linarith)]
  rfl

/-- at or above the range maximum: full scale -/
theorem adcSpec_ceil (hR : IsRounding rnd) (bits : ℕ) {vmin vmax : ℚ} (hr : vmin ≤ vmax)
    (hD : 0 < rnd (vmax - vmin)) {v : XV} (h : XV.le (.fin vmax) v) :
    adcSpec rnd bits vmin vmax v = fullScale bits := by
  simp only [adcSpec, adcY_ceil hR bits hr hD h, le_refl, if_true]

/-- when full scale does not round downwards (true of binary64, part D) the specification is literally
`min ⌊y⌋ (2^bits − 1)`: saturation, not wrap-around -/
theorem adcSpec_eq_min (hR : IsRounding rnd) (bits : ℕ) (vmin vmax : ℚ) (v : XV)
    (hK : ((fullScale bits : ℕ) : ℚ) ≤ rnd ((fullScale bits : ℕ) : ℚ)) :
    adcSpec rnd bits vmin vmax v = min (adcY rnd bits vmin vmax v).floor.toNat (fullScale bits) := by
  have hle := adcSpec_le hR bits vmin vmax v
  simp only [adcSpec] at hle ⊢
  split_ifs with hs
  · have h1 : ((fullScale bits : ℕ) : ℚ) ≤ adcY rnd bits vmin vmax v := le_trans hK hs
    have h2 : ((fullScale bits : ℕ) : ℤ) ≤ (adcY rnd bits vmin vmax v).floor :=
      Rat.le_floor_iff.mpr (by exact_mod_cast h1)
    have : fullScale bits ≤ (adcY rnd bits vmin vmax v).floor.toNat := by omega
    exact (min_eq_right this).symm
  · rw [if_neg hs] at hle
    exact (min_eq_left hle).symm

/-- exact arithmetic is a rounding (non-vacuity of `IsRounding`) -/
example : IsRounding (fun x : ℚ => x) := ⟨fun h => h, rfl, rfl, fun _ => rfl⟩
example : (simpleAdc (fun x => x) 8 8 0 6 (.fin 3)).toOption = some 127 := by decide +kernel
example : adcSpec (fun x => x) 8 0 6 (.fin 3) = 127 ∧ adcSpec (fun x => x) 8 0 6 .pinf = 255 := by
  decide +kernel

/-! ## C. successive-approximation ADC, any rounding -/

/-- accumulating the code in the unsigned type of the resolution never wraps -/
theorem sar_eq_ideal (rnd : ℚ → ℚ) {bits w : ℕ} (hw : bits ≤ w) (vmax : ℚ) (v : XV) :
    sar rnd bits w vmax v = sarIdeal rnd bits vmax v := by
  unfold sar sarIdeal
  apply sarLoop_eq_ideal
  have : 2 ^ bits ≤ 2 ^ w := Nat.pow_le_pow_right (by norm_num) hw
  omega

/-- SAR codes are at most full scale (for any rounding whatsoever) -/
theorem sar_le (rnd : ℚ → ℚ) {bits w : ℕ} (hw : bits ≤ w) (vmax : ℚ) (v : XV) :
    sar rnd bits w vmax v ≤ fullScale bits := by
  rw [sar_eq_ideal rnd hw]
  have := (sarIdealLoop_bounds rnd bits (rnd (vmax / 2)) v 0).2
  unfold sarIdeal fullScale
  omega

/-- SAR: a higher voltage never yields a lower code (monotone rounding suffices) -/
theorem sar_mono (hR : IsRounding rnd) {bits w : ℕ} (hw : bits ≤ w) (vmax : ℚ) {v v' : XV}
    (h : XV.le v v') : sar rnd bits w vmax v ≤ sar rnd bits w vmax v' := by
  rw [sar_eq_ideal rnd hw, sar_eq_ideal rnd hw]
  exact sarIdealLoop_mono (fun h => hR.mono h) bits _ h 0

/-- the noisy SAR with zero strengths and zero noise is the plain SAR, exactly -/
theorem sarNoise_zero_eq_sar (hR : IsRounding rnd) (bits w : ℕ) (vmax : ℚ) {v : ℚ} (hv : rnd v = v) :
    sarNoise rnd bits w vmax (List.replicate bits 0) v = some (sar rnd bits w vmax (.fin v)) := by
  unfold sarNoise sar
  exact sarNoiseLoop_zero hR w bits _ v 0 (hR.idem _) hv

/-- the noisy SAR stays within full scale whatever the draws -/
theorem sarNoise_le (rnd : ℚ → ℚ) {bits w : ℕ} (hw : bits ≤ w) (vmax : ℚ) (draws : List ℚ) (v : ℚ)
    (c : ℕ) (h : sarNoise rnd bits w vmax draws v = some c) : c ≤ fullScale bits := by
  unfold sarNoise at h
  have h2 : 0 + 2 ^ bits ≤ 2 ^ w := by
    have : 2 ^ bits ≤ 2 ^ w := Nat.pow_le_pow_right (by norm_num) hw
    omega
  have := (sarNoiseLoop_bounds rnd w bits draws _ v 0 c h2 h).2
  unfold fullScale
  omega

example : sar (fun x => x) 4 8 10 (.fin 5) = 8 ∧ sar (fun x => x) 4 8 10 .pinf = 15
    ∧ sar (fun x => x) 4 8 10 (.fin (-1)) = 0 := by decide +kernel
example : sarNoise (fun x => x) 4 8 10 [0, 0, 0, 0] 7 = some 11 := by decide +kernel

/-! ## C'. conversion histories -/

/-- a conversion is a function of the signal frame and the converter settings only: whatever an earlier
conversion (other resolution, other type, other converter) left in the image bucket, the stored image —
codes **and element type** — is the one a fresh detector would get -/
theorem simpleAdc_store_history_independent (prev : Option Image) (rnd : ℚ → ℚ) (bits w : ℕ) (vmin vmax : ℚ)
    (frame : List XV) :
    storeSimple prev rnd bits w vmin vmax frame = storeSimple none rnd bits w vmin vmax frame ∧
      (storeSimple prev rnd bits w vmin vmax frame).width = w := ⟨rfl, rfl⟩

theorem sar_store_history_independent (prev : Option Image) (rnd : ℚ → ℚ) (bits w : ℕ) (vmax : ℚ)
    (frame : List XV) :
    storeSar prev rnd bits w vmax frame = storeSar none rnd bits w vmax frame ∧
      (storeSar prev rnd bits w vmax frame).width = w := ⟨rfl, rfl⟩

/-! ## D. binary64 -/

/-- round-to-nearest-even to 53 bits with gradual underflow is a rounding in the sense of parts B, C -/
theorem binary64_isRounding : IsRounding rn53 := rn53_isRounding

/-- every full scale `2^bits − 1`, `bits ≤ 64`, converts to a double that is not below it -/
theorem binary64_fullScale (bits : ℕ) (h : bits ≤ 64) :
    ((fullScale bits : ℕ) : ℚ) ≤ rn53 ((fullScale bits : ℕ) : ℚ) := rn53_fullScale bits h

/-- the width of a voltage range with distinct double end points never rounds to zero -/
theorem binary64_range_pos {vmin vmax : ℚ} (h1 : rn53 vmin = vmin) (h2 : rn53 vmax = vmax)
    (h : vmin < vmax) : 0 < rn53 (vmax - vmin) := rn53_sub_pos h1 h2 h

/-- **simple ADC in binary64**, no hypothesis left about rounding: for every resolution 4..64 with the
type `get_dtype` picks, every range `vmin < vmax` of doubles and all voltages `v ≤ v'` (finite or ±∞):
the code is defined (no undefined cast, no wrap), at most `2^bits − 1`, equal to `min ⌊y⌋ (2^bits − 1)`,
0 at or below `vmin`, full scale at or above `vmax`, and monotone. -/
theorem binary64_simpleAdc {bits w : ℕ} (hb1 : 1 ≤ bits) (hb2 : bits ≤ 64)
    (hw : dtypeWidth bits = some w) {vmin vmax : ℚ} (h1 : rn53 vmin = vmin) (h2 : rn53 vmax = vmax)
    (hlt : vmin < vmax) {v v' : XV} (hv : XV.le v v') :
    ∃ c c', simpleAdc rn53 bits w vmin vmax v = .ok c ∧ simpleAdc rn53 bits w vmin vmax v' = .ok c' ∧
      c ≤ c' ∧ c' ≤ fullScale bits ∧ c' < 2 ^ w ∧
      c = min (adcY rn53 bits vmin vmax v).floor.toNat (fullScale bits) ∧
      (XV.le v (.fin vmin) → c = 0) ∧ (XV.le (.fin vmax) v → c = fullScale bits) := by
  have hR := rn53_isRounding
  have hD := rn53_sub_pos h1 h2 hlt
  have hww := (dtype_wide_enough bits w hw).1
  refine ⟨_, _, simpleAdc_eq_spec hR hb2 hww hlt.le hD v, simpleAdc_eq_spec hR hb2 hww hlt.le hD v',
    adcSpec_mono hR bits hlt.le hD hv, adcSpec_le hR bits vmin vmax v', ?_,
    adcSpec_eq_min hR bits vmin vmax v (rn53_fullScale bits hb2),
    fun h => adcSpec_floor hR hb1 hlt.le h, fun h => adcSpec_ceil hR bits hlt.le hD h⟩
  exact lt_of_le_of_lt (adcSpec_le hR bits vmin vmax v') (fullScale_fits bits w hw)

/-- **SAR ADC in binary64**: bounded by full scale, fits the type, monotone; the noisy variant with zero
strength and noise returns the same code -/
theorem binary64_sar {bits w : ℕ} (hw : dtypeWidth bits = some w) (vmax : ℚ) {v v' : XV}
    (hv : XV.le v v') :
    sar rn53 bits w vmax v ≤ sar rn53 bits w vmax v' ∧ sar rn53 bits w vmax v' ≤ fullScale bits ∧
      sar rn53 bits w vmax v' < 2 ^ w ∧
      (∀ q : ℚ, rn53 q = q →
        sarNoise rn53 bits w vmax (List.replicate bits 0) q = some (sar rn53 bits w vmax (.fin q))) := by
  have hww := (dtype_wide_enough bits w hw).1
  refine ⟨sar_mono rn53_isRounding hww vmax hv, sar_le rn53 hww vmax v', ?_,
    fun q hq => sarNoise_zero_eq_sar rn53_isRounding bits w vmax hq⟩
  exact lt_of_le_of_lt (sar_le rn53 hww vmax v') (fullScale_fits bits w hw)

-- non-vacuity: concrete settings satisfying all hypotheses (values checked by the kernel)
example : rn53 0 = 0 ∧ rn53 6 = 6 ∧ dtypeWidth 8 = some 8 ∧
    (simpleAdc rn53 8 8 0 6 (.fin 3)).toOption = some 127 ∧
    (simpleAdc rn53 8 8 0 6 (.fin 7)).toOption = some 255 := by decide +kernel
example : (simpleAdc rn53 64 64 0 10 .pinf).toOption = some (2 ^ 64 - 1) ∧
    sar rn53 64 64 10 .pinf = 2 ^ 64 - 1 ∧ sar rn53 54 64 10 (.fin 10) = 2 ^ 54 - 1 := by decide +kernel

/-! ## E. the pinned tree's algorithm: kernel-checked counter-witnesses (not obligations of the repaired
code; they document why the repairs are needed).  `4613127170308146463`, `4617619510936448532` are the
doubles 2.64 and 5.27. -/

/-- 4 bits, range [2.64, 5.27]: the range maximum is digitised to 14, not 15 -/
example : (match ofBits 4613127170308146463, ofBits 4617619510936448532 with
    | some (.fin lo), some (.fin hi) => (simpleAdcAsIs rn53 4 8 lo hi (.fin hi)).toOption
    | _, _ => none) = some 14 := by decide +kernel
/-- … the repaired algorithm gives 15 -/
example : (match ofBits 4613127170308146463, ofBits 4617619510936448532 with
    | some (.fin lo), some (.fin hi) => (simpleAdc rn53 4 8 lo hi (.fin hi)).toOption
    | _, _ => none) = some 15 := by decide +kernel
/-- 60 bits: code 2^60 exceeds full scale; 64 bits: the cast is undefined (numpy wraps to 0) -/
example : (simpleAdcAsIs rn53 60 64 0 10 (.fin 10)).toOption = some (2 ^ 60) ∧
    (simpleAdcAsIs rn53 64 64 0 10 (.fin 10)).toOption = none := by decide +kernel
/-- SAR accumulating in a double: 2^54 at 54 bits -/
example : (sarAsIs rn53 54 64 10 (.fin 10)).toOption = some (2 ^ 54) := by decide +kernel
/-- hardware doubles agree: `float(2^b − 1) = float(2^b)` for 54 ≤ b ≤ 64 -/
example : ∀ b, b ≤ 10 → (Float.ofNat (2 ^ (54 + b) - 1)).toBits = (Float.ofNat (2 ^ (54 + b))).toBits := by
  decide +kernel
end PyxelModel.Props.C16
