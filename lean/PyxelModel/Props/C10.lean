import PyxelModel.Model.C10
import Mathlib.Order.Defs.LinearOrder
import Mathlib.Analysis.SpecialFunctions.Log.Base
/-!
# C10 — property theorems (statement: properties.jsonl C10)

All theorems quantify over every list of calibrated variables (any mix of scalar and vector
placeholders, linear and logarithmic, shared and per-component boundaries) and every decision
vector.  The only hypotheses are what the constructors of the code guarantee
(`Var.WF`: 2-D boundaries have one row per placeholder) and what the statement assumes
(`_set_bound` succeeded; boundaries of logarithmic variables are positive).
-/
namespace PyxelModel.C10

variable {K : Type}

/-- the two facts about `10 ** x` and `log10` the property uses -/
structure LogExp (K : Type) [LinearOrder K] [Zero K] where
  pow10 : K → K
  log10 : K → K
  pow10_log10 : ∀ x, 0 < x → pow10 (log10 x) = x
  pow10_strictMono : ∀ x y, x < y → pow10 x < pow10 y

theorem LogExp.mono [LinearOrder K] [Zero K] (L : LogExp K) {x y : K} (h : x ≤ y) :
    L.pow10 x ≤ L.pow10 y := by
  rcases lt_or_eq_of_le h with h | h
  · exact le_of_lt (L.pow10_strictMono x y h)
  · rw [h]

/-- non-vacuity of the structure: the real `10 ^ x` and `logb 10` -/
noncomputable def realLogExp : LogExp ℝ where
  pow10 x := (10 : ℝ) ^ x
  log10 x := Real.logb 10 x
  pow10_log10 x h := Real.rpow_logb (by norm_num) (by norm_num) h
  pow10_strictMono x y h := Real.rpow_lt_rpow_of_exponent_lt (by norm_num) h

/-! ## the three walkers compute the same layout -/

def specTotal (vars : List (Var K)) : Nat := (vars.map slots).sum

theorem rawBounds_length (n : Nat) (b : Bounds K) (h : ∀ l, b = .each l → l.length = n) :
    (rawBounds n b).1.length = n ∧ (rawBounds n b).2.length = n := by
  cases b with
  | shared lo hi => simp [rawBounds]
  | each l => simp [rawBounds, h l rfl]

/-- per variable: what `_set_bound` appends has as many entries as the variable has placeholders,
and the two other predicates give the same width -/
theorem boundOf_width {lg : K → K} {v : Var K} {l u : List K}
    (h : boundOf lg v = .ok (l, u)) (hwf : v.WF) :
    l.length = slots v ∧ u.length = slots v ∧ widthConvert v = slots v ∧
      (∀ b, widthUpdate b v = slots v) ∧ v.values ≠ .other := by
  unfold boundOf at h
  cases hv : v.values with
  | placeholder =>
    rw [hv] at h
    simp only at h
    cases hb : v.bounds with
    | each l' => rw [hb] at h; simp at h
    | shared lo hi =>
      rw [hb] at h
      simp only at h
      split at h <;> (injection h with h; injection h with h1 h2; subst h1; subst h2;
                      simp [slots, widthConvert, widthUpdate, hv])
  | other => rw [hv] at h; simp at h
  | list ph =>
    rw [hv] at h
    simp only at h
    split at h
    · have hr := rawBounds_length ph.length v.bounds (by
        intro l' hl'
        unfold Var.WF at hwf
        rw [hv, hl'] at hwf
        exact hwf)
      split at h
      · injection h with h; injection h with h1 h2; subst h1; subst h2
        simp [slots, widthConvert, widthUpdate, hv, hr.1, hr.2]
      · injection h with h
        rw [h] at hr
        simp [slots, widthConvert, widthUpdate, hv, hr.1, hr.2]
    · simp at h

theorem setBound_cons_ok {lg : K → K} {v : Var K} {vs : List (Var K)} {lb ub : List K}
    (h : setBound lg (v :: vs) = .ok (lb, ub)) :
    ∃ l u ls us, boundOf lg v = .ok (l, u) ∧ setBound lg vs = .ok (ls, us) ∧
      lb = l ++ ls ∧ ub = u ++ us := by
  unfold setBound at h
  split at h
  · simp at h
  · rename_i l u h1
    split at h
    · simp at h
    · rename_i ls us h2
      injection h with h; injection h with ha hb
      exact ⟨l, u, ls, us, h1, h2, ha.symm, hb.symm⟩

/-- **Three walkers agree.**  Whenever `_set_bound` accepts the variables, the offsets and widths
used by `_set_bound`, `convert_to_parameters` and `update_processor` (three different predicates
in the code, one of them with a stale local) all equal the declaration-order layout of the
statement, and both boundary vectors have exactly one entry per placeholder. -/
theorem three_walkers_agree {lg : K → K} (vars : List (Var K)) (a b : Nat) (lb ub : List K)
    (h : setBound lg vars = .ok (lb, ub)) (hwf : ∀ v ∈ vars, v.WF) :
    layoutBound lg a vars = layoutSpec a vars ∧ layoutConvert a vars = layoutSpec a vars ∧
      layoutUpdate a b vars = layoutSpec a vars ∧
      lb.length = specTotal vars ∧ ub.length = specTotal vars ∧ total vars = specTotal vars ∧
      (∀ v ∈ vars, v.values ≠ .other) := by
  induction vars generalizing a b lb ub with
  | nil =>
    simp [setBound] at h
    simp [layoutBound, layoutSpec, layoutConvert, layoutUpdate, specTotal, total, h.1, h.2]
  | cons v vs ih =>
    obtain ⟨l, u, ls, us, h1, h2, rfl, rfl⟩ := setBound_cons_ok h
    have hw := boundOf_width h1 (hwf v (by simp))
    have ih' := fun a b => ih a b ls us h2 (fun w hw' => hwf w (by simp [hw']))
    refine ⟨?_, ?_, ?_, ?_, ?_, ?_, ?_⟩
    · simp only [layoutBound, layoutSpec, h1, hw.1, (ih' (a + slots v) b).1]
    · simp only [layoutConvert, layoutSpec, hw.2.2.1, (ih' (a + slots v) b).2.1]
    · simp only [layoutUpdate, layoutSpec, hw.2.2.2.1 b, (ih' (a + slots v) (slots v)).2.2.1]
    · simp [specTotal, hw.1, (ih' a b).2.2.2.1]
    · simp [specTotal, hw.2.1, (ih' a b).2.2.2.2.1]
    · have := (ih' a b).2.2.2.2.2.1
      simp only [total, specTotal] at this ⊢
      simp [hw.2.2.1, this]
    · intro w hw'
      rcases List.mem_cons.mp hw' with rfl | hw'
      · exact hw.2.2.2.2
      · exact (ih' a b).2.2.2.2.2.2 w hw'

/-! ## the layout is a partition of the decision vector -/

/-- **Layout partition (cover + order).**  Enumerating the slices in declaration order
enumerates `a, a+1, …, a + Σ slots − 1` exactly once each, in order: the slices are consecutive,
disjoint and cover the whole decision vector. -/
theorem layout_partition (a : Nat) (vars : List (Var K)) :
    (layoutSpec a vars).flatMap (fun s => List.range' s.1 s.2) = List.range' a (specTotal vars) := by
  induction vars generalizing a with
  | nil => simp [layoutSpec, specTotal]
  | cons v vs ih =>
    simp only [layoutSpec, List.flatMap_cons, ih, specTotal, List.map_cons, List.sum_cons]
    have := @List.range'_append a (slots v) ((vs.map slots).sum) 1
    simp at this ⊢

theorem layoutSpec_fst_ge (a : Nat) (vars : List (Var K)) :
    ∀ s ∈ layoutSpec a vars, a ≤ s.1 := by
  induction vars generalizing a with
  | nil => simp [layoutSpec]
  | cons v vs ih =>
    intro s hs
    simp only [layoutSpec, List.mem_cons] at hs
    rcases hs with rfl | hs
    · exact Nat.le_refl _
    · exact Nat.le_trans (Nat.le_add_right _ _) (ih _ s hs)

/-- slices of different variables never overlap and follow the declaration order -/
theorem layout_ordered (a : Nat) (vars : List (Var K)) :
    (layoutSpec a vars).Pairwise (fun s t => s.1 + s.2 ≤ t.1) := by
  induction vars generalizing a with
  | nil => simp [layoutSpec]
  | cons v vs ih =>
    simp only [layoutSpec]
    exact List.pairwise_cons.mpr ⟨fun t ht => layoutSpec_fst_ge _ vs t ht, ih _⟩

/-! ## `10 **` touches exactly the slice of a logarithmic variable -/

theorem convert_length (p : K → K) (vars : List (Var K)) (x : List K) :
    (convert p vars x).length = x.length := by
  induction vars generalizing x with
  | nil => simp [convert]
  | cons v vs ih =>
    simp only [convert]
    split <;> simp [ih] <;> omega

/-- what the statement prescribes for component `k`: ten to the power if the variable owning the
component is logarithmic, the component itself otherwise -/
def convSpec (p : K → K) (a : Nat) (vars : List (Var K)) (k : Nat) (y : K) : K :=
  match ownerFrom a vars k with
  | some (v, _) => if v.log then p y else y
  | none => y

theorem convert_getElem?_from (p : K → K) (vars : List (Var K)) (hno : ∀ v ∈ vars, v.values ≠ .other)
    (a : Nat) (x : List K) (k : Nat) :
    (convert p vars x)[k]? = (x[k]?).map (convSpec p a vars (a + k)) := by
  induction vars generalizing a x k with
  | nil =>
    simp only [convert]
    cases x[k]? <;> simp [convSpec, ownerFrom]
  | cons v vs ih =>
    have hw : widthConvert v = slots v := by
      have h0 := hno v (by simp)
      cases hv : v.values with
      | placeholder => simp [widthConvert, slots, hv]
      | list ph => simp [widthConvert, slots, hv]
      | other => exact absurd hv h0
    have ih' := ih (fun w hw' => hno w (by simp [hw']))
    simp only [convert, hw]
    rw [List.getElem?_append]
    have hlen : (if v.log = true then List.map p (List.take (slots v) x) else List.take (slots v) x).length
        = min (slots v) x.length := by split <;> simp
    rw [hlen]
    by_cases hk : k < min (slots v) x.length
    · rw [if_pos hk]
      have hk1 : k < slots v := by omega
      have hown : ownerFrom a (v :: vs) (a + k) = some (v, k) := by
        simp only [ownerFrom]
        rw [if_pos ⟨by omega, by omega⟩]
        congr 2; omega
      have hcs : convSpec p a (v :: vs) (a + k) = fun y => if v.log = true then p y else y := by
        funext y
        simp only [convSpec, hown]
      rw [hcs]
      split
      · rename_i hl
        simp [hk1]
      · rename_i hl
        simp [hk1]
    · rw [if_neg hk]
      by_cases hwx : slots v ≤ x.length
      · have hk2 : slots v ≤ k := by omega
        rw [Nat.min_eq_left hwx, ih' (a + slots v) (x.drop (slots v)) (k - slots v),
          List.getElem?_drop]
        have e1 : slots v + (k - slots v) = k := by omega
        have e2 : a + slots v + (k - slots v) = a + k := by omega
        rw [e1, e2]
        have hown : convSpec p a (v :: vs) (a + k) = convSpec p (a + slots v) vs (a + k) := by
          funext y
          simp only [convSpec, ownerFrom]
          rw [if_neg (by omega)]
        rw [hown]
      · have hx : x[k]? = none := by simp; omega
        have hl : (convert p vs (x.drop (slots v))).length = 0 := by
          rw [convert_length]; simp; omega
        rw [hx, List.getElem?_eq_none (by omega)]
        rfl

/-- **The logarithm is undone on the variable's own slice only.**  Component `k` of the converted
vector is `10 ** x[k]` iff the variable owning `k` (declaration-order layout) is logarithmic;
every other component — linear variables before, between and after — is untouched. -/
theorem log_only_on_own_slice (p : K → K) (vars : List (Var K))
    (hno : ∀ v ∈ vars, v.values ≠ .other) (x : List K) (k : Nat) :
    (convert p vars x)[k]? = (x[k]?).map (convSpec p 0 vars k) := by
  have := convert_getElem?_from p vars hno 0 x k
  simpa using this

/-! ## boundary vectors, component by component -/

theorem boundOf_getElem? {lg : K → K} {v : Var K} {l u : List K}
    (h : boundOf lg v = .ok (l, u)) (hwf : v.WF) {c : Nat} (hc : c < slots v) :
    ∃ lo hi, declared v c = some (lo, hi) ∧
      l[c]? = some (if v.log then lg lo else lo) ∧ u[c]? = some (if v.log then lg hi else hi) := by
  unfold boundOf at h
  unfold declared
  cases hv : v.values with
  | other => rw [hv] at h; simp at h
  | placeholder =>
    rw [hv] at h
    simp only at h
    have hc0 : c = 0 := by simp [slots, hv] at hc; exact hc
    subst hc0
    cases hb : v.bounds with
    | each l' => rw [hb] at h; simp at h
    | shared lo hi =>
      rw [hb] at h
      simp only at h
      refine ⟨lo, hi, rfl, ?_⟩
      split at h <;> (injection h with h; injection h with h1 h2; subst h1; subst h2; simp_all)
  | list ph =>
    rw [hv] at h
    simp only at h
    have hc' : c < ph.length := by simpa [slots, hv] using hc
    split at h
    · cases hb : v.bounds with
      | shared lo hi =>
        rw [hb] at h
        refine ⟨lo, hi, rfl, ?_⟩
        split at h <;> (injection h with h; injection h with h1 h2; subst h1; subst h2;
                        simp_all [rawBounds])
      | each l' =>
        have hl : l'.length = ph.length := by
          unfold Var.WF at hwf
          rw [hv, hb] at hwf
          exact hwf
        have hcl : c < l'.length := by omega
        rw [hb] at h
        refine ⟨l'[c].1, l'[c].2, by simp [hcl], ?_⟩
        split at h <;> (injection h with h; injection h with h1 h2; subst h1; subst h2;
                        simp_all [rawBounds])
    · simp at h

theorem setBound_getElem?_from {lg : K → K} (vars : List (Var K)) (a : Nat) (lb ub : List K)
    (h : setBound lg vars = .ok (lb, ub)) (hwf : ∀ v ∈ vars, v.WF)
    (k : Nat) (v : Var K) (c : Nat) (ho : ownerFrom a vars (a + k) = some (v, c)) :
    ∃ lo hi, declared v c = some (lo, hi) ∧
      lb[k]? = some (if v.log then lg lo else lo) ∧ ub[k]? = some (if v.log then lg hi else hi) := by
  induction vars generalizing a lb ub k with
  | nil => simp [ownerFrom] at ho
  | cons v0 vs ih =>
    obtain ⟨l, u, ls, us, h1, h2, rfl, rfl⟩ := setBound_cons_ok h
    have hw := boundOf_width h1 (hwf v0 (by simp))
    simp only [ownerFrom] at ho
    by_cases hk : k < slots v0
    · rw [if_pos ⟨by omega, by omega⟩] at ho
      injection ho with ho
      injection ho with hv hc
      subst hv
      have hc' : c = k := by omega
      subst hc'
      obtain ⟨lo, hi, hd, hl, hu⟩ := boundOf_getElem? h1 (hwf v0 (by simp)) hk
      refine ⟨lo, hi, hd, ?_, ?_⟩
      · rw [List.getElem?_append_left (by omega)]; exact hl
      · rw [List.getElem?_append_left (by omega)]; exact hu
    · rw [if_neg (by omega)] at ho
      have e : a + slots v0 + (k - slots v0) = a + k := by omega
      obtain ⟨lo, hi, hd, hl, hu⟩ := ih (a + slots v0) ls us h2
        (fun w hw' => hwf w (by simp [hw'])) (k - slots v0) (by rw [e]; exact ho)
      refine ⟨lo, hi, hd, ?_, ?_⟩
      · rw [List.getElem?_append_right (by omega), hw.1]; exact hl
      · rw [List.getElem?_append_right (by omega), hw.2.1]; exact hu

/-- **Boundary vectors.**  Entry `k` of the lower (upper) vector handed to the optimiser is the
declared lower (upper) boundary of the component of the variable owning `k` — its own pair when
per-component boundaries are given — replaced by its base-10 logarithm iff that variable is
logarithmic. -/
theorem bounds_per_component {lg : K → K} (vars : List (Var K)) (lb ub : List K)
    (h : setBound lg vars = .ok (lb, ub)) (hwf : ∀ v ∈ vars, v.WF)
    (k : Nat) (v : Var K) (c : Nat) (ho : owner vars k = some (v, c)) :
    ∃ lo hi, declared v c = some (lo, hi) ∧
      lb[k]? = some (if v.log then lg lo else lo) ∧ ub[k]? = some (if v.log then lg hi else hi) := by
  have := setBound_getElem?_from vars 0 lb ub h hwf k v c (by simpa [owner] using ho)
  exact this

/-! ## every candidate inside the box is applied inside the declared boundaries -/

/-- **In bounds.**  If the optimiser's candidate `x` lies in the box `[lb, ub]` it was given, then
every component handed to the pipeline and reported (`reported = convert x`) lies inside the
*declared* boundary pair of its own component: for a logarithmic variable the optimiser works on
`log10` and the applied value `10 ** x[k]` is back inside `[lo, hi]`. -/
theorem in_bounds [LinearOrder K] [Zero K] (L : LogExp K) (vars : List (Var K)) (lb ub x : List K)
    (h : setBound L.log10 vars = .ok (lb, ub)) (hwf : ∀ v ∈ vars, v.WF)
    (hpos : ∀ v ∈ vars, v.log = true → ∀ c lo hi, declared v c = some (lo, hi) → 0 < lo ∧ 0 < hi)
    (hbox : ∀ (k : Nat) (l u : K), lb[k]? = some l → ub[k]? = some u → ∃ y, x[k]? = some y ∧ l ≤ y ∧ y ≤ u)
    (k : Nat) (v : Var K) (c : Nat) (ho : owner vars k = some (v, c)) :
    ∃ lo hi y, declared v c = some (lo, hi) ∧ (reported L.pow10 vars x)[k]? = some y ∧
      lo ≤ y ∧ y ≤ hi ∧ v ∈ vars := by
  obtain ⟨lo, hi, hd, hl, hu⟩ := bounds_per_component vars lb ub h hwf k v c ho
  obtain ⟨y, hy, hly, hyu⟩ := hbox k _ _ hl hu
  have hno := (three_walkers_agree vars 0 0 lb ub h hwf).2.2.2.2.2.2
  have hmem : v ∈ vars := by
    have : ∀ (a : Nat) (vars : List (Var K)), ownerFrom a vars k = some (v, c) → v ∈ vars := by
      intro a vars
      induction vars generalizing a with
      | nil => simp [ownerFrom]
      | cons w ws ih =>
        simp only [ownerFrom]
        split
        · intro e; injection e with e; injection e with e1 _; simp [e1]
        · intro e; exact List.mem_cons_of_mem _ (ih _ e)
    exact this 0 vars ho
  have hc := log_only_on_own_slice L.pow10 vars hno x k
  rw [hy] at hc
  simp only [Option.map_some, convSpec] at hc
  have ho' : ownerFrom 0 vars k = some (v, c) := ho
  rw [ho'] at hc
  simp only at hc
  by_cases hlog : v.log = true
  · rw [if_pos hlog] at hc hly hyu
    obtain ⟨plo, phi⟩ := hpos v hmem hlog c lo hi hd
    refine ⟨lo, hi, L.pow10 y, hd, hc, ?_, ?_, hmem⟩
    · have := L.mono hly
      rwa [L.pow10_log10 lo plo] at this
    · have := L.mono hyu
      rwa [L.pow10_log10 hi phi] at this
  · rw [if_neg hlog] at hc hly hyu
    exact ⟨lo, hi, y, hd, hc, hly, hyu, hmem⟩

/-! ## each key receives exactly its slice; reported = applied -/

/-- **Assignment.**  `update_processor` performs exactly the `set` calls the statement asks for:
variable `j` receives the components `[o_j, o_j + slots_j)` of the parameter vector — a scalar for
`"_"`, the whole slice for a list — with the declaration-order offsets (the stale width of the
code's `else` branch is never used once `_set_bound` has accepted the variables). -/
theorem assign_spec (p : List K) (vars : List (Var K)) (hno : ∀ v ∈ vars, v.values ≠ .other)
    (a b : Nat) :
    (assign p a b vars).toOption = assignSpec p a vars := by
  induction vars generalizing a b with
  | nil => simp [assign, assignSpec, Except.toOption]
  | cons v vs ih =>
    have ih' := fun a b => ih (fun w hw => hno w (by simp [hw])) a b
    have h0 := hno v (by simp)
    unfold assign assignSpec
    cases hv : v.values with
    | other => exact absurd hv h0
    | placeholder =>
      simp only
      rw [← ih' (a + 1) 1]
      cases p[a]? with
      | none => simp [Except.toOption]
      | some x =>
        simp only
        cases assign p (a + 1) 1 vs <;> simp [Except.toOption]
    | list ph =>
      simp only
      rw [← ih' (a + ph.length) ph.length]
      cases assign p (a + ph.length) ph.length vs <;> simp [Except.toOption]

/-- no index error and nothing lost: with a parameter vector of the declared size every `set`
happens, and concatenating the assigned values in declaration order gives back the vector. -/
theorem assign_covers (p : List K) (vars : List (Var K)) (hno : ∀ v ∈ vars, v.values ≠ .other)
    (a : Nat) (hlen : p.length = a + specTotal vars) :
    ∃ r, assignSpec p a vars = some r ∧ flattenAssigned r = p.drop a ∧
      r.map (·.1) = vars.map (·.key) := by
  induction vars generalizing a with
  | nil =>
    refine ⟨[], rfl, ?_, rfl⟩
    simp [specTotal] at hlen
    simp [flattenAssigned, hlen]
  | cons v vs ih =>
    have h0 := hno v (by simp)
    have ih' := fun a => ih (fun w hw => hno w (by simp [hw])) a
    simp only [specTotal, List.map_cons, List.sum_cons] at hlen
    unfold assignSpec
    cases hv : v.values with
    | other => exact absurd hv h0
    | placeholder =>
      have hs : slots v = 1 := by simp [slots, hv]
      obtain ⟨r, hr, hf, hk⟩ := ih' (a + 1) (by simp only [specTotal]; omega)
      have ha : a < p.length := by omega
      refine ⟨(v.key, .scalar p[a]) :: r, ?_, ?_, ?_⟩
      · simp [hr, List.getElem?_eq_getElem ha]
      · simp only [flattenAssigned, hf]
        rw [List.drop_eq_getElem_cons ha]
      · simp [hk]
    | list ph =>
      have hs : slots v = ph.length := by simp [slots, hv]
      obtain ⟨r, hr, hf, hk⟩ := ih' (a + ph.length) (by simp only [specTotal]; omega)
      refine ⟨(v.key, .vec ((p.drop a).take ph.length)) :: r, ?_, ?_, ?_⟩
      · simp [hr]
      · simp only [flattenAssigned, hf]
        rw [← List.drop_drop, List.take_append_drop]
      · simp [hk]

/-- **Reported = applied.**  For every decision vector of the declared size, the values applied
to the pipeline in a fitness evaluation are — variable by variable, in declaration order —
exactly the parameter vector reported for that decision vector in `/champion/parameters` and
`/best/parameters`. -/
theorem reported_eq_applied (pw : K → K) (vars : List (Var K))
    (hno : ∀ v ∈ vars, v.values ≠ .other) (x : List K) (hlen : x.length = specTotal vars) :
    ∃ r, applied pw vars x = .ok r ∧ flattenAssigned r = reported pw vars x ∧
      r.map (·.1) = vars.map (·.key) := by
  have hl : (convert pw vars x).length = 0 + specTotal vars := by rw [convert_length]; omega
  obtain ⟨r, hr, hf, hk⟩ := assign_covers (convert pw vars x) vars hno 0 hl
  have hs := assign_spec (convert pw vars x) vars hno 0 0
  rw [hr] at hs
  refine ⟨r, ?_, by simpa [reported] using hf, hk⟩
  unfold applied
  cases hA : assign (convert pw vars x) 0 0 vars with
  | error e => rw [hA] at hs; simp [Except.toOption] at hs
  | ok r' => rw [hA] at hs; simp [Except.toOption] at hs; rw [hs]

/-! ## non-vacuity: concrete layouts (vector before scalar, logarithm on the first variable,
per-component boundaries), a toy `LogExp` on `Int` (`+7` / `−7`: inverse and strictly monotone) -/

def exVars : List (Var Int) :=
  [⟨"v", .list [true, true], true, .each [(10, 20), (100, 200)]⟩,
   ⟨"a", .placeholder, false, .shared 0 5⟩,
   ⟨"w", .list [true, true, true], false, .shared (-2) 2⟩]

def toyLogExp : LogExp Int where
  pow10 x := x + 7
  log10 x := x - 7
  pow10_log10 x _ := by omega
  pow10_strictMono x y h := by omega

example : layoutSpec 0 exVars = [(0, 2), (2, 1), (3, 3)] := by decide
example : setBound toyLogExp.log10 exVars = .ok ([3, 93, 0, -2, -2, -2], [13, 193, 5, 2, 2, 2]) := by
  decide
example : ∀ v ∈ exVars, v.WF := by simp [exVars, Var.WF]
example : convert toyLogExp.pow10 exVars [4, 100, 3, -1, 0, 1] = [11, 107, 3, -1, 0, 1] := by decide
example : applied toyLogExp.pow10 exVars [4, 100, 3, -1, 0, 1] =
    .ok [("v", .vec [11, 107]), ("a", .scalar 3), ("w", .vec [-1, 0, 1])] := by decide
example : owner exVars 1 = some (exVars[0], 1) ∧ declared exVars[0] 1 = some (100, 200) := by decide
/-- the hypotheses of `in_bounds` are satisfiable (and its conclusion is what one computes) -/
example : ∃ lo hi y, declared exVars[0] 1 = some (lo, hi) ∧
    (reported toyLogExp.pow10 exVars [4, 100, 3, -1, 0, 1])[1]? = some y ∧ lo ≤ y ∧ y ≤ hi ∧
      exVars[0] ∈ exVars :=
  in_bounds toyLogExp exVars [3, 93, 0, -2, -2, -2] [13, 193, 5, 2, 2, 2] [4, 100, 3, -1, 0, 1]
    (by decide) (by simp [exVars, Var.WF])
    (by
      intro v hv hl c lo hi hd
      simp [exVars] at hv
      rcases hv with rfl | rfl | rfl <;> simp at hl
      simp [declared] at hd
      match c, hd with
      | 0, hd => simp at hd; omega
      | 1, hd => simp at hd; omega
      | c + 2, hd => simp at hd)
    (by
      intro k l u h1 h2
      match k, h1, h2 with
      | 0, h1, h2 | 1, h1, h2 | 2, h1, h2 | 3, h1, h2 | 4, h1, h2 | 5, h1, h2 =>
        simp at h1 h2; subst h1; subst h2; simp
      | k + 6, h1, h2 => simp at h1)
    1 exVars[0] 1 (by decide)

/-- the three predicates really differ outside `_set_bound`'s domain: for a non-placeholder
string the converter takes one component while `update_processor` re-uses the previous width —
which is why `three_walkers_agree` needs `_set_bound` to have accepted the variables. -/
example :
    let vars : List (Var Int) := [⟨"v", .list [true, true], false, .shared 0 1⟩,
                                  ⟨"s", .other, false, .shared 0 1⟩]
    layoutConvert 0 vars = [(0, 2), (2, 1)] ∧ layoutUpdate 0 0 vars = [(0, 2), (2, 2)] ∧
      setBound id vars = .error .value := by decide

/-! ## history: a problem is a function of the declaration only -/

/-- **History independence.**  In the model `_set_bound` (and with it the optimiser's box, the
conversion and the assignment) is a *function of the declaration*: however many problems are built
one after the other from the same declaration — re-running `pyxel.run_mode` on a loaded
configuration — each gets the box of the first.  A functional model cannot express the other half
of this, namely that building a problem does not *overwrite* the caller's `ParameterValues`
(e.g. an in-place `log10` on a view of `boundaries`): that half is tied to the code by the
harness's **history stream**, which builds several problems / runs several calibrations from the
same `ParameterValues` objects, judges each against the original declaration (all theorems above
then apply to every round) and compares the objects before and after. -/
theorem setBound_history_independent (lg : K → K) (vars : List (Var K)) (n : Nat) :
    (List.replicate n vars).map (setBound lg) = List.replicate n (setBound lg vars) := by
  simp

example : (List.replicate 3 exVars).map (setBound toyLogExp.log10) =
    List.replicate 3 (.ok ([3, 93, 0, -2, -2, -2], [13, 193, 5, 2, 2, 2])) := by decide

/-! ## several islands: each island's processor carries its own champion -/

/-- **Per island.**  Whatever the number of islands, the parameters reported for island `i` are the values
applied to island `i`'s own processor (the deprecated `pyxel.calibration_mode` returns both, per island):
`reported_eq_applied` holds for every champion of the list, so no island can carry another island's
champion.  Tie to the code: the `deprecated` stream of the harness (2–3 islands, reported champion
vs. the returned processors and simulated data). -/
theorem islands_reported_eq_applied (pw : K → K) (vars : List (Var K))
    (hno : ∀ v ∈ vars, v.values ≠ .other) (xs : List (List K))
    (hlen : ∀ x ∈ xs, x.length = specTotal vars) :
    ∀ x ∈ xs, ∃ r, applied pw vars x = .ok r ∧ flattenAssigned r = reported pw vars x ∧
      r.map (·.1) = vars.map (·.key) :=
  fun x hx => reported_eq_applied pw vars hno x (hlen x hx)

end PyxelModel.C10
