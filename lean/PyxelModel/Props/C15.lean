import PyxelModel.Lemmas.C15
/-!
# C15 — charge-handling models neither create nor lose charge unaccountably

Statement (properties.jsonl): for all inputs within the documented parameter ranges: simple collection adds
exactly the generated charge to the pixels; photo-conversion yields per pixel between zero and the number
of incident photons, and exactly efficiency times photons when sampling is off; full-well limiting returns
the minimum of charge and capacity and is idempotent; inter-pixel coupling uses weights that sum to one, so
a uniform frame is unchanged.  Charge-transfer inefficiency never produces negative pixels nor more total
charge than it received.  Persistence keeps pixel charge plus trapped charge constant over a step for any
number of trap species, with trapped charge never negative.

All theorems are over an **arbitrary linearly ordered field** `K` (instantiated at `ℚ` by the driver, at `ℝ`
in `Props/C15Real.lean` where the CDM capture formula with `exp` / `rpow` is shown to satisfy the hypothesis
`capRaw … ≤ s` used here), for frames, trap lists, step sequences of **any** size.
-/
set_option linter.unusedSectionVars false
set_option linter.unusedVariables false
namespace PyxelModel.Props.C15
open PyxelModel.C15
variable {K : Type} [Field K] [LinearOrder K] [IsStrictOrderedRing K]

/-! ## simple collection -/

theorem collect_length (p c : List K) : (collect p c).length = min p.length c.length := by
  simp [collect]

/-- every pixel receives exactly the generated charge of that pixel -/
theorem collect_getElem (p c : List K) (i : ℕ) (h : i < (collect p c).length) :
    (collect p c)[i] = p[i]'(by rw [collect_length] at h; omega) + c[i]'(by rw [collect_length] at h; omega) := by
  simp [collect]

/-- … hence the frame total grows by exactly the generated total -/
theorem collect_sum (p c : List K) (h : p.length = c.length) : (collect p c).sum = p.sum + c.sum := by
  induction p generalizing c with
  | nil => cases c <;> simp_all [collect]
  | cons x xs ih =>
    cases c with
    | nil => simp at h
    | cons y ys =>
      have := ih ys (by simpa using h)
      simp only [collect, List.zipWith_cons_cons, List.sum_cons] at this ⊢
      rw [this]; ring

/-- … over any number of steps without reset: the pixels hold the initial charge plus everything generated -/
theorem collectRun_sum (p : List K) (cs : List (List K)) (h : ∀ c ∈ cs, c.length = p.length) :
    (collectRun p cs).sum = p.sum + (cs.map List.sum).sum := by
  induction cs generalizing p with
  | nil => simp [collectRun]
  | cons c rest ih =>
    have hc : p.length = c.length := (h c (by simp)).symm
    have hl : (collect p c).length = p.length := by rw [collect_length]; omega
    simp only [collectRun, List.map_cons, List.sum_cons]
    rw [ih (collect p c) (fun d hd => by rw [hl]; exact h d (by simp [hd])), collect_sum p c hc]
    ring

example : collect [(1:ℚ), 2, 3] [10, 0, 5] = [11, 2, 8] := by decide +kernel
example : collectRun [(1:ℚ), 2] [[10, 0], [5, 5]] = [16, 7] ∧ generated [(0:ℚ), 0] [[1, 2], [0, 40]] = [1, 42] := by
  decide +kernel

/-! ## photo-conversion -/

/-- sampling off: exactly efficiency × photons, pixel by pixel -/
theorem applyQE_eq (qe : K) (ph : List K) : applyQE qe ph = ph.map (fun x => x * qe) := rfl

/-- … which lies between zero and the number of incident photons for an efficiency in [0, 1] -/
theorem applyQE_bounds (qe : K) (h0 : 0 ≤ qe) (h1 : qe ≤ 1) (x : K) (hx : 0 ≤ x) :
    0 ≤ x * qe ∧ x * qe ≤ x := by
  constructor
  · exact mul_nonneg hx h0
  · have := mul_le_mul_of_nonneg_left h1 hx; linarith

/-- sampling on: a binomial draw `k` out of `n = ⌊photons⌋` trials (numpy's contract `0 ≤ k ≤ n`) lies between
zero and the number of incident photons -/
theorem qe_sampled_bounds (k n : ℕ) (x : K) (hk : k ≤ n) (hn : (n : K) ≤ x) :
    0 ≤ (k : K) ∧ (k : K) ≤ x := by
  refine ⟨Nat.cast_nonneg k, le_trans ?_ hn⟩
  exact_mod_cast hk

example : applyQE (1/2 : ℚ) [4, 0, 10] = [2, 0, 5] := by decide +kernel

/-! ## full well -/

/-- full-well limiting is the pixelwise minimum of charge and capacity -/
theorem fullWell_min (fwc : K) (xs : List K) : fullWell fwc xs = xs.map (fun x => min x fwc) := by
  unfold fullWell
  apply List.map_congr_left
  intro x _
  split_ifs with h
  · exact (min_eq_right h.le).symm
  · exact (min_eq_left (not_lt.mp h)).symm

/-- … and applying it twice changes nothing more -/
theorem fullWell_idem (fwc : K) (xs : List K) : fullWell fwc (fullWell fwc xs) = fullWell fwc xs := by
  rw [fullWell_min, fullWell_min, List.map_map]
  apply List.map_congr_left
  intro x _
  simp

example : fullWell (100 : ℚ) [50, 100, 150] = [50, 100, 100] := by decide +kernel

/-! ## inter-pixel capacitance -/

/-- `ipc_kernel` accepts exactly the couplings satisfying its three guards -/
theorem ipcKernel_ok_iff (c d a : K) :
    (∃ k, ipcKernel c d a = .ok k) ↔ (d < c ∧ a < c ∧ 0 ≤ c + d ∧ c + d ≤ 1 / 4) := by
  unfold ipcKernel
  rw [four_eq]
  constructor
  · rintro ⟨k, hk⟩
    split_ifs at hk with h1 h2 h3
    exact ⟨h1, h2, h3.1, h3.2⟩
  · rintro ⟨h1, h2, h3, h4⟩
    rw [if_neg (not_not.mpr h1), if_neg (not_not.mpr h2), if_neg (not_not.mpr ⟨h3, h4⟩)]
    exact ⟨_, rfl⟩

/-- the nine weights of every accepted kernel sum to one -/
theorem ipcKernel_sum_one (c d a : K) (k : Kernel K) (h : ipcKernel c d a = .ok k) : k.sum = 1 := by
  unfold ipcKernel at h
  split_ifs at h
  injection h with h
  subst h
  simp only [Kernel.sum, four_eq]
  ring

/-- … so a uniform frame of any shape (boundary filled with the frame's mean) is left unchanged -/
theorem ipc_uniform_fixed (c d a : K) (g g' : List (List K)) (u : K)
    (hu : ∀ row ∈ g, ∀ x ∈ row, x = u) (hne : 0 < (g.map List.length).sum)
    (h : ipc c d a g = .ok g') : g' = g := by
  unfold ipc at h
  cases hk : ipcKernel c d a with
  | error e => rw [hk] at h; cases h
  | ok k =>
    rw [hk] at h
    injection h with h
    rw [← h, mean_uniform g u hu hne]
    exact conv3_uniform k (ipcKernel_sum_one c d a k hk) g u hu

example : (ipcKernel (1/10 : ℚ) (1/50) (1/100)).toOption.map Kernel.sum = some 1 := by decide +kernel
example : (ipc (1/10 : ℚ) (1/50) (1/100) [[7, 7, 7], [7, 7, 7]]).toOption = some [[7, 7, 7], [7, 7, 7]] := by
  decide +kernel

/-! ## charge-transfer inefficiency (CDM)

`capRaw i k s n` is the capture formula of transfer `i` and species `k`; the only thing used about it is
`capRaw i k s n ≤ s` for a pixel above threshold and non-negative occupancy (proved for the real formula in
`Props/C15Real.lean`); `rel k = 1 − exp(−t/τ_k) ∈ [0, 1]`. -/

/-- one visit of one pixel by one trap species: pixel and occupancy stay non-negative and their sum does
not grow (it is conserved except for the `< 0.01 → 0` cut) -/
theorem cdmCell_spec (capRaw : K → K → K) (rel thr s n : K) (_hthr : 0 ≤ thr)
    (hcap : 0 ≤ n → thr < s → capRaw s n ≤ s) (hrel0 : 0 ≤ rel) (hrel1 : rel ≤ 1)
    (hs : 0 ≤ s) (hn : 0 ≤ n) :
    0 ≤ (cdmCell capRaw rel thr s n).1 ∧ 0 ≤ (cdmCell capRaw rel thr s n).2 ∧
      (cdmCell capRaw rel thr s n).1 + (cdmCell capRaw rel thr s n).2 ≤ s + n := by
  simp only [cdmCell]
  -- the captured amount lies between 0 and s
  obtain ⟨nc, hnc, h0, h1⟩ : ∃ nc, nc = (if thr < s then (if capRaw s n < 0 then 0 else capRaw s n) else 0) ∧
      0 ≤ nc ∧ nc ≤ s := by
    refine ⟨_, rfl, ?_, ?_⟩
    · split_ifs <;> first | exact le_refl _ | exact not_lt.mp ‹_›
    · split_ifs with a b
      · exact hs
      · exact hcap hn a
      · exact hs
  rw [← hnc]
  have hn1 : 0 ≤ n + nc := by linarith
  have hnr : 0 ≤ (n + nc) * rel := mul_nonneg hn1 hrel0
  have hnr1 : (n + nc) * rel ≤ n + nc := by
    have := mul_le_mul_of_nonneg_left hrel1 hn1; linarith
  refine ⟨?_, by linarith, ?_⟩
  · split_ifs
    · exact le_refl _
    · linarith
  · split_ifs
    · linarith
    · linarith

/-- all species on one pixel -/
theorem speciesPass_spec (capRaw : ℕ → K → K → K) (rel : ℕ → K) (thr : K) (hthr : 0 ≤ thr)
    (hcap : ∀ k s n, 0 ≤ n → thr < s → capRaw k s n ≤ s) (hrel : ∀ k, 0 ≤ rel k ∧ rel k ≤ 1)
    (k : ℕ) (s : K) (no : List K) (hs : 0 ≤ s) (hno : ∀ n ∈ no, 0 ≤ n) :
    0 ≤ (speciesPass capRaw rel thr k s no).1 ∧ (∀ n ∈ (speciesPass capRaw rel thr k s no).2, 0 ≤ n) ∧
      (speciesPass capRaw rel thr k s no).2.length = no.length ∧
      (speciesPass capRaw rel thr k s no).1 + (speciesPass capRaw rel thr k s no).2.sum ≤ s + no.sum := by
  induction no generalizing k s with
  | nil => simp [speciesPass, hs]
  | cons n ns ih =>
    obtain ⟨c1, c2, c3⟩ := cdmCell_spec (capRaw k) (rel k) thr s n hthr (hcap k s n) (hrel k).1 (hrel k).2 hs
      (hno n (by simp))
    obtain ⟨i1, i2, i3, i4⟩ := ih (k + 1) _ c1 (fun m hm => hno m (by simp [hm]))
    simp only [speciesPass, List.sum_cons, List.length_cons]
    refine ⟨i1, ?_, by rw [i3], by linarith⟩
    intro m hm
    rcases List.mem_cons.mp hm with rfl | h
    · exact c2
    · exact i2 _ h

/-- a whole column (parallel) / row (serial), any length, any number of species, any initial occupancies -/
theorem linePass_spec (capRaw : ℕ → ℕ → K → K → K) (rel : ℕ → K) (thr : K) (hthr : 0 ≤ thr)
    (hcap : ∀ i k s n, 0 ≤ n → thr < s → capRaw i k s n ≤ s) (hrel : ∀ k, 0 ≤ rel k ∧ rel k ≤ 1)
    (i : ℕ) (px : List K) (no : List K) (hpx : ∀ s ∈ px, 0 ≤ s) (hno : ∀ n ∈ no, 0 ≤ n) :
    (∀ s ∈ (linePass capRaw rel thr i px no).1, 0 ≤ s) ∧ (∀ n ∈ (linePass capRaw rel thr i px no).2, 0 ≤ n) ∧
      (linePass capRaw rel thr i px no).1.length = px.length ∧
      (linePass capRaw rel thr i px no).1.sum + (linePass capRaw rel thr i px no).2.sum ≤ px.sum + no.sum := by
  induction px generalizing i no with
  | nil => simp only [linePass, List.not_mem_nil, false_imp_iff, implies_true, List.length_nil, List.sum_nil, zero_add, true_and]; exact ⟨hno, le_refl _⟩
  | cons s ss ih =>
    obtain ⟨c1, c2, _, c4⟩ := speciesPass_spec (capRaw i) rel thr hthr (hcap i) hrel 0 s no (hpx s (by simp)) hno
    obtain ⟨i1, i2, i3, i4⟩ := ih (i + 1) _ (fun m hm => hpx m (by simp [hm])) c2
    simp only [linePass, List.sum_cons, List.length_cons]
    refine ⟨?_, i2, by rw [i3], by linarith⟩
    intro m hm
    rcases List.mem_cons.mp hm with rfl | h
    · exact c1
    · exact i1 _ h

/-- **CTI never produces negative pixels nor more charge than it received** (traps start empty) -/
theorem cdm_line_total_le (capRaw : ℕ → ℕ → K → K → K) (rel : ℕ → K) (thr : K) (hthr : 0 ≤ thr)
    (hcap : ∀ i k s n, 0 ≤ n → thr < s → capRaw i k s n ≤ s) (hrel : ∀ k, 0 ≤ rel k ∧ rel k ≤ 1)
    (px : List K) (nspecies : ℕ) (hpx : ∀ s ∈ px, 0 ≤ s) :
    (∀ s ∈ (linePass capRaw rel thr 0 px (List.replicate nspecies 0)).1, 0 ≤ s) ∧
      (linePass capRaw rel thr 0 px (List.replicate nspecies 0)).1.sum ≤ px.sum := by
  obtain ⟨h1, h2, _, h4⟩ := linePass_spec capRaw rel thr hthr hcap hrel 0 px (List.replicate nspecies 0) hpx
    (fun n hn => by rw [List.eq_of_mem_replicate hn])
  refine ⟨h1, ?_⟩
  have : 0 ≤ (linePass capRaw rel thr 0 px (List.replicate nspecies 0)).2.sum := list_sum_nonneg _ h2
  rw [sum_replicate_zero] at h4
  linarith

/-- the same for a whole frame given as its list of transfer lines (columns or rows) -/
theorem cdm_frame_total_le (capRaw : ℕ → ℕ → K → K → K) (rel : ℕ → K) (thr : K) (hthr : 0 ≤ thr)
    (hcap : ∀ i k s n, 0 ≤ n → thr < s → capRaw i k s n ≤ s) (hrel : ∀ k, 0 ≤ rel k ∧ rel k ≤ 1)
    (frame : List (List K)) (nspecies : ℕ) (hf : ∀ px ∈ frame, ∀ s ∈ px, 0 ≤ s) :
    (∀ px ∈ frame, ∀ s ∈ (linePass capRaw rel thr 0 px (List.replicate nspecies 0)).1, 0 ≤ s) ∧
      ((frame.map fun px => (linePass capRaw rel thr 0 px (List.replicate nspecies 0)).1.sum).sum
        ≤ (frame.map List.sum).sum) := by
  refine ⟨fun px hpx => (cdm_line_total_le capRaw rel thr hthr hcap hrel px nspecies (hf px hpx)).1, ?_⟩
  induction frame with
  | nil => simp
  | cons px rest ih =>
    simp only [List.map_cons, List.sum_cons]
    have h1 := (cdm_line_total_le capRaw rel thr hthr hcap hrel px nspecies (hf px (by simp))).2
    have h2 := ih (fun q hq => hf q (by simp [hq]))
    linarith

-- non-vacuity: a capture rule satisfying the hypothesis (capture half of the pixel), two species, three pixels
example : (linePass (fun _ _ s _ => s / 2) (fun _ => (1/4 : ℚ)) (1/100) 0 [100, 0, 8] [0, 0]).1
    = [625/16, 375/32, 3275/256] := by decide +kernel

/-! ## persistence -/

/-- **one step conserves pixel + trapped charge**, for any number of trap species, any parameters -/
theorem persistPixel_conserves (p : K) (l : List (Species K × K)) :
    (persistPixel p l).1 + (persistPixel p l).2.sum = p + (l.map (·.2)).sum := by
  simp only [persistPixel]
  have h2 := loop2_conserves ((loop1 p l).1 - p) (loop1 p l).1 ((l.map (·.1)).zip (loop1 p l).2)
  rw [map_snd_zip l _ (loop1_length p l)] at h2
  have h1 := loop1_conserves p l
  linarith

/-- **trapped charge never becomes negative** (pixel and trapped charge non-negative before the step,
densities in [0, 1], capacities non-negative) -/
theorem persistPixel_trapped_nonneg (p : K) (l : List (Species K × K)) (hp : 0 ≤ p)
    (hl : ∀ st ∈ l, SpeciesOk st) : ∀ t ∈ (persistPixel p l).2, 0 ≤ t := by
  simp only [persistPixel]
  obtain ⟨h1, h2⟩ := loop1_nonneg p l hp hl
  apply loop2_nonneg _ _ _ h1
  intro st hst
  obtain ⟨s, t⟩ := st
  have hm := List.of_mem_zip hst
  obtain ⟨st0, hst0, rfl⟩ := List.mem_map.mp hm.1
  obtain ⟨_, hd0, _, hc⟩ := hl st0 hst0
  exact ⟨h2 _ hm.2, hd0, hc⟩

/-- the pixel itself stays non-negative as well, so the step can be repeated -/
theorem persistPixel_pixel_nonneg (p : K) (l : List (Species K × K)) (hp : 0 ≤ p)
    (hl : ∀ st ∈ l, SpeciesOk st) : 0 ≤ (persistPixel p l).1 := by
  simp only [persistPixel]
  obtain ⟨h1, _⟩ := loop1_nonneg p l hp hl
  have := loop2_released_nonneg ((loop1 p l).1 - p) (loop1 p l).1 ((l.map (·.1)).zip (loop1 p l).2)
  linarith

/-- **any number of steps**, charge `adds[k]` arriving before step `k`: pixel + trapped = initial + arrived -/
theorem persistRun_conserves (sp : List (Species K)) (adds : List K) (st : K × List K)
    (h : st.2.length = sp.length) :
    (persistRun sp adds st).1 + (persistRun sp adds st).2.sum = st.1 + st.2.sum + adds.sum := by
  induction adds generalizing st with
  | nil => simp [persistRun]
  | cons a as ih =>
    simp only [persistRun, List.sum_cons]
    have hl : (persistPixel (st.1 + a) (sp.zip st.2)).2.length = sp.length := by
      rw [persistPixel_length]; simp [h]
    rw [ih _ hl, persistPixel_conserves, List.map_snd_zip]
    · ring
    · omega

/-- … and trapped charge and pixel stay non-negative throughout -/
theorem persistRun_nonneg (sp : List (Species K)) (adds : List K) (st : K × List K)
    (hsp : ∀ s ∈ sp, 0 ≤ s.dens ∧ s.dens ≤ 1 ∧ ∀ c, s.cap = some c → 0 ≤ c)
    (hadds : ∀ a ∈ adds, 0 ≤ a) (hp : 0 ≤ st.1) (ht : ∀ t ∈ st.2, 0 ≤ t) :
    0 ≤ (persistRun sp adds st).1 ∧ ∀ t ∈ (persistRun sp adds st).2, 0 ≤ t := by
  induction adds generalizing st with
  | nil => exact ⟨hp, ht⟩
  | cons a as ih =>
    simp only [persistRun]
    have ha : 0 ≤ st.1 + a := add_nonneg hp (hadds a (by simp))
    have hok : ∀ x ∈ sp.zip st.2, SpeciesOk x := by
      intro x hx
      have hm := List.of_mem_zip hx
      obtain ⟨h1, h2, h3⟩ := hsp x.1 hm.1
      exact ⟨ht x.2 hm.2, h1, h2, h3⟩
    exact ih _ (fun b hb => hadds b (by simp [hb])) (persistPixel_pixel_nonneg _ _ ha hok)
      (persistPixel_trapped_nonneg _ _ ha hok)

-- non-vacuity and the defect of the pinned tree, on the probe of DESIGN section 7
-- (1000 e⁻, two empty species of densities 1/2 and 2/5, time factor 1, no capacities)
example : persistPixel (1000 : ℚ) [(⟨1/2, 1, none⟩, 0), (⟨2/5, 1, none⟩, 0)] = (730, [150, 120]) := by
  decide +kernel
/-- the pinned tree's second loop keeps only the last species' release: 1000 e⁻ become 650 e⁻ -/
example : persistPixelAsIs (1000 : ℚ) [(⟨1/2, 1, none⟩, 0), (⟨2/5, 1, none⟩, 0)] = (380, [150, 120]) := by
  decide +kernel
example : persistRun [⟨1/2, 1/4, some 100⟩, ⟨1/4, 1/2, none⟩] [(1000 : ℚ), 0, 24] (0, [0, 0])
    = (25016741/32768, [100, 5260891/32768]) := by decide +kernel

end PyxelModel.Props.C15
