import PyxelModel.Model.C17
import PyxelModel.Props.C02
import Mathlib.Algebra.Order.Field.Rat
import Mathlib.Tactic.Ring
import Mathlib.Tactic.FieldSimp
/-!
# C17 — property theorems (statement: properties.jsonl C17)

For every pipeline built from the flux-integrating models (any number of photon and charge
models, any rates / levels, any time scales — a zero time scale included, any quantum efficiency,
conversion and collection present or not), every start time and **every** schedule (any number of
readouts, wherever they fall), over an arbitrary field `K`.
-/
namespace PyxelModel.C17
open PyxelModel.C02 (steps lastOr steps_sum steps_length steps_getElem)

variable {K : Type} [Field K]

/-! ## every model is linear in the time step -/

theorem foldl_photon (ms : List (Flux K)) (a dt : K) :
    ms.foldl (fun acc m => acc + m.rate * (dt / m.scale)) a =
      a + (ms.map (fun m => m.rate / m.scale)).foldr (· + ·) 0 * dt := by
  induction ms generalizing a with
  | nil => simp
  | cons m ms ih =>
    simp only [List.foldl_cons, List.map_cons, List.foldr_cons, ih]
    ring

theorem foldl_charge (ms : List (Flux K)) (a dt : K) :
    ms.foldl (fun acc m => acc + m.rate * dt / m.scale) a =
      a + (ms.map (fun m => m.rate / m.scale)).foldr (· + ·) 0 * dt := by
  induction ms generalizing a with
  | nil => simp
  | cons m ms ih =>
    simp only [List.foldl_cons, List.map_cons, List.foldr_cons, ih]
    ring

/-- **what a step collects is its duration times the pipeline's rate** -/
theorem pixelStep_linear (p : Pipe K) (prev dt : K) :
    pixelStep p prev dt = prev + totalRate p * dt := by
  unfold pixelStep totalRate chargeStep photonStep
  cases hc : p.collect <;> cases hq : p.qe <;>
    simp only [foldl_photon, foldl_charge, if_true, if_false, Bool.false_eq_true] <;> ring

/-! ## non-destructive mode -/

theorem framesFrom_length (p : Pipe K) (nd : Bool) (prev : K) (dts : List K) :
    (framesFrom p nd prev dts).length = dts.length := by
  induction dts generalizing prev with
  | nil => rfl
  | cons dt r ih => simp [framesFrom, ih]

theorem frames_length (p : Pipe K) (nd : Bool) (start : K) (ts : List K) :
    (frames p nd start ts).length = ts.length := by
  simp [frames, framesFrom_length, steps_length]

theorem framesFrom_nd_getElem (p : Pipe K) (prev s : K) (ts : List K) (i : Nat) (h : i < ts.length) :
    (framesFrom p true prev (steps s ts))[i]'(by rw [framesFrom_length, steps_length]; exact h) =
      prev + totalRate p * (ts[i] - s) := by
  induction ts generalizing prev s i with
  | nil => simp at h
  | cons t ts ih =>
    cases i with
    | zero => simp [steps, framesFrom, pixelStep_linear]
    | succ j =>
      simp only [steps, framesFrom, List.getElem_cons_succ, if_true]
      rw [ih _ t j (by simpa using h), pixelStep_linear]
      ring

/-- **the charge accumulated at readout i of a non-destructive exposure is the rate times the time
elapsed since the start** — it does not depend on the earlier readouts at all -/
theorem nd_frame_getElem (p : Pipe K) (start : K) (ts : List K) (i : Nat) (h : i < ts.length) :
    (frames p true start ts)[i]'(by rw [frames_length]; exact h) =
      totalRate p * (ts[i] - start) := by
  unfold frames
  rw [framesFrom_nd_getElem p 0 start ts i h]; ring

theorem framesFrom_nd_last (p : Pipe K) (prev : K) (dts : List K) :
    (framesFrom p true prev dts).getLastD prev = prev + totalRate p * dts.sum := by
  induction dts generalizing prev with
  | nil => simp [framesFrom]
  | cons dt r ih =>
    simp only [framesFrom, if_true, List.sum_cons]
    have := ih (pixelStep p prev dt)
    rw [pixelStep_linear] at this ⊢
    cases hr : framesFrom p true (prev + totalRate p * dt) r with
    | nil =>
      have hl := framesFrom_length p true (prev + totalRate p * dt) r
      rw [hr] at hl
      have : r = [] := List.length_eq_zero_iff.mp hl.symm
      subst this; simp
    | cons x xs =>
      rw [hr] at this
      simp only [List.getLastD_cons] at this ⊢
      rw [this]; ring

/-- **the accumulated pixel charge at the end of a non-destructive exposure is
`rate · (end − start)`** -/
theorem nd_final (p : Pipe K) (start : K) (ts : List K) :
    finalPixel p true start ts = totalRate p * (lastOr start ts - start) := by
  unfold finalPixel frames
  rw [framesFrom_nd_last, steps_sum]; ring

/-- **Partition invariance.**  Two non-destructive exposures with the same start and end times
collect the same charge, however many intermediate readouts are taken and wherever they fall
(no assumption on the schedules at all — not even that they are increasing). -/
theorem nondestructive_partition_invariant (p : Pipe K) (start : K) (ts ts' : List K)
    (hend : lastOr start ts = lastOr start ts') :
    finalPixel p true start ts = finalPixel p true start ts' := by
  rw [nd_final, nd_final, hend]

/-- inserting one more readout anywhere changes nothing at the end (special case, as an
illustration of the previous theorem on lists of arbitrary length) -/
theorem insert_readout_invariant (p : Pipe K) (start t : K) (pre post : List K) (hpost : post ≠ []) :
    finalPixel p true start (pre ++ t :: post) = finalPixel p true start (pre ++ post) := by
  apply nondestructive_partition_invariant
  have hl : ∀ (s : K) (a b : List K), b ≠ [] → lastOr s (a ++ b) = lastOr s b ∧ ∀ s', lastOr s b = lastOr s' b := by
    intro s a b hb
    constructor
    · induction a generalizing s with
      | nil => rfl
      | cons x a ih =>
        simp only [List.cons_append, lastOr]
        rw [ih x]
        cases b with
        | nil => exact absurd rfl hb
        | cons y b => rfl
    · intro s'
      cases b with
      | nil => exact absurd rfl hb
      | cons y b => rfl
  rw [(hl start pre (t :: post) (by simp)).1, (hl start pre post hpost).1]
  simp only [lastOr]
  exact (hl t [] post hpost).2 start

/-! ## destructive mode -/

theorem framesFrom_destructive (p : Pipe K) (prev : K) (dts : List K) :
    framesFrom p false prev dts = dts.map (fun dt => totalRate p * dt) := by
  induction dts generalizing prev with
  | nil => rfl
  | cons dt r ih =>
    simp only [framesFrom, Bool.false_eq_true, if_false, List.map_cons, ih, pixelStep_linear]
    simp

/-- **in destructive mode each frame's charge is proportional to that frame's own duration** -/
theorem destructive_frame_proportional (p : Pipe K) (start : K) (ts : List K) :
    frames p false start ts = (steps start ts).map (fun dt => totalRate p * dt) :=
  framesFrom_destructive p 0 _

theorem destructive_frame_getElem (p : Pipe K) (start : K) (ts : List K) (i : Nat) (h : i < ts.length) :
    (frames p false start ts)[i]'(by rw [frames_length]; exact h) =
      totalRate p * (ts[i] - (if i = 0 then start else ts[i-1]'(by omega))) := by
  simp only [destructive_frame_proportional, List.getElem_map]
  rw [steps_getElem start ts i h]

theorem steps_scale (c s : K) (ts : List K) :
    steps (c * s) (ts.map (c * ·)) = (steps s ts).map (c * ·) := by
  induction ts generalizing s with
  | nil => rfl
  | cons t ts ih => simp only [List.map_cons, steps, ih]; congr 1; ring

theorem framesFrom_scale (p : Pipe K) (nd : Bool) (c prev : K) (dts : List K) :
    framesFrom p nd (c * prev) (dts.map (c * ·)) = (framesFrom p nd prev dts).map (c * ·) := by
  induction dts generalizing prev with
  | nil => rfl
  | cons dt r ih =>
    simp only [List.map_cons, framesFrom]
    have hv : pixelStep p (if nd = true then c * prev else 0) (c * dt) =
        c * pixelStep p (if nd = true then prev else 0) dt := by
      rw [pixelStep_linear, pixelStep_linear]; cases nd <;> simp <;> ring
    rw [hv, ih]

/-- **scaling every interval by a factor scales the collected charge of every frame by the same
factor** (both modes; `c` arbitrary) -/
theorem scaling (p : Pipe K) (nd : Bool) (c start : K) (ts : List K) :
    frames p nd (c * start) (ts.map (c * ·)) = (frames p nd start ts).map (c * ·) := by
  unfold frames
  rw [steps_scale]
  have := framesFrom_scale p nd c 0 (steps start ts)
  rw [mul_zero] at this
  exact this

/-- shifting the whole exposure in time changes nothing (both modes) -/
theorem shift_invariant (p : Pipe K) (nd : Bool) (d start : K) (ts : List K) :
    frames p nd (start + d) (ts.map (· + d)) = frames p nd start ts := by
  unfold frames
  congr 1
  induction ts generalizing start with
  | nil => rfl
  | cons t ts ih => simp only [List.map_cons, steps, ih]; congr 1; ring

-- non-vacuity: photon models 3/2 s⁻¹ and 5/(4 s), QE 3/4, a charge model 2/(1/2 s), collection;
-- 1 readout vs 4 readouts of the interval [1/2, 8]; and the destructive frames of the latter
def demoPipe : Pipe Rat := ⟨[⟨3, 2⟩, ⟨5, 4⟩], some (3/4), [⟨2, 1/2⟩], true⟩

example : finalPixel demoPipe true (1/2) [8] = finalPixel demoPipe true (1/2) [1, 5/2, 3, 8] := by
  decide +kernel
example : finalPixel demoPipe true (1/2) [8] = 1455/32 := by decide +kernel
example : frames demoPipe false (1/2) [1, 5/2, 3, 8] = [97/32, 291/32, 97/32, 485/16] := by
  decide +kernel

end PyxelModel.C17
