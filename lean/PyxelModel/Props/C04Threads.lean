import PyxelModel.Model.C04
/-!
# C04 — seeded regions of several threads on one shared generator

With the lock (`_SEED_LOCK`, repair 5a4a072) every schedule of any number of threads keeps each
region deterministic and leaves the process-wide generator restored.  Without it a concrete
interleaving breaks both (this is the defect of the pinned tree, kept as a `decide`d witness).

Assumed of the runtime (trusted, not modelled): each of `get_state`, `seed`, one `np.random.*`
call, `set_state` is atomic (GIL), and no *unseeded* thread draws from the process-wide generator
while another thread is inside a seeded region.
-/
namespace PyxelModel.C04

variable {G D : Type} (gen : Gen G D) (sd k : Nat → Nat) (g0 : G)

/-- what a region with seed `sd t` and `k t` draws must produce -/
def detOut (t : Nat) : List D := (drawN gen (k t) (gen.seed (sd t))).2

theorem drawN_succ_snoc (n : Nat) (g : G) :
    drawN gen (n+1) g =
      ((gen.draw (drawN gen n g).1).1, (drawN gen n g).2 ++ [(gen.draw (drawN gen n g).1).2]) := by
  induction n generalizing g with
  | zero => rfl
  | succ n ih =>
    show (_, _) = _
    rw [ih (gen.draw g).1]
    rfl

/-- a thread that is not inside its region: not started, or finished with the right output -/
def Idle (w : World G D) (t : Nat) : Prop :=
  ((w.thr t).pc = 0 ∧ (w.thr t).out = []) ∨ ((w.thr t).pc = 5 + k t ∧ (w.thr t).out = detOut gen sd k t)

/-- the thread holding the lock is somewhere inside its region, consistently -/
def Active (w : World G D) (i : Nat) : Prop :=
  let th := w.thr i
  1 ≤ th.pc ∧ th.pc ≤ 4 + k i ∧
  (th.pc = 1 → w.g = g0 ∧ th.out = []) ∧
  (th.pc = 2 → w.g = g0 ∧ th.saved = some g0 ∧ th.out = []) ∧
  (3 ≤ th.pc → th.pc ≤ 3 + k i →
      th.saved = some g0 ∧ drawN gen (th.pc - 3) (gen.seed (sd i)) = (w.g, th.out)) ∧
  (th.pc = 4 + k i → w.g = g0 ∧ th.out = detOut gen sd k i)

def Inv (w : World G D) : Prop :=
  (w.lock = none → w.g = g0 ∧ ∀ t, Idle gen sd k w t) ∧
  (∀ i, w.lock = some i → Active gen sd k g0 w i ∧ ∀ t, t ≠ i → Idle gen sd k w t)

theorem inv_init : Inv gen sd k g0 (initWorld g0) := by
  refine ⟨fun _ => ⟨rfl, fun t => Or.inl ⟨rfl, rfl⟩⟩, ?_⟩
  intro i h; simp [initWorld] at h

theorem inv_step (w : World G D) (t : Nat) (h : Inv gen sd k g0 w) :
    Inv gen sd k g0 (stepThread gen sd k true w t) := by
  obtain ⟨hfree, hheld⟩ := h
  unfold stepThread
  simp only
  by_cases h0 : (w.thr t).pc = 0
  · -- acquire
    simp only [h0, if_true]
    cases hl : w.lock with
    | some j =>
      simp only
      refine ⟨?_, ?_⟩
      · intro h; rw [hl] at h; cases h
      · intro i hi; exact hheld i hi
    | none =>
      obtain ⟨hg, hidle⟩ := hfree hl
      simp only
      refine ⟨(by intro h; cases h), ?_⟩
      intro i hi
      have hit : i = t := by cases hi; rfl
      subst hit
      refine ⟨?_, ?_⟩
      · have hout : (w.thr i).out = [] := by
          rcases hidle i with h | h
          · exact h.2
          · omega
        simp [Active, hg, hout]
        exact ⟨by omega, fun h => absurd h (by omega)⟩
      · intro t' ht'
        have := hidle t'
        simpa [Idle, ht'] using this
  · simp only [h0, if_false]
    -- every other action requires being the lock holder; otherwise the thread is idle & done
    by_cases hheldt : w.lock = some t
    · obtain ⟨hact, hothers⟩ := hheld t hheldt
      obtain ⟨h1, h2, a1, a2, a3, a4⟩ := hact
      have frame : ∀ (th' : Thr G D) (g' : G) (l' : Option Nat) (t' : Nat), t' ≠ t →
          Idle gen sd k (⟨g', l', fun j => if j = t then th' else w.thr j⟩ : World G D) t' := by
        intro th' g' l' t' ht'
        have := hothers t' ht'
        simpa [Idle, ht'] using this
      by_cases p1 : (w.thr t).pc = 1
      · simp only [p1, if_true]
        obtain ⟨hg, hout⟩ := a1 p1
        refine ⟨(by intro h; rw [hheldt] at h; cases h), ?_⟩
        intro i hi
        have hit : i = t := by rw [hheldt] at hi; cases hi; rfl
        subst hit
        refine ⟨?_, fun t' ht' => frame _ _ _ t' ht'⟩
        simp [Active, hg, hout]
        exact ⟨by omega, fun h => absurd h (by omega)⟩
      · simp only [p1, if_false]
        by_cases p2 : (w.thr t).pc = 2
        · simp only [p2, if_true]
          obtain ⟨hg, hs, hout⟩ := a2 p2
          refine ⟨(by intro h; rw [hheldt] at h; cases h), ?_⟩
          intro i hi
          have hit : i = t := by rw [hheldt] at hi; cases hi; rfl
          subst hit
          refine ⟨?_, fun t' ht' => frame _ _ _ t' ht'⟩
          simp [Active, hs, hout, drawN]
          exact ⟨by omega, fun h => absurd h (by omega)⟩
        · simp only [p2, if_false]
          by_cases p3 : (w.thr t).pc < 3 + k t
          · simp only [p3, if_true]
            obtain ⟨hs, hd⟩ := a3 (by omega) (by omega)
            refine ⟨(by intro h; rw [hheldt] at h; cases h), ?_⟩
            intro i hi
            have hit : i = t := by rw [hheldt] at hi; cases hi; rfl
            subst hit
            refine ⟨?_, fun t' ht' => frame _ _ _ t' ht'⟩
            have hpc : (w.thr i).pc + 1 - 3 = ((w.thr i).pc - 3) + 1 := by omega
            simp only [Active, if_true]
            refine ⟨by omega, by omega, by intro h; omega, by intro h; omega, ?_, ?_⟩
            · intro _ _
              refine ⟨hs, ?_⟩
              rw [hpc, drawN_succ_snoc, hd]
            · intro h; omega
          · simp only [p3, if_false]
            by_cases p4 : (w.thr t).pc = 3 + k t
            · simp only [p4, if_true]
              obtain ⟨hs, hd⟩ := a3 (by omega) (by omega)
              refine ⟨(by intro h; rw [hheldt] at h; cases h), ?_⟩
              intro i hi
              have hit : i = t := by rw [hheldt] at hi; cases hi; rfl
              subst hit
              refine ⟨?_, fun t' ht' => frame _ _ _ t' ht'⟩
              simp only [Active, if_true, hs]
              refine ⟨by omega, by omega, by intro h; omega, by intro h; omega, by intro _ h; omega, ?_⟩
              intro _
              have : (w.thr i).pc - 3 = k i := by omega
              rw [this] at hd
              simp [detOut, hd]
            · simp only [p4, if_false]
              have p5 : (w.thr t).pc = 4 + k t := by omega
              simp only [p5, if_true]
              obtain ⟨hg, hout⟩ := a4 p5
              refine ⟨?_, by intro i hi; cases hi⟩
              intro _
              refine ⟨hg, ?_⟩
              intro t'
              by_cases ht' : t' = t
              · subst ht'
                right
                simp only [Idle, if_true]
                exact ⟨by omega, hout⟩
              · exact frame _ _ _ t' ht'
    · -- not the holder and pc ≠ 0: the thread is finished, the step is a no-op
      have hidle : Idle gen sd k w t := by
        cases hl : w.lock with
        | none => exact (hfree hl).2 t
        | some j =>
          have : t ≠ j := by intro e; subst e; exact hheldt hl
          exact (hheld j hl).2 t this
      have hdone : (w.thr t).pc = 5 + k t := by
        rcases hidle with h | h
        · exact absurd h.1 h0
        · exact h.1
      have e1 : ¬ (w.thr t).pc = 1 := by omega
      have e2 : ¬ (w.thr t).pc = 2 := by omega
      have e3 : ¬ (w.thr t).pc < 3 + k t := by omega
      have e4 : ¬ (w.thr t).pc = 3 + k t := by omega
      have e5 : ¬ (w.thr t).pc = 4 + k t := by omega
      simp only [e1, e2, e3, e4, e5, if_false]
      exact ⟨hfree, hheld⟩

theorem inv_run (sch : List Nat) (w : World G D) (h : Inv gen sd k g0 w) :
    Inv gen sd k g0 (runSchedule gen sd k true w sch) := by
  induction sch generalizing w with
  | nil => exact h
  | cons t ts ih => exact ih _ (inv_step gen sd k g0 w t h)

/-- **With the lock, for every schedule of every number of threads**: whenever no thread is
inside a region the process-wide generator is exactly the initial one, and every thread that has
finished produced exactly the draws determined by its own seed. -/
theorem locked_schedules_restore_and_deterministic (sch : List Nat) :
    let w := runSchedule gen sd k true (initWorld g0) sch
    (w.lock = none → w.g = g0) ∧
    (∀ t, (w.thr t).pc = 5 + k t → (w.thr t).out = detOut gen sd k t) := by
  have h := inv_run gen sd k g0 sch (initWorld g0) (inv_init gen sd k g0)
  refine ⟨fun hl => (h.1 hl).1, ?_⟩
  intro t hpc
  have hidle : Idle gen sd k (runSchedule gen sd k true (initWorld g0) sch) t := by
    cases hl : (runSchedule gen sd k true (initWorld g0) sch).lock with
    | none => exact (h.1 hl).2 t
    | some j =>
      by_cases e : t = j
      · subst e
        have := (h.2 t hl).1.2.1
        omega
      · exact (h.2 j hl).2 t e
  rcases hidle with h' | h'
  · omega
  · exact h'.2

/-- the defect of the pinned tree: without the lock, an interleaving of two regions with the
same seed gives a thread the wrong draws AND leaves the generator modified. -/
theorem overlap_breaks :
    let sd : Nat → Nat := fun _ => 7
    let k : Nat → Nat := fun _ => 2
    let w := runSchedule toyGen sd k false (initWorld 5) [0, 0, 0, 0, 1, 1, 1, 0, 0, 0, 1, 1, 1, 1]
    (w.thr 0).pc = 5 + k 0 ∧ (w.thr 1).pc = 5 + k 1 ∧
    ((w.thr 0).out ≠ detOut toyGen sd k 0 ∨ w.g ≠ 5) := by
  decide

-- non-vacuity of the locked theorem: the same schedule with the lock finishes thread 0 correctly
example :
    let sd : Nat → Nat := fun _ => 7
    let k : Nat → Nat := fun _ => 2
    let w := runSchedule toyGen sd k true (initWorld 5) [0, 0, 0, 0, 1, 1, 1, 0, 0, 0, 1, 1, 1, 1, 1, 1, 1]
    (w.thr 0).pc = 5 + k 0 ∧ (w.thr 0).out = [700, 701] ∧ (w.thr 1).out = [700, 701] ∧ w.g = 5 := by
  decide

end PyxelModel.C04
