import PyxelModel.Model.C01
import PyxelModel.Generated.C01
/-!
# C01 — property theorems (statement: properties.jsonl C01)

Every theorem quantifies over *all* pipelines (any groups, any number of models, any
enabled pattern, any argument values `α`) and, where it appears, any number of steps.
-/
namespace PyxelModel.C01

/-- The group tuple found in today's `pipeline.py` is the physical order of the statement. -/
theorem groups_are_physical_order : PyxelModel.Generated.C01.modelGroups = physicalOrder := by
  decide

/-- and the constructor takes exactly those ten keyword groups (any order of keywords). -/
theorem init_params_are_groups :
    PyxelModel.Generated.C01.initParams.Perm physicalOrder ∧
    PyxelModel.Generated.C01.groupAttrIsOwnField = true := by
  refine ⟨?_, by decide⟩
  decide

theorem physicalOrder_nodup : physicalOrder.Nodup := by decide

variable {α : Type}

theorem mem_groupCallsFrom {g : String} {i : Nat} {ms : List (Model α)} {c : Call α} :
    c ∈ groupCallsFrom g i ms ↔
      ∃ k m, ms[k]? = some m ∧ m.enabled = true ∧ c = ⟨g, i + k, m.name, m.args⟩ := by
  induction ms generalizing i with
  | nil => simp [groupCallsFrom]
  | cons m ms ih =>
    unfold groupCallsFrom
    constructor
    · intro h
      split at h
      · rcases List.mem_cons.mp h with h | h
        · exact ⟨0, m, by simp, by assumption, by simpa using h⟩
        · obtain ⟨k, m', h1, h2, h3⟩ := ih.mp h
          exact ⟨k+1, m', by simpa using h1, h2, by rw [h3]; congr 1; omega⟩
      · obtain ⟨k, m', h1, h2, h3⟩ := ih.mp h
        exact ⟨k+1, m', by simpa using h1, h2, by rw [h3]; congr 1; omega⟩
    · rintro ⟨k, m', h1, h2, h3⟩
      cases k with
      | zero =>
        simp at h1; subst h1; simp [h2, h3]
      | succ k =>
        have : c ∈ groupCallsFrom g (i+1) ms :=
          ih.mpr ⟨k, m', by simpa using h1, h2, by rw [h3]; congr 1; omega⟩
        split
        · exact List.mem_cons_of_mem _ this
        · exact this

/-- **Exactly the enabled models, with exactly their arguments.**  A call happens in a step iff it
is an enabled model at position `k` of a group that is in the order; it carries that model's
name and argument value.  (Disabled models, absent or empty groups: no call.) -/
theorem mem_runStep_iff {order : List String} {p : Pipeline α} {c : Call α} :
    c ∈ runStep order p ↔
      ∃ g ∈ order, ∃ k m, (lookup p g)[k]? = some m ∧ m.enabled = true ∧
        c = ⟨g, k, m.name, m.args⟩ := by
  unfold runStep
  simp only [List.mem_flatMap, mem_groupCallsFrom, Nat.zero_add]

theorem disabled_never_runs {order : List String} {p : Pipeline α} {c : Call α}
    (h : c ∈ runStep order p) :
    ∃ m, (lookup p c.group)[c.idx]? = some m ∧ m.enabled = true ∧ m.name = c.name ∧ m.args = c.args := by
  obtain ⟨g, _, k, m, h1, h2, rfl⟩ := mem_runStep_iff.mp h
  exact ⟨m, h1, h2, rfl, rfl⟩

theorem absent_group_never_runs {order : List String} {p : Pipeline α} {c : Call α}
    (h : c ∈ runStep order p) : lookup p c.group ≠ [] ∧ c.group ∈ order := by
  obtain ⟨g, hg, k, m, h1, _, rfl⟩ := mem_runStep_iff.mp h
  refine ⟨?_, hg⟩
  intro e; simp [e] at h1

theorem groupCallsFrom_pairwise (g : String) (i : Nat) (ms : List (Model α)) :
    (groupCallsFrom g i ms).Pairwise (fun a b => a.idx < b.idx) := by
  induction ms generalizing i with
  | nil => simp [groupCallsFrom]
  | cons m ms ih =>
    unfold groupCallsFrom
    split
    · refine List.pairwise_cons.mpr ⟨?_, ih (i+1)⟩
      intro c hc
      obtain ⟨k, m', _, _, h3⟩ := mem_groupCallsFrom.mp hc
      subst h3; simp; omega
    · exact ih (i+1)

/-- order relation of the property: group rank first, then user index -/
def before (order : List String) (a b : Call α) : Prop :=
  order.idxOf a.group < order.idxOf b.group ∨ (a.group = b.group ∧ a.idx < b.idx)

theorem group_of_mem {g : String} {i : Nat} {ms : List (Model α)} {c : Call α}
    (h : c ∈ groupCallsFrom g i ms) : c.group = g := by
  obtain ⟨k, m, _, _, h3⟩ := mem_groupCallsFrom.mp h; rw [h3]

theorem group_mem_order {order : List String} {p : Pipeline α} {c : Call α}
    (h : c ∈ runStep order p) : c.group ∈ order := by
  unfold runStep at h
  obtain ⟨g, hg, hc⟩ := List.mem_flatMap.mp h
  rw [group_of_mem hc]; exact hg

/-- **Group after group in the fixed order, and inside a group in the user's order** — for all
pairs of calls of a step at once (all 45 group pairs, any number of models). -/
theorem runStep_pairwise (order : List String) (hnd : order.Nodup) (p : Pipeline α) :
    (runStep order p).Pairwise (before order) := by
  induction order with
  | nil => simp [runStep]
  | cons g gs ih =>
    have hnd' := List.nodup_cons.mp hnd
    have hrs : runStep (g :: gs) p = groupCallsFrom g 0 (lookup p g) ++ runStep gs p := by
      simp [runStep]
    rw [hrs, List.pairwise_append]
    refine ⟨?_, ?_, ?_⟩
    · refine (groupCallsFrom_pairwise g 0 _).imp_of_mem (fun {a b} ha hb h => ?_)
      exact Or.inr ⟨by rw [group_of_mem ha, group_of_mem hb], h⟩
    · refine (ih hnd'.2).imp_of_mem (fun {a b} ha hb h => ?_)
      have hag : a.group ≠ g := fun e => hnd'.1 (e ▸ group_mem_order ha)
      have hbg : b.group ≠ g := fun e => hnd'.1 (e ▸ group_mem_order hb)
      rcases h with h | h
      · left; simp only [List.idxOf_cons]
        have e1 : (g == a.group) = false := by simpa using Ne.symm hag
        have e2 : (g == b.group) = false := by simpa using Ne.symm hbg
        simp only [e1, e2, cond_false]; omega
      · exact Or.inr h
    · intro a ha b hb
      have hag : a.group = g := group_of_mem ha
      have hbg : b.group ≠ g := fun e => hnd'.1 (e ▸ group_mem_order hb)
      left; simp only [List.idxOf_cons]
      have e2 : (g == b.group) = false := by simpa using Ne.symm hbg
      simp only [hag, e2, beq_self_eq_true, cond_true, cond_false]; omega

/-- `before` is irreflexive on a duplicate-free order, so `Pairwise before` forbids repeats. -/
theorem before_irrefl (order : List String) (a : Call α) : ¬ before order a a := by
  unfold before; omega

/-- **Each exactly once**: no call occurs twice in a step. -/
theorem runStep_nodup (order : List String) (hnd : order.Nodup) (p : Pipeline α) :
    (runStep order p).Nodup := by
  have h := runStep_pairwise order hnd p
  unfold List.Nodup
  refine h.imp_of_mem (fun {a b} _ _ hab => ?_)
  intro e; subst e; exact before_irrefl order a hab

/-- each enabled model of a present group is executed exactly once per step -/
theorem each_enabled_once [DecidableEq α] (order : List String) (hnd : order.Nodup) (p : Pipeline α)
    (g : String) (hg : g ∈ order) (k : Nat) (m : Model α)
    (hm : (lookup p g)[k]? = some m) (he : m.enabled = true) :
    (runStep order p).count ⟨g, k, m.name, m.args⟩ = 1 := by
  have hmem : (⟨g, k, m.name, m.args⟩ : Call α) ∈ runStep order p :=
    mem_runStep_iff.mpr ⟨g, hg, k, m, hm, he, rfl⟩
  rw [(runStep_nodup order hnd p).count, if_pos hmem]

theorem lookup_cons (x : String × List (Model α)) (p : Pipeline α) (g : String) :
    lookup (x :: p) g = if x.1 == g then x.2 else lookup p g := by
  unfold lookup
  simp only [List.find?_cons]
  cases x.1 == g <;> simp

/-- the YAML mapping's key order is irrelevant: any permutation of the group entries (keys
distinct, as in a YAML mapping or keyword arguments) gives the same schedule. -/
theorem lookup_perm {p p' : Pipeline α} (hp : p.Perm p')
    (hnd : (p.map (·.1)).Nodup) (g : String) : lookup p' g = lookup p g := by
  induction hp with
  | nil => rfl
  | cons x _ ih =>
    rw [List.map_cons, List.nodup_cons] at hnd
    rw [lookup_cons, lookup_cons, ih hnd.2]
  | swap x y l =>
    rw [List.map_cons, List.map_cons, List.nodup_cons] at hnd
    have hxy : y.1 ≠ x.1 := by
      intro e; apply hnd.1; simp [e]
    simp only [lookup_cons]
    by_cases hx : x.1 == g <;> by_cases hy : y.1 == g <;> simp [hx, hy]
    exfalso; apply hxy; rw [beq_iff_eq] at hx hy; rw [hx, hy]
  | trans h1 _ ih1 ih2 =>
    have hnd2 := (h1.map (·.1)).nodup_iff.mp hnd
    rw [ih2 hnd2, ih1 hnd]

theorem yaml_key_order_irrelevant (order : List String) {p p' : Pipeline α} (hp : p.Perm p')
    (hnd : (p.map (·.1)).Nodup) : runStep order p' = runStep order p := by
  unfold runStep
  congr 1
  funext g
  rw [lookup_perm hp hnd g]

/-- a group given as an empty list behaves as an absent group (`if scene_generation else None`) -/
theorem empty_group_is_absent (order : List String) (p : Pipeline α) (g : String)
    (hg : ∀ e ∈ p, e.1 ≠ g) :
    runStep order ((g, []) :: p) = runStep order p := by
  unfold runStep
  congr 1
  funext g'
  unfold lookup
  simp only [List.find?_cons]
  by_cases h : g == g'
  · have hn : p.find? (fun e => e.1 == g') = none := by
      rw [List.find?_eq_none]; intro e he
      have := hg e he
      rw [beq_iff_eq] at h; subst h; simpa using this
    simp [h, hn, groupCallsFrom]
  · simp [h]

/-- every readout step runs the same schedule; calls of step `i` precede those of step `i+1` -/
theorem exposure_trace (order : List String) (p : Pipeline α) (n : Nat) (dbg : Bool) :
    runExposure order p n dbg =
      (List.range n).flatMap (fun i => (runStep order p).map (fun c => (i, c))) := rfl

theorem exposure_length (order : List String) (p : Pipeline α) (n : Nat) (dbg : Bool) :
    (runExposure order p n dbg).length = n * (runStep order p).length := by
  unfold runExposure
  induction n with
  | zero => simp
  | succ n ih =>
    rw [List.range_succ, List.flatMap_append, List.length_append, ih]
    simp [Nat.succ_mul]

/-- debug capture does not change what runs -/
theorem debug_irrelevant (order : List String) (p : Pipeline α) (n : Nat) :
    runExposure order p n true = runExposure order p n false := rfl

-- non-vacuity: a concrete pipeline with a disabled model, an empty group and two populated groups
example :
    runStep physicalOrder
      ([("charge_collection", [⟨"a", true, 1⟩, ⟨"b", false, 2⟩, ⟨"c", true, 3⟩]),
        ("photon_collection", [⟨"p", true, 4⟩]), ("phasing", [])] : Pipeline Nat)
      = [⟨"photon_collection", 0, "p", 4⟩, ⟨"charge_collection", 0, "a", 1⟩,
         ⟨"charge_collection", 2, "c", 3⟩] := by decide

end PyxelModel.C01
