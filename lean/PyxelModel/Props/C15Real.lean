import PyxelModel.Lemmas.C15Real
import PyxelModel.Props.C15
/-!
# C15 over ℝ — the CDM capture and release formulas satisfy what `Props/C15.lean` assumes

`cdm_real_total_le` instantiates `cdm_line_total_le` with the actual formulas of `cdm.py`
(`γ_{i,k} = g_k · i` or `g_k · transfers`, `α_k`, `β`, release `1 − exp(−t/τ_k)`, threshold 0.01).
-/
namespace PyxelModel.Props.C15
open PyxelModel.C15

/-- `0 ≤ 1 − e^{−x} ≤ 1` for `x ≥ 0` -/
theorem one_sub_exp_neg_bounds {x : ℝ} (hx : 0 ≤ x) : 0 ≤ 1 - Real.exp (-x) ∧ 1 - Real.exp (-x) ≤ 1 := by
  have h1 : Real.exp (-x) ≤ 1 := Real.exp_le_one_iff.mpr (by linarith)
  have h2 : 0 < Real.exp (-x) := Real.exp_pos _
  constructor <;> linarith

/-- the release fraction lies in [0, 1] for a transfer period `t ≥ 0` and a release time `τ > 0` -/
theorem relFraction_bounds {t τ : ℝ} (ht : 0 ≤ t) (hτ : 0 < τ) :
    0 ≤ relFraction t τ ∧ relFraction t τ ≤ 1 := by
  unfold relFraction
  have : -t / τ = -(t / τ) := by ring
  rw [this]
  exact one_sub_exp_neg_bounds (div_nonneg ht hτ.le)

/-- **capture bound**: the captured charge never exceeds the pixel's charge
(`γ ≥ 0`, `α ≥ 0`, pixel `s > 0`, occupancy `n ≥ 0`, any `β`) -/
theorem cdm_capture_le {γ α β s n : ℝ} (hγ : 0 ≤ γ) (hα : 0 ≤ α) (hs : 0 < s) (hn : 0 ≤ n) :
    capFormula γ α β s n ≤ s := by
  unfold capFormula
  have hpow : s ^ β = s * s ^ (β - 1) := by
    rw [Real.rpow_sub_one hs.ne']; field_simp
  have hp1 : 0 < s ^ (β - 1) := Real.rpow_pos_of_pos hs _
  have hD : 0 < γ * s ^ (β - 1) + 1 := by positivity
  have hA : (γ * s ^ β - n) / (γ * s ^ (β - 1) + 1) ≤ s := by
    rw [div_le_iff₀ hD, hpow]
    nlinarith [mul_nonneg hγ hp1.le]
  have hx : 0 ≤ α * s ^ (1 - β) := mul_nonneg hα (Real.rpow_pos_of_pos hs _).le
  have hf := one_sub_exp_neg_bounds hx
  have e : -1 * α * s ^ (1 - β) = -(α * s ^ (1 - β)) := by ring
  rw [e]
  by_cases hneg : (γ * s ^ β - n) / (γ * s ^ (β - 1) + 1) ≤ 0
  · have := mul_nonpos_of_nonpos_of_nonneg hneg hf.1
    linarith
  · have hpos : 0 ≤ (γ * s ^ β - n) / (γ * s ^ (β - 1) + 1) := (not_le.mp hneg).le
    have := mul_le_mul_of_nonneg_left hf.2 hpos
    linarith

/-- hence `nc = max(capFormula, 0)` lies in `[0, s]` -/
theorem cdm_capture_bounds {γ α β s n : ℝ} (hγ : 0 ≤ γ) (hα : 0 ≤ α) (hs : 0 < s) (hn : 0 ≤ n) :
    0 ≤ max (capFormula γ α β s n) 0 ∧ max (capFormula γ α β s n) 0 ≤ s :=
  ⟨le_max_right _ _, max_le (cdm_capture_le hγ hα hs hn) hs.le⟩

/-- **CDM with the real formulas**: a line of non-negative pixels, any number of species with
`g_k ≥ 0`, `α_k ≥ 0`, `τ_k > 0`, period `t ≥ 0`, any `β`, transfer counts `m i ≥ 0` (row index, or the
constant number of transfers under charge injection): no negative pixel, no gain of total charge. -/
theorem cdm_real_total_le (β t : ℝ) (g alpha τ : ℕ → ℝ) (m : ℕ → ℝ) (hm : ∀ i, 0 ≤ m i)
    (hg : ∀ k, 0 ≤ g k) (halpha : ∀ k, 0 ≤ alpha k) (ht : 0 ≤ t) (hτ : ∀ k, 0 < τ k)
    (px : List ℝ) (nspecies : ℕ) (hpx : ∀ s ∈ px, 0 ≤ s) :
    let out := (linePass (fun i k => capFormula (g k * m i) (alpha k) β) (fun k => relFraction t (τ k))
      (1 / 100) 0 px (List.replicate nspecies 0)).1
    (∀ s ∈ out, 0 ≤ s) ∧ out.sum ≤ px.sum := by
  apply cdm_line_total_le
  · norm_num
  · intro i k s n hn hs
    exact cdm_capture_le (mul_nonneg (hg k) (hm i)) (halpha k) (lt_trans (by norm_num) hs) hn
  · intro k
    exact relFraction_bounds ht (hτ k)
  · exact hpx

-- non-vacuity: parameters in range exist (the hypotheses are satisfiable)
example : (0:ℝ) ≤ 1 / 2 ∧ ∀ k : ℕ, (0:ℝ) < (fun _ => (3:ℝ)) k := ⟨by norm_num, fun _ => by norm_num⟩

end PyxelModel.Props.C15
