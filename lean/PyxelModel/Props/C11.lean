import PyxelModel.Model.C11
import Mathlib.Tactic.Linarith
import Mathlib.Tactic.Ring
import Mathlib.Algebra.Order.Field.Basic
import Mathlib.Algebra.Order.AbsoluteValue.Basic
/-!
# C11 — property theorems (statement: properties.jsonl C11)

Fit ranges: all sizes, all ranges (`None`, negative, out-of-range bounds), any number of
dimensions.  Fitness: any figure of merit `f`, any number of (simulated, target, weighting)
triples, over any linearly ordered field.  Champions: any sequence of evolutions.
The checker modelled is the **repaired** one (`proposed_fixes/C11-fit-range-extents.diff`); the
pinned tree's checker is `checkOld` and is refuted by `decide`d counter-witnesses below.
-/
set_option linter.unusedSectionVars false
namespace PyxelModel.C11

theorem count_between (a b : Int) (n : Nat) :
    ((List.range n).filter (fun (i : Nat) => decide (a ≤ (i : Int) ∧ (i : Int) < b))).length
      = (min b n - max a 0).toNat := by
  induction n with
  | zero => simp; omega
  | succ n ih =>
    rw [List.range_succ, List.filter_append, List.length_append, ih]
    simp only [List.filter_cons, List.filter_nil]
    split
    · rename_i h
      simp at h
      simp
      omega
    · rename_i h
      simp at h
      simp
      omega

/-- lower / upper end of the selected index interval, negative bounds counted from the end -/
def lowOf (n : Nat) (r : Range) : Int :=
  match r.1 with | none => 0 | some s => if s < 0 then s + n else s
def highOf (n : Nat) (r : Range) : Int :=
  match r.2 with | none => n | some e => if e < 0 then e + n else e

theorem selected_iff (n : Nat) (r : Range) (i : Nat) (hi : i < n) :
    selected n r i = decide (lowOf n r ≤ (i : Int) ∧ (i : Int) < highOf n r) := by
  obtain ⟨s, e⟩ := r
  cases s <;> cases e <;> simp [selected, lowOf, highOf]
  · exact hi
  · intro _; exact hi
  · exact (Bool.decide_and _ _).symm

/-- **Extent.**  The arithmetic of `slice.indices` (defaults, `+ n` for negative bounds, clamping
to `[0, n]`) counts exactly the indices `i < n` with `start ≤ i < stop` (negative bounds counted
from the end): `extent` is the number of elements the range really selects. -/
theorem extent_eq_spec (n : Nat) (r : Range) : extent n r = extentSpec n r := by
  unfold extentSpec
  rw [List.filter_congr (fun i hi => selected_iff n r i (List.mem_range.mp hi)), count_between]
  obtain ⟨s, e⟩ := r
  unfold extent startOf stopOf
  cases s <;> cases e <;> simp only [lowOf, highOf, resolve] <;> (try split) <;> (try split) <;> omega

theorem boundWithin_iff (n : Nat) (b : Option Int) :
    boundWithin n b = true ↔ ∀ i, b = some i → ¬ (i < -(n : Int) ∨ (n : Int) < i) := by
  cases b with
  | none => simp [boundWithin]
  | some i =>
    simp only [boundWithin, decide_eq_true_eq, Option.some.injEq]
    constructor
    · intro h j hj; subst hj; omega
    · intro h; have := h i rfl; omega

theorem rangeWithin_iff (n : Nat) (r : Range) : rangeWithin n r = true ↔ ¬ exceeds n r := by
  unfold rangeWithin exceeds
  rw [Bool.and_eq_true, boundWithin_iff, boundWithin_iff]
  constructor
  · rintro ⟨h1, h2⟩ (⟨s, hs, h⟩ | ⟨e, he, h⟩)
    · exact h1 s hs h
    · exact h2 e he h
  · intro h
    exact ⟨fun i hi hh => h (Or.inl ⟨i, hi, hh⟩), fun i hi hh => h (Or.inr ⟨i, hi, hh⟩)⟩

theorem checkOut_ok_iff (dims : List Dim) :
    checkOut dims = .ok () ↔ ∀ d ∈ dims, extent d.tSize d.tRange = extent d.rSize d.rRange := by
  induction dims with
  | nil => simp [checkOut]
  | cons d ds ih =>
    unfold checkOut
    by_cases h : extent d.tSize d.tRange = extent d.rSize d.rRange
    · simp [h, ih]
    · simp [h]

theorem checkTarget_ok_iff (dims : List Dim) :
    checkTarget dims = .ok () ↔ ∀ d ∈ dims, rangeWithin d.tSize d.tRange = true := by
  induction dims with
  | nil => simp [checkTarget]
  | cons d ds ih =>
    unfold checkTarget
    by_cases h : rangeWithin d.tSize d.tRange = true
    · simp [h, ih]
    · simp [h]

/-- **The checker accepts exactly what the statement lets through.**  `check_fit_ranges` (repaired)
returns normally iff in every dimension result range and target range select the same number of
elements *and* the target range does not exceed the target's size; in every other case it raises
— before any optimisation step (the check runs in the problem's constructor). -/
theorem check_iff_spec (dims : List Dim) : checkFitRanges dims = .ok () ↔ rangesOk dims := by
  unfold checkFitRanges rangesOk
  have h1 := checkOut_ok_iff dims
  have h2 := checkTarget_ok_iff dims
  cases hc : checkOut dims with
  | error e =>
    rw [hc] at h1
    simp only [reduceCtorEq, false_iff] at h1 ⊢
    intro h
    exact h1 (fun d hd => by rw [extent_eq_spec, extent_eq_spec]; exact (h d hd).1)
  | ok u =>
    rw [hc] at h1
    simp only [true_iff] at h1
    simp only
    rw [h2]
    constructor
    · intro h d hd
      refine ⟨?_, (rangeWithin_iff _ _).mp (h d hd)⟩
      rw [← extent_eq_spec, ← extent_eq_spec]; exact h1 d hd
    · intro h d hd
      exact (rangeWithin_iff _ _).mpr (h d hd).2

/-- rejected means rejected with `ValueError` (never `TypeError`, whatever `None`s are declared) -/
theorem check_error_is_value (dims : List Dim) (e : Err) (h : checkFitRanges dims = .error e) :
    e = .value := by
  unfold checkFitRanges at h
  have ho : ∀ ds e', checkOut ds = .error e' → e' = .value := by
    intro ds
    induction ds with
    | nil => intro e' h'; simp [checkOut] at h'
    | cons d ds ih =>
      intro e' h'
      unfold checkOut at h'
      split at h'
      · injection h' with h'; exact h'.symm
      · exact ih e' h'
  have ht : ∀ ds e', checkTarget ds = .error e' → e' = .value := by
    intro ds
    induction ds with
    | nil => intro e' h'; simp [checkTarget] at h'
    | cons d ds ih =>
      intro e' h'
      unfold checkTarget at h'
      split at h'
      · exact ih e' h'
      · injection h' with h'; exact h'.symm
  cases hc : checkOut dims with
  | error e' => rw [hc] at h; injection h with h; subst h; exact ho dims e' hc
  | ok u => rw [hc] at h; exact ht dims e h

-- non-vacuity: shifted ranges of equal extent, `None` and negative bounds, 3 dimensions
example : checkFitRanges [⟨3, 3, (none, none), (some 0, some 3)⟩, ⟨10, 8, (some 0, some 3), (some 2, some 5)⟩,
    ⟨10, 8, (some (-4), none), (some 1, some (-3))⟩] = .ok () := by decide
example : checkFitRanges [⟨5, 5, (some 0, some 5), (some 2, some 5)⟩] = .error .value := by decide
example : checkFitRanges [⟨5, 9, (some 0, some 7), (some 0, some 7)⟩] = .error .value := by decide

/-- counter-witnesses for the pinned tree's checker (`checkOld`, end points compared):
`[0,5]` vs `[2,5]` is accepted although 5 ≠ 3 elements are selected, `[0,3]` vs `[2,5]` is
rejected although both select 3, and undeclared ranges end in a `TypeError`. -/
example : checkOld [⟨5, 5, (some 0, some 5), (some 2, some 5)⟩] = .ok () ∧
    ¬ rangesOk [⟨5, 5, (some 0, some 5), (some 2, some 5)⟩] := by
  refine ⟨by decide, ?_⟩
  rw [← check_iff_spec]; decide
example : checkOld [⟨9, 9, (some 0, some 3), (some 2, some 5)⟩] = .error .value ∧
    rangesOk [⟨9, 9, (some 0, some 3), (some 2, some 5)⟩] := by
  refine ⟨by decide, ?_⟩
  rw [← check_iff_spec]; decide
example : checkOld [⟨9, 9, (none, none), (none, none)⟩] = .error .type := by decide

/-! ## restriction to the fit range pairs elements by relative position -/

theorem startOf_le (n : Nat) (r : Range) : startOf n r ≤ n := by
  obtain ⟨s, e⟩ := r
  unfold startOf
  cases s <;> simp only [resolve] <;> (try split) <;> omega

theorem stopOf_le (n : Nat) (r : Range) : stopOf n r ≤ n := by
  obtain ⟨s, e⟩ := r
  unfold stopOf
  cases e <;> simp only [resolve] <;> (try split) <;> omega

theorem sliceList_length {α} (r : Range) (xs : List α) :
    (sliceList r xs).length = extent xs.length r := by
  unfold sliceList
  have h1 := startOf_le xs.length r
  have h2 := stopOf_le xs.length r
  simp only [List.length_take, List.length_drop, extent]
  omega

/-- element `i` of the restricted array is element `start + i` of the full array: a result range
and a target range of equal extent pair `result[start_r + i]` with `target[start_t + i]`. -/
theorem sliceList_getElem? {α} (r : Range) (xs : List α) (i : Nat) :
    (sliceList r xs)[i]? = if i < extent xs.length r then xs[startOf xs.length r + i]? else none := by
  unfold sliceList
  rw [List.getElem?_take]
  split
  · rw [List.getElem?_drop]
  · rfl

/-! ## the fitness is the sum of the per-target figures of merit -/

section fitness
variable {K : Type} [Field K] [LinearOrder K] [IsStrictOrderedRing K]

abbrev FoM (K : Type) := List (Option K) → List (Option K) → List (Option K) → K

theorem fitnessTotal_acc (f : FoM K) (ss ts ws : List (List (Option K))) (acc : K) :
    fitnessTotal f ss ts ws acc = acc + fitnessTotal f ss ts ws 0 := by
  induction ss generalizing ts ws acc with
  | nil => simp [fitnessTotal]
  | cons s ss ih =>
    cases ts with
    | nil => simp [fitnessTotal]
    | cons t ts =>
      cases ws with
      | nil => simp [fitnessTotal]
      | cons w ws =>
        simp only [fitnessTotal]
        rw [ih ts ws (acc + f s t w), ih ts ws (0 + f s t w)]
        ring

/-- **Additivity over targets.**  Adding one more (simulated, target, weighting) triple adds exactly
that triple's figure of merit to the fitness. -/
theorem fitness_additive_over_targets (f : FoM K) (s t w : List (Option K))
    (ss ts ws : List (List (Option K))) :
    fitnessTotal f (s :: ss) (t :: ts) (w :: ws) 0 = f s t w + fitnessTotal f ss ts ws 0 := by
  simp only [fitnessTotal]
  rw [fitnessTotal_acc, zero_add]

/-- **Each target is paired with its own simulation and its own weights**: the fitness is the sum
over `i` of `f (simulated i) (target i) (weighting i)` — never a cross term. -/
theorem fitness_pairs_own_inputs (f : FoM K) (ss ts ws : List (List (Option K))) :
    fitnessTotal f ss ts ws 0 =
      ((List.zip ss (List.zip ts ws)).map (fun x => f x.1 x.2.1 x.2.2)).sum := by
  induction ss generalizing ts ws with
  | nil => simp [fitnessTotal]
  | cons s ss ih =>
    cases ts with
    | nil => simp [fitnessTotal]
    | cons t ts =>
      cases ws with
      | nil => simp [fitnessTotal]
      | cons w ws =>
        rw [fitness_additive_over_targets, ih]
        simp

theorem absK_eq_abs (x : K) : absK x = |x| := by
  unfold absK
  split
  · rename_i h; exact (abs_of_neg h).symm
  · rename_i h; exact (abs_of_nonneg (not_lt.mp h)).symm

theorem nansum_map_mul (l : List (Option K)) (c : K) :
    nansum (l.map (Option.map (· * c))) = nansum l * c := by
  induction l with
  | nil => simp [nansum]
  | cons x xs ih =>
    cases x with
    | none => simpa [nansum] using ih
    | some x => simp only [List.map_cons, Option.map_some, nansum, ih]; ring

/-- **Weights are applied** (`sum_of_squared_residuals`): scaling every weight by `c` scales the
figure of merit by `c`; in particular a target's scalar weight `w` multiplies its term by `w`
and a dropped weight (`c = 1` instead of `w`) is visible whenever the term is non-zero. -/
theorem weights_applied_sq (sim tgt w : List (Option K)) (c : K) :
    sumSq sim tgt (w.map (Option.map (· * c))) = sumSq sim tgt w * c := by
  unfold sumSq
  rw [← nansum_map_mul]
  congr 1
  generalize (List.zipWith (lift2 (· - ·)) tgt sim).map (Option.map fun d => d * d) = ds
  induction ds generalizing w with
  | nil => simp
  | cons d ds ih =>
    cases w with
    | nil => simp
    | cons v vs =>
      simp only [List.map_cons, List.zipWith_cons_cons, ih]
      congr 1
      cases d <;> cases v <;> simp [lift2]
      ring

/-- **Weights are applied** (`sum_of_abs_residuals`): scaling every weight by `c ≥ 0` scales the
figure of merit by `c`. -/
theorem weights_applied_abs (sim tgt w : List (Option K)) (c : K) (hc : 0 ≤ c) :
    sumAbs sim tgt (w.map (Option.map (· * c))) = sumAbs sim tgt w * c := by
  unfold sumAbs
  rw [← nansum_map_mul]
  congr 1
  generalize List.zipWith (lift2 (· - ·)) tgt sim = ds
  induction ds generalizing w with
  | nil => simp
  | cons d ds ih =>
    cases w with
    | nil => simp
    | cons v vs =>
      simp only [List.map_cons, List.zipWith_cons_cons, ih]
      congr 1
      cases d <;> cases v <;> simp [lift2]
      rw [absK_eq_abs, absK_eq_abs, ← mul_assoc, abs_mul, abs_of_nonneg hc]

/-- NaN residuals are skipped, not propagated (`np.nansum`) -/
theorem nansum_skips_nan (l₁ l₂ : List (Option K)) :
    nansum (l₁ ++ none :: l₂) = nansum (l₁ ++ l₂) := by
  induction l₁ with
  | nil => simp [nansum]
  | cons x xs ih => cases x <;> simp [nansum, ih]

-- non-vacuity: two targets, a weight of 2 on the second one, a NaN in the first
example : fitnessTotal (sumAbs (K := ℚ)) [[some 1, none, some 5], [some 2, some 2]]
    [[some 4, some 0, some 3], [some 0, some 7]] [[some 1, some 1, some 1], [some 2, some 2]] 0
      = (3 + 2) + (4 + 10) := by
  simp [fitnessTotal, sumAbs, lift2, nansum, absK]
  norm_num

end fitness

/-! ## the reported champion never gets worse -/

section champions
variable {K : Type} [LinearOrder K]

theorem foldl_min_le (l : List K) (m : K) :
    l.foldl (fun m x => if x < m then x else m) m ≤ m := by
  induction l generalizing m with
  | nil => simp
  | cons x xs ih =>
    simp only [List.foldl_cons]
    split
    · rename_i h; exact le_trans (ih x) (le_of_lt h)
    · exact ih m

theorem foldl_min_le_mem (l : List K) (m : K) :
    ∀ x ∈ l, l.foldl (fun m x => if x < m then x else m) m ≤ x := by
  induction l generalizing m with
  | nil => simp
  | cons y ys ih =>
    intro x hx
    simp only [List.foldl_cons]
    rcases List.mem_cons.mp hx with rfl | hx
    · split
      · exact foldl_min_le ys x
      · rename_i h; exact le_trans (foldl_min_le ys m) (not_lt.mp h)
    · exact ih _ x hx

theorem champions_le_prev (prev : K) (evs : List (List K)) : ∀ c ∈ champions prev evs, c ≤ prev := by
  induction evs generalizing prev with
  | nil => simp [champions]
  | cons ev evs ih =>
    intro c hc
    simp only [champions, List.mem_cons] at hc
    rcases hc with rfl | hc
    · exact foldl_min_le ev prev
    · exact le_trans (ih _ c hc) (foldl_min_le ev prev)

/-- **Champion monotone.**  Under pygmo's contract (the champion of an island is the best
individual evaluated so far) the champion fitness reported after each evolution is never worse
than any one reported before it, nor than the champion of the initial population — for every
sequence of evolutions and evaluated fitnesses. -/
theorem champion_monotone (prev : K) (evs : List (List K)) :
    (prev :: champions prev evs).Pairwise (· ≥ ·) := by
  induction evs generalizing prev with
  | nil => simp [champions]
  | cons ev evs ih =>
    rw [List.pairwise_cons]
    refine ⟨fun c hc => champions_le_prev prev _ c hc, ?_⟩
    simp only [champions]
    exact ih _

/-- and the champion is at least as good as everything evaluated in its evolution -/
theorem champion_le_evaluated (prev : K) (ev : List K) (evs : List (List K)) :
    ∀ c ∈ (champions prev (ev :: evs)).head?, ∀ x ∈ ev, c ≤ x := by
  intro c hc x hx
  simp only [champions, List.head?_cons, Option.mem_def, Option.some.injEq] at hc
  subst hc
  exact foldl_min_le_mem ev prev x hx

example : champions (10 : Int) [[12, 9, 11], [15, 9], [3]] = [9, 9, 3] := by decide

end champions

/-! ## declared data: every calibration of a history is fitted against the files of its own directory -/

/-- **Own files.**  In a history of declarations made one after the other in one process — equal relative
file names, different working directories — declaration `k` is fitted against the files found under *its*
working directory, whatever was declared (and resolved) before it.  A functional model cannot express a
cache that survives between declarations; that half is tied to the code by the harness's `workdirs` stream
(2–3 calibrations with the same relative target / weight file names under different directories, through
the `working_directory` option and through `os.chdir`). -/
theorem declared_data_history_independent {α} (fs : String → Option α) (decls : List (String × List String))
    (k : Nat) (h : k < decls.length) :
    (decls.map (declaredData fs))[k]'(by simpa using h) = declaredData fs decls[k] := by
  simp

example : (([("/a", ["t.npy"]), ("/b", ["t.npy"])].map
      (declaredData (fun p => if p = "/a/t.npy" then some 1 else if p = "/b/t.npy" then some 2 else none)))) =
    [[some 1], [some 2]] := by decide

end PyxelModel.C11
