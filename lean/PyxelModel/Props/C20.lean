import PyxelModel.Model.C20
import PyxelModel.Generated.C20
/-!
# C20 — property theorems (statement: properties.jsonl C20)

All theorems quantify over every input image (any size, any values, any zero `z`), every detector
shape, every integer offset / alignment keyword, and — for the loader — every history of file
writes, removals and loads with any cache-eviction behaviour.
-/
namespace PyxelModel.C20

variable {α : Type}

/-! ### one axis -/

theorem placeT_length (z : α) (n : Nat) (a : List α) (pad skip : Nat) (h : pad < n) :
    (placeT z n a pad skip).length = n := by
  unfold placeT
  simp only [List.length_append, List.length_replicate, List.length_take, List.length_drop]
  omega

theorem placeT_spec (z : α) (n : Nat) (a : List α) (pad skip : Nat) (i : Nat) (hi : i < n) :
    (placeT z n a pad skip).getD i z = spec1 z a pad skip i := by
  unfold placeT spec1
  by_cases h1 : i < pad
  · have : ¬ (pad ≤ i ∧ i - pad + skip < a.length) := by omega
    simp [this, List.getD_eq_getElem?_getD, List.getElem?_append, h1]
  · by_cases h2 : i - pad + skip < a.length
    · have hcond : pad ≤ i ∧ i - pad + skip < a.length := ⟨by omega, h2⟩
      have hlen : i - pad < ((a.drop skip).take (n - pad)).length := by
        simp only [List.length_take, List.length_drop]; omega
      simp only [hcond, and_self, if_true, List.getD_eq_getElem?_getD]
      rw [List.append_assoc, List.getElem?_append_right (by simp; omega)]
      simp only [List.length_replicate]
      rw [List.getElem?_append_left hlen, List.getElem?_take, List.getElem?_drop]
      have : i - pad < n - pad := by omega
      simp [this, Nat.add_comm]
    · have hcond : ¬ (pad ≤ i ∧ i - pad + skip < a.length) := by omega
      simp only [hcond, if_false, List.getD_eq_getElem?_getD]
      rw [List.append_assoc, List.getElem?_append_right (by simp; omega)]
      simp only [List.length_replicate]
      rw [List.getElem?_append_right (by simp only [List.length_take, List.length_drop]; omega)]
      simp only [List.getElem?_replicate, List.length_take, List.length_drop]
      split <;> rfl

theorem place1_none_iff (z : α) (n : Nat) (a : List α) (pad skip : Nat) :
    place1 z n a pad skip = none ↔ (n ≤ pad ∨ a.length ≤ skip) := by
  unfold place1 overlaps
  split <;> simp_all <;> omega

theorem place1_length (z : α) (n : Nat) (a : List α) (pad skip : Nat) (out : List α)
    (h : place1 z n a pad skip = some out) : out.length = n := by
  unfold place1 overlaps at h
  split at h
  · next hc =>
    simp only [Option.some.injEq] at h
    subst h
    exact placeT_length z n a pad skip (by simp at hc; exact hc.1)
  · cases h

theorem place1_spec (z : α) (n : Nat) (a : List α) (pad skip : Nat) (out : List α)
    (h : place1 z n a pad skip = some out) (i : Nat) (hi : i < n) :
    out.getD i z = spec1 z a pad skip i := by
  unfold place1 at h
  split at h
  · simp only [Option.some.injEq] at h
    subst h
    exact placeT_spec z n a pad skip i hi
  · cases h

/-- pad/skip form = integer-offset form of the statement -/
theorem spec1_eq_specInt (z : α) (a : List α) (p : Int) (i : Nat) :
    spec1 z a (padOf p) (skipOf p) i = specInt z a p i := by
  unfold spec1 specInt padOf skipOf
  by_cases hp : 0 ≤ p
  · have e1 : (-p).toNat = 0 := by omega
    by_cases hc : p.toNat ≤ i ∧ i - p.toNat + 0 < a.length
    · have hc' : 0 ≤ (i : Int) - p ∧ (i : Int) - p < (a.length : Int) := by omega
      have e2 : ((i : Int) - p).toNat = i - p.toNat + 0 := by omega
      simp only [e1, hc, hc', and_self, if_true, e2]
    · have hc' : ¬ (0 ≤ (i : Int) - p ∧ (i : Int) - p < (a.length : Int)) := by omega
      simp only [e1, hc, hc', if_false]
  · have e0 : p.toNat = 0 := by omega
    by_cases hc : 0 ≤ i ∧ i - 0 + (-p).toNat < a.length
    · have hc' : 0 ≤ (i : Int) - p ∧ (i : Int) - p < (a.length : Int) := by omega
      have e2 : ((i : Int) - p).toNat = i - 0 + (-p).toNat := by omega
      simp only [e0, hc, hc', and_self, if_true, e2]
    · have hc' : ¬ (0 ≤ (i : Int) - p ∧ (i : Int) - p < (a.length : Int)) := by omega
      simp only [e0, hc, hc', if_false]

/-- the overlap test of the code is the statement's "ranges share an index" -/
theorem overlaps_false_iff_disjoint (n alen : Nat) (p : Int) :
    overlaps n alen (padOf p) (skipOf p) = false ↔ Disjoint1 n alen p := by
  unfold overlaps Disjoint1 padOf skipOf
  simp only [decide_eq_false_iff_not]
  constructor
  · intro h k hk
    omega
  · intro h hc
    by_cases hp : 0 ≤ p
    · exact h p ⟨by omega, by omega, hp, by omega⟩
    · exact h 0 ⟨by omega, by omega, by omega, by omega⟩


/-! ### two axes -/

theorem getD_irrel {β} (l : List β) (i : Nat) (d d' : β) (h : i < l.length) :
    l.getD i d = l.getD i d' := by
  simp [List.getD_eq_getElem?_getD, List.getElem?_eq_getElem h]

theorem paste_getPix (z : α) (m : Img α) (hwf : m.WF) (oy ox : Nat) (p : Int × Int)
    (hpad : padOf p.1 < oy) (i j : Nat) (hi : i < oy) (hj : j < ox) :
    getPix z (paste z m oy ox p) i j = specPix z m p i j := by
  unfold getPix paste
  rw [getD_irrel _ i [] (List.replicate ox z) (by rw [placeT_length _ _ _ _ _ hpad]; exact hi)]
  rw [placeT_spec _ _ _ _ _ i hi, spec1_eq_specInt]
  unfold specInt specPix
  simp only [List.length_map]
  by_cases hr : 0 ≤ (i : Int) - p.1 ∧ (i : Int) - p.1 < (m.rows.length : Int)
  · have hk : ((i : Int) - p.1).toNat < m.rows.length := by omega
    simp only [hr, and_self, if_true, true_and]
    have e1 : (List.map (fun r => placeT z ox r (padOf p.2) (skipOf p.2)) m.rows).getD
        ((i : Int) - p.1).toNat (List.replicate ox z)
        = placeT z ox (m.rows[((i : Int) - p.1).toNat]) (padOf p.2) (skipOf p.2) := by
      simp [List.getD_eq_getElem?_getD, List.getElem?_eq_getElem hk]
    rw [e1]
    rw [placeT_spec _ _ _ _ _ j hj, spec1_eq_specInt]
    unfold specInt
    have hlen : (m.rows[((i : Int) - p.1).toNat]).length = m.cols :=
      hwf _ (List.getElem_mem hk)
    rw [hlen]
    have e : m.rows.getD ((i : Int) - p.1).toNat [] = m.rows[((i : Int) - p.1).toNat] := by
      simp [List.getD_eq_getElem?_getD, List.getElem?_eq_getElem hk]
    rw [e]
  · have hr' : ¬ (0 ≤ (i : Int) - p.1 ∧ (i : Int) - p.1 < (m.rows.length : Int) ∧
        0 ≤ (j : Int) - p.2 ∧ (j : Int) - p.2 < (m.cols : Int)) := by
      intro h; exact hr ⟨h.1, h.2.1⟩
    simp only [hr, hr', if_false]
    simp [List.getD_eq_getElem?_getD, hj]

/-- **Placement rule.**  Whenever `fit_into_array` returns, every detector pixel `(i, j)` holds
the input pixel `(i - py, j - px)` if that pixel exists and zero otherwise — for every input size
(smaller, larger, straddling), every detector shape and every offset / alignment. -/
theorem placement (z : α) (m : Img α) (hwf : m.WF) (oy ox : Nat) (pos : Int × Int)
    (align : Option Align) (allow : Bool) (out : List (List α))
    (h : fitIntoArray z m oy ox pos align allow = .ok out) (i j : Nat) (hi : i < oy) (hj : j < ox) :
    getPix z out i j = specPix z m (effPos m oy ox pos align) i j := by
  unfold fitIntoArray at h
  simp only at h
  split at h
  · cases h
  · split at h
    · cases h
    · split at h
      · cases h
      · split at h
        · cases h
        · next _ _ hY _ =>
          simp only [Except.ok.injEq] at h
          subst h
          have hpad : padOf (effPos m oy ox pos align).1 < oy := by
            simp [overlaps] at hY
            exact hY.1
          exact paste_getPix z m hwf oy ox _ hpad i j hi hj


-- non-vacuity: a 2 × 3 input on a 3 × 2 detector at offset (1, -1): cropped on the left, zero row below
example : fitIntoArray (0 : Int) ⟨[[1, 2, 3], [4, 5, 6]], 3⟩ 3 2 (1, -1) none true
    = .ok [[0, 0], [2, 3], [5, 6]] := by rfl
example : (⟨[[1, 2, 3], [4, 5, 6]], 3⟩ : Img Int).WF := by unfold Img.WF; decide
-- a larger input, centred: the middle is cut out
example : fitIntoArray (0 : Int) ⟨[[1, 2, 3, 4], [5, 6, 7, 8], [9, 10, 11, 12]], 4⟩ 1 2 (7, 7)
    (some .center) false = .ok [[6, 7]] := by rfl
-- rejected: rows overlap, columns do not
example : fitIntoArray (0 : Int) ⟨[[1, 2, 3], [4, 5, 6]], 3⟩ 3 2 (1, 2) none true
    = .error .noOverlapX := by rfl
example : fitIntoArray (0 : Int) ⟨[[1]], 1⟩ 2 2 (0, 0) none false = .error .tooSmall := by rfl

/-- helper: what `fitIntoArray` returns, as a case split on the three guards -/
theorem fit_cases (z : α) (m : Img α) (oy ox : Nat) (pos : Int × Int) (align : Option Align)
    (allow : Bool) :
    let p := effPos m oy ox pos align
    let okY := overlaps oy m.rows.length (padOf p.1) (skipOf p.1)
    let okX := overlaps ox m.cols (padOf p.2) (skipOf p.2)
    fitIntoArray z m oy ox pos align allow =
      if allow = false ∧ (m.rows.length < oy ∨ m.cols < ox) then .error .tooSmall
      else if okY = false ∧ okX = false then .error .noOverlapYX
      else if okY = false then .error .noOverlapY
      else if okX = false then .error .noOverlapX
      else .ok (paste z m oy ox p) := by
  unfold fitIntoArray
  cases allow <;>
    cases hY : overlaps oy m.rows.length (padOf (effPos m oy ox pos align).1)
      (skipOf (effPos m oy ox pos align).1) <;>
    cases hX : overlaps ox m.cols (padOf (effPos m oy ox pos align).2)
      (skipOf (effPos m oy ox pos align).2) <;>
    by_cases h1 : m.rows.length < oy <;> by_cases h2 : m.cols < ox <;> simp [hY, hX, h1, h2]

/-- **Inputs that do not overlap the detector are rejected, and only those** (with smaller inputs
allowed): an error is raised iff the row ranges or the column ranges share no index. -/
theorem no_overlap_rejected (z : α) (m : Img α) (oy ox : Nat) (pos : Int × Int)
    (align : Option Align) :
    (∃ e, fitIntoArray z m oy ox pos align true = .error e) ↔
      (Disjoint1 oy m.rows.length (effPos m oy ox pos align).1 ∨
       Disjoint1 ox m.cols (effPos m oy ox pos align).2) := by
  have hc := fit_cases z m oy ox pos align true
  simp only at hc
  rw [hc, ← overlaps_false_iff_disjoint, ← overlaps_false_iff_disjoint]
  cases overlaps oy m.rows.length (padOf (effPos m oy ox pos align).1)
      (skipOf (effPos m oy ox pos align).1) <;>
    cases overlaps ox m.cols (padOf (effPos m oy ox pos align).2)
      (skipOf (effPos m oy ox pos align).2) <;> simp

/-- which of the three messages: exactly the axes that are disjoint are named -/
theorem no_overlap_message (z : α) (m : Img α) (oy ox : Nat) (pos : Int × Int)
    (align : Option Align) :
    let dY := Disjoint1 oy m.rows.length (effPos m oy ox pos align).1
    let dX := Disjoint1 ox m.cols (effPos m oy ox pos align).2
    (fitIntoArray z m oy ox pos align true = .error .noOverlapYX ↔ dY ∧ dX) ∧
    (fitIntoArray z m oy ox pos align true = .error .noOverlapY ↔ dY ∧ ¬ dX) ∧
    (fitIntoArray z m oy ox pos align true = .error .noOverlapX ↔ ¬ dY ∧ dX) := by
  have hc := fit_cases z m oy ox pos align true
  simp only at hc
  simp only
  rw [hc, ← overlaps_false_iff_disjoint, ← overlaps_false_iff_disjoint]
  cases overlaps oy m.rows.length (padOf (effPos m oy ox pos align).1)
      (skipOf (effPos m oy ox pos align).1) <;>
    cases overlaps ox m.cols (padOf (effPos m oy ox pos align).2)
      (skipOf (effPos m oy ox pos align).2) <;> simp

/-- `allow_smaller_array=False`: an input smaller than the detector along either axis is refused
before anything else; otherwise the flag changes nothing. -/
theorem too_small_rejected (z : α) (m : Img α) (oy ox : Nat) (pos : Int × Int)
    (align : Option Align) :
    ((m.rows.length < oy ∨ m.cols < ox) →
      fitIntoArray z m oy ox pos align false = .error .tooSmall) ∧
    (¬ (m.rows.length < oy ∨ m.cols < ox) →
      fitIntoArray z m oy ox pos align false = fitIntoArray z m oy ox pos align true) := by
  have h1 := fit_cases z m oy ox pos align false
  have h2 := fit_cases z m oy ox pos align true
  simp only at h1 h2
  constructor
  · intro h; rw [h1]; simp [h]
  · intro h; rw [h1, h2]; simp [h]

/-- **The result always has the detector's shape.** -/
theorem shape_is_detector_shape (z : α) (m : Img α) (oy ox : Nat) (pos : Int × Int)
    (align : Option Align) (allow : Bool) (out : List (List α))
    (h : fitIntoArray z m oy ox pos align allow = .ok out) :
    out.length = oy ∧ ∀ r ∈ out, r.length = ox := by
  have hc := fit_cases z m oy ox pos align allow
  simp only at hc
  rw [hc] at h
  split at h; · cases h
  split at h; · cases h
  split at h; · cases h
  split at h; · cases h
  next _ _ hY hX =>
  simp only [Except.ok.injEq] at h
  subst h
  have hY' : padOf (effPos m oy ox pos align).1 < oy := by
    simp [overlaps] at hY; exact hY.1
  have hX' : padOf (effPos m oy ox pos align).2 < ox := by
    simp [overlaps] at hX; exact hX.1
  refine ⟨placeT_length _ _ _ _ _ hY', ?_⟩
  intro r hr
  unfold paste placeT at hr
  simp only [List.mem_append, List.mem_replicate] at hr
  rcases hr with (⟨_, rfl⟩ | hr) | ⟨_, rfl⟩
  · simp
  · have := List.mem_of_mem_drop (List.mem_of_mem_take hr)
    obtain ⟨r0, _, rfl⟩ := List.mem_map.mp this
    exact placeT_length _ _ _ _ _ hX'
  · simp

/-- every input pixel that the offset places inside the detector is there (nothing is lost or
moved), for inputs smaller or larger than the detector -/
theorem input_pixel_lands (z : α) (m : Img α) (hwf : m.WF) (oy ox : Nat) (pos : Int × Int)
    (align : Option Align) (allow : Bool) (out : List (List α))
    (h : fitIntoArray z m oy ox pos align allow = .ok out) (r c : Nat)
    (hr : r < m.rows.length) (hc : c < m.cols)
    (i j : Nat) (hi : i < oy) (hj : j < ox)
    (hy : (i : Int) = r + (effPos m oy ox pos align).1)
    (hx : (j : Int) = c + (effPos m oy ox pos align).2) :
    getPix z out i j = getPix z m.rows r c := by
  rw [placement z m hwf oy ox pos align allow out h i j hi hj]
  unfold specPix getPix
  have e1 : (i : Int) - (effPos m oy ox pos align).1 = r := by omega
  have e2 : (j : Int) - (effPos m oy ox pos align).2 = c := by omega
  simp only [e1, e2]
  have : (0 : Int) ≤ r ∧ (r : Int) < m.rows.length ∧ (0 : Int) ≤ c ∧ (c : Int) < m.cols := by omega
  simp [this]

/-- a detector pixel the input does not reach is zero -/
theorem uncovered_pixel_zero (z : α) (m : Img α) (hwf : m.WF) (oy ox : Nat) (pos : Int × Int)
    (align : Option Align) (allow : Bool) (out : List (List α))
    (h : fitIntoArray z m oy ox pos align allow = .ok out) (i j : Nat) (hi : i < oy) (hj : j < ox)
    (hout : ¬ ((effPos m oy ox pos align).1 ≤ i ∧ (i : Int) < (effPos m oy ox pos align).1 + m.rows.length ∧
               (effPos m oy ox pos align).2 ≤ j ∧ (j : Int) < (effPos m oy ox pos align).2 + m.cols)) :
    getPix z out i j = z := by
  rw [placement z m hwf oy ox pos align allow out h i j hi hj]
  unfold specPix
  have : ¬ (0 ≤ (i : Int) - (effPos m oy ox pos align).1 ∧
      (i : Int) - (effPos m oy ox pos align).1 < (m.rows.length : Int) ∧
      0 ≤ (j : Int) - (effPos m oy ox pos align).2 ∧
      (j : Int) - (effPos m oy ox pos align).2 < (m.cols : Int)) := by omega
  simp only [this, if_false]

/-! ### alignment keywords -/

/-- truncating halving: `int(d / 2)` leaves a remainder in {0, 1} for `d ≥ 0`, {-1, 0} for `d ≤ 0` -/
theorem tdiv2_bounds (d : Int) :
    (0 ≤ d → 0 ≤ d - 2 * d.tdiv 2 ∧ d - 2 * d.tdiv 2 ≤ 1) ∧
    (d ≤ 0 → -1 ≤ d - 2 * d.tdiv 2 ∧ d - 2 * d.tdiv 2 ≤ 0) := by
  constructor
  · intro h
    rw [Int.tdiv_eq_ediv_of_nonneg h]
    omega
  · intro h
    have e : d = -(-d) := by omega
    rw [e, Int.neg_tdiv, Int.tdiv_eq_ediv_of_nonneg (by omega)]
    omega

/-- **What each keyword means**, as equations between the edges of the placed input
`[py, py + ay) × [px, px + ax)` and of the detector `[0, oy) × [0, ox)` (row 0 is the bottom row,
column 0 the left column): corners coincide; `center` leaves margins that differ by at most one
pixel, the odd pixel going to the far side for a smaller input and to the near side for a larger
one (truncation toward zero). An explicit offset is used untouched when no keyword is given. -/
theorem align_offsets (m : Img α) (oy ox : Nat) (pos : Int × Int) :
    let ay : Int := m.rows.length
    let ax : Int := m.cols
    effPos m oy ox pos none = pos ∧
    effPos m oy ox pos (some .bottomLeft) = (0, 0) ∧
    ((effPos m oy ox pos (some .bottomRight)).1 = 0 ∧
      (effPos m oy ox pos (some .bottomRight)).2 + ax = ox) ∧
    ((effPos m oy ox pos (some .topLeft)).1 + ay = oy ∧
      (effPos m oy ox pos (some .topLeft)).2 = 0) ∧
    ((effPos m oy ox pos (some .topRight)).1 + ay = oy ∧
      (effPos m oy ox pos (some .topRight)).2 + ax = ox) ∧
    (let py := (effPos m oy ox pos (some .center)).1
     let px := (effPos m oy ox pos (some .center)).2
     -- far margin minus near margin ∈ {0, 1} for a smaller input, {-1, 0} for a larger one
     (ay ≤ oy → 0 ≤ (oy - (py + ay)) - py ∧ (oy - (py + ay)) - py ≤ 1) ∧
     (oy ≤ ay → -1 ≤ (oy - (py + ay)) - py ∧ (oy - (py + ay)) - py ≤ 0) ∧
     (ax ≤ ox → 0 ≤ (ox - (px + ax)) - px ∧ (ox - (px + ax)) - px ≤ 1) ∧
     (ox ≤ ax → -1 ≤ (ox - (px + ax)) - px ∧ (ox - (px + ax)) - px ≤ 0)) := by
  simp only [effPos, relPos]
  refine ⟨trivial, trivial, ⟨trivial, by omega⟩, ⟨by omega, trivial⟩, ⟨by omega, by omega⟩, ?_⟩
  have tY := tdiv2_bounds ((oy : Int) - m.rows.length)
  have tX := tdiv2_bounds ((ox : Int) - m.cols)
  refine ⟨?_, ?_, ?_, ?_⟩ <;> intro h <;> constructor <;> omega


/-! ### the memoised loader -/

section memo
variable {A C V : Type} [DecidableEq A]

theorem Cache.find_some {c : Cache A V} {k : Key A} {v : V} (h : c.find k = some v) :
    (k, v) ∈ c := by
  unfold Cache.find at h
  split at h
  · next e he =>
    have hm := List.mem_of_find?_eq_some he
    have hk := List.find?_some he
    simp only [beq_iff_eq] at hk
    simp only [Option.some.injEq] at h
    subst h; subst hk
    exact hm
  · cases h

/-- the invariant that makes the cache sound: identities are never reused (every identity in the
file system or in a cache key is older than the clock, and no two paths carry the same one), and
an entry whose key names the *current* identity of a file holds the placement of that file's
*current* content -/
def CacheOk (f : A → C → V) (w : World A C V) : Prop :=
  (∀ p file id, w.fs p = some file → file.ident = some id → id < w.clock) ∧
  (∀ p p' file file' id, w.fs p = some file → w.fs p' = some file' →
      file.ident = some id → file'.ident = some id → p = p') ∧
  (∀ e ∈ w.cache, e.1.ident < w.clock ∧
    ∀ p file, w.fs p = some file → file.ident = some e.1.ident →
      e.2 = f e.1.args file.content)

omit [DecidableEq A] in
theorem cacheOk_init (f : A → C → V) : CacheOk f (World.init : World A C V) := by
  refine ⟨?_, ?_, ?_⟩
  · intro p file id h; simp [World.init] at h
  · intro p p' file file' id h; simp [World.init] at h
  · intro e he; simp [World.init] at he

/-- **What a load returns is the placement of the content that the designated file has now** —
the file that the (possibly relative) name designates under the working directory in force,
whatever is in the (sound) cache, whatever `lru_cache` evicted or reordered. -/
theorem load_reflects_current_content (resolve : Env → String → String) (f : A → C → V)
    (evict : Cache A V → Cache A V) (w : World A C V) (hok : CacheOk f w) (n : String) (a : A) :
    (step resolve f evict w (.load n a)).2
      = some ((w.fs (resolve w.env n)).map (fun file => f a file.content)) := by
  simp only [step, memoLoad]
  cases hfs : w.fs (resolve w.env n) with
  | none => simp
  | some file =>
    cases hid : file.ident with
    | none => simp [hid]
    | some id =>
      simp only [Option.map_some]
      cases hfind : Cache.find w.cache ⟨n, a, id⟩ with
      | none => simp [hid, hfind]
      | some v =>
        have hm := Cache.find_some hfind
        have := (hok.2.2 _ hm).2 _ file hfs hid
        simp only at this
        simp [hid, hfind, this]

theorem step_preserves (resolve : Env → String → String) (f : A → C → V)
    (evict : Cache A V → Cache A V) (hev : ∀ c e, e ∈ evict c → e ∈ c)
    (w : World A C V) (hok : CacheOk f w) (ev : Ev A C) :
    CacheOk f (step resolve f evict w ev).1 := by
  obtain ⟨h1, hu, h2⟩ := hok
  cases ev with
  | write p c st =>
    simp only [step]
    refine ⟨?_, ?_, ?_⟩
    · intro q file id hq hid
      by_cases hqp : q = p
      · simp only [hqp, if_true, Option.some.injEq] at hq
        subst hq
        show id < w.clock + 1
        cases st <;> simp at hid
        omega
      · simp only [hqp, if_false] at hq
        have := h1 q file id hq hid
        show id < w.clock + 1
        omega
    · intro q q' file file' id hq hq' hid hid'
      by_cases hqp : q = p <;> by_cases hqp' : q' = p
      · rw [hqp, hqp']
      · simp only [hqp, if_true, Option.some.injEq] at hq
        simp only [hqp', if_false] at hq'
        subst hq
        have := h1 q' file' id hq' hid'
        cases st <;> simp at hid
        omega
      · simp only [hqp', if_true, Option.some.injEq] at hq'
        simp only [hqp, if_false] at hq
        subst hq'
        have := h1 q file id hq hid
        cases st <;> simp at hid'
        omega
      · simp only [hqp, if_false] at hq
        simp only [hqp', if_false] at hq'
        exact hu q q' file file' id hq hq' hid hid'
    · intro e he
      have ⟨hlt, hval⟩ := h2 e he
      refine ⟨show e.1.ident < w.clock + 1 by omega, ?_⟩
      intro q file hq hid
      by_cases hqp : q = p
      · simp only [hqp, if_true, Option.some.injEq] at hq
        subst hq
        cases st <;> simp at hid
        omega
      · simp only [hqp, if_false] at hq
        exact hval q file hq hid
  | remove p =>
    simp only [step]
    refine ⟨?_, ?_, ?_⟩
    · intro q file id hq hid
      by_cases hqp : q = p
      · simp [hqp] at hq
      · simp only [hqp, if_false] at hq
        exact h1 q file id hq hid
    · intro q q' file file' id hq hq' hid hid'
      by_cases hqp : q = p
      · simp [hqp] at hq
      · by_cases hqp' : q' = p
        · simp [hqp'] at hq'
        · simp only [hqp, if_false] at hq
          simp only [hqp', if_false] at hq'
          exact hu q q' file file' id hq hq' hid hid'
    · intro e he
      have ⟨hlt, hval⟩ := h2 e he
      refine ⟨hlt, ?_⟩
      intro q file hq hid
      by_cases hqp : q = p
      · simp [hqp] at hq
      · simp only [hqp, if_false] at hq
        exact hval q file hq hid
  | setwd d => exact ⟨h1, hu, h2⟩
  | chdir d => exact ⟨h1, hu, h2⟩
  | link p t => exact ⟨h1, hu, h2⟩
  | load n a =>
    simp only [step, memoLoad]
    refine ⟨h1, hu, ?_⟩
    cases hfs : w.fs (resolve w.env n) with
    | none => exact h2
    | some file =>
      cases hid : file.ident with
      | none => simpa [hid] using h2
      | some id =>
        cases hfind : Cache.find w.cache ⟨n, a, id⟩ with
        | some v => simpa [hid, hfind] using h2
        | none =>
          simp only [hid, hfind]
          intro e he
          have he' := hev _ _ he
          rcases List.mem_cons.mp he' with rfl | he''
          · refine ⟨h1 _ file id hfs hid, ?_⟩
            intro q file' hq hid'
            simp only at hid'
            have := hu q (resolve w.env n) file' file id hq hfs hid' hid
            subst this
            rw [hfs] at hq
            simp only [Option.some.injEq] at hq
            subst hq
            rfl
          · exact h2 e he''

/-- **For every history** of writes, removals, changes of working directory and loads, starting
from a sound cache, the cached loader answers every load exactly as the uncached "read the
designated file now and place it" does. -/
theorem run_eq_runSpec (resolve : Env → String → String) (f : A → C → V)
    (evict : Cache A V → Cache A V) (hev : ∀ c e, e ∈ evict c → e ∈ c) (evs : List (Ev A C)) :
    ∀ (w : World A C V), CacheOk f w →
      run resolve f evict w evs = runSpec resolve f evict w evs := by
  induction evs with
  | nil => intro w _; rfl
  | cons e es ih =>
    intro w hok
    simp only [run, runSpec]
    rw [ih _ (step_preserves resolve f evict hev w hok e)]
    congr 1
    cases e with
    | write p c st => rfl
    | remove p => rfl
    | setwd d => rfl
    | chdir d => rfl
    | link p t => rfl
    | load n a => exact load_reflects_current_content resolve f evict w hok n a

/-- … in particular from process start (empty cache, any number of rewrites between loads). -/
theorem run_from_start (resolve : Env → String → String) (f : A → C → V)
    (evict : Cache A V → Cache A V) (hev : ∀ c e, e ∈ evict c → e ∈ c) (evs : List (Ev A C)) :
    run resolve f evict (World.init : World A C V) evs
      = runSpec resolve f evict World.init evs :=
  run_eq_runSpec resolve f evict hev evs _ (cacheOk_init f)

end memo

-- non-vacuity: write, load, rewrite, load — the second load sees the second content
example : run (fun _ n => n) (fun (a : Nat) (c : Nat) => a + c) (fun c => c.take 1) World.init
    [.write "/f" 10 true, .load "/f" 1, .write "/f" 20 true, .load "/f" 1, .load "/f" 1]
    = [none, some (some 11), none, some (some 21), some (some 21)] := by decide

-- a relative name under a working directory, with a same-named bystander under the current
-- directory: the designated file is the one under the working directory, and its rewrite is seen
example : run (fun env n => if env.wd = "/w" ∧ n = "d/s" then "/w/d/s" else "cwd/d/s")
    (fun (a : Nat) (c : Nat) => a + c) (fun c => c) World.init
    [.write "cwd/d/s" 7 true, .write "/w/d/s" 10 true, .setwd "/w", .load "d/s" 1,
     .write "/w/d/s" 20 true, .load "d/s" 1]
    = [none, none, none, some (some 11), none, some (some 21)] := by decide

-- a name that is a symbolic link, re-pointed between two loads, and a relative name after the process changed
-- directory: each load reads the file the name designates at that moment (`run_eq_runSpec` for every `resolve`)
example : run (fun env n => match env.links.lookup n with
                            | some t => t
                            | none => if env.cwd = "b" then "b/x" else "a/x")
    (fun (a : Nat) (c : Nat) => a + c) (fun c => c) World.init
    [.write "a/x" 10 true, .write "b/x" 20 true, .link "L" "a/x", .load "L" 1, .link "L" "b/x", .load "L" 1,
     .load "x" 1, .chdir "b", .load "x" 1]
    = [none, none, none, some (some 11), none, some (some 21), some (some 11), none, some (some 21)] := by decide

/-- counter-witness for the code before the repair (`lru_cache` keyed on the arguments only): a
file rewritten between two loads is served stale -/
example :
    let f := fun (a : Nat) (c : Nat) => a + c
    let fs1 : FS Nat := fun p => if p = "f" then some ⟨some 1, 10⟩ else none
    let fs2 : FS Nat := fun p => if p = "f" then some ⟨some 2, 20⟩ else none
    let r1 := memoLoadStale f [] fs1 "f" "f" 1
    let r2 := memoLoadStale f r1.2 fs2 "f" "f" 1
    r2.1 = some 11 ∧ (fs2 "f").map (fun file => f 1 file.content) = some 21 := by decide

/-- counter-witness for a repair that takes the identity from the name as given instead of from
the file that is read (seeded defect C20-2): the unchanging bystander keeps the stale entry alive -/
example :
    let f := fun (a : Nat) (c : Nat) => a + c
    let fs1 : FS Nat := fun p => if p = "d/s" then some ⟨some 1, 7⟩ else
                                 if p = "/w/d/s" then some ⟨some 2, 10⟩ else none
    let fs2 : FS Nat := fun p => if p = "d/s" then some ⟨some 1, 7⟩ else
                                 if p = "/w/d/s" then some ⟨some 3, 20⟩ else none
    let r1 := memoLoadUnresolvedIdent f [] fs1 "d/s" "/w/d/s" 1
    let r2 := memoLoadUnresolvedIdent f r1.2 fs2 "d/s" "/w/d/s" 1
    r2.1 = some 11 ∧ (fs2 "/w/d/s").map (fun file => f 1 file.content) = some 21 := by decide

/-- counter-witness for the aliasing variant (seeded defect C20-5): `memoLoad` returns a value, so what a
caller does to it afterwards cannot reach the cache (`run_eq_runSpec` holds whatever the callers do); if the
cached object itself is handed out and scaled in place (×2 here), the second load of the unchanged file
comes out scaled twice -/
example :
    let f := fun (a : Nat) (c : Nat) => a + c
    let fs : FS Nat := fun p => if p = "f" then some ⟨some 1, 10⟩ else none
    let r1 := memoLoadAliased f (· * 2) [] fs "f" "f" 1
    let r2 := memoLoadAliased f (· * 2) r1.2 fs "f" "f" 1
    r1.1 = some 22 ∧ r2.1 = some 44 ∧
      (memoLoad f (fun c => c) (memoLoad f (fun c => c) [] fs "f" "f" 1).2 fs "f" "f" 1).1 = some 11 := by decide

/-! ### text images: separator detection -/

theorem splitOn_ne_nil (d : Char) (t : List Char) : splitOn d t ≠ [] := by
  induction t with
  | nil => simp [splitOn]
  | cons c cs ih =>
    unfold splitOn
    split
    · simp
    · cases h : splitOn d cs <;> simp [consHead]

theorem splitOn_cons_ne (d c : Char) (cs : List Char) (h : c ≠ d) :
    splitOn d (c :: cs) = consHead c (splitOn d cs) := by
  simp [splitOn, h]

theorem splitOn_cons_eq (d : Char) (cs : List Char) : splitOn d (d :: cs) = [] :: splitOn d cs := by
  simp [splitOn]

theorem splitOn_no_sep (s : Char) (t : List Char) (h : ∀ c ∈ t, c ≠ s) : splitOn s t = [t] := by
  induction t with
  | nil => rfl
  | cons c cs ih =>
    have hc : c ≠ s := h c (by simp)
    have := ih (fun x hx => h x (by simp [hx]))
    rw [splitOn_cons_ne _ _ _ hc, this]
    rfl

theorem splitOn_append_sep (d : Char) (c rest : List Char) (h : ∀ x ∈ c, x ≠ d) :
    splitOn d (c ++ d :: rest) = c :: splitOn d rest := by
  induction c with
  | nil => simp [splitOn_cons_eq]
  | cons x xs ih =>
    have hx : x ≠ d := h x (by simp)
    have := ih (fun y hy => h y (by simp [hy]))
    simp only [List.cons_append]
    rw [splitOn_cons_ne _ _ _ hx, this]
    rfl

theorem splitOn_join (d : Char) (cells : List (List Char)) (hne : cells ≠ [])
    (h : ∀ cell ∈ cells, ∀ x ∈ cell, x ≠ d) : splitOn d (joinWith d cells) = cells := by
  induction cells with
  | nil => exact absurd rfl hne
  | cons c cs ih =>
    cases cs with
    | nil => simp only [joinWith]; exact splitOn_no_sep d c (h c (by simp))
    | cons c' cs' =>
      simp only [joinWith]
      rw [splitOn_append_sep d c _ (h c (by simp))]
      rw [ih (by simp) (fun cell hc => h cell (by simp [hc]))]

theorem allSome_map_some {γ β} (l : List γ) (g : γ → Option β) (v : γ → β)
    (h : ∀ x ∈ l, g x = some (v x)) : allSome (l.map g) = some (l.map v) := by
  induction l with
  | nil => rfl
  | cons x xs ih =>
    simp only [List.map_cons, h x (by simp), allSome]
    rw [ih (fun y hy => h y (by simp [hy]))]
    rfl

theorem allSome_none_of_mem {β} (l : List (Option β)) (h : none ∈ l) : allSome l = none := by
  induction l with
  | nil => simp at h
  | cons x xs ih =>
    cases x with
    | none => rfl
    | some b =>
      simp only [allSome]
      rw [ih (by simpa using h)]
      rfl

/-- a character of the line survives in some field unless it is the separator -/
theorem mem_splitOn_of_mem (s : Char) (t : List Char) (x : Char) (hx : x ∈ t) (hxs : x ≠ s) :
    ∃ fld ∈ splitOn s t, x ∈ fld := by
  induction t with
  | nil => simp at hx
  | cons c cs ih =>
    by_cases hc : c = s
    · subst hc
      rw [splitOn_cons_eq]
      have hx' : x ∈ cs := by
        rcases List.mem_cons.mp hx with h | h
        · exact absurd h hxs
        · exact h
      obtain ⟨fld, hf, hxf⟩ := ih hx'
      exact ⟨fld, by simp [hf], hxf⟩
    · rw [splitOn_cons_ne _ _ _ hc]
      have hne := splitOn_ne_nil s cs
      cases hsp : splitOn s cs with
      | nil => exact absurd hsp hne
      | cons t0 ts =>
        simp only [consHead]
        rcases List.mem_cons.mp hx with h | h
        · exact ⟨c :: t0, by simp, by simp [h]⟩
        · obtain ⟨fld, hf, hxf⟩ := ih h
          rw [hsp] at hf
          rcases List.mem_cons.mp hf with rfl | hf'
          · exact ⟨c :: fld, by simp, by simp [hxf]⟩
          · exact ⟨fld, by simp [hf'], hxf⟩

theorem mem_joinWith_sep (d : Char) (c c' : List Char) (cs : List (List Char)) :
    d ∈ joinWith d (c :: c' :: cs) := by
  simp [joinWith]


section text
variable {β : Type}

theorem line_own_sep (tok : List Char → Option β) (d : Char) (row : List (List Char × β))
    (hne : row ≠ []) (hval : ∀ cell ∈ row, tok cell.1 = some cell.2)
    (hns : ∀ cell ∈ row, ∀ x ∈ cell.1, x ≠ d) :
    allSome ((splitOn d (joinWith d (row.map (·.1)))).map tok) = some (row.map (·.2)) := by
  rw [splitOn_join d _ (by simpa using hne)
    (by intro cell hc; obtain ⟨c0, h0, rfl⟩ := List.mem_map.mp hc; exact hns c0 h0)]
  rw [List.map_map]
  exact allSome_map_some row _ _ (fun c hc => hval c hc)

theorem line_other_sep_many (tok : List Char → Option β)
    (htok : ∀ t, (∃ c ∈ t, c ∈ separators) → tok t = none)
    (s d : Char) (hsd : d ≠ s) (hd : d ∈ separators) (c c' : List Char) (cs : List (List Char)) :
    allSome ((splitOn s (joinWith d (c :: c' :: cs))).map tok) = none := by
  obtain ⟨fld, hf, hdf⟩ := mem_splitOn_of_mem s _ d (mem_joinWith_sep d c c' cs) hsd
  apply allSome_none_of_mem
  have : tok fld = none := htok fld ⟨d, hdf, hd⟩
  exact List.mem_map.mpr ⟨fld, hf, this⟩

theorem parseWith_some (tok : List Char → Option β) (s d : Char) (n : Nat)
    (table : List (List (List Char × β))) (hrect : ∀ row ∈ table, row.length = n)
    (hline : ∀ row ∈ table,
      allSome ((splitOn s (joinWith d (row.map (·.1)))).map tok) = some (row.map (·.2))) :
    parseWith tok s (table.map (fun row => joinWith d (row.map (·.1))))
      = some (table.map (fun row => row.map (·.2))) := by
  unfold parseWith
  rw [List.map_map]
  rw [allSome_map_some table _ (fun row => row.map (·.2)) (fun row hr => by simpa using hline row hr)]
  simp only
  cases table with
  | nil => rfl
  | cons r rs =>
    simp only [List.map_cons]
    simp
    intro x hx
    rw [hrect x (by simp [hx]), hrect r (by simp)]

theorem parseWith_none (tok : List Char → Option β) (s d : Char)
    (table : List (List (List Char × β))) (row : List (List Char × β)) (hrow : row ∈ table)
    (hline : allSome ((splitOn s (joinWith d (row.map (·.1)))).map tok) = none) :
    parseWith tok s (table.map (fun row => joinWith d (row.map (·.1)))) = none := by
  unfold parseWith
  rw [List.map_map]
  rw [allSome_none_of_mem _ (List.mem_map.mpr ⟨row, hrow, by simpa using hline⟩)]

theorem detect_of (tok : List Char → Option β) (lines : List (List Char)) (exp : List (List β))
    (d : Char) (hd : parseWith tok d lines = some exp) (ss : List Char) (hmem : d ∈ ss)
    (hall : ∀ s ∈ ss, parseWith tok s lines = none ∨ parseWith tok s lines = some exp) :
    detectAndParse tok lines ss = some exp := by
  induction ss with
  | nil => simp at hmem
  | cons s ss ih =>
    unfold detectAndParse
    rcases hall s (by simp) with h | h
    · rw [h]
      rcases List.mem_cons.mp hmem with rfl | hm
      · rw [hd] at h; cases h
      · exact ih hm (fun s' hs' => hall s' (by simp [hs']))
    · rw [h]

/-- **Text images read back with the same shape and values, whichever of the five separators
wrote them.**  A table with `n ≥ 1` columns whose cells are rendered as tokens that the number
parser accepts, joined with any separator `d` of the five, is recovered exactly by the
try-each-separator loop — provided the number parser rejects text that contains one of the five
separator characters (true of `float`/`np.loadtxt` fields for `,` `|` `;` and inner blanks). -/
theorem text_roundtrip (tok : List Char → Option β)
    (htok : ∀ t, (∃ c ∈ t, c ∈ separators) → tok t = none)
    (d : Char) (hd : d ∈ separators)
    (table : List (List (List Char × β))) (n : Nat) (hn : 0 < n)
    (hrect : ∀ row ∈ table, row.length = n)
    (hval : ∀ row ∈ table, ∀ cell ∈ row, tok cell.1 = some cell.2) :
    detectAndParse tok (table.map (fun row => joinWith d (row.map (·.1)))) separators
      = some (table.map (fun row => row.map (·.2))) := by
  -- accepted tokens contain no separator character
  have hclean : ∀ row ∈ table, ∀ cell ∈ row, ∀ x ∈ cell.1, x ∉ separators := by
    intro row hr cell hc x hx hsep
    have := htok cell.1 ⟨x, hx, hsep⟩
    rw [hval row hr cell hc] at this
    cases this
  have hown : parseWith tok d (table.map (fun row => joinWith d (row.map (·.1))))
      = some (table.map (fun row => row.map (·.2))) := by
    apply parseWith_some tok d d n table hrect
    intro row hr
    apply line_own_sep tok d row
    · intro e; have := hrect row hr; rw [e] at this; simp at this; omega
    · exact hval row hr
    · intro cell hc x hx e; exact hclean row hr cell hc x hx (e ▸ hd)
  apply detect_of tok _ _ d hown separators hd
  intro s hs
  by_cases hsd : s = d
  · right; rw [hsd]; exact hown
  · by_cases h1 : n = 1
    · right
      apply parseWith_some tok s d n table hrect
      intro row hr
      have hlen := hrect row hr
      rw [h1] at hlen
      match row, hlen, hr with
      | [cell], _, hr =>
        simp only [List.map_cons, List.map_nil, joinWith]
        rw [splitOn_no_sep s cell.1
          (by intro x hx e; exact hclean _ hr cell (by simp) x hx (e ▸ hs))]
        simp [allSome, hval _ hr cell (by simp)]
    · cases table with
      | nil => right; rfl
      | cons row rest =>
        left
        apply parseWith_none tok s d _ row (by simp)
        have hlen := hrect row (by simp)
        match row, hlen with
        | c :: c' :: cs, _ =>
          simp only [List.map_cons]
          exact line_other_sep_many tok htok s d (fun e => hsd e.symm) hd _ _ _
        | [_], hlen => simp at hlen; omega
        | [], hlen => simp at hlen; omega


/-- the driver's token parser satisfies the hypothesis of `text_roundtrip` -/
theorem numericTok_rejects_separators (t : List Char) (h : ∃ c ∈ t, c ∈ separators) :
    numericTok t = none := by
  obtain ⟨c, hc, hsep⟩ := h
  unfold numericTok
  split
  · rfl
  · split
    · next hall =>
      have := List.all_eq_true.mp hall c hc
      simp only [separators, List.mem_cons, List.not_mem_nil, or_false] at hsep
      rcases hsep with rfl | rfl | rfl | rfl | rfl <;> simp at this
    · rfl

end text

-- non-vacuity: a 2 × 2 table written with '|' is recovered (and the hypotheses are satisfiable)
example : detectAndParse numericTok
    ([[("1.5".toList, "1.5"), ("-2e3".toList, "-2e3")], [("3".toList, "3"), ("4".toList, "4")]].map
      (fun row => joinWith '|' (row.map (·.1)))) separators
    = some [["1.5", "-2e3"], ["3", "4"]] := by
  apply text_roundtrip numericTok numericTok_rejects_separators '|' (by decide) _ 2 (by decide)
  · intro row hr; simp at hr; rcases hr with rfl | rfl <;> rfl
  · intro row hr cell hc
    simp at hr
    rcases hr with rfl | rfl <;> simp at hc <;> rcases hc with rfl | rfl <;> decide

/-! ### named columns of a table -/

/-- **Every requested name holds the values of the file column it designates**, whatever the order in which
the columns are requested and whichever subset is requested. -/
theorem selectCols_lookup {β} (t : List (List β)) (sel : List (String × Nat)) (name : String) :
    (selectCols t sel).lookup name = (sel.lookup name).map (column t) := by
  unfold selectCols
  induction sel with
  | nil => rfl
  | cons s ss ih =>
    obtain ⟨k, v⟩ := s
    simp only [List.map_cons, List.lookup_cons]
    by_cases h : name = k
    · subst h; simp
    · have : (name == k) = false := by simpa using h
      simp only [this, ih]

-- non-vacuity and the counter-witness for positional naming (seeded defect C20-8): the file is `QE;lambda`
-- (column 0 = QE, column 1 = wavelength) and the request lists the wavelength first
example :
    let t := [[90, 400], [80, 500]]
    (selectCols t [("wavelength", 1), ("QE", 0)]).lookup "wavelength" = some [some 400, some 500] ∧
    (selectColsPositional t [("wavelength", 1), ("QE", 0)]).lookup "wavelength" = some [some 90, some 80] := by decide

/-! ### tables observed on today's code -/

/-- of the candidate separator characters offered to them on tiny files, `load_image` and `load_table` accept
exactly the model's five (as sets: the order in which the code tries them has no observable effect on valid files) -/
theorem separators_as_in_code :
    (PyxelModel.Generated.C20.imageSeparators.all (separators.contains ·) &&
     separators.all (PyxelModel.Generated.C20.imageSeparators.contains ·) &&
     PyxelModel.Generated.C20.tableSeparators.all (separators.contains ·) &&
     separators.all (PyxelModel.Generated.C20.tableSeparators.contains ·)) = true := by decide

/-- of the candidate keywords, `fit_into_array` accepts exactly the five of the model -/
theorem alignments_as_in_code :
    (PyxelModel.Generated.C20.alignments.all ((Align.all.map Align.name).contains ·) &&
     (Align.all.map Align.name).all (PyxelModel.Generated.C20.alignments.contains ·)) = true := by decide

def alignOfName (n : String) : Option Align := Align.all.find? (fun a => a.name == n)

/-- the offset each keyword produced on the probe shapes (inputs smaller, larger, odd and even slack, equal) is
`relPos` of the model -/
theorem align_offsets_as_observed :
    PyxelModel.Generated.C20.alignOffsets.all (fun e =>
      match alignOfName e.1 with
      | some a => relPos e.2.1.1 e.2.1.2 e.2.2.1.1 e.2.2.1.2 a == e.2.2.2
      | none => false) = true ∧ PyxelModel.Generated.C20.alignOffsets.length = 25 := by decide

end PyxelModel.C20
