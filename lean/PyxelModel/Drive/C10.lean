import PyxelModel.Core.J
import PyxelModel.Model.C10
/-! Line-protocol glue for C10.  `K = Rat`; `pow10` / `log10` are the finite tables the harness sends
(what numpy computed for exactly these arguments, as exact rationals of the doubles).  A request
whose tables do not cover every decision-vector component (`pow10`) and every boundary of a
logarithmic variable (`log10`) is refused — never answered with a default. -/
open Lean PyxelModel.J
namespace PyxelModel.C10

def decPair (j : Json) : R (Rat × Rat) := do
  match j with
  | .arr #[a, b] => .ok (← asRat a, ← asRat b)
  | _ => .error "pair: expected [a, b]"

def decValues (j : Json) : R Values :=
  match j with
  | .str "_" => .ok .placeholder
  | .str "other" => .ok .other
  | .arr _ => do let l ← asList asBool j; .ok (.list l)
  | _ => .error s!"values: {j.compress}"

def decBounds (j : Json) : R (Bounds Rat) :=
  match j.getObjVal? "shared" with
  | .ok s => do let (lo, hi) ← decPair s; .ok (.shared lo hi)
  | .error _ =>
    match j.getObjVal? "each" with
    | .ok e => do let l ← asList decPair e; .ok (.each l)
    | .error _ => .error s!"bounds: {j.compress}"

def decVar (j : Json) : R (Var Rat) := do
  .ok ⟨← asStr (← fld j "key"), ← decValues (← fld j "values"), ← asBool (← fld j "log"),
       ← decBounds (← fld j "bounds")⟩

def lookupT (t : List (Rat × Rat)) (x : Rat) : Option Rat :=
  (t.find? (fun e => e.1 == x)).map (·.2)

def encErr : Err → Json
  | .assertion => Json.str "assertion"
  | .value => Json.str "value"
  | .index => Json.str "index"

def encLayout (l : List (Nat × Nat)) : Json :=
  ofList (fun s => Json.arr #[ofNat s.1, ofNat s.2]) l

def encAssigned : String × Assigned Rat → Json
  | (k, .scalar x) => Json.arr #[Json.str k, obj [("s", ofRat x)]]
  | (k, .vec xs) => Json.arr #[Json.str k, obj [("v", ofList ofRat xs)]]

def boundsOfLog (v : Var Rat) : List Rat :=
  if v.log then
    match v.bounds with
    | .shared lo hi => [lo, hi]
    | .each l => l.flatMap (fun p => [p.1, p.2])
  else []

def handle (j : Json) : R Json := do
  let vars ← asList decVar (← fld j "vars")
  let tl ← asList decPair (← fld j "log10")
  let tp ← asList decPair (← fld j "pow10")
  let xs ← asList (asList asRat) (← fld j "xs")
  -- coverage of the tables (see header)
  for v in vars do
    for b in boundsOfLog v do
      if (lookupT tl b).isNone then throw s!"log10 table misses {b}"
  for x in xs do
    for c in x do
      if (lookupT tp c).isNone then throw s!"pow10 table misses {c}"
  let lg : Rat → Rat := fun x => (lookupT tl x).getD 0
  let pw : Rat → Rat := fun x => (lookupT tp x).getD 0
  let bnd := match setBound lg vars with
    | .ok (l, u) => obj [("ok", Json.arr #[ofList ofRat l, ofList ofRat u])]
    | .error e => obj [("err", encErr e)]
  let evals := xs.map fun x =>
    let ap := match applied pw vars x with
      | .ok r => obj [("ok", ofList encAssigned r)]
      | .error e => obj [("err", encErr e)]
    let sp := match assignSpec (reported pw vars x) 0 vars with
      | some r => ofList encAssigned r
      | none => Json.null
    obj [("reported", ofList ofRat (reported pw vars x)), ("applied", ap), ("spec", sp)]
  .ok (obj [("bounds", bnd),
            ("layout", obj [("bound", encLayout (layoutBound lg 0 vars)),
                            ("convert", encLayout (layoutConvert 0 vars)),
                            ("update", encLayout (layoutUpdate 0 0 vars)),
                            ("spec", encLayout (layoutSpec 0 vars))]),
            ("total", ofNat (total vars)),
            ("reported2d", ofList (ofList ofRat) (convert2D pw vars xs)),
            ("evals", Json.arr evals.toArray)])

end PyxelModel.C10
