import PyxelModel.Core.J
import PyxelModel.Model.C05
/-! Line-protocol glue for C05 (also used by the C07 driver).
request  {"op":"product"|"sequential"|"custom", "params":[…], "defaults":[[key,val]…], "ncols":n, "rows":[[val…]…]}
answer   {"dims":[name…], "old_dims":[name|null…], "runs":[{"index":…,"params":[[key,val]…],"run":n,"lab_seq":…,"lab_par":…}…]}
         or {"error": "<kind>"} for a table the custom mode refuses.
Values travel as canonical JSON *text* (strings): the model never looks inside a value. -/
open Lean PyxelModel.J
namespace PyxelModel.C05

def decParam (j : Json) : R (Param String) := do
  .ok ⟨← asStr (← fld j "key"), ← asList asStr (← fld j "values"), ← asBool (← fld j "enabled"),
       ← asBool (← fld j "multi")⟩

def decCParam (j : Json) : R CParam := do
  .ok ⟨← asStr (← fld j "key"), ← asOpt asNat (← fld j "width"), ← asBool (← fld j "enabled")⟩

def decPair (j : Json) : R (String × String) :=
  match j with
  | .arr #[k, v] => do .ok (← asStr k, ← asStr v)
  | _ => .error "pair: expected [key, value]"

def encKV (kv : String × String) : Json := Json.arr #[Json.str kv.1, Json.str kv.2]

def encLab : Lab String → Json
  | .idx i => Json.arr #[Json.str "i", ofNat i]
  | .val a => Json.arr #[Json.str "v", Json.str a]

def encCVal : CVal String → Json
  | .scalar a => Json.arr #[Json.str "s", Json.str a]
  | .vec l => Json.arr #[Json.str "l", ofList Json.str l]

def splitKey (k : String) : Key := k.splitOn "."
def joinName (n : List String) : String := ".".intercalate n

def dimsJson (keys : List String) : List (String × Json) :=
  let ks := keys.map splitKey
  [("dims", ofList (fun n => Json.str (joinName n)) (dimNames ks)),
   ("old_dims", ofList (ofOpt (fun n => Json.str (joinName n))) (ks.map (oldDimName ks)))]

/-- keys in first-occurrence order (`dict.update` over the enabled steps) -/
def uniqueKeys (keys : List String) : List String := keys.eraseDups

def decFacts (j : Json) : R StepFacts :=
  match j with
  | .arr #[a, b, c, d] => do .ok ⟨← asBool a, ← asBool b, ← asBool c, ← asBool d⟩
  | _ => .error "facts: expected [enabled, hasKey, modelOn, placeholder]"

/-- verdict of `validate_steps` on the facts the harness read off the configuration (absent: not asked) -/
def verdict (j : Json) (custom : Bool) : R (List (String × Json)) :=
  match j.getObjVal? "facts" with
  | .error _ => .ok []
  | .ok fj => do
    let fs ← asList decFacts fj
    .ok [("valid", Json.str (match validateSteps custom fs with
      | .ok _ => "ok" | .error .missingKey => "KeyError" | .error .modelNotEnabled => "ValueError"
      | .error .placeholder => "ValueError"))]

def handleRuns (j : Json) : R Json := do
  let op ← asStr (← fld j "op")
  match op with
  | "product" =>
    let ps ← asList decParam (← fld j "params")
    let keys := uniqueKeys ((enabledSteps ps).map (·.key))
    .ok (obj (dimsJson keys ++
      [("runs", ofList (fun r => obj [("index", ofList ofNat r.index), ("params", ofList encKV r.params),
          ("run", ofNat r.runIndex), ("lab_seq", ofList encLab (labelSeq ps r)),
          ("lab_par", ofList Json.str (labelPar r))]) (productRuns ps))]))
  | "sequential" =>
    let ps ← asList decParam (← fld j "params")
    let ds ← asList decPair (← fld j "defaults")
    let keys := uniqueKeys ((enabledSteps ps).map (·.key))
    match keys.find? (fun k => (ds.lookup k).isNone) with
    | some k => .error s!"no default for {k}"
    | none =>
      let d := fun k => (ds.lookup k).getD ""
      .ok (obj (dimsJson keys ++
        [("runs", ofList (fun r => obj [("index", ofNat r.index), ("params", ofList encKV r.params),
            ("run", ofNat r.runIndex)]) (sequentialRuns d ps))]))
  | "custom" =>
    let ps ← asList decCParam (← fld j "params")
    let ncols ← asNat (← fld j "ncols")
    let rows ← asList (asList asStr) (← fld j "rows")
    if rows.any (fun r => r.length != ncols) then .error "ragged table" else
    let keys := uniqueKeys ((cenabled ps).map (·.key))
    match customRuns ncols rows ps with
    | .error e => .ok (obj [("error", Json.str (match e with
        | .missingPlaceholder => "missingPlaceholder" | .columnCount => "columnCount" | .shortRow => "shortRow"))])
    | .ok rs =>
      .ok (obj (dimsJson keys ++
        [("runs", ofList (fun r => obj [("index", ofNat r.index),
            ("params", ofList (fun kv => Json.arr #[Json.str kv.1, encCVal kv.2]) r.params),
            ("run", ofNat r.runIndex)]) rs)]))
  | _ => .error s!"unknown op {op}"

/-- the runs of the mode (as before) plus, when asked, the validation verdict -/
def handle (j : Json) : R Json := do
  let op ← asStr (← fld j "op")
  let v ← verdict j (op == "custom")
  match v with
  | [("valid", Json.str "ok")] | [] =>
    match ← handleRuns j with
    | .obj kvs => .ok (Json.mkObj (kvs.toList ++ v))
    | other => .ok other
  | _ => .ok (obj (v ++ [("error", Json.str "refused-by-validation")]))

end PyxelModel.C05
