import PyxelModel.Core.J
import PyxelModel.Model.C06
/-! Line-protocol glue for C06.
request {"heap":[["leaf",text]|["nil"]|["cell",name,child,rest]…], "orig":a, "copy":a', "writes":[["mutate",path,text]|["rebind",path,tree]|["alias",path,path]…]}
        (paths are lists of attribute names followed from the *copy's* root; a tree is ["leaf",text] | ["nil"] | ["cell",name,tree,tree])
answer  {"shared":[addr…], "orig_value":tree|null, "copy_value":tree|null, "values_equal":bool,
         "after":{"orig_value":…, "copy_value":…, "shared":[…], "unresolved":n}} -/
open Lean PyxelModel.J
namespace PyxelModel.C06

def decObj (j : Json) : R (Obj String) :=
  match j with
  | .arr #[.str "leaf", v] => do .ok (Obj.leaf (← asStr v))
  | .arr #[.str "nil"] => .ok Obj.nil
  | .arr #[.str "cell", n, c, r] => do .ok (Obj.cell (← asStr n) (← asNat c) (← asNat r))
  | _ => .error s!"object: {j.compress}"

partial def decTree (j : Json) : R (Tree String) :=
  match j with
  | .arr #[.str "leaf", v] => do .ok (Tree.leaf (← asStr v))
  | .arr #[.str "nil"] => .ok Tree.nil
  | .arr #[.str "cell", n, c, r] => do .ok (Tree.cell (← asStr n) (← decTree c) (← decTree r))
  | _ => .error s!"tree: {j.compress}"

def encTree : Tree String → Json
  | .leaf v => Json.arr #[Json.str "leaf", Json.str v]
  | .nil => Json.arr #[Json.str "nil"]
  | .cell n c r => Json.arr #[Json.str "cell", Json.str n, encTree c, encTree r]

def sharedAddrs (h : Heap String) (a a' : Nat) : List Nat :=
  let fuel := h.length + 1
  let ra := (reachFuel fuel h a).eraseDups
  let rb := reachFuel fuel h a'
  ra.filter (fun x => rb.contains x)

def report (h : Heap String) (a a' : Nat) : List (String × Json) :=
  let fuel := h.length + 1
  let va := absFuel fuel h a
  let vb := absFuel fuel h a'
  [("shared", ofList ofNat (sharedAddrs h a a')), ("orig_value", ofOpt encTree va),
   ("copy_value", ofOpt encTree vb), ("values_equal", Json.bool (va.isSome && va == vb))]

/-- the address of the object a path leads to (the child of the last cell) -/
def childOf (h : Heap String) (cell : Nat) : Option Nat :=
  match h[cell]? with
  | some (.cell _ c _) => some c
  | _ => none

def decWrite (h : Heap String) (root : Nat) (j : Json) : R (Option (Write String)) := do
  let fuel := h.length + 1
  match j with
  | .arr #[.str "mutate", p, v] =>
    let path ← asList asStr p
    let val ← asStr v
    .ok (((resolve fuel h root path).bind (childOf h)).map (fun t => Write.mutate t val))
  | .arr #[.str "rebind", p, t] =>
    let path ← asList asStr p
    let tree ← decTree t
    .ok ((resolve fuel h root path).map (fun c => Write.rebind c tree))
  | .arr #[.str "alias", p, q] =>
    let path ← asList asStr p
    let src ← asList asStr q
    .ok (match resolve fuel h root path, (resolve fuel h root src).bind (childOf h) with
      | some c, some s => some (Write.alias c s)
      | _, _ => none)
  | _ => .error s!"write: {j.compress}"

def handle (j : Json) : R Json := do
  let h ← asList decObj (← fld j "heap")
  let a ← asNat (← fld j "orig")
  let a' ← asNat (← fld j "copy")
  let ws ← asArr (fldD j "writes" (Json.arr #[]))
  let mut cur := h
  let mut unresolved := 0
  for wj in ws do
    match ← decWrite cur a' wj with
    | some w => cur := applyWrite cur w
    | none => unresolved := unresolved + 1
  .ok (obj (report h a a' ++ [("after", obj (report cur a a' ++ [("unresolved", ofNat unresolved)]))]))

end PyxelModel.C06
