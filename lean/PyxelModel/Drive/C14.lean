import PyxelModel.Core.J
import PyxelModel.Model.C14
/-! Line-protocol glue for C14.

`{"rows":r,"cols":c,"h":[n,d],"w":[n,d],"ops":[["array",[[q,…],…]],["clusters",[[number,v,u],…]],
  ["read"],["remove",[id,…]],["reset"],["emptyAll",bool],["roundtrip",relabel]]}`  (every number a rational `[num,den]` or an integer)
→ `{"model":[{"out":"ok"|"ValueError"|<grid>,"frame":[[label,number,v,u],…],"nextid":n}, …],
    "spec":[<acc grid after each op>, …], "bins":[…per clusters op: [[i,j]|null,…]…]}`
`spec` is the statement's accumulator (`acc`), evaluated for every pixel after every prefix. -/
open Lean PyxelModel.J
namespace PyxelModel.C14

def decGrid (j : Json) : R Grid := asList (asList asRat) j

def decCluster (j : Json) : R Cluster := do
  match j with
  | .arr #[n, v, u] => .ok ⟨← asRat n, ← asRat v, ← asRat u⟩
  | _ => .error "cluster: expected [number, v, u]"

def decOp (j : Json) : R Op := do
  match j with
  | .arr #[n] =>
    match ← asStr n with
    | "read" => .ok .read
    | "reset" => .ok .reset
    | s => .error s!"unknown nullary op {s}"
  | .arr #[n, v] =>
    match ← asStr n with
    | "array" => .ok (.addArray (← decGrid v))
    | "clusters" => .ok (.addClusters (← asList decCluster v))
    | "remove" => .ok (.remove (← asList asNat v))
    | "roundtrip" => .ok (.roundtrip (← asBool v))
    | "emptyAll" => do let _ ← asBool v; .ok .reset     -- Detector.empty(reset): `self.charge.empty()` for both values
    | s => .error s!"unknown unary op {s}"
  | _ => .error "op: expected [name] or [name, arg]"

def encGrid (a : Grid) : Json := ofList (ofList ofRat) a

def encOut : Out → Json
  | .unit => Json.str "ok"
  | .valueError => Json.str "ValueError"
  | .arr a => encGrid a

def encFrame (f : List (Nat × Cluster)) : Json :=
  ofList (fun e => Json.arr #[ofNat e.1, ofRat e.2.number, ofRat e.2.v, ofRat e.2.u]) f

def encStep (r : St × Out) : Json :=
  obj [("out", encOut r.2), ("frame", encFrame r.1.frame), ("nextid", ofNat r.1.nextid)]

/-- accumulator grid after each prefix of the history -/
def accGrids (g : Geo) : List Op → List Op → List Grid
  | _, [] => []
  | done, op :: ops =>
    let done' := done ++ [op]
    ((List.range g.rows).map fun i => (List.range g.cols).map fun j => acc g i j 0 done') ::
      accGrids g done' ops

def encBin : Option (Nat × Nat) → Json
  | none => Json.null
  | some (i, j) => Json.arr #[ofNat i, ofNat j]

def binsOf (g : Geo) : Op → Json
  | .addClusters cs => ofList (fun c => encBin (bin g c)) cs
  | _ => Json.null

def handle (j : Json) : R Json := do
  let g : Geo := ⟨← asNat (← fld j "rows"), ← asNat (← fld j "cols"), ← asRat (← fld j "h"),
    ← asRat (← fld j "w")⟩
  if g.h ≤ 0 ∨ g.w ≤ 0 then throw "pixel sizes must be positive"
  let ops ← asList decOp (← fld j "ops")
  .ok (obj [("model", ofList encStep (trace g (init g) ops)),
            ("spec", ofList encGrid (accGrids g [] ops)),
            ("bins", Json.arr (ops.map (binsOf g)).toArray)])

end PyxelModel.C14
