import PyxelModel.Core.J
import PyxelModel.Model.C07
import PyxelModel.Drive.C05
/-! Line-protocol glue for C07.
request {"op":"product","params":[…],"orders":[[pos…]…]}            → tasks of the parameter array (row-major)
        {"op":"sequential","params":[…],"defaults":[[k,v]…]}         → tasks = runs of the repaired create_params
        {"op":"custom","ncols":n,"rows":[[…]],"params":[…]}           → tasks = rows of the converted table
        every request may carry "sigma":[task…] and "workers":n: the model then also returns the array
        assembled from the completion order sigma ("assembled": position → file index of the task stored there)
answer  {"tasks":[{"file":k,"params":[[key,val]…]}…], "assembled":[k|null…]} or {"error":kind} -/
open Lean PyxelModel.J
namespace PyxelModel.C07
open PyxelModel.C05

def encTask (k : Nat) (kvs : List (String × Json)) : Json :=
  obj [("file", ofNat k), ("params", ofList (fun kv => Json.arr #[Json.str kv.1, kv.2]) kvs)]

def encCValOpt : Option (CVal String) → Json
  | none => Json.null
  | some v => encCVal v

def withAssembly (j : Json) (ntasks : Nat) (fields : List (String × Json)) : R Json := do
  match j.getObjVal? "sigma" with
  | .error _ => .ok (obj fields)
  | .ok sj =>
    let σ ← asList asNat sj
    let nw ← asNat (fldD j "workers" (ofNat 1))
    let tasks := List.range ntasks
    let arr := assemble ntasks (runIn (fun t => t) σ (fun i => if nw = 0 then 0 else i % nw) tasks)
    .ok (obj (fields ++ [("assembled", ofList (ofOpt ofNat) arr)]))

def handle (j : Json) : R Json := do
  let op ← asStr (← fld j "op")
  match op with
  | "product" =>
    let ps ← asList decParam (← fld j "params")
    let orders ← asList (asList asNat) (← fld j "orders")
    let keys := (enabledSteps ps).map (·.key)
    let grid := parGrid orders ps
    let dims := (reorderAll orders ((enabledSteps ps).map (·.values))).map List.length
    let files := (prod (dims.map List.range)).map (flatIndex dims)
    let tasks := (files.zip grid).map (fun fg =>
      encTask fg.1 ((taskAssignment keys fg.2).map (fun kv => (kv.1, Json.str kv.2))))
    withAssembly j grid.length [("tasks", Json.arr tasks.toArray)]
  | "sequential" =>
    let ps ← asList decParam (← fld j "params")
    let ds ← asList decPair (← fld j "defaults")
    let keys := ((enabledSteps ps).map (·.key)).eraseDups
    match keys.find? (fun k => (ds.lookup k).isNone) with
    | some k => .error s!"no default for {k}"
    | none =>
      let d := fun k => (ds.lookup k).getD ""
      let tuples := seqTuples d ps
      let tasks := tuples.mapIdx (fun n t =>
        encTask n ((taskAssignment keys t).map (fun kv => (kv.1, Json.str kv.2))))
      withAssembly j tuples.length
        [("tasks", Json.arr tasks.toArray),
         ("old_tasks", ofList (ofList Json.str) (oldSeqTuples ps))]
  | "custom" =>
    let ps ← asList decCParam (← fld j "params")
    let ncols ← asNat (← fld j "ncols")
    let rows ← asList (asList asStr) (← fld j "rows")
    if rows.any (fun r => r.length != ncols) then .error "ragged table" else
    match customRuns ncols rows ps with
    | .error _ => .ok (obj [("error", Json.str "refused")])
    | .ok _ =>
      let keys := (cenabled ps).map (·.key)
      let tuples := customTuples rows ps
      let tasks := tuples.mapIdx (fun n t =>
        encTask n ((keys.zip t).map (fun kv => (kv.1, encCValOpt kv.2))))
      withAssembly j tuples.length [("tasks", Json.arr tasks.toArray)]
  | _ => .error s!"unknown op {op}"

end PyxelModel.C07
