import PyxelModel.Core.J
import PyxelModel.Model.C20
/-! Line-protocol glue for C20.

* `{"op":"fit", rows, cols, oy, ox, pos:[py,px], align, allow}` → `model` = `fitIntoArray`,
  `spec` = the statement evaluated pixel by pixel (`specPix` at an independently computed offset,
  error iff the row or column ranges are disjoint).  Pixel values are opaque integers (the harness
  sends the bit patterns of the float64 values); zero is `0`.
* `{"op":"memo", events}` → `model` = answers of the repaired loader for every `load` event,
  `stale` = answers of the unrepaired keying, `spec` = uncached reads.  Contents and arguments are
  opaque integers; the placed value is the pair `[args, content]`.
* `{"op":"text", lines}` → `detectAndParse` with a token parser that accepts numeric-looking
  tokens and returns them verbatim. -/
open Lean PyxelModel.J
namespace PyxelModel.C20

def decAlign (j : Json) : R (Option Align) :=
  match j with
  | .null => .ok none
  | .str "center" => .ok (some .center)
  | .str "top_left" => .ok (some .topLeft)
  | .str "top_right" => .ok (some .topRight)
  | .str "bottom_left" => .ok (some .bottomLeft)
  | .str "bottom_right" => .ok (some .bottomRight)
  | _ => .error s!"align: {j.compress}"

def encErr : Err → String
  | .tooSmall => "tooSmall" | .noOverlapYX => "noOverlapYX"
  | .noOverlapY => "noOverlapY" | .noOverlapX => "noOverlapX"

def encGrid (g : List (List Int)) : Json := ofList (ofList (fun (i : Int) => Json.str (toString i))) g

/-- independent reading of the keywords: corners coincide, centre halves the slack toward zero -/
def specHalf (o a : Nat) : Int := if a ≤ o then ((o - a) / 2 : Nat) else -(((a - o) / 2 : Nat) : Int)
def specPos (ay ax oy ox : Nat) (pos : Int × Int) : Option Align → Int × Int
  | none => pos
  | some .center => (specHalf oy ay, specHalf ox ax)
  | some .topLeft => ((oy : Int) - ay, 0)
  | some .topRight => ((oy : Int) - ay, (ox : Int) - ax)
  | some .bottomLeft => (0, 0)
  | some .bottomRight => (0, (ox : Int) - ax)

def disjointB (n alen : Nat) (p : Int) : Bool := !(decide (max p 0 < min (p + alen) n))

def handleFit (j : Json) : R Json := do
  let rows ← asList (asList asInt) (← fld j "rows")
  let cols ← asNat (← fld j "cols")
  if rows.any (fun r => r.length != cols) then throw "ragged rows"
  let oy ← asNat (← fld j "oy")
  let ox ← asNat (← fld j "ox")
  let pos ← match (← fld j "pos") with
    | .arr #[a, b] => do pure ((← asInt a), (← asInt b))
    | _ => throw "pos"
  let align ← decAlign (← fld j "align")
  let allow ← asBool (← fld j "allow")
  let m : Img Int := ⟨rows, cols⟩
  let model := match fitIntoArray (0 : Int) m oy ox pos align allow with
    | .ok g => obj [("ok", encGrid g)]
    | .error e => obj [("err", Json.str (encErr e))]
  let p := specPos rows.length cols oy ox pos align
  let dY := disjointB oy rows.length p.1
  let dX := disjointB ox cols p.2
  let spec :=
    if !allow && (rows.length < oy || cols < ox) then obj [("err", Json.str "tooSmall")]
    else if dY || dX then obj [("err", Json.str "noOverlap")]
    else obj [("ok", encGrid ((List.range oy).map (fun i => (List.range ox).map (fun jj => specPix 0 m p i jj))))]
  .ok (obj [("model", model), ("spec", spec), ("pos", Json.arr #[ofInt p.1, ofInt p.2])])

def decEv (j : Json) : R (Ev Int Int) := do
  match (← asStr (← fld j "ev")) with
  | "write" => .ok (.write (← asStr (← fld j "path")) (← asInt (← fld j "content")) (← asBool (fldD j "statable" (Json.bool true))))
  | "remove" => .ok (.remove (← asStr (← fld j "path")))
  | "setwd" => .ok (.setwd (← asStr (← fld j "wd")))
  | "chdir" => .ok (.chdir (← asStr (← fld j "dir")))
  | "link" => .ok (.link (← asStr (← fld j "path")) (← asStr (← fld j "target")))
  | "load" => .ok (.load (← asStr (← fld j "name")) (← asInt (← fld j "args")))
  | e => .error s!"event {e}"

def encAns (a : Option (Option (Int × Int))) : Json :=
  match a with
  | none => Json.null
  | some none => Json.str "OSError"
  | some (some (x, y)) => Json.arr #[ofInt x, ofInt y]

/-- a loader variant over a history (for labelling what the implementation does); `memo` = the remembered name
resolutions when `sticky` (seeded defect C20-9), unused otherwise -/
def runWith (sticky : Bool) (ld : Cache Int (Int × Int) → FS Int → Env → String → String → Int →
      Option (Int × Int) × Cache Int (Int × Int)) :
    FS Int → Nat → Env → List (String × String) → Cache Int (Int × Int) → List (Ev Int Int) →
    List (Option (Option (Int × Int)))
  | _, _, _, _, _, [] => []
  | fs, clk, env, m, c, .write p x _ :: es =>
    none :: runWith sticky ld (fun q => if q = p then some ⟨some clk, x⟩ else fs q) (clk + 1) env m c es
  | fs, clk, env, m, c, .remove p :: es =>
    none :: runWith sticky ld (fun q => if q = p then none else fs q) clk env m c es
  | fs, clk, env, m, c, .setwd d :: es => none :: runWith sticky ld fs clk { env with wd := d } m c es
  | fs, clk, env, m, c, .chdir d :: es => none :: runWith sticky ld fs clk { env with cwd := d } m c es
  | fs, clk, env, m, c, .link p t :: es =>
    none :: runWith sticky ld fs clk { env with links := (p, t) :: env.links } m c es
  | fs, clk, env, m, c, .load n a :: es =>
    let rp := if sticky then resolveMemo m env n else (resolvePath env n, m)
    let r := ld c fs env n rp.1 a
    some r.1 :: runWith sticky ld fs clk env rp.2 r.2 es

def handleMemo (j : Json) : R Json := do
  let evs ← asList decEv (← fld j "events")
  let f : Int → Int → Int × Int := fun a c => (a, c)
  let evict : Cache Int (Int × Int) → Cache Int (Int × Int) := fun c => c.take 128
  let env0 : Env := ⟨"", "cwd", []⟩
  .ok (obj [("model", ofList encAns (run resolvePath f evict World.init evs)),
            ("spec", ofList encAns (runSpec resolvePath f evict World.init evs)),
            ("stale", ofList encAns (runWith false (fun c fs _ n r a => memoLoadStale f c fs n r a) (fun _ => none) 1 env0 [] [] evs)),
            ("unresolved", ofList encAns (runWith false
              (fun c fs env n r a => memoLoadUnresolvedIdent f c fs (resolvePath { env with wd := "" } n) r a)
              (fun _ => none) 1 env0 [] [] evs)),
            ("sticky_resolution", ofList encAns (runWith true (fun c fs _ n r a => memoLoad f evict c fs n r a)
              (fun _ => none) 1 env0 [] [] evs))])

def handleText (j : Json) : R Json := do
  let lines ← asList asStr (← fld j "lines")
  match detectAndParse numericTok (lines.map String.toList) separators with
  | none => .ok (obj [("model", Json.null)])
  | some t => .ok (obj [("model", ofList (ofList Json.str) t)])

/-- `{"op":"select", "table":[[cell,…],…], "sel":[[name, column index],…]}` (cells are opaque strings) -/
def handleSelect (j : Json) : R Json := do
  let t ← asList (asList asStr) (← fld j "table")
  let sel ← asList (fun x => match x with
    | .arr #[n, i] => do pure ((← asStr n), (← asNat i))
    | _ => throw "sel: expected [name, index]") (← fld j "sel")
  let enc (r : List (String × List (Option String))) : Json :=
    Json.arr (r.map (fun p => Json.arr #[Json.str p.1, ofList (ofOpt Json.str) p.2])).toArray
  .ok (obj [("model", enc (selectCols t sel)), ("positional", enc (selectColsPositional t sel))])

def handle (j : Json) : R Json := do
  match (← asStr (← fld j "op")) with
  | "fit" => handleFit j
  | "memo" => handleMemo j
  | "text" => handleText j
  | "select" => handleSelect j
  | o => .error s!"unknown op {o}"

end PyxelModel.C20
