import PyxelModel.Core.J
import PyxelModel.Model.C02
/-! Line-protocol glue for C02.

request  `{"op":"session","src":{"kind":k,"v":[X…]},"start":X,"nd":b,"ops":[…],"prior":[6×(n|null)],"plan":[[write…]…]}`
answer   `{"model":{"error":kind} | {"obs":[…]}, "spec":{"valid":b|null}, "final":{"times":[X…],"start":X,"nd":b}|null}`
`X` is `"nan"`, `"inf"`, `"-inf"` or an exact rational `[num,den]`.
-/
open Lean PyxelModel.J
namespace PyxelModel.C02

def asX (j : Json) : R X :=
  match j with
  | .str "nan" => .ok .nan
  | .str "inf" => .ok .pinf
  | .str "-inf" => .ok .ninf
  | .arr _ => do let q ← asRat j; .ok (.fin q)
  | _ => .error s!"not an X value: {j.compress}"

def ofX : X → Json
  | .nan => Json.str "nan"
  | .pinf => Json.str "inf"
  | .ninf => Json.str "-inf"
  | .fin q => ofRat q

def asSrc (j : Json) : R Src := do
  let k ← asStr (← fld j "kind")
  let v ← asList asX (fldD j "v" (Json.arr #[]))
  match k, v with
  | "default", [] => .ok .default
  | "both", _ => .ok .both
  | "scalar", [x] => .ok (.scalar x)
  | "seq", xs => .ok (.seq xs)
  | "expr", xs => .ok (.expr xs)
  | "file", xs => .ok (.file xs)
  | "yaml_absent", [] => .ok (srcOfYaml .absent none)
  | "yaml_num", [x] => .ok (srcOfYaml (.num x) none)
  | "yaml_seq", xs => .ok (srcOfYaml (.seq xs) none)
  | "yaml_empty_str", [] => .ok (srcOfYaml .emptyStr none)
  | "yaml_str", xs => .ok (srcOfYaml (.str xs) none)
  | "yaml_file", xs => .ok (srcOfYaml .absent (some xs))
  | "yaml_both", xs => .ok (srcOfYaml (.seq xs) (some xs))
  | _, _ => .error s!"bad src: {j.compress}"

def asOp (j : Json) : R Op :=
  match j with
  | .arr #[.str "setTimes", v] => do .ok (.setTimes (← asList asX v))
  | .arr #[.str "setStart", v] => do .ok (.setStart (← asX v))
  | .arr #[.str "setNd", v] => do .ok (.setNd (← asBool v))
  | _ => .error s!"bad op: {j.compress}"

def asBucket (j : Json) : R Bucket := do
  match (← asStr j) with
  | "scene" => .ok .scene
  | "photon" => .ok .photon
  | "charge" => .ok .charge
  | "pixel" => .ok .pixel
  | "signal" => .ok .signal
  | "image" => .ok .image
  | s => .error s!"bad bucket {s}"

def asWrite (j : Json) : R WriteOp :=
  match j with
  | .arr #[.str "set", b, v] => do .ok (.set (← asBucket b) (← asOpt asNat v))
  | .arr #[.str "add", k] => do .ok (.addPixel (← asNat k))
  | _ => .error s!"bad write: {j.compress}"

def asDet (j : Json) : R Det := do
  match (← asList (asOpt asNat) j) with
  | [a, b, c, d, e, f] => .ok ⟨a, b, c, d, e, f⟩
  | _ => .error "det: expected 6 entries (scene, photon, charge, pixel, signal, image)"

def ofDet (d : Det) : Json :=
  ofList (ofOpt ofNat) [d.scene, d.photon, d.charge, d.pixel, d.signal, d.image]

def ofErr : Err → Json
  | .valueError => Json.str "ValueError"
  | .indexError => Json.str "IndexError"
  | .typeError => Json.str "TypeError"

def ofObs (o : Obs X) : Json :=
  Json.arr #[ofX o.time, ofX o.step, ofX o.abs, ofNat o.count, Json.bool o.first, Json.bool o.last,
             ofNat o.numSteps, ofDet o.atBegin, ofDet o.atEnd]

def handle (j : Json) : R Json := do
  let op ← asStr (← fld j "op")
  match op with
  | "session" =>
    let src ← asSrc (← fld j "src")
    let start ← asX (← fld j "start")
    let nd ← asBool (← fld j "nd")
    let ops ← asList asOp (fldD j "ops" (Json.arr #[]))
    let prior ← asDet (← fld j "prior")
    let plan ← asList (asList asWrite) (← fld j "plan")
    let model := match session src start nd ops prior (planEffect plan) with
      | .error e => obj [("error", ofErr e)]
      | .ok obs => obj [("obs", ofList ofObs obs)]
    let (fin, valid) := match Readout.make src start nd with
      | .error _ => (Json.null, Json.null)
      | .ok r0 =>
        let r := r0.applyOps ops
        (obj [("times", ofList ofX r.times), ("start", ofX r.start), ("nd", Json.bool r.nd)],
         Json.bool (validSpecB r.start r.times))
    .ok (obj [("model", model), ("spec", obj [("valid", valid)]), ("final", fin)])
  | "valid" =>
    let start ← asX (← fld j "start")
    let ts ← asList asX (← fld j "times")
    let enc := fun (r : Except Err Unit) => match r with
      | .ok () => Json.str "ok"
      | .error e => ofErr e
    .ok (obj [("readout", enc (checkReadout start ts)), ("props", enc (checkProps start ts)),
              ("orig", enc (checkOrig start ts)), ("spec", Json.bool (validSpecB start ts)),
              ("steps", ofList ofX (steps start ts))])
  | "sweep" =>
    -- Observation scanning `observation.readout.times`: one run per value, same start time / mode
    let start ← asX (← fld j "start")
    let nd ← asBool (← fld j "nd")
    let base ← asList asX (← fld j "times")
    let vals ← asList asX (← fld j "values")
    let prior ← asDet (← fld j "prior")
    let plan ← asList (asList asWrite) (← fld j "plan")
    let enc := fun (x : Except Err (List (Obs X))) => match x with
      | .error e => obj [("error", ofErr e)]
      | .ok obs => obj [("obs", ofList ofObs obs)]
    .ok (obj [("runs", ofList enc (sweepTimes ⟨base, start, nd⟩ vals prior (planEffect plan)))])
  | "floatclock" =>
    -- the generic `steps` / `start + t` at Lean's binary64 `Float`: compared bit for bit with numpy
    let start ← asFloatBits (← fld j "start")
    let ts ← asList asFloatBits (← fld j "times")
    .ok (obj [("steps", ofList ofFloatBits (steps start ts)),
              ("abs", ofList ofFloatBits (ts.map (fun t => start + t)))])
  | _ => .error s!"unknown op {op}"

end PyxelModel.C02
