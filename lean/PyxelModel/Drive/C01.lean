import PyxelModel.Core.J
import PyxelModel.Model.C01
import PyxelModel.Generated.C01
/-! Line-protocol glue for C01.  `model` follows the group tuple regenerated from today's source,
`spec` uses the physical order written in the property. -/
open Lean PyxelModel.J
namespace PyxelModel.C01

def decModel (j : Json) : R (Model String) := do
  match j with
  | .arr #[n, e, a] => .ok ⟨← asStr n, ← asBool e, ← asStr a⟩
  | _ => .error "model: expected [name, enabled, args]"

def decGroup (j : Json) : R (String × List (Model String)) := do
  match j with
  | .arr #[g, ms] => .ok (← asStr g, ← asList decModel ms)
  | _ => .error "group: expected [name, models]"

def encCall (c : Nat × Call String) : Json :=
  Json.arr #[ofNat c.1, Json.str c.2.group, ofNat c.2.idx, Json.str c.2.name, Json.str c.2.args]

def handle (j : Json) : R Json := do
  let p ← asList decGroup (← fld j "groups")
  let n ← asNat (← fld j "steps")
  let dbg ← asBool (fldD j "debug" (Json.bool false))
  .ok (obj [("model", ofList encCall (runExposure PyxelModel.Generated.C01.modelGroups p n dbg)),
            ("spec", ofList encCall (runExposure physicalOrder p n dbg))])

end PyxelModel.C01
