import PyxelModel.Core.J
import PyxelModel.Model.C01
import PyxelModel.Model.C01Keys
import PyxelModel.Generated.C01
/-! Line-protocol glue for C01.  `model` follows the group tuple regenerated from today's source,
`spec` uses the physical order written in the property. -/
open Lean PyxelModel.J
namespace PyxelModel.C01

def decModel (j : Json) : R (Model String) := do
  match j with
  | .arr #[n, e, a] => .ok ⟨← asStr n, ← asBool e, ← asStr a⟩
  | _ => .error "model: expected [name, enabled, args]"

def decGroup (j : Json) : R (String × List (Model String)) := do
  match j with
  | .arr #[g, ms] => .ok (← asStr g, ← asList decModel ms)
  | _ => .error "group: expected [name, models]"

def encCall (c : Nat × Call String) : Json :=
  Json.arr #[ofNat c.1, Json.str c.2.group, ofNat c.2.idx, Json.str c.2.name, Json.str c.2.args]

/-- a change made after construction: `[group, index, name, enabled, "attr" | "override"]` —
"attr" assigns `pipeline.<group>.models[index].enabled`, "override" goes through the dotted key -/
def decToggle (j : Json) : R (String × Nat × String × Bool × String) := do
  match j with
  | .arr #[g, i, n, e, r] => .ok (← asStr g, ← asNat i, ← asStr n, ← asBool e, ← asStr r)
  | _ => .error "toggle: expected [group, index, name, enabled, route]"

def applyToggle (p : Pipeline String) (t : String × Nat × String × Bool × String) : Pipeline String :=
  let (g, i, n, e, r) := t
  if r == "attr" then setIdx p g i (withEnabled e) else setKey p g n (withEnabled e)

/-- an argument dictionary replaced through its key: `[group, name, new arguments]` -/
def decArgset (j : Json) : R (String × String × String) := do
  match j with
  | .arr #[g, n, a] => .ok (← asStr g, ← asStr n, ← asStr a)
  | _ => .error "argset: expected [group, name, args]"

def handle (j : Json) : R Json := do
  let p0 ← asList decGroup (← fld j "groups")
  let ts ← asList decToggle (fldD j "toggles" (Json.arr #[]))
  let as ← asList decArgset (fldD j "argsets" (Json.arr #[]))
  let p1 := ts.foldl applyToggle p0
  let p := as.foldl (fun q a => setKey q a.1 a.2.1 (withArgs a.2.2)) p1
  let n ← asNat (← fld j "steps")
  let dbg ← asBool (fldD j "debug" (Json.bool false))
  .ok (obj [("model", ofList encCall (runExposure PyxelModel.Generated.C01.modelGroups p n dbg)),
            ("spec", ofList encCall (runExposure physicalOrder p n dbg))])

end PyxelModel.C01
