import PyxelModel.Core.J
import PyxelModel.Model.C04
/-! Line-protocol glue for C04: run a program on the *symbolic* generator whose state is
(origin, number of draws since): origin = none for the caller's state, some s after `seed(s)`.
A drawn value is the state it was drawn from — the harness maps real numpy values back to that. -/
open Lean PyxelModel.J
namespace PyxelModel.C04

abbrev SymG := Option Nat × Nat
def symGen : Gen SymG SymG := ⟨fun s => (some s, 0), fun g => ((g.1, g.2 + 1), g)⟩

partial def decProg (j : Json) : R Prog := do
  match j with
  | .str "skip" => .ok .skip
  | .str "draw" => .ok .draw
  | .str "fail" => .ok .fail
  | .arr #[.str "seq", a, b] => .ok (.seq (← decProg a) (← decProg b))
  | .arr #[.str "seeded", s, p] => .ok (.seeded (← asOpt asNat s) (← decProg p))
  | _ => .error s!"prog: {j.compress}"

def encG (g : SymG) : Json := Json.arr #[ofOpt ofNat g.1, ofNat g.2]

def handleRuns (j : Json) : R Json := do
  let ps ← asList decProg j
  let r := execRuns symGen (none, 0) ps
  .ok (obj [("g", encG r.1), ("outs", ofList (ofList encG) r.2.1), ("failed", Json.bool r.2.2),
            ("guarded", Json.bool (ps.all Guarded))])

def handle (j : Json) : R Json := do
  if let some rs := (j.getObjVal? "runs").toOption then return ← handleRuns rs
  let p ← decProg (← fld j "prog")
  let r := exec symGen (none, 0) p
  .ok (obj [("g", encG r.g), ("out", ofList encG r.out), ("failed", Json.bool r.failed),
            ("guarded", Json.bool (Guarded p))])

end PyxelModel.C04
