import PyxelModel.Core.J
import PyxelModel.Model.C08
import PyxelModel.Generated.C08
/-! Line-protocol glue for C08.

Values: `null` | `true/false` | `{"i": "<int>"}` | `{"f": [num, den]}` | `{"s": str}` | `{"l": [...]}` | `{"t": [...]}`.
Trees : `{"v": value}` (leaf) | `{"u": true}` (unset validated field) | `{"n": true}` (Python None) |
        `{"k": "obj"|"args"|"group", "c": [[name, "rw"|"ro"|"g", tree], ...]}`.
Config: `[[group, null | [[model, enabled, [[arg, value], ...]], ...]], ...]`.

ops: `eval` (text → value), `key` (has / get / set on `processorTree det cfg`, then `get` of every probe key on
the new state), `validate` (one sweep step: `model` follows today's source flags, `spec` is the statement's rule). -/
open Lean PyxelModel.J
namespace PyxelModel.C08

partial def decVal (j : Json) : R Val :=
  match j with
  | .null => .ok .none
  | .bool b => .ok (.bool b)
  | _ =>
    match j.getObjVal? "i" with
    | .ok x => do .ok (.int (← asInt x))
    | .error _ =>
    match j.getObjVal? "f" with
    | .ok x => do .ok (.num (← asRat x))
    | .error _ =>
    match j.getObjVal? "s" with
    | .ok x => do .ok (.str (← asStr x))
    | .error _ =>
    match j.getObjVal? "l" with
    | .ok x => do .ok (.list (← (← asArr x).mapM decVal))
    | .error _ =>
    match j.getObjVal? "t" with
    | .ok x => do .ok (.tuple (← (← asArr x).mapM decVal))
    | .error _ => .error s!"value: {j.compress}"

partial def encVal : Val → Json
  | .none => Json.null
  | .bool b => Json.bool b
  | .int i => obj [("i", Json.str (toString i))]
  | .num q => obj [("f", Json.arr #[Json.str (toString q.num), Json.str (toString q.den)])]
  | .str s => obj [("s", Json.str s)]
  | .list xs => obj [("l", Json.arr (xs.map encVal).toArray)]
  | .tuple xs => obj [("t", Json.arr (xs.map encVal).toArray)]

def decAccess (j : Json) : R Access :=
  match j with
  | .str "rw" => .ok .rw
  | .str "ro" => .ok .ro
  | .str "g" => .ok (.guarded 0)
  -- a method / class-level attribute: refused by the repaired `Processor.set`, overwritten by the pinned one
  | .str "m" => .ok (if PyxelModel.Generated.C08.setRefusesClassAttrs then .ro else .rw)
  -- the same on `Arguments`, whose `__setattr__` refuses every undeclared name
  | .str "ma" => .ok .ro
  | _ => .error s!"access: {j.compress}"

partial def decTree (j : Json) : R Tree :=
  match j.getObjVal? "v" with
  | .ok x => do .ok (.leaf (some (← decVal x)))
  | .error _ =>
  match j.getObjVal? "u" with
  | .ok _ => .ok (.leaf none)
  | .error _ =>
  match j.getObjVal? "n" with
  | .ok _ => .ok .pynone
  | .error _ => do
    let k ← asStr (← fld j "k")
    let kind ← match k with
      | "obj" => pure Kind.obj
      | "args" => pure Kind.args
      | "group" => pure Kind.group
      | _ => throw s!"kind: {k}"
    let cs ← (← asArr (← fld j "c")).mapM fun e =>
      match e with
      | .arr #[n, a, t] => do pure ((← asStr n), (← decAccess a), (← decTree t))
      | _ => throw "child: expected [name, access, tree]"
    .ok (.node kind cs)

def decModel (j : Json) : R ModelCfg :=
  match j with
  | .arr #[n, e, a] => do
    let args ← (← asArr a).mapM fun kv =>
      match kv with
      | .arr #[k, v] => do pure ((← asStr k), (← decVal v))
      | _ => throw "arg: expected [name, value]"
    .ok ⟨← asStr n, ← asBool e, args⟩
  | _ => .error "model: expected [name, enabled, args]"

def decCfg (j : Json) : R (List (String × Option (List ModelCfg))) := do
  (← asArr j).mapM fun g =>
    match g with
    | .arr #[n, ms] => do pure ((← asStr n), (← asOpt (asList decModel) ms))
    | _ => throw "group: expected [name, models|null]"

def encErr : Err → Json
  | .attr => "AttributeError"
  | .key => "KeyError"
  | .value => "ValueError"
  | .type => "TypeError"
  | .assertion => "Other:AssertionError"

def encSub : Tree → Json
  | .leaf (some v) => obj [("v", encVal v)]
  | .leaf none => obj [("u", Json.bool true)]
  | .pynone => obj [("n", Json.bool true)]
  | .node k _ => obj [("node", Json.str (match k with | .obj => "obj" | .args => "args" | .group => "group"))]

def encRes {α} (f : α → Json) : Except Err α → Json
  | .ok a => obj [("ok", f a)]
  | .error e => obj [("err", encErr e)]

/-- what `Processor.set` is given: `"value"` (a non-text value, kept as it is), `"text"` (converted with
`eval_entry`) or `"items"` (a sequence: `[eval_entry(x) if x else x for x in value]`, always a list) -/
def decInput (j : Json) : R (Except Err Val) :=
  match j.getObjVal? "text" with
  | .ok t => do .ok (evalEntryPy (← asStr t))
  | .error _ =>
  match j.getObjVal? "items" with
  | .ok it => do
    let xs ← (← asArr it).mapM fun e =>
      match e.getObjVal? "text" with
      | .ok t => do
        let s ← asStr t
        pure (if s.isEmpty then Except.ok (Val.str s) else evalEntryPy s)
      | .error _ => do pure (Except.ok (← decVal (← fld e "value")))
    .ok (do let vs ← xs.mapM id; pure (Val.list vs))
  | .error _ => do .ok (.ok (← decVal (← fld j "value")))

/-- class-level attributes (methods, dunder names, constants) of the objects the model builds itself
(processor, pipeline, model groups, model functions, `Arguments`), read off the real classes by the harness:
appended after the real slots of each node -/
structure Extras where
  processor : Children := []
  pipeline : Children := []
  group : Children := []
  model : Children := []
  args : Children := []

def decSlots (j : Json) : R Children := do
  (← asArr j).mapM fun e =>
    match e with
    | .arr #[n, a, t] => do pure ((← asStr n), (← decAccess a), (← decTree t))
    | _ => throw "slot: expected [name, access, tree]"

def decExtras (j : Json) : R Extras :=
  match j.getObjVal? "extras" with
  | .error _ => .ok {}
  | .ok e => do
    .ok { processor := ← decSlots (fldD e "processor" (Json.arr #[])),
          pipeline := ← decSlots (fldD e "pipeline" (Json.arr #[])),
          group := ← decSlots (fldD e "group" (Json.arr #[])),
          model := ← decSlots (fldD e "model" (Json.arr #[])),
          args := ← decSlots (fldD e "args" (Json.arr #[])) }

def decorate (x : Extras) (t : Tree) : Tree :=
  let dArgs : Tree → Tree
    | .node .args cs => .node .args (cs ++ x.args)
    | t => t
  let dModel : Tree → Tree
    | .node .obj cs => .node .obj (cs.map (fun e => if e.1 == "arguments" then (e.1, e.2.1, dArgs e.2.2) else e) ++ x.model)
    | t => t
  let dGroup : Tree → Tree
    | .node .group ms => .node .group (ms.map (fun e => (e.1, e.2.1, dModel e.2.2)) ++ x.group)
    | t => t
  let dPipe : Tree → Tree
    | .node .obj cs => .node .obj (cs.map (fun e => (e.1, e.2.1, dGroup e.2.2)) ++ x.pipeline)
    | t => t
  match t with
  | .node .obj cs => .node .obj (cs.map (fun e => if e.1 == "pipeline" then (e.1, e.2.1, dPipe e.2.2) else e) ++ x.processor)
  | t => t

def handle (j : Json) : R Json := do
  let op ← asStr (← fld j "op")
  match op with
  | "eval" =>
    let t ← asStr (← fld j "text")
    .ok (obj [("val", encVal (evalEntry t)), ("py", encRes encVal (evalEntryPy t))])
  | "key" =>
    let det ← decTree (← fld j "det")
    let cfg ← decCfg (← fld j "cfg")
    let key ← asList asStr (← fld j "key")
    let vin ← decInput j
    let probes ← asList (asList asStr) (← fld j "probes")
    let t := decorate (← decExtras j) (processorTree det cfg)
    let strict := PyxelModel.Generated.C08.setIsStrict
    let acc : Nat → Val → Except Err Unit := fun _ _ => .ok ()
    let setOne (s : Bool) : Json :=
      match vin.bind (setP s acc t key) with
      | .ok t' => obj [("ok", Json.bool true),
                       ("after", ofList (fun p => encRes encSub (getP t' p)) probes),
                       ("has_after", ofList (fun p => encRes Json.bool (hasP t' p)) probes)]
      | .error e => obj [("err", encErr e)]
    .ok (obj [("has", encRes Json.bool (hasP t key)),
              ("get", encRes encSub (getP t key)),
              ("resolves", Json.bool (slotAt t key).isSome),
              ("before", ofList (fun p => encRes encSub (getP t p)) probes),
              ("set", setOne strict),
              ("set_strict", setOne true)])
  | "history" =>
    -- steps on a growing family of processors: {"do": "set"|"copy"|"copyset", "proc": i, "key"?, value?}
    let det ← decTree (← fld j "det")
    let cfg ← decCfg (← fld j "cfg")
    let probes ← asList (asList asStr) (← fld j "probes")
    let steps ← asArr (← fld j "steps")
    let strict := PyxelModel.Generated.C08.setIsStrict
    let acc : Nat → Val → Except Err Unit := fun _ _ => .ok ()
    let view (ts : List Tree) : Json :=
      ofList (fun t => ofList (fun p => encRes encSub (getP t p)) probes) ts
    let mut procs : List Tree := [decorate (← decExtras j) (processorTree det cfg)]
    let mut out : Array Json := #[]
    for st in steps do
      let what ← asStr (← fld st "do")
      let i ← asNat (← fld st "proc")
      let some t := procs[i]? | throw s!"history: no processor {i}"
      let mut err : Json := Json.null
      if what == "copy" then
        procs := procs ++ [t]
      else
        let key ← asList asStr (← fld st "key")
        let vin ← decInput st
        match vin.bind (setP strict acc t key) with
        | .ok t' =>
          if what == "set" then procs := procs.set i t' else procs := procs ++ [t']
        | .error e => err := encErr e
      out := out.push (obj [("err", err), ("states", view procs)])
    .ok (obj [("steps", Json.arr out)])
  | "calupdate" =>
    let det ← decTree (← fld j "det")
    let cfg ← decCfg (← fld j "cfg")
    let probes ← asList (asList asStr) (← fld j "probes")
    let vars ← asList (fun e => match e with
      | .arr #[k, w] => do pure ((← asList asStr k), (← asOpt asNat w))
      | _ => throw "var: expected [key, width|null]") (← fld j "vars")
    let xs ← asList decVal (← fld j "xs")
    let t := decorate (← decExtras j) (processorTree det cfg)
    let acc : Nat → Val → Except Err Unit := fun _ _ => .ok ()
    match calUpdate PyxelModel.Generated.C08.setIsStrict acc t vars xs with
    | .ok t' => .ok (obj [("ok", Json.bool true), ("after", ofList (fun p => encRes encSub (getP t' p)) probes)])
    | .error e => .ok (obj [("err", encErr e)])
  | "override" =>
    let el ← asStr (← fld j "element")
    match parseOverride el.toList with
    | .error e => .ok (obj [("err", encErr e)])
    | .ok (k, v) =>
      .ok (obj [("key", Json.str (String.ofList k)), ("value", encRes encVal (evalEntryPy (String.ofList v)))])
  | "validate" =>
    let det ← decTree (← fld j "det")
    let cfg ← decCfg (← fld j "cfg")
    let key ← asList asStr (← fld j "key")
    let vals ← asList decVal (← fld j "values")
    let custom ← asBool (← fld j "custom")
    let t := processorTree det cfg
    let td := decorate (← decExtras j) t
    let fixed := PyxelModel.Generated.C08.enabledSweepFixed
    let unit : Unit → Json := fun _ => Json.bool true
    let spec : Json :=
      match key with
      | ["pipeline", g, m, "arguments", a] =>
        if startsWith g "arguments" || startsWith m "arguments" then Json.null
        else encRes unit (validateArgSpec cfg g m a vals custom)
      | ["pipeline", g, m, "enabled"] =>
        if startsWith g "arguments" || startsWith m "arguments" then Json.null
        else encRes unit (match cfgModel cfg g m with
          | none => .error .key
          | some _ => if vals.any isUnderscore && !custom then .error .value else .ok ())
      | _ => Json.null
    .ok (obj [("model", encRes unit (validateStep fixed td key vals custom)),
              ("model_fixed", encRes unit (validateStep true t key vals custom)),
              ("spec", spec)])
  | _ => .error s!"unknown op {op}"

end PyxelModel.C08
