import PyxelModel.Core.J
import PyxelModel.Model.C17
/-! Line-protocol glue for C17.

request `{"op":"frames","npix":n,"photon":[{"rates":[q…n],"scale":q}…],"qe":q|null,
          "charge":[{"rates":[q…n],"scale":q}…],"collect":b,"nd":b,"start":q,"times":[q…]}`
answer  `{"model":[[q per readout] per pixel],"spec":[[q per readout] per pixel]}`
`model` = the step-by-step pipeline (`frames`), `spec` = the statement's closed form
(`rate·(t_i − start)` non-destructive, `rate·(t_i − t_(i−1))` destructive). -/
open Lean PyxelModel.J
namespace PyxelModel.C17

structure Spread where
  rates : List Rat
  scale : Rat

def asSpread (j : Json) : R Spread := do
  .ok ⟨← asList asRat (← fld j "rates"), ← asRat (← fld j "scale")⟩

def pipeAt (ph ch : List Spread) (qe : Option Rat) (collect : Bool) (k : Nat) : Pipe Rat :=
  ⟨ph.map (fun s => ⟨s.rates.getD k 0, s.scale⟩), qe, ch.map (fun s => ⟨s.rates.getD k 0, s.scale⟩), collect⟩

def specFrames (p : Pipe Rat) (nd : Bool) (start : Rat) (ts : List Rat) : List Rat :=
  if nd then ts.map (fun t => totalRate p * (t - start))
  else (PyxelModel.C02.steps start ts).map (fun dt => totalRate p * dt)

def handle (j : Json) : R Json := do
  let op ← asStr (← fld j "op")
  match op with
  | "frames" =>
    let n ← asNat (← fld j "npix")
    let ph ← asList asSpread (← fld j "photon")
    let ch ← asList asSpread (← fld j "charge")
    let qe ← asOpt asRat (← fld j "qe")
    let collect ← asBool (← fld j "collect")
    let nd ← asBool (← fld j "nd")
    let start ← asRat (← fld j "start")
    let ts ← asList asRat (← fld j "times")
    for s in ph ++ ch do
      if s.rates.length != n then throw "rates: wrong number of pixels"
    let px := List.range n
    .ok (obj [("model", ofList (fun k => ofList ofRat (frames (pipeAt ph ch qe collect k) nd start ts)) px),
              ("spec", ofList (fun k => ofList ofRat (specFrames (pipeAt ph ch qe collect k) nd start ts)) px)])
  | _ => .error s!"unknown op {op}"

end PyxelModel.C17
