import PyxelModel.Core.J
import PyxelModel.Model.C11
/-! Line-protocol glue for C11 (`K = Rat`, NaN = `null`).
ops: `check` (fit-range checker: repaired model, pinned-tree model, the statement's predicate),
`fitness` (restriction to the fit ranges + figure of merit summed over the targets),
`champions` (running best). -/
open Lean PyxelModel.J
namespace PyxelModel.C11

def decRange (j : Json) : R Range :=
  match j with
  | .arr #[a, b] => do .ok (← asOpt asInt a, ← asOpt asInt b)
  | _ => .error s!"range: {j.compress}"

def decDim (j : Json) : R Dim := do
  .ok ⟨← asNat (← fld j "tSize"), ← asNat (← fld j "rSize"), ← decRange (← fld j "tRange"),
       ← decRange (← fld j "rRange")⟩

def encRes : Except Err Unit → Json
  | .ok () => Json.str "ok"
  | .error .value => Json.str "value"
  | .error .type => Json.str "type"

/-- Bool twin of `exceeds` (driver only) -/
def exceedsB (n : Nat) (r : Range) : Bool :=
  (match r.1 with | none => false | some s => s < -(n : Int) || (n : Int) < s) ||
  (match r.2 with | none => false | some e => e < -(n : Int) || (n : Int) < e)

def decCell (j : Json) : R (Option Rat) := asOpt asRat j
def decGrid3 (j : Json) : R (List (List (List (Option Rat)))) := asList (asList (asList decCell)) j

def flat3 (g : List (List (List (Option Rat)))) : List (Option Rat) := g.flatten.flatten

def handle (j : Json) : R Json := do
  let op ← asStr (← fld j "op")
  match op with
  | "check" =>
    let dims ← asList decDim (← fld j "dims")
    let spec := dims.all fun d =>
      extentSpec d.tSize d.tRange == extentSpec d.rSize d.rRange && !exceedsB d.tSize d.tRange
    .ok (obj [("model", encRes (checkFitRanges dims)), ("old", encRes (checkOld dims)),
              ("spec", Json.bool spec),
              ("extents", ofList (fun d => Json.arr #[ofNat (extent d.tSize d.tRange),
                                                      ofNat (extent d.rSize d.rRange)]) dims)])
  | "fitness" =>
    let func ← asStr (← fld j "func")
    let free ← asInt (fldD j "free" (ofInt 0))
    let tr ← asList decRange (← fld j "tr")
    let rr ← asList decRange (← fld j "rr")
    let (t0, t1, t2) ← match tr with
      | [a, b, c] => pure (a, b, c)
      | _ => throw "tr: expected three ranges"
    let (r0, r1, r2) ← match rr with
      | [a, b, c] => pure (a, b, c)
      | _ => throw "rr: expected three ranges"
    let sims ← asList decGrid3 (← fld j "sims")
    let tgts ← asList decGrid3 (← fld j "tgts")
    let ws ← asList decGrid3 (← fld j "ws")
    let f : List (Option Rat) → List (Option Rat) → List (Option Rat) → Rat ← match func with
      | "abs" => pure sumAbs
      | "sq" => pure sumSq
      | "chi2" => pure (redChi2 (fun i => (i : Rat)) free)
      | _ => throw s!"unknown figure of merit {func}"
    let ss := sims.map fun g => flat3 (restrict3 r0 r1 r2 g)
    let ts := tgts.map fun g => flat3 (restrict3 t0 t1 t2 g)
    let wl := ws.map fun g => flat3 (restrict3 t0 t1 t2 g)
    -- equal shapes are a precondition of `zipWith` = numpy elementwise arithmetic
    for (s, t) in ss.zip ts do
      if s.length != t.length then throw "restricted simulated and target data differ in size"
    .ok (obj [("model", ofRat (fitnessTotal f ss ts wl 0)),
              ("terms", ofList ofRat ((ss.zip (ts.zip wl)).map fun x => f x.1 x.2.1 x.2.2))])
  | "champions" =>
    let prev ← asRat (← fld j "prev")
    let evs ← asList (asList asRat) (← fld j "evols")
    .ok (obj [("model", ofList ofRat (champions prev evs))])
  | _ => .error s!"unknown op {op}"

end PyxelModel.C11
