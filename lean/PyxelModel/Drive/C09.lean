import PyxelModel.Core.J
import PyxelModel.Model.C09
/-! Line-protocol glue for C09.  `mode`: `exposure` | `sequential` | `parallel` | `calibration`.
`runs[r][s]` = the enabled calls of step `s` of run `r` in schedule order (the harness computes the
schedule order from the configured groups; C01 proves it).  `model` = the nested loops, `spec` = the
flat view (first fault, calls up to it). -/
open Lean PyxelModel.J
namespace PyxelModel.C09

def decExc (j : Json) : R Exc := do
  .ok ⟨← asStr (← fld j "kind"), ← asStr (← fld j "msg"), ← asList asStr (← fld j "notes")⟩

def decCall (j : Json) : R Call := do
  .ok ⟨← asStr (← fld j "group"), ← asStr (← fld j "name"), ← asStr (← fld j "func"),
       ← asOpt decExc (fldD j "fault" Json.null)⟩

def decKV (j : Json) : R (String × String) :=
  match j with
  | .arr #[a, b] => do .ok (← asStr a, ← asStr b)
  | _ => .error "param: expected [key, value]"

def encExc (e : Exc) : Json :=
  obj [("kind", Json.str e.kind), ("msg", Json.str e.msg), ("notes", ofList Json.str e.notes)]

def encEv (e : Ev) : Json := Json.arr #[ofNat e.run, ofNat e.step, ofNat e.pos]

def encRes {α} (f : α → Json) : Except Exc α → Json
  | .ok a => obj [("ok", f a)]
  | .error e => obj [("err", encExc e)]

def handle (j : Json) : R Json := do
  let mode ← asStr (← fld j "mode")
  let runs ← asList (asList (asList decCall)) (← fld j "runs")
  let flat := flatRuns 0 runs
  let spec := obj [("trace", ofList encEv (upToFault flat)),
                   ("first", match firstFault flat with
                     | some (ev, c, e) => Json.arr #[encEv ev, Json.str (groupNote c), encExc e]
                     | none => Json.null)]
  match mode with
  | "exposure" =>
    match runs with
    | [steps] =>
      let r := runExposure steps
      .ok (obj [("trace", ofList encEv r.1), ("result", encRes (fun _ => Json.null) r.2), ("spec", spec)])
    | _ => .error "exposure: exactly one run expected"
  | "sequential" =>
    let params ← asList (asList decKV) (← fld j "params")
    let r := runSeq (decorateObs params) 0 runs
    .ok (obj [("trace", ofList encEv r.1), ("result", encRes (ofList ofNat) r.2), ("spec", spec)])
  | "calibration" =>
    let note ← asStr (← fld j "fitness_note")
    let r := runSeq (fun _ e => e.addNotes [note]) 0 runs
    .ok (obj [("trace", ofList encEv r.1), ("result", encRes (ofList ofNat) r.2), ("spec", spec)])
  | "parallel" =>
    let σ ← asList asNat (← fld j "sigma")
    let b := buildPar runs
    let l := match b with
      | .ok tasks => encRes (ofList ofNat) (loadPar tasks σ)
      | .error _ => Json.null
    .ok (obj [("build", encRes (fun _ => Json.null) b), ("load", l), ("spec", spec)])
  | _ => .error s!"unknown mode {mode}"

end PyxelModel.C09
