import PyxelModel.Core.J
import PyxelModel.Model.C19
/-! Line-protocol glue for C19.

* `{"op":"dirs", "fs":[names], "starts":[[prefix, stamp], …], "sched":[ids]}` → the directories
  obtained by the simulations under that interleaving (`null` = still retrying), their attempt
  counters, and the final folder listing.
* `{"op":"createDir", "fs":[names], "pre":…, "stamp":…}` → `[dir, folder']`.
* `{"op":"names", "mode":…, "combos":[[bucket, ext], …], "runs":n}` → reported file names per run and
  all names present in the run directory afterwards (`saveRun` into an empty directory with
  contents `[run, bucket]`), or `"FileExistsError"`. -/
open Lean PyxelModel.J
namespace PyxelModel.C19

def asChars (j : Json) : R (List Char) := do pure (← asStr j).toList
def ofChars (l : List Char) : Json := Json.str (String.ofList l)

def decStart (j : Json) : R (List Char × List Char) :=
  match j with
  | .arr #[a, b] => do pure ((← asChars a), (← asChars b))
  | _ => .error "start: expected [prefix, stamp]"

def decBucket (j : Json) : R Bucket := do
  match (← asStr j) with
  | "photon" => pure .photon | "charge" => pure .charge | "pixel" => pure .pixel
  | "signal" => pure .signal | "image" => pure .image
  | b => .error s!"bucket {b}"

def bucketStr (b : Bucket) : String := String.ofList b.name

def decCombo (j : Json) : R (Bucket × List Char) :=
  match j with
  | .arr #[a, b] => do pure ((← decBucket a), (← asChars b))
  | _ => .error "combo: expected [bucket, ext]"

def decMode (j : Json) : R Mode := do
  match (← asStr j) with
  | "exposure" => pure .exposure | "sequential" => pure .sequential | "parallel" => pure .parallel
  | m => .error s!"mode {m}"

def handleDirs (j : Json) : R Json := do
  let fs ← asList asChars (← fld j "fs")
  let starts ← asList decStart (← fld j "starts")
  let sched ← asList asNat (← fld j "sched")
  let s := runSched (initSys fs starts) sched
  .ok (obj [("dirs", ofList (ofOpt ofChars) (s.procs.map (·.done))),
            ("attempts", ofList ofNat (s.procs.map (·.k))),
            ("fs", ofList ofChars s.fs)])

def handleCreate (j : Json) : R Json := do
  let fs ← asList asChars (← fld j "fs")
  match createDir (← asChars (← fld j "pre")) (← asChars (← fld j "stamp")) fs with
  | some (d, fs') => .ok (obj [("dir", ofChars d), ("fs", ofList ofChars fs')])
  | none => .error "createDir: out of fuel (impossible by createDir_terminates)"

def handleNames (j : Json) : R Json := do
  let m ← decMode (← fld j "mode")
  let combos ← asList decCombo (← fld j "combos")
  let n ← asNat (← fld j "runs")
  let data : Nat → Bucket → (Nat × Bucket) := fun r b => (r, b)
  let ops : List (WriteOp (Nat × Bucket)) :=
    match m with
    | .sequential => opsObservation data combos n
    | _ => (List.range n).flatMap (fun r => opsDirect m r (data r) combos)
  match saveRun ['d'] ([] : Files (Nat × Bucket)) ops with
  | none => .ok (obj [("model", Json.str "FileExistsError")])
  | some (fs, rep) =>
    let present := (fs.map (fun e => e.1.2)).eraseDups
    let holds := rep.map (fun nm =>
      match lookupF fs (['d'], nm) with
      | some (r, b) => Json.arr #[ofChars nm, ofNat r, Json.str (bucketStr b)]
      | none => Json.arr #[ofChars nm, Json.null, Json.null])
    .ok (obj [("model", obj [("reported", ofList ofChars rep), ("present", ofList ofChars present),
                             ("holds", Json.arr holds.toArray)])])

/-- `{"op":"autonames", "combos":[[bucket, ext], …], "saves":n, "existing":[numbers]}` → the files present after
`n` automatic saves of every combination (deprecated `exposure_mode`: one save per readout) -/
def handleAutoNames (j : Json) : R Json := do
  let combos ← asList decCombo (← fld j "combos")
  let n ← asNat (← fld j "saves")
  let existing ← asList asNat (fldD j "existing" (Json.arr #[]))
  let nums := autoSaves existing n
  let names := combos.flatMap (fun be => nums.map (fun k => fileName .sequential be.1 be.2 (k - 1)))
  .ok (obj [("model", obj [("numbers", ofList ofNat nums), ("present", ofList ofChars names),
                           ("text_sorted_next", ofNat (nextNumberTextSorted ((List.range n).map (· + 1))))])])

def handle (j : Json) : R Json := do
  match (← asStr (← fld j "op")) with
  | "dirs" => handleDirs j
  | "createDir" => handleCreate j
  | "names" => handleNames j
  | "autonames" => handleAutoNames j
  | o => .error s!"unknown op {o}"

end PyxelModel.C19
