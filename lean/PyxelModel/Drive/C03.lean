import PyxelModel.Core.J
import PyxelModel.Model.C03
/-! Line-protocol glue for C03.

request `{"op":"run","npix":n,"nd":b,"abs":[q…],"prior":snap,
          "steps":[[{"group":g,"name":m,"ops":[["set",bucket,dtype,[int…]]|["add",bucket,k]|["same",bucket]|["addat",bucket,[int…]]|
                 ["scale",bucket,k]|["moveto",bucket,[nat…]]|["zeroat",bucket,p]|["collect"]]}…]…]}`
answer  `{"snaps":[snap…],"record":{"times":[q…],"vars":{bucket:{"dt":d,"slices":[[int…]|null…]}}}|null,
          "debug":[[step,group,model,[[bucket,dtype,[int…]]…]]…],"debug_orig":[…],"image_orig":[…]}`
snap = `{"photon":null|[dtype,[int…]],…}`. -/
open Lean PyxelModel.J
namespace PyxelModel.C03

def asBk (j : Json) : R Bk := do
  match (← asStr j) with
  | "photon" => .ok .photon
  | "charge" => .ok .charge
  | "pixel" => .ok .pixel
  | "signal" => .ok .signal
  | "image" => .ok .image
  | s => .error s!"bad bucket {s}"

def bkName : Bk → String
  | .photon => "photon" | .charge => "charge" | .pixel => "pixel" | .signal => "signal" | .image => "image"

def asDt (j : Json) : R Dt := do
  match (← asStr j) with
  | "uint8" => .ok .u8
  | "uint16" => .ok .u16
  | "uint32" => .ok .u32
  | "uint64" => .ok .u64
  | "float16" => .ok .f16
  | "float32" => .ok .f32
  | "float64" => .ok .f64
  | s => .error s!"bad dtype {s}"

def dtName : Dt → String
  | .u8 => "uint8" | .u16 => "uint16" | .u32 => "uint32" | .u64 => "uint64"
  | .f16 => "float16" | .f32 => "float32" | .f64 => "float64"

def asArr' (j : Json) : R Arr :=
  match j with
  | .arr #[d, v] => do .ok ⟨← asDt d, ← asList asInt v⟩
  | _ => .error s!"bad array {j.compress}"

def ofArr (a : Arr) : Json := Json.arr #[Json.str (dtName a.dt), ofList ofInt a.vals]

def asSnap (j : Json) : R Snap := do
  .ok ⟨← asOpt asArr' (← fld j "photon"), ← asOpt asArr' (← fld j "charge"), ← asOpt asArr' (← fld j "pixel"),
       ← asOpt asArr' (← fld j "signal"), ← asOpt asArr' (← fld j "image")⟩

def ofSnap (s : Snap) : Json :=
  obj (Bk.all.map (fun b => (bkName b, ofOpt ofArr (s.get b))))

def asWrite (j : Json) : R WriteOp :=
  match j with
  | .arr #[.str "set", b, d, v] => do .ok (.set (← asBk b) ⟨← asDt d, ← asList asInt v⟩)
  | .arr #[.str "add", b, k] => do .ok (.add (← asBk b) (← asInt k))
  | .arr #[.str "same", b] => do .ok (.same (← asBk b))
  | .arr #[.str "addat", b, v] => do .ok (.addAt (← asBk b) (← asList asInt v))
  | .arr #[.str "scale", b, k] => do .ok (.scale (← asBk b) (← asInt k))
  | .arr #[.str "moveto", b, v] => do .ok (.moveTo (← asBk b) (← asList asNat v))
  | .arr #[.str "zeroat", b, k] => do .ok (.zeroAt (← asBk b) (← asNat k))
  | .arr #[.str "collect"] => .ok .collect
  | _ => .error s!"bad write {j.compress}"

def asModel (j : Json) : R ModelRun := do
  let ops ← asList asWrite (← fld j "ops")
  .ok ⟨← asStr (← fld j "group"), ← asStr (← fld j "name"), fun s => ops.foldl WriteOp.apply s⟩

def ofVar (v : Var) : Json :=
  obj [("dt", Json.str (dtName v.dt)), ("slices", ofList (ofOpt (ofList ofInt)) v.slices)]

def ofRec (r : Rec) : Json :=
  Json.arr #[ofNat r.step, Json.str r.group, Json.str r.name,
             ofList (fun p => Json.arr #[Json.str (bkName p.1), Json.str (dtName p.2.dt), ofList ofInt p.2.vals]) r.vars]

def handle (j : Json) : R Json := do
  let op ← asStr (← fld j "op")
  match op with
  | "run" =>
    let n ← asNat (← fld j "npix")
    let nd ← asBool (← fld j "nd")
    let abs ← asList asRat (← fld j "abs")
    let prior ← asSnap (← fld j "prior")
    let steps ← asList (asList asModel) (← fld j "steps")
    let sceneEmpty ← asBool (fldD j "scene_empty" (Json.bool true))
    let clashDebug ← asBool (fldD j "clash_debug" (Json.bool false))
    let clashFlat ← asBool (fldD j "clash_flat" (Json.bool false))
    let debugTree ← asBool (fldD j "debug_tree" (Json.bool false))
    if abs.length != steps.length then throw "abs/steps length mismatch"
    let (snaps, recs) := runDebug n nd prior steps
    let plain := runPlain n nd prior steps
    let rec' := match record stdNumerics (abs.zip snaps) with
      | none => Json.null
      | some t => obj [("times", ofList ofRat t.times),
                       ("vars", obj (Bk.all.map (fun b => (bkName b, ofVar (t.get b)))))]
    .ok (obj [("snaps", ofList ofSnap snaps), ("snaps_plain", ofList ofSnap plain), ("record", rec'),
              ("layout", Json.arr #[Json.str (layoutKey false sceneEmpty clashFlat), Json.str (layoutKey true sceneEmpty),
                                    Json.str (layoutKey debugTree sceneEmpty clashDebug)]),
              ("debug", ofList ofRec recs),
              ("debug_orig", ofList ofRec (runDebugOrigFrom n nd 0 (prior.emptied n true) none steps)),
              ("image_orig", ofList (ofOpt (ofList ofInt)) (imageOrig (snaps.map (·.image))))])
  | _ => .error s!"unknown op {op}"

end PyxelModel.C03
