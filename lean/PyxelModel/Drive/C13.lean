import PyxelModel.Core.J
import PyxelModel.Model.C13
import PyxelModel.Generated.C13
/-! Line-protocol glue for C13.

`{"op":"run","kind":"pixel","rows":3,"cols":4,"ops":[["set",<operand>],["update",<operand>|null],
  ["iadd",<operand>],["set3",<operand>],["adopt",<operand>|null],["emptyAll",bool],["load",<operand>|null,sameType,sameGeo],["empty"],["read"],["read3"],["dtype"],["shape"]]}`
  → `{"model":[{"out":"ok"|"TypeError"|…,"obs":…,"state":null|{…},"inv":bool}, …]}` (one entry per op)
`{"op":"eq","a":<box>,"b":<box>}` → `{"model":bool,"spec":bool}`; a box is
  `{"kind":…,"rows":…,"cols":…,"st":null|{"is3d":bool,"shape":[…],"dt":"…","tok":"…"}}`
operands: `{"t":"nd","isNd":bool,"shape":[…],"dt":"float64","neg":bool,"id":n}`,
  `{"t":"xr","dims":"std"|"yx"|"other","coord":bool,"shape":[…],"dt":…,"neg":bool,"id":n}`, `{"t":"pyint","v":n,"id":n}`.
The `TYPE_LIST` table is the one regenerated from today's source. -/
open Lean PyxelModel.J
namespace PyxelModel.C13

def decKind (j : Json) : R Kind := do
  let s ← asStr j
  match Kind.all.find? (fun k => k.className.toLower == s) with
  | some k => .ok k
  | none => .error s!"unknown kind {s}"

def decDType (j : Json) : R DType := do
  let s ← asStr j
  .ok (DType.ofName s)

def decOperand (j : Json) : R Operand := do
  let t ← asStr (← fld j "t")
  match t with
  | "nd" => .ok (.nd (← asBool (← fld j "isNd")) (← asList asNat (← fld j "shape"))
              (← decDType (← fld j "dt")) (← asBool (← fld j "neg")) (← asNat (← fld j "id")))
  | "xr" =>
    let dims ← match ← asStr (← fld j "dims") with
      | "std" => pure Dims.std
      | "yx" => pure Dims.yx
      | "other" => pure Dims.other
      | s => throw s!"unknown dims {s}"
    .ok (.xr dims (← asBool (← fld j "coord"))
              (← asList asNat (← fld j "shape")) (← decDType (← fld j "dt"))
              (← asBool (← fld j "neg")) (← asNat (← fld j "id")))
  | "pyint" => .ok (.pyint (← asInt (← fld j "v")) (← asNat (← fld j "id")))
  | _ => .error s!"unknown operand type {t}"

def decOp (j : Json) : R Op := do
  match j with
  | .arr #[n] =>
    match ← asStr n with
    | "empty" => .ok .empty
    | "read" => .ok .read
    | "read3" => .ok .read3
    | "dtype" => .ok .readDtype
    | "shape" => .ok .readShape
    | s => .error s!"unknown nullary op {s}"
  | .arr #[n, v] =>
    match ← asStr n with
    | "set" => .ok (.set (← decOperand v))
    | "set3" => .ok (.set3 (← decOperand v))
    | "iadd" => .ok (.iadd (← decOperand v))
    | "update" => .ok (.update (← asOpt decOperand v))
    | "emptyAll" => .ok (.emptyAll (← asBool v))
    | "adopt" => .ok (.adopt (← asOpt decOperand v))
    | s => .error s!"unknown unary op {s}"
  | .arr #[n, v, t, g] =>
    match ← asStr n with
    | "load" => .ok (.load (← asOpt decOperand v) (← asBool t) (← asBool g))
    | s => .error s!"unknown ternary op {s}"
  | _ => .error "op: expected [name] or [name, operand]"

def encContent : Content → Json
  | .input i _ => Json.arr #[Json.str "input", ofNat i]
  | .clipped i => Json.arr #[Json.str "clip", ofNat i]
  | .plus c i => Json.arr #[Json.str "plus", encContent c, ofNat i]
  | .zeros => Json.arr #[Json.str "zeros"]
  | .timesZero c => Json.arr #[Json.str "times0", encContent c]

def encArr (a : Arr Content) : Json :=
  obj [("is3d", Json.bool a.is3d), ("shape", ofList ofNat a.shape), ("dt", Json.str a.dtype.name),
       ("content", encContent a.content)]

def encErr : Err → String
  | .typeError => "TypeError" | .valueError => "ValueError" | .attributeError => "AttributeError"
  | .overflowError => "Other:OverflowError"

def encObs : Obs → Json
  | .unit => Json.null
  | .arr a => encArr a
  | .dtype d => Json.str d.name
  | .shape s => ofList ofNat s

def encStep (k : Kind) (rows cols : Nat) (r : State × Outcome) : Json :=
  let (o, obs) := match r.2 with
    | .ok x => ("ok", encObs x)
    | .error e => (encErr e, Json.null)
  obj [("out", Json.str o), ("obs", obs), ("state", ofOpt encArr r.1),
       ("inv", Json.bool (invB k rows cols r.1))]

def decBox (j : Json) : R (Box String) := do
  let k ← decKind (← fld j "kind")
  let rows ← asNat (← fld j "rows")
  let cols ← asNat (← fld j "cols")
  let st ← asOpt (fun s => do
      .ok (⟨← asBool (← fld s "is3d"), ← asList asNat (← fld s "shape"),
            ← decDType (← fld s "dt"), ← asStr (← fld s "tok")⟩ : Arr String)) (← fld j "st")
  .ok ⟨k, rows, cols, st⟩

def handle (j : Json) : R Json := do
  match ← asStr (← fld j "op") with
  | "run" =>
    let k ← decKind (← fld j "kind")
    let rows ← asNat (← fld j "rows")
    let cols ← asNat (← fld j "cols")
    let ops ← asList decOp (← fld j "ops")
    let c : Cfg := ⟨tableOf PyxelModel.Generated.C13.typeLists, k, rows, cols⟩
    .ok (obj [("model", ofList (encStep k rows cols) (runFrom c none ops))])
  | "eq" =>
    let a ← decBox (← fld j "a")
    let b ← decBox (← fld j "b")
    .ok (obj [("model", Json.bool (eqOp a b)), ("spec", Json.bool (eqSpecB a b))])
  | s => .error s!"unknown op {s}"

end PyxelModel.C13
