import PyxelModel.Core.J
import PyxelModel.Model.C16
import PyxelModel.Generated.C16
/-! Line-protocol glue for C16.  Doubles travel as decimal strings of their 64-bit patterns.
`q` = rational model with `rn53`, `f` = `Float` model, `…_asis` = the pinned tree's algorithm. -/
open Lean PyxelModel.J
namespace PyxelModel.C16

def encCode : Except String Nat → Json
  | .ok n => ofNat n
  | .error e => Json.str e

def finite (b : Nat) : R Rat :=
  match ofBits b with
  | some (.fin q) => .ok q
  | _ => .error s!"not a finite double: {b}"

def xv (b : Nat) : R XV :=
  match ofBits b with
  | some x => .ok x
  | none => .error "NaN voltage"

def handle (j : Json) : R Json := do
  let op ← asStr (← fld j "op")
  match op with
  | "dtype" =>
    let b ← asNat (← fld j "bits")
    .ok (obj [("model", ofOpt ofNat (dtypeWidth b)),
              ("table", ofOpt ofNat ((PyxelModel.Generated.C16.dtypeTable.find? (·.1 == b)).bind (·.2)))])
  | "rn" =>
    let x ← asRat (← fld j "x")
    .ok (obj [("rn", ofRat (rn53 x))])
  | "simple" =>
    let bits ← asNat (← fld j "bits")
    let w ← asNat (← fld j "w")
    let vminB ← asNat (← fld j "vmin")
    let vmaxB ← asNat (← fld j "vmax")
    let vs ← asList asNat (← fld j "vs")
    let vmin ← finite vminB
    let vmax ← finite vmaxB
    let xs ← vs.mapM xv
    let fmin := Float.ofBits vminB.toUInt64
    let fmax := Float.ofBits vmaxB.toUInt64
    let fs := vs.map (fun b => Float.ofBits b.toUInt64)
    .ok (obj [("q", ofList (fun x => encCode (simpleAdc rn53 bits w vmin vmax x)) xs),
              ("f", ofList (fun x => encCode (simpleAdcF bits w fmin fmax x)) fs),
              ("q_asis", ofList (fun x => encCode (simpleAdcAsIs rn53 bits w vmin vmax x)) xs),
              ("f_asis", ofList (fun x => encCode (simpleAdcAsIsF bits w fmin fmax x)) fs)])
  | "sar" =>
    let bits ← asNat (← fld j "bits")
    let w ← asNat (← fld j "w")
    let vmaxB ← asNat (← fld j "vmax")
    let vs ← asList asNat (← fld j "vs")
    let vmax ← finite vmaxB
    let xs ← vs.mapM xv
    let fmax := Float.ofBits vmaxB.toUInt64
    let fs := vs.map (fun b => Float.ofBits b.toUInt64)
    .ok (obj [("q", ofList (fun x => ofNat (sar rn53 bits w vmax x)) xs),
              ("f", ofList (fun x => ofNat (sarF bits w fmax x)) fs),
              ("ideal", ofList (fun x => ofNat (sarIdeal rn53 bits vmax x)) xs),
              ("q_asis", ofList (fun x => encCode (sarAsIs rn53 bits w vmax x)) xs),
              ("f_asis", ofList (fun x => encCode (sarAsIsF bits w fmax x)) fs)])
  | "sar_noise" =>
    let bits ← asNat (← fld j "bits")
    let w ← asNat (← fld j "w")
    let vmaxB ← asNat (← fld j "vmax")
    let vs ← asList asNat (← fld j "vs")
    let ds ← asList asNat (← fld j "draws")
    let vmax ← finite vmaxB
    let xs ← vs.mapM xv
    let dq ← ds.mapM finite
    let fmax := Float.ofBits vmaxB.toUInt64
    let fs := vs.map (fun b => Float.ofBits b.toUInt64)
    let df := ds.map (fun b => Float.ofBits b.toUInt64)
    let encQ : XV → Json := fun x =>
      match x with
      | .fin q => ofOpt ofNat (sarNoise rn53 bits w vmax dq q)
      | _ => Json.str "inf"
    .ok (obj [("q", ofList encQ xs),
              ("f", ofList (fun x => ofOpt ofNat (sarNoiseF bits w fmax df x)) fs)])
  | _ => .error s!"unknown op {op}"

end PyxelModel.C16
