import PyxelModel.Core.J
import PyxelModel.Model.C12
import PyxelModel.Generated.C12
/-! Line-protocol glue for C12.

numbers: `{"q": [num, den]}` | `"nan"` | `"pinf"` | `"ninf"`.
ops: `guard` (class, field, number → does the constructor's / the setter's test of today's source hold, is the
number inside the documented range), `build` (keys present in the YAML mapping → mode and detector built, or the
error), `load` (class, [[field, number]…] → the section is accepted with these values / refused). -/
open Lean PyxelModel.J
namespace PyxelModel.C12
open PyxelModel.Generated.C12

def decNum (j : Json) : R Num :=
  match j with
  | .str "nan" => .ok .nan
  | .str "pinf" => .ok .pinf
  | .str "ninf" => .ok .ninf
  | _ => do .ok (.fin (← asRat (← fld j "q")))

def encErr : Err → Json
  | .value => "ValueError"
  | .key => "KeyError"

def handle (j : Json) : R Json := do
  let op ← asStr (← fld j "op")
  match op with
  | "guard" =>
    let cls ← asStr (← fld j "cls")
    let f ← asStr (← fld j "field")
    let x ← decNum (← fld j "x")
    match table.find? (fun e => e.cls = cls ∧ e.field = f) with
    | none => .ok (obj [("found", Json.bool false)])
    | some e =>
      .ok (obj [("found", Json.bool true),
                ("ctor_raises", Json.bool (raises e.ctor x)),
                ("setter_raises", Json.bool (raises e.setter x)),
                ("in_range", match specOf cls f with | some r => Json.bool (inRange r x) | none => Json.null),
                ("nan_silent", Json.bool (nanSilent cls f))])
  | "build" =>
    let present ← asList asStr (← fld j "present")
    match buildConfiguration modeKeys detKeys modeDispatch detDispatch modeOp detOp present with
    | .ok (m, d) => .ok (obj [("ok", Json.arr #[Json.str m, Json.str d]), ("spec_agrees", Json.bool (sameResult (.ok (m, d)) (specBuild present)))])
    | .error e => .ok (obj [("err", encErr e), ("spec_agrees", Json.bool (sameResult (.error e) (specBuild present)))])
  | "load" =>
    let cls ← asStr (← fld j "cls")
    let kv ← asList (fun e => match e with
      | .arr #[k, v] => do pure ((← asStr k), (← decNum v))
      | _ => throw "kv: expected [field, number]") (← fld j "kv")
    match loadSection table cls kv with
    | .ok _ => .ok (obj [("ok", Json.bool true)])
    | .error e => .ok (obj [("err", encErr e)])
  | "apd" =>
    let g ← asOpt asRat (← fld j "gain")
    let p ← asOpt asRat (← fld j "prv")
    let c ← asOpt asRat (← fld j "cv")
    .ok (obj [("accepted", Json.bool (apdSpec g p c))])
  | _ => .error s!"unknown op {op}"

end PyxelModel.C12
