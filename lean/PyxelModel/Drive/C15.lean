import PyxelModel.Core.J
import PyxelModel.Model.C15
/-! Line-protocol glue for C15.  Exact numbers travel as `[num, den]` rationals (the doubles of the
implementation, converted exactly); the CDM request carries doubles as 64-bit patterns. -/
open Lean PyxelModel.J
namespace PyxelModel.C15

def decSpecies (j : Json) : R (Species Rat) := do
  match j with
  | .arr #[d, tf, cap] => .ok ⟨← asRat d, ← asRat tf, ← asOpt asRat cap⟩
  | _ => .error "species: expected [dens, tf, cap|null]"

def encState (st : Rat × List Rat) : Json := Json.arr #[ofRat st.1, ofList ofRat st.2]

/-- states after every step (glue: unfolds `persistRun` one step at a time) -/
def trace (step : Rat → List (Species Rat × Rat) → Rat × List Rat) (sp : List (Species Rat)) :
    List Rat → Rat × List Rat → List (Rat × List Rat)
  | [], _ => []
  | a :: as, st =>
    let st' := step (st.1 + a) (sp.zip st.2)
    st' :: trace step sp as st'

def handle (j : Json) : R Json := do
  let op ← asStr (← fld j "op")
  match op with
  | "collect" =>
    let p ← asList asRat (← fld j "pixel")
    let c ← asList asRat (← fld j "charge")
    .ok (obj [("model", ofList ofRat (collect p c))])
  | "collect_seq" =>
    -- every step: reset flag + list of contributions (full frames); answers the pixel frame after every step
    let p0 ← asList asRat (← fld j "pixel0")
    let steps ← asList (fun e => do
      let r ← asBool (← fld e "reset")
      let cs ← asList (asList asRat) (← fld e "contributions")
      .ok (r, cs)) (← fld j "steps")
    let zero : List Rat := p0.map (fun _ => 0)
    let rec go : List Rat → List (Bool × List (List Rat)) → List (List Rat)
      | _, [] => []
      | p, (r, cs) :: rest =>
        let p' := collect (if r then zero else p) (generated zero cs)
        p' :: go p' rest
    .ok (obj [("model", ofList (ofList ofRat) (go p0 steps))])
  | "qe" =>
    let q ← asRat (← fld j "qe")
    let ph ← asList asRat (← fld j "photons")
    .ok (obj [("model", ofList ofRat (applyQE q ph))])
  | "fullwell" =>
    let f ← asRat (← fld j "fwc")
    let xs ← asList asRat (← fld j "xs")
    let once := fullWell f xs
    .ok (obj [("model", ofList ofRat once), ("twice", ofList ofRat (fullWell f once))])
  | "ipc" =>
    let c ← asRat (← fld j "c")
    let d ← asRat (← fld j "d")
    let a ← asRat (← fld j "a")
    let g ← asList (asList asRat) (← fld j "grid")
    match ipc c d a g with
    | .error e => .ok (obj [("error", Json.str e)])
    | .ok out =>
      let ksum := match ipcKernel c d a with
        | .ok k => ofRat k.sum
        | .error _ => Json.null
      .ok (obj [("model", ofList (ofList ofRat) out), ("kernel_sum", ksum)])
  | "persist" =>
    -- one pixel per entry: species list, initial state, charge arriving before each step
    let px ← asList (fun e => do
      let sp ← asList decSpecies (← fld e "species")
      let p0 ← asRat (← fld e "pixel")
      let t0 ← asList asRat (← fld e "trapped")
      let adds ← asList asRat (← fld e "adds")
      if t0.length != sp.length then .error "trapped/species length mismatch" else
      .ok (sp, (p0, t0), adds)) (← fld j "pixels")
    .ok (obj [("model", ofList (fun (e : List (Species Rat) × (Rat × List Rat) × List Rat) =>
                  ofList encState (trace persistPixel e.1 e.2.2 e.2.1)) px),
              ("asis", ofList (fun (e : List (Species Rat) × (Rat × List Rat) × List Rat) =>
                  ofList encState (trace persistPixelAsIs e.1 e.2.2 e.2.1)) px)])
  | "cdm" =>
    let fl := fun (k : String) => do asFloatBits (← fld j k)
    let β ← fl "beta"
    let vg ← fl "vg"
    let t ← fl "t"
    let fwc ← fl "fwc"
    let vth ← fl "vth"
    let tr ← asList asFloatBits (← fld j "tr")
    let nt ← asList asFloatBits (← fld j "nt")
    let sg ← asList asFloatBits (← fld j "sigma")
    let ci ← asBool (← fld j "charge_injection")
    let n ← asNat (← fld j "transfers")
    let lines ← asList (asList asFloatBits) (← fld j "lines")
    if tr.length != nt.length || sg.length != nt.length then .error "species lists differ in length" else
    .ok (obj [("model", ofList (ofList ofFloatBits) (cdmLinesF β vg t fwc vth tr nt sg ci n lines))])
  | _ => .error s!"unknown op {op}"

end PyxelModel.C15
