import PyxelModel.Core.J
import PyxelModel.Model.C18
import PyxelModel.Generated.C18
import PyxelModel.Lemmas.C18Tables
/-! Line-protocol glue for C18.  Contents are opaque tokens (the harness sends digests of its
field-by-field snapshots); `null` = uninitialised container / property `None`.

* `{"op":"roundtrip", ty, shape:[r,c], props:{k:tok}, store:{k:tok}}` → `load (save d)` with
  today's tables: `{"ok": {props, store}}` (over the constructor parameters / containers of the type)
  or `{"err": key}`.
* `{"op":"pipeline", ty, shape, init:{k:tok}, steps:[["write",k,tok] | ["load",ty,[r,c],{k:tok}]]}` →
  final containers under the repaired load model (`model`) and under the unrepaired one (`noop`). -/
open Lean PyxelModel.J
namespace PyxelModel.C18

def asTok (j : Json) : R (Option String) := asOpt asStr j

def decStore (j : Json) : R (Store String) := do
  match j with
  | .obj kvs =>
    let l ← kvs.toList.mapM (fun (kv : String × Json) => do pure (kv.1, ← asTok kv.2))
    pure (fun k => getD l k)
  | _ => .error "store: expected an object"

def decShape (j : Json) : R (Nat × Nat) :=
  match j with
  | .arr #[a, b] => do pure ((← asNat a), (← asNat b))
  | _ => .error "shape"

def encStore (keys : List String) (s : Store String) : Json :=
  obj (keys.map (fun k => (k, ofOpt Json.str (s k))))

def handleRoundtrip (j : Json) : R Json := do
  let ty ← asStr (← fld j "ty")
  let t := tablesOf ty
  let d : Det String := ⟨ty, ← decShape (← fld j "shape"), ← decStore (← fld j "props"), ← decStore (← fld j "store")⟩
  match load t (save t d) with
  | .error k => .ok (obj [("model", obj [("err", Json.str k)])])
  | .ok d' => .ok (obj [("model", obj [("ok", obj [("ty", Json.str d'.ty),
      ("shape", Json.arr #[ofNat d'.shape.1, ofNat d'.shape.2]),
      ("props", encStore t.ctorParams d'.props), ("store", encStore t.containers d'.store)])])])

def decStep (j : Json) : R (Step String) :=
  match j with
  | .arr #[.str "write", k, v] => do pure (.write (← asStr k) (← asTok v))
  | .arr #[.str "load", ty, sh, st] => do pure (.load (← asStr ty) (← decShape sh) (← decStore st))
  | _ => .error s!"step: {j.compress}"

def isLoad : Step String → Bool
  | .load .. => true
  | _ => false

/-- states after every load step, under the shared-cache variant (seeded defect C18-2) -/
def traceShared : Shared String → List (Step String) → List (Option (Running String))
  | _, [] => []
  | w, s :: ss =>
    match runStepShared w s with
    | .error _ => [none]
    | .ok w' => (if isLoad s then [some w'.run] else []) ++ traceShared w' ss

def handlePipeline (j : Json) : R Json := do
  let ty ← asStr (← fld j "ty")
  let keys := (tablesOf ty).containers
  let r0 : Running String := ⟨ty, ← decShape (← fld j "shape"), ← decStore (← fld j "init")⟩
  let steps ← asList decStep (← fld j "steps")
  let enc (r : Except String (Running String)) : Json :=
    match r with
    | .ok r => obj [("ok", encStore keys r.store)]
    | .error e => obj [("err", Json.str e)]
  -- what the model placed right after each execution of the load model sees
  let loads : Json :=
    match runTrace runStep r0 steps with
    | .error e => obj [("err", Json.str e)]
    | .ok tr => obj [("ok", Json.arr (((steps.zip tr).filter (fun p => isLoad p.1)).map
        (fun p => encStore keys p.2.store)).toArray)]
  let shared : Json := Json.arr ((traceShared ⟨r0, none, false⟩ steps).map
    (fun o => match o with | some r => encStore keys r.store | none => Json.null)).toArray
  .ok (obj [("model", enc (runSteps runStep r0 steps)), ("noop", enc (runSteps runStepNoop r0 steps)),
            ("loads", loads), ("shared_loads", shared)])

def handle (j : Json) : R Json := do
  match (← asStr (← fld j "op")) with
  | "roundtrip" => handleRoundtrip j
  | "pipeline" => handlePipeline j
  | o => .error s!"unknown op {o}"

end PyxelModel.C18
