/-!
# C20 — model of image placement and of the memoised loader

Mirrors, in `pyxel/util/image.py`:

* `_set_relative_position`  → `relPos`  (five alignment keywords; `int((o - a) / 2)` is truncation
  toward zero = `Int.tdiv`, exact for |o - a| < 2^53, i.e. every array numpy can hold);
* `fit_into_array`          → `fitIntoArray` (guard `allow_smaller_array`, alignment overriding the
  explicit offset, the two `np.intersect1d` overlap tests with their three distinct messages, then
  crop + paste into `np.zeros(output_shape)`);
* `load_cropped_and_aligned_image` → `memoLoad` — the code **as repaired** by
  `proposed_fixes/C20-stale-image-cache.diff`: the `lru_cache` key is the argument tuple *plus*
  the identity `(st_ino, st_size, st_mtime_ns)` of the file that the path names now; a file whose
  identity cannot be read (remote URL, missing) bypasses the cache.  `memoLoadStale` is the
  unrepaired code (key = arguments only).

One axis is `place1`: the offset `p : Int` of `fit_into_array` is split into the two naturals
`pad = max p 0` (leading zeros in the output) and `skip = max (-p) 0` (leading input cells cut).
An image is a list of rows together with its column count (`np.ndarray.shape` of a `(0, k)` array
still knows `k`).

The second half models `load_image`'s text branch: the loop over the five separators with
`np.loadtxt(..., delimiter=sep, ndmin=2)` (`parseWith`, `detectAndParse`).
-/
namespace PyxelModel.C20

/-! ## one axis -/

def padOf (p : Int) : Nat := p.toNat
def skipOf (p : Int) : Nat := (-p).toNat

/-- crop + paste along one axis, no overlap test (total) -/
def placeT {α} (z : α) (n : Nat) (a : List α) (pad skip : Nat) : List α :=
  let body := (a.drop skip).take (n - pad)
  List.replicate pad z ++ body ++ List.replicate (n - pad - body.length) z

/-- `np.intersect1d(range(p, p + len a), range(n)).size != 0` -/
def overlaps (n alen pad skip : Nat) : Bool := decide (pad < n ∧ skip < alen)

def place1 {α} (z : α) (n : Nat) (a : List α) (pad skip : Nat) : Option (List α) :=
  if overlaps n a.length pad skip then some (placeT z n a pad skip) else none

/-- the statement's wording for one axis, with pad/skip naturals -/
def spec1 {α} (z : α) (a : List α) (pad skip i : Nat) : α :=
  if pad ≤ i ∧ i - pad + skip < a.length then a.getD (i - pad + skip) z else z

/-- the statement's wording for one axis, with the integer offset: output cell `i` receives input
cell `i - p` if that index exists, else zero -/
def specInt {α} (z : α) (a : List α) (p : Int) (i : Nat) : α :=
  let k : Int := (i : Int) - p
  if 0 ≤ k ∧ k < (a.length : Int) then a.getD k.toNat z else z

/-! ## two axes -/

structure Img (α : Type) where
  rows : List (List α)
  cols : Nat
deriving DecidableEq, Repr

def Img.WF {α} (m : Img α) : Prop := ∀ r ∈ m.rows, r.length = m.cols

inductive Align | center | topLeft | topRight | bottomLeft | bottomRight
deriving DecidableEq, Repr

def Align.all : List Align := [.center, .topLeft, .topRight, .bottomLeft, .bottomRight]

/-- the keyword strings of `class Alignment(Enum)` -/
def Align.name : Align → String
  | .center => "center" | .topLeft => "top_left" | .topRight => "top_right"
  | .bottomLeft => "bottom_left" | .bottomRight => "bottom_right"

inductive Err | tooSmall | noOverlapYX | noOverlapY | noOverlapX
deriving DecidableEq, Repr

/-- `_set_relative_position` : (y, x) offset of input pixel (0, 0) in output coordinates -/
def relPos (ay ax oy ox : Nat) : Align → Int × Int
  | .center      => (Int.tdiv ((oy : Int) - ay) 2, Int.tdiv ((ox : Int) - ax) 2)
  | .topLeft     => ((oy : Int) - ay, 0)
  | .topRight    => ((oy : Int) - ay, (ox : Int) - ax)
  | .bottomLeft  => (0, 0)
  | .bottomRight => (0, (ox : Int) - ax)

/-- the offset actually used: `if align: relative_position = _set_relative_position(...)` -/
def effPos {α} (m : Img α) (oy ox : Nat) (pos : Int × Int) : Option Align → Int × Int
  | some a => relPos m.rows.length m.cols oy ox a
  | none => pos

def paste {α} (z : α) (m : Img α) (oy ox : Nat) (p : Int × Int) : List (List α) :=
  placeT (List.replicate ox z) oy
    (m.rows.map (fun r => placeT z ox r (padOf p.2) (skipOf p.2))) (padOf p.1) (skipOf p.1)

def fitIntoArray {α} (z : α) (m : Img α) (oy ox : Nat) (pos : Int × Int) (align : Option Align)
    (allowSmaller : Bool) : Except Err (List (List α)) :=
  let ay := m.rows.length
  let ax := m.cols
  if !allowSmaller && (decide (ay < oy) || decide (ax < ox)) then .error .tooSmall else
  let p := effPos m oy ox pos align
  let okY := overlaps oy ay (padOf p.1) (skipOf p.1)
  let okX := overlaps ox ax (padOf p.2) (skipOf p.2)
  if !okY && !okX then .error .noOverlapYX
  else if !okY then .error .noOverlapY
  else if !okX then .error .noOverlapX
  else .ok (paste z m oy ox p)

/-- the statement: detector pixel `(i, j)` receives the input pixel the offset places there, zero
where the input does not reach -/
def specPix {α} (z : α) (m : Img α) (p : Int × Int) (i j : Nat) : α :=
  let r : Int := (i : Int) - p.1
  let c : Int := (j : Int) - p.2
  if 0 ≤ r ∧ r < (m.rows.length : Int) ∧ 0 ≤ c ∧ c < (m.cols : Int)
  then (m.rows.getD r.toNat []).getD c.toNat z else z

def getPix {α} (z : α) (g : List (List α)) (i j : Nat) : α := (g.getD i []).getD j z

/-- the index ranges `[p, p + alen)` of the input and `[0, n)` of the output share no integer -/
def Disjoint1 (n alen : Nat) (p : Int) : Prop :=
  ∀ k : Int, ¬ (p ≤ k ∧ k < p + alen ∧ 0 ≤ k ∧ k < n)

/-! ## the memoised loader (repaired keying) -/

/-- what `os.stat` + `open` see of one path: `ident = none` when the file cannot be stat-ed
(remote URL) -/
structure File (C : Type) where
  ident : Option Nat
  content : C

abbrev FS (C : Type) := String → Option (File C)

/-- the `lru_cache` key: the file *name as given* (not resolved), the other arguments, and the
identity of the file the name designates now -/
structure Key (A : Type) where
  name : String
  args : A
  ident : Nat
deriving DecidableEq

abbrev Cache (A V : Type) := List (Key A × V)

def Cache.find {A V} [DecidableEq A] (c : Cache A V) (k : Key A) : Option V :=
  match c.find? (fun e => e.1 == k) with
  | some e => some e.2
  | none => none

/-- repaired `load_cropped_and_aligned_image`.  `rpath` is the path the loader actually opens:
the name resolved against the working directory (`resolve_with_working_directory`); the identity
in the key is the identity of **that** file.  `evict` is whatever `lru_cache` drops/reorders. -/
def memoLoad {A C V} [DecidableEq A] (f : A → C → V) (evict : Cache A V → Cache A V)
    (cache : Cache A V) (fs : FS C) (name rpath : String) (args : A) : Option V × Cache A V :=
  match fs rpath with
  | none => (none, cache)                       -- OSError: nothing is cached for a raising call
  | some file =>
    match file.ident with
    | none => (some (f args file.content), cache)          -- no identity: cache bypassed
    | some id =>
      match cache.find ⟨name, args, id⟩ with
      | some v => (some v, cache)
      | none =>
        let v := f args file.content
        (some v, evict ((⟨name, args, id⟩, v) :: cache))

/-- the unrepaired code: key = (name, args) only (modelled with a constant identity) -/
def memoLoadStale {A C V} [DecidableEq A] (f : A → C → V)
    (cache : Cache A V) (fs : FS C) (name rpath : String) (args : A) : Option V × Cache A V :=
  match cache.find ⟨name, args, 0⟩ with
  | some v => (some v, cache)
  | none =>
    match fs rpath with
    | none => (none, cache)
    | some file =>
      let v := f args file.content
      (some v, (⟨name, args, 0⟩, v) :: cache)

/-- a wrong repair (seeded defect C20-2): the identity is taken from the name *as given* while the
content is read from the resolved path -/
def memoLoadUnresolvedIdent {A C V} [DecidableEq A] (f : A → C → V)
    (cache : Cache A V) (fs : FS C) (name rpath : String) (args : A) : Option V × Cache A V :=
  match fs rpath with
  | none => (none, cache)
  | some file =>
    match (fs name).bind (·.ident) with
    | none => (some (f args file.content), cache)
    | some id =>
      match cache.find ⟨name, args, id⟩ with
      | some v => (some v, cache)
      | none => (some (f args file.content), (⟨name, args, id⟩, f args file.content) :: cache)

/-- an aliasing counter-model (seeded defect C20-5): `memoLoad` returns a *value*; here the caller receives
the cached object itself and scales it in place with `g` (e.g. `photon_array *= …`), so the cache entry of
that key changes too -/
def memoLoadAliased {A C V} [DecidableEq A] (f : A → C → V) (g : V → V)
    (cache : Cache A V) (fs : FS C) (name rpath : String) (args : A) : Option V × Cache A V :=
  match memoLoad f (fun c => c) cache fs name rpath args with
  | (some v, c) =>
    (some (g v), c.map (fun e => if e.1.name = name ∧ e.1.args = args then (e.1, g e.2) else e))
  | (none, c) => (none, c)

/-- events of one process's history -/
inductive Ev (A C : Type)
  | write (path : String) (content : C) (statable : Bool)   -- (re)write a file (absolute path)
  | remove (path : String)
  | setwd (wd : String)                                     -- `pyxel.set_options(working_directory=…)`
  | load (name : String) (args : A)                         -- a model loads `name` (maybe relative)
  | chdir (dir : String)                                    -- the process changes its current directory
  | link (path target : String)                             -- a symbolic link is created / re-pointed

/-- everything a name's meaning depends on besides the name: the working directory option, the process's current
directory and the symbolic links -/
structure Env where
  wd : String
  cwd : String
  links : List (String × String)

structure World (A C V : Type) where
  fs : FS C
  clock : Nat                 -- source of fresh identities: every write gets a new one
  env : Env
  cache : Cache A V

def World.init {A C V} : World A C V := ⟨fun _ => none, 1, ⟨"", "cwd", []⟩, []⟩

/-- one event; returns the loader's answer for `load` events.  `resolve env name` is the file that
`name` designates now (working directory, current directory, symbolic links). -/
def step {A C V} [DecidableEq A] (resolve : Env → String → String) (f : A → C → V)
    (evict : Cache A V → Cache A V) (w : World A C V) : Ev A C → World A C V × Option (Option V)
  | .write p c st =>
    ({ w with fs := fun q => if q = p then some ⟨if st then some w.clock else none, c⟩ else w.fs q,
              clock := w.clock + 1 }, none)
  | .remove p => ({ w with fs := fun q => if q = p then none else w.fs q }, none)
  | .setwd d => ({ w with env := { w.env with wd := d } }, none)
  | .chdir d => ({ w with env := { w.env with cwd := d } }, none)
  | .link p t => ({ w with env := { w.env with links := (p, t) :: w.env.links } }, none)
  | .load n a =>
    let r := memoLoad f evict w.cache w.fs n (resolve w.env n) a
    ({ w with cache := r.2 }, some r.1)

/-- the uncached reference: read the designated file now and place it -/
def stepSpec {A C V} (resolve : Env → String → String) (f : A → C → V) (fs : FS C)
    (env : Env) : Ev A C → Option (Option V)
  | .load n a => some ((fs (resolve env n)).map (fun file => f a file.content))
  | _ => none

def run {A C V} [DecidableEq A] (resolve : Env → String → String) (f : A → C → V)
    (evict : Cache A V → Cache A V) : World A C V → List (Ev A C) → List (Option (Option V))
  | _, [] => []
  | w, e :: es => (step resolve f evict w e).2 :: run resolve f evict (step resolve f evict w e).1 es

/-- the same history without any cache -/
def runSpec {A C V} [DecidableEq A] (resolve : Env → String → String) (f : A → C → V)
    (evict : Cache A V → Cache A V) : World A C V → List (Ev A C) → List (Option (Option V))
  | _, [] => []
  | w, e :: es =>
    stepSpec resolve f w.fs w.env e :: runSpec resolve f evict (step resolve f evict w e).1 es

/-- follow symbolic links (newest binding first), at most `fuel` times -/
def followLinks (links : List (String × String)) : Nat → String → String
  | 0, p => p
  | fuel + 1, p =>
    match links.lookup p with
    | some t => followLinks links fuel t
    | none => p

/-- `complete_path` + `Path.resolve()`: an absolute name is kept, a relative one is joined to the working
directory (no working directory: to the process's current directory); then symbolic links are followed -/
def resolvePath (env : Env) (name : String) : String :=
  let p := if name.startsWith "/" then name else if env.wd = "" then env.cwd ++ "/" ++ name else env.wd ++ "/" ++ name
  followLinks env.links 8 p

/-- a wrong variant (seeded defect C20-9): the resolution of a name is remembered the first time and reused,
whatever the links and the current directory have become -/
def resolveMemo (memo : List (String × String)) (env : Env) (name : String) : String × List (String × String) :=
  match memo.lookup name with
  | some p => (p, memo)
  | none => (resolvePath env name, (name, resolvePath env name) :: memo)

/-! ## text images: separator detection of `load_image` -/

/-- `sep.join(cells)` -/
def joinWith (d : Char) : List (List Char) → List Char
  | [] => []
  | [c] => c
  | c :: cs => c ++ d :: joinWith d cs

/-- push a character onto the first field -/
def consHead (c : Char) : List (List Char) → List (List Char)
  | [] => [[c]]               -- unreachable: `splitOn` never returns `[]`
  | t :: ts => (c :: t) :: ts

/-- `line.split(sep)` (always at least one field) -/
def splitOn (d : Char) : List Char → List (List Char)
  | [] => [[]]
  | c :: cs => if c = d then [] :: splitOn d cs else consHead c (splitOn d cs)

def allSome {β} : List (Option β) → Option (List β)
  | [] => some []
  | none :: _ => none
  | some b :: bs => (allSome bs).map (b :: ·)

/-- `np.loadtxt(lines, delimiter=sep, ndmin=2)` for a token parser `tok` (`float(...)`): every
field of every line must parse and all lines must have the same number of fields -/
def parseWith {β} (tok : List Char → Option β) (sep : Char) (lines : List (List Char)) :
    Option (List (List β)) :=
  match allSome (lines.map (fun l => allSome ((splitOn sep l).map tok))) with
  | none => none
  | some rows =>
    match rows with
    | [] => some []
    | r :: rs => if rs.all (fun r' => r'.length == r.length) then some rows else none

/-- the five separators, in the order the code tries them -/
def separators : List Char := ['\t', ' ', ',', '|', ';']

/-- `for sep in (...): with suppress(ValueError): data = loadtxt(...); break  else: raise` -/
def detectAndParse {β} (tok : List Char → Option β) (lines : List (List Char)) :
    List Char → Option (List (List β))
  | [] => none
  | s :: ss =>
    match parseWith tok s lines with
    | some t => some t
    | none => detectAndParse tok lines ss

/-! ## selecting and naming columns of a table (`load_table_v2(rename_cols={name: file column})`)

`usecols` restricts the read to the requested file columns — pandas returns them in *file* order whatever the
order of the request — and `rename(columns={file column: name})` names each one by the column it came from. -/

/-- column `i` of a table given as rows -/
def column {β} (t : List (List β)) (i : Nat) : List (Option β) := t.map (fun row => row[i]?)

/-- the result: every requested name with the values of the file column it designates -/
def selectCols {β} (t : List (List β)) (sel : List (String × Nat)) : List (String × List (Option β)) :=
  sel.map (fun s => (s.1, column t s.2))

def insertSorted (x : Nat) : List Nat → List Nat
  | [] => [x]
  | y :: ys => if x ≤ y then x :: y :: ys else y :: insertSorted x ys

/-- a wrong variant (seeded defect C20-8): the columns come back in file order and are named *positionally* after
the order of the request -/
def selectColsPositional {β} (t : List (List β)) (sel : List (String × Nat)) : List (String × List (Option β)) :=
  (sel.map (·.1)).zip (((sel.map (·.2)).foldr insertSorted []).map (column t))

/-- a stand-in for `float(field)` used by the driver: accepts non-empty fields made of digits, sign,
point and exponent letters, and returns the field verbatim (the harness converts it) -/
def numericTok (t : List Char) : Option String :=
  if t.isEmpty then none
  else if t.all (fun c => c.isDigit || c == '+' || c == '-' || c == '.' || c == 'e' || c == 'E'
                          || c == 'n' || c == 'a' || c == 'i' || c == 'f')
  then some (String.ofList t) else none

end PyxelModel.C20
