/-!
# C04 — model of the seeding discipline

`set_random_seed` (pyxel/util/randomize.py): `with _SEED_LOCK: previous = get_state(); try: seed(s); yield;
finally: set_state(previous)`; a no-op for `None`.  `run_pipeline` wraps the whole exposure in
`set_random_seed(pipeline_seed)`; stochastic models wrap their draws in `set_random_seed(seed)`.

The process-wide generator is abstract: a state type `G`, `seed : Nat → G`, `draw : G → G × D`.
-/
namespace PyxelModel.C04

structure Gen (G D : Type) where
  seed : Nat → G
  draw : G → G × D

/-- programs: what a run does to the process-wide generator -/
inductive Prog where
  | skip : Prog
  | draw : Prog                          -- one `np.random.*` call
  | fail : Prog                          -- a model raises
  | seq : Prog → Prog → Prog
  | seeded : Option Nat → Prog → Prog    -- `with set_random_seed(s): body`
deriving Repr, DecidableEq

structure Res (G D : Type) where
  g : G            -- generator state afterwards
  out : List D     -- values drawn, in order
  failed : Bool    -- an exception escaped

def exec {G D} (gen : Gen G D) : G → Prog → Res G D
  | g, .skip => ⟨g, [], false⟩
  | g, .draw => let r := gen.draw g; ⟨r.1, [r.2], false⟩
  | g, .fail => ⟨g, [], true⟩
  | g, .seq a b =>
    let ra := exec gen g a
    if ra.failed then ra
    else
      let rb := exec gen ra.g b
      ⟨rb.g, ra.out ++ rb.out, rb.failed⟩
  | g, .seeded none p => exec gen g p
  | g, .seeded (some s) p =>
    let r := exec gen (gen.seed s) p
    ⟨g, r.out, r.failed⟩              -- `finally: set_state(previous)`

/-- every draw is lexically inside some seeded region -/
def Guarded : Prog → Bool
  | .skip => true
  | .draw => false
  | .fail => true
  | .seq a b => Guarded a && Guarded b
  | .seeded (some _) _ => true
  | .seeded none p => Guarded p

/-- a pipeline: the models' programs in order, under the pipeline seed -/
def pipeline (pseed : Option Nat) (models : List Prog) : Prog :=
  .seeded pseed (models.foldr Prog.seq Prog.skip)

/-- an exposure: all `steps` readout steps of the same models inside one seeded region -/
def exposure (pseed : Option Nat) (models : List Prog) (steps : Nat) : Prog :=
  .seeded pseed ((List.replicate steps (models.foldr Prog.seq Prog.skip)).foldr Prog.seq Prog.skip)

/-- several runs one after the other; the sequence stops at the first run that fails.
Result: final generator, the draws of every run that was started, whether a run failed. -/
def execRuns {G D} (gen : Gen G D) : G → List Prog → G × List (List D) × Bool
  | g, [] => (g, [], false)
  | g, p :: ps =>
    let r := exec gen g p
    if r.failed then (r.g, [r.out], true)
    else
      let q := execRuns gen r.g ps
      (q.1, r.out :: q.2.1, q.2.2)

/-! ## threads: seeded regions of several threads on ONE shared generator, with the lock

Thread `t` executes one seeded region with seed `sd t` and `k t` draws, as atomic actions
`acquire; save; seed; draw × k; restore; release`.  A schedule is any list of thread ids;
a thread whose next action is `acquire` while the lock is held does not move. -/

structure Thr (G D : Type) where
  pc : Nat := 0          -- 0 acquire, 1 save, 2 seed, 3..3+k-1 draws, 3+k restore, 4+k release, 5+k done
  saved : Option G := none
  out : List D := []

structure World (G D : Type) where
  g : G
  lock : Option Nat
  thr : Nat → Thr G D

def stepThread {G D} (gen : Gen G D) (sd k : Nat → Nat) (useLock : Bool) (w : World G D) (t : Nat) :
    World G D :=
  let th := w.thr t
  let upd (th' : Thr G D) : Nat → Thr G D := fun j => if j = t then th' else w.thr j
  if th.pc = 0 then
    if useLock then
      (match w.lock with
       | none => { w with lock := some t, thr := upd { th with pc := 1 } }
       | some _ => w)
    else { w with thr := upd { th with pc := 1 } }
  else if th.pc = 1 then { w with thr := upd { th with pc := 2, saved := some w.g } }
  else if th.pc = 2 then { w with g := gen.seed (sd t), thr := upd { th with pc := 3 } }
  else if th.pc < 3 + k t then
    let r := gen.draw w.g
    { w with g := r.1, thr := upd { th with pc := th.pc + 1, out := th.out ++ [r.2] } }
  else if th.pc = 3 + k t then
    { w with g := (match th.saved with | some s => s | none => w.g), thr := upd { th with pc := th.pc + 1 } }
  else if th.pc = 4 + k t then
    { w with lock := (if useLock then none else w.lock), thr := upd { th with pc := th.pc + 1 } }
  else w

def runSchedule {G D} (gen : Gen G D) (sd k : Nat → Nat) (useLock : Bool) (w : World G D) :
    List Nat → World G D
  | [] => w
  | t :: ts => runSchedule gen sd k useLock (stepThread gen sd k useLock w t) ts

def initWorld {G D} (g0 : G) : World G D := ⟨g0, none, fun _ => {}⟩

/-- generator state after `n` draws from `g`, and the values drawn -/
def drawN {G D} (gen : Gen G D) : Nat → G → G × List D
  | 0, g => (g, [])
  | n+1, g => let r := gen.draw g; let q := drawN gen n r.1; (q.1, r.2 :: q.2)

/-- toy generator used for the executable counter-examples: state = counter -/
def toyGen : Gen Nat Nat := ⟨fun s => 100 * s, fun g => (g + 1, g)⟩

end PyxelModel.C04
