/-!
# C09 — model of failure propagation

Mirrors the nested loops a model failure has to travel through, each one an early-exit fold:

* `ModelGroup.run` (`pyxel/pipelines/model_group.py`): call the enabled models in order; on an
  exception `add_note("This error is raised in group '…' at model '…' (…).")` and re-raise
  → `runCalls` (the calls of one readout step, all groups concatenated in schedule order — C01);
* `run_pipeline` (`pyxel/exposure/exposure.py`): the readout steps in order → `runSteps`;
* `Observation.run_pipelines` / `_run_single_pipeline` (`pyxel/observation/observation.py`):
  the runs of a sequential observation in order; on an exception the parameter notes are added
  and the exception re-raised; the list comprehension stops → `runSeq` with `decorate = paramNotes`;
* `run_pipelines_with_dask` (`pyxel/observation/observation_dask.py`): the first combination is
  executed once eagerly (metadata), every run is a lazy task computed by `.load()` → `buildPar`,
  `loadPar` (any completion order `σ`);
* `ModelFittingDataTree.fitness` (`pyxel/calibration/fitting_datatree.py`): one pipeline run per
  (processor, target); on an exception a note naming the problem and decision vector is added and
  the exception re-raised; pygmo hands it to the caller (`archipelago.wait_check`, island creation)
  possibly as another type → `runSeq` with `decorate = wrap ∘ fitnessNote`.

An exception is `(kind, msg, notes)`; `pyxel.run_mode` adds nothing on the way out.
-/
namespace PyxelModel.C09

structure Exc where
  kind : String
  msg : String
  notes : List String
deriving DecidableEq, Repr

def Exc.addNotes (e : Exc) (ns : List String) : Exc := { e with notes := e.notes ++ ns }

/-- one enabled model of the schedule and what calling it does -/
structure Call where
  group : String
  name : String
  func : String
  fault : Option Exc
deriving DecidableEq, Repr

/-- identity of an executed call: (run, readout step, position in the step's schedule) -/
structure Ev where
  run : Nat
  step : Nat
  pos : Nat
deriving DecidableEq, Repr

def groupNote (c : Call) : String :=
  "This error is raised in group '" ++ c.group ++ "' at model '" ++ c.name ++ "' (" ++ c.func ++ ")."

/-- `ModelGroup.run` over the schedule of one step: (calls executed, exception leaving the loop) -/
def runCalls (r s : Nat) : Nat → List Call → List Ev × Option Exc
  | _, [] => ([], none)
  | k, c :: cs =>
    match c.fault with
    | some e => ([⟨r, s, k⟩], some (e.addNotes [groupNote c]))
    | none => (⟨r, s, k⟩ :: (runCalls r s (k + 1) cs).1, (runCalls r s (k + 1) cs).2)

/-- `run_pipeline`: the readout steps of one run -/
def runSteps (r : Nat) : Nat → List (List Call) → List Ev × Option Exc
  | _, [] => ([], none)
  | s, st :: sts =>
    match (runCalls r s 0 st).2 with
    | some e => ((runCalls r s 0 st).1, some e)
    | none => ((runCalls r s 0 st).1 ++ (runSteps r (s + 1) sts).1, (runSteps r (s + 1) sts).2)

/-- exposure mode: a single run; a result exists only if nothing was raised -/
def runExposure (steps : List (List Call)) : List Ev × Except Exc Unit :=
  match (runSteps 0 0 steps).2 with
  | some e => ((runSteps 0 0 steps).1, .error e)
  | none => ((runSteps 0 0 steps).1, .ok ())

/-- a sequence of runs executed one after the other (sequential observation; the fitness
evaluations of a calibration): the first exception is decorated by the enclosing handler and
ends the sequence; the result lists the completed runs. -/
def runSeq (decorate : Nat → Exc → Exc) : Nat → List (List (List Call)) → List Ev × Except Exc (List Nat)
  | _, [] => ([], .ok [])
  | r, run :: runs =>
    match (runSteps r 0 run).2 with
    | some e => ((runSteps r 0 run).1, .error (decorate r e))
    | none =>
      ((runSteps r 0 run).1 ++ (runSeq decorate (r + 1) runs).1,
        match (runSeq decorate (r + 1) runs).2 with
        | .ok ids => .ok (r :: ids)
        | .error e => .error e)

/-- `_run_single_pipeline`'s notes -/
def paramNotes (params : List (String × String)) : List String :=
  "This error occurred in 'Observation' mode with the following parameters:" ::
    params.map (fun kv => "  - " ++ kv.1 ++ ": " ++ kv.2)

def decorateObs (params : List (List (String × String))) (r : Nat) (e : Exc) : Exc :=
  e.addNotes (paramNotes (params.getD r []))

/-! ### parallel observation: eager first run, lazy tasks -/

/-- computing one task = executing its run -/
def task (r : Nat) (run : List (List Call)) : Except Exc Nat :=
  match (runSteps r 0 run).2 with
  | some e => .error e
  | none => .ok r

/-- construction: the first combination is executed once (metadata); its failure is raised at
construction, otherwise the tasks are returned unevaluated -/
def buildPar (runs : List (List (List Call))) : Except Exc (List (Nat × List (List Call))) :=
  match runs with
  | [] => .ok []
  | run :: _ =>
    match task 0 run with
    | .error e => .error e
    | .ok _ => .ok (runs.zipIdx.map (fun p => (p.2, p.1)))

/-- `.load()`: the tasks are computed in some completion order `σ` (indices); the first failure in
that order is raised; only if every task succeeded is the data assembled — in index order -/
def loadPar (tasks : List (Nat × List (List Call))) : List Nat → Except Exc (List Nat)
  | [] => .ok (tasks.map (·.1))
  | i :: σ =>
    match tasks[i]? with
    | none => loadPar tasks σ
    | some (r, run) =>
      match task r run with
      | .error e => .error e
      | .ok _ => loadPar tasks σ

/-! ### the flat view (specification): one list of calls in execution order -/

def flatCalls (r s : Nat) : Nat → List Call → List (Ev × Call)
  | _, [] => []
  | k, c :: cs => (⟨r, s, k⟩, c) :: flatCalls r s (k + 1) cs

def flatSteps (r : Nat) : Nat → List (List Call) → List (Ev × Call)
  | _, [] => []
  | s, st :: sts => flatCalls r s 0 st ++ flatSteps r (s + 1) sts

def flatRuns : Nat → List (List (List Call)) → List (Ev × Call)
  | _, [] => []
  | r, run :: runs => flatSteps r 0 run ++ flatRuns (r + 1) runs

/-- the calls up to and including the first one that raises -/
def upToFault : List (Ev × Call) → List Ev
  | [] => []
  | (ev, c) :: rest => if c.fault.isSome then [ev] else ev :: upToFault rest

/-- the first call that raises, with what it raises -/
def firstFault : List (Ev × Call) → Option (Ev × Call × Exc)
  | [] => none
  | (ev, c) :: rest =>
    match c.fault with
    | some e => some (ev, c, e)
    | none => firstFault rest

end PyxelModel.C09
