/-!
# C06 — store model of `deepcopy` separation (`Processor.__deepcopy__`, `ModelGroup.__deepcopy__`,
`create_new_processor`, `Processor.replace`, `update_processor`, `build_processors`)

Python objects live in a heap `List (Obj α)`; an address is an index, allocation appends.  An object
with attributes / items is a chain of `cell name child rest` (its `__dict__` / its items in order),
ended by `nil`; `leaf v` is an object without parts that the property can observe through its value
`v` (numbers, strings, array contents …).  `Tree α` is the value of an object graph with the
addresses forgotten; `Abs h a t` says that the graph below address `a` unfolds to `t`.

* `deepcopy(x)`      → `deepcopy` : allocate a fresh unfolding of `x` (`alloc`); every address of the copy is new
* `copy.copy(x)`     → `shallowCopy` : a new first cell, everything below shared (the negative witness)
* a run mutating its processor: `setattr(obj, name, value)` (`Processor.set`), in-place changes of an
  argument list / dict / array / `detector._memory`                    → `Write.rebind`, `Write.mutate`, `Write.alias`
* the *base object* of a call is everything the user handed to `run_mode`, as `run_mode` ties it together:
  the `Processor` with its detector, its pipeline AND the running-mode object (`Processor.observation`: the
  `Observation` with its `Readout`, parameter declarations, table, outputs) — `Processor.__deepcopy__` copies
  all three; the harness extracts that whole graph (and snapshots the mode object separately)
* `create_new_processor` / `replace` / `update_processor` = `deepcopy` followed by writes through the copy
  (`Processor.set` of `detector.*`, `pipeline.*` and `observation.*` keys alike);
  an observation / calibration = a sequence of such runs, each stopped anywhere (a failing run) → `execRuns`
-/
namespace PyxelModel.C06

inductive Obj (α : Type) where
  | leaf (v : α)
  | nil
  | cell (name : String) (child rest : Nat)
deriving Repr, DecidableEq

inductive Tree (α : Type) where
  | leaf (v : α)
  | nil
  | cell (name : String) (child rest : Tree α)
deriving Repr, DecidableEq

abbrev Heap (α : Type) := List (Obj α)

/-- allocate a fresh copy of a value; returns the new heap and the address of the copy's root -/
def alloc {α : Type} : Tree α → Heap α → Heap α × Nat
  | .leaf v, h => (h ++ [Obj.leaf v], h.length)
  | .nil, h => (h ++ [Obj.nil], h.length)
  | .cell n tc tr, h =>
    let r1 := alloc tc h
    let r2 := alloc tr r1.1
    (r2.1 ++ [Obj.cell n r1.2 r2.2], r2.1.length)

/-- unfolding of the graph below `a` (fuel bounds the depth; `none`: dangling address or fuel exhausted) -/
def absFuel {α : Type} : Nat → Heap α → Nat → Option (Tree α)
  | 0, _, _ => none
  | fuel + 1, h, a =>
    match h[a]? with
    | none => none
    | some (.leaf v) => some (.leaf v)
    | some .nil => some .nil
    | some (.cell n c r) =>
      match absFuel fuel h c, absFuel fuel h r with
      | some tc, some tr => some (.cell n tc tr)
      | _, _ => none

/-- addresses reachable from `a` (fuel bounds the depth) -/
def reachFuel {α : Type} : Nat → Heap α → Nat → List Nat
  | 0, _, _ => []
  | fuel + 1, h, a =>
    match h[a]? with
    | some (.cell _ c r) => a :: (reachFuel fuel h c ++ reachFuel fuel h r)
    | some _ => [a]
    | none => []

/-- `copy.deepcopy`: a fresh unfolding of the graph below `a` -/
def deepcopy {α : Type} (fuel : Nat) (h : Heap α) (a : Nat) : Option (Heap α × Nat) :=
  (absFuel fuel h a).map (fun t => alloc t h)

/-- `copy.copy`: only the first cell is new -/
def shallowCopy {α : Type} (h : Heap α) (a : Nat) : Option (Heap α × Nat) :=
  (h[a]?).map (fun o => (h ++ [o], h.length))

/-- what a run can do to the objects it holds -/
inductive Write (α : Type) where
  /-- in-place change of a part-less object (array contents, a number stored in a mutable holder …) -/
  | mutate (target : Nat) (v : α)
  /-- `setattr(obj, name, <new value>)`: the cell at `target` gets a freshly allocated child -/
  | rebind (target : Nat) (t : Tree α)
  /-- `setattr(obj, name, other)`: the cell at `target` now points to the existing object `src` -/
  | alias (target : Nat) (src : Nat)
deriving Repr

def applyWrite {α : Type} (h : Heap α) : Write α → Heap α
  | .mutate target v => h.set target (Obj.leaf v)
  | .rebind target t =>
    match h[target]? with
    | some (.cell n _ r) => let r1 := alloc t h; r1.1.set target (Obj.cell n r1.2 r)
    | _ => h
  | .alias target src =>
    match h[target]? with
    | some (.cell n _ r) => h.set target (Obj.cell n src r)
    | _ => h

def applyAll {α : Type} (h : Heap α) : List (Write α) → Heap α
  | [] => h
  | w :: ws => applyAll (applyWrite h w) ws

/-- follow attribute names from `a`: the address of the *cell* holding `name` in the chain at `a` -/
def findCell {α : Type} : Nat → Heap α → Nat → String → Option Nat
  | 0, _, _, _ => none
  | fuel + 1, h, a, name =>
    match h[a]? with
    | some (.cell n _ r) => if n = name then some a else findCell fuel h r name
    | _ => none

/-- the cell reached by a dotted path from root `a` (each step: find the cell, descend into its child) -/
def resolve {α : Type} (fuel : Nat) (h : Heap α) : Nat → List String → Option Nat
  | _, [] => none
  | a, [name] => findCell fuel h a name
  | a, name :: rest =>
    match findCell fuel h a name with
    | some c => match h[c]? with
      | some (.cell _ child _) => resolve fuel h child rest
      | _ => none
    | none => none

/-! ## declarative notions (specification side) -/

/-- the graph below `a` unfolds to the value `t` -/
inductive Abs {α : Type} (h : Heap α) : Nat → Tree α → Prop where
  | leaf {a : Nat} {v : α} : h[a]? = some (Obj.leaf v) → Abs h a (Tree.leaf v)
  | nil {a : Nat} : h[a]? = some Obj.nil → Abs h a Tree.nil
  | cell {a c r : Nat} {n : String} {tc tr : Tree α} :
      h[a]? = some (Obj.cell n c r) → Abs h c tc → Abs h r tr → Abs h a (Tree.cell n tc tr)

/-- `b` is reachable from `a` by following child / rest pointers -/
inductive Reach {α : Type} (h : Heap α) : Nat → Nat → Prop where
  | refl {a : Nat} : Reach h a a
  | child {a b c r : Nat} {n : String} : h[a]? = some (Obj.cell n c r) → Reach h c b → Reach h a b
  | rest {a b c r : Nat} {n : String} : h[a]? = some (Obj.cell n c r) → Reach h r b → Reach h a b

/-- original (root `a`) and copy (root `a'`) share no object -/
def Sep {α : Type} (h : Heap α) (a a' : Nat) : Prop := ∀ b, Reach h a b → ¬ Reach h a' b

/-- a write made *through* the object graph rooted at `root`: it touches an object of that graph, and a
pointer it stores leads into that graph -/
def Legal {α : Type} (h : Heap α) (root : Nat) : Write α → Prop
  | .mutate target _ => Reach h root target
  | .rebind target _ => Reach h root target
  | .alias target src => Reach h root target ∧ Reach h root src

/-- every write of the sequence is legal in the heap it is applied to -/
def LegalAll {α : Type} (root : Nat) : Heap α → List (Write α) → Prop
  | _, [] => True
  | h, w :: ws => Legal h root w ∧ LegalAll root (applyWrite h w) ws

/-- a run: deep-copy the base object, then write through the copy (any prefix = a failing run) -/
structure RunSpec (α : Type) where
  writes : Nat → List (Write α)   -- the writes, given the address of the run's own copy

/-- the runs executed one after the other on the same heap (the base object at `base` of value `t`) -/
def execRuns {α : Type} (t : Tree α) : Heap α → List (RunSpec α) → Heap α
  | h, [] => h
  | h, r :: rs => let c := alloc t h; execRuns t (applyAll c.1 (r.writes c.2)) rs

/-- every run writes only through its own copy -/
def RunsLegal {α : Type} (t : Tree α) : Heap α → List (RunSpec α) → Prop
  | _, [] => True
  | h, r :: rs =>
    let c := alloc t h
    LegalAll c.2 c.1 (r.writes c.2) ∧ RunsLegal t (applyAll c.1 (r.writes c.2)) rs

end PyxelModel.C06
