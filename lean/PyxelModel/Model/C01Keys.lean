import PyxelModel.Model.C01
/-!
# C01 — model of changing a configured pipeline through a dotted key or through the object

`Processor.set("pipeline.<group>.<name>.enabled", b)` (command-line overrides, sweeps, calibration) resolves
`<group>` as an attribute of the pipeline and `<name>` through `ModelGroup.__getattr__`, which returns the FIRST
model of THAT group whose name matches (`for model in self.models: if model.name == name`), then assigns the
attribute.  `pipeline.<group>.models[i].enabled = b` addresses a model by position.  Both are modelled as pure
updates of the association list; nothing outside the addressed group is touched.
-/
namespace PyxelModel.C01

variable {α : Type}

/-- apply `f` to the first model called `name` (what `ModelGroup.__getattr__` finds) -/
def updFirst (name : String) (f : Model α → Model α) : List (Model α) → List (Model α)
  | [] => []
  | m :: ms => if m.name == name then f m :: ms else m :: updFirst name f ms

/-- apply `f` to the model at position `i` -/
def updAt (f : Model α → Model α) : Nat → List (Model α) → List (Model α)
  | _, [] => []
  | 0, m :: ms => f m :: ms
  | i+1, m :: ms => m :: updAt f i ms

/-- position of the first model called `name` -/
def firstIdx (name : String) : List (Model α) → Option Nat
  | [] => none
  | m :: ms => if m.name == name then some 0 else (firstIdx name ms).map (· + 1)

/-- a change addressed by key `pipeline.<g>.<name>.…` -/
def setKey (p : Pipeline α) (g name : String) (f : Model α → Model α) : Pipeline α :=
  p.map (fun e => if e.1 == g then (e.1, updFirst name f e.2) else e)

/-- a change addressed by position `pipeline.<g>.models[i].…` -/
def setIdx (p : Pipeline α) (g : String) (i : Nat) (f : Model α → Model α) : Pipeline α :=
  p.map (fun e => if e.1 == g then (e.1, updAt f i e.2) else e)

def withEnabled (b : Bool) (m : Model α) : Model α := { m with enabled := b }
def withArgs (a : α) (m : Model α) : Model α := { m with args := a }

end PyxelModel.C01
