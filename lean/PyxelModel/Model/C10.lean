/-!
# C10 — model of the calibration decision-vector layout

Mirrors, in `pyxel/calibration/fitting_datatree.py` (class `ModelFittingDataTree`):

* `_set_bound`            → `boundOf`, `setBound`   (predicate: `values == "_"` / `Sequence` of all `"_"`;
                                                   `log10` of the boundaries of a logarithmic variable)
* `convert_to_parameters` → `convert`               (predicate: `isinstance(values, list)`; `10 **` on the
                                                   slice `[a, a+b)` of a logarithmic variable, numpy slice
                                                   clamping kept: a slice past the end is shortened)
* `update_processor`      → `assign`                (predicate: `values == "_"` / `isinstance(values, list)`,
                                                   otherwise the width `b` of the *previous* variable is
                                                   re-used — the stale local of the code)
* `fitness`               → `applied = assign ∘ convert`
* `_get_champions`, `get_best_individuals` in `archipelago_datatree.py` → `reported = convert`
  (row by row for a 2-D array of decision vectors: `parameters[..., start:stop]`).

`ParameterValues.values` after its constructor (`pyxel/observation/parameter_values.py`) is `"_"`,
a list (tuples and strings of placeholders are turned into lists by `convert_values`) or another
string (`"numpy.…"`); `boundaries` is a `(2,)` array or a `(len(values), 2)` array.

`pow10` / `log10` are parameters: the theorems use the two facts of `LogExp` only; the driver
instantiates them with tables sent by the harness (what numpy computed for exactly these inputs).
-/
namespace PyxelModel.C10

/-- `ParameterValues.values` as the three walkers see it -/
inductive Values
  | placeholder                 -- the string "_"
  | list (isPh : List Bool)     -- a list; `true` = the entry is "_"
  | other                       -- any other string (never equal to "_", not all "_")
deriving DecidableEq, Repr

/-- `ParameterValues.boundaries` -/
inductive Bounds (K : Type)
  | shared (lo hi : K)          -- ndim == 1, shape (2,)
  | each (l : List (K × K))     -- ndim == 2, shape (len(values), 2)
deriving DecidableEq, Repr

structure Var (K : Type) where
  key : String
  values : Values
  log : Bool
  bounds : Bounds K
deriving DecidableEq, Repr

inductive Err | assertion | value | index
deriving DecidableEq, Repr

/-- what `processor.set(key, value)` receives -/
inductive Assigned (K : Type)
  | scalar (x : K)              -- `parameter[a]`
  | vec (xs : List K)           -- `parameter[start:stop]`
deriving DecidableEq, Repr

variable {K : Type}

/-- the constructor of `ParameterValues` guarantees `boundaries.shape == (len(values), 2)` for 2-D
boundaries -/
def Var.WF (v : Var K) : Prop :=
  match v.values, v.bounds with
  | .list ph, .each l => l.length = ph.length
  | _, _ => True

/-! ## walker 1: `_set_bound` -/

/-- the (lower, upper) entries one variable contributes, before the logarithm -/
def rawBounds (n : Nat) : Bounds K → List K × List K
  | .shared lo hi => (List.replicate n lo, List.replicate n hi)
  | .each l => (l.map (·.1), l.map (·.2))

def boundOf (log10 : K → K) (v : Var K) : Except Err (List K × List K) :=
  match v.values with
  | .placeholder =>
    match v.bounds with
    | .shared lo hi => if v.log then .ok ([log10 lo], [log10 hi]) else .ok ([lo], [hi])
    | .each _ => .error .assertion           -- `assert var.boundaries.shape == (2,)`
  | .list ph =>
    if ph.all id then
      let r := rawBounds ph.length v.bounds
      if v.log then .ok (r.1.map log10, r.2.map log10) else .ok r
    else .error .value
  | .other => .error .value

def setBound (log10 : K → K) : List (Var K) → Except Err (List K × List K)
  | [] => .ok ([], [])
  | v :: vs =>
    match boundOf log10 v with
    | .error e => .error e
    | .ok (l, u) =>
      match setBound log10 vs with
      | .error e => .error e
      | .ok (ls, us) => .ok (l ++ ls, u ++ us)

/-- (offset, width) of every variable as `_set_bound` lays them out: the number of entries it
appended for each variable -/
def layoutBound (log10 : K → K) : Nat → List (Var K) → List (Nat × Nat)
  | _, [] => []
  | a, v :: vs =>
    let w := match boundOf log10 v with
      | .ok (l, _) => l.length
      | .error _ => 0
    (a, w) :: layoutBound log10 (a + w) vs

/-! ## walker 2: `convert_to_parameters` -/

def widthConvert (v : Var K) : Nat :=
  match v.values with
  | .list ph => ph.length
  | _ => 1

def layoutConvert : Nat → List (Var K) → List (Nat × Nat)
  | _, [] => []
  | a, v :: vs => (a, widthConvert v) :: layoutConvert (a + widthConvert v) vs

def total (vars : List (Var K)) : Nat := (vars.map widthConvert).sum

/-- `convert_to_parameters` on one decision vector: walk the variables, consume `b` components
each, apply `10 **` to the consumed components of a logarithmic variable; components beyond the
last variable stay as they are. -/
def convert (pow10 : K → K) : List (Var K) → List K → List K
  | [], xs => xs
  | v :: vs, xs =>
    let h := xs.take (widthConvert v)
    (if v.log then h.map pow10 else h) ++ convert pow10 vs (xs.drop (widthConvert v))

/-- 2-D input (`get_best_individuals`): the slice is taken on the last axis -/
def convert2D (pow10 : K → K) (vars : List (Var K)) (rows : List (List K)) : List (List K) :=
  rows.map (convert pow10 vars)

/-! ## walker 3: `update_processor` -/

/-- `b` after looking at one variable (`a, b = 0, 0` before the loop; untouched by the `else`) -/
def widthUpdate (b : Nat) (v : Var K) : Nat :=
  match v.values with
  | .placeholder => 1
  | .list ph => ph.length
  | .other => b

def layoutUpdate : Nat → Nat → List (Var K) → List (Nat × Nat)
  | _, _, [] => []
  | a, b, v :: vs => (a, widthUpdate b v) :: layoutUpdate (a + widthUpdate b v) (widthUpdate b v) vs

/-- the `processor.set` calls of `update_processor`, in order -/
def assign (p : List K) : Nat → Nat → List (Var K) → Except Err (List (String × Assigned K))
  | _, _, [] => .ok []
  | a, b, v :: vs =>
    match v.values with
    | .placeholder =>
      match p[a]? with
      | none => .error .index                       -- `parameter[a]` past the end
      | some x =>
        match assign p (a + 1) 1 vs with
        | .error e => .error e
        | .ok r => .ok ((v.key, .scalar x) :: r)
    | .list ph =>
      match assign p (a + ph.length) ph.length vs with
      | .error e => .error e
      | .ok r => .ok ((v.key, .vec ((p.drop a).take ph.length)) :: r)
    | .other => assign p (a + b) b vs

/-- what the pipeline receives for decision vector `x` (`fitness`) -/
def applied (pow10 : K → K) (vars : List (Var K)) (x : List K) :
    Except Err (List (String × Assigned K)) :=
  assign (convert pow10 vars x) 0 0 vars

/-- what `/champion/parameters` and `/best/parameters` hold for decision vector `x` -/
def reported (pow10 : K → K) (vars : List (Var K)) (x : List K) : List K :=
  convert pow10 vars x

/-! ## the statement's own layout (specification) -/

/-- number of placeholders a variable declares: one for `"_"`, the list length for a list -/
def slots (v : Var K) : Nat :=
  match v.values with
  | .placeholder => 1
  | .list ph => ph.length
  | .other => 0

/-- offsets in declaration order: each variable takes `slots` consecutive components -/
def layoutSpec : Nat → List (Var K) → List (Nat × Nat)
  | _, [] => []
  | a, v :: vs => (a, slots v) :: layoutSpec (a + slots v) vs

/-- the variable owning component `k` (declarative: the one whose slice contains `k`) -/
def ownerFrom : Nat → List (Var K) → Nat → Option (Var K × Nat)
  | _, [], _ => none
  | a, v :: vs, k =>
    if a ≤ k ∧ k < a + slots v then some (v, k - a) else ownerFrom (a + slots v) vs k

def owner (vars : List (Var K)) (k : Nat) : Option (Var K × Nat) := ownerFrom 0 vars k

/-- declared boundary pair of component `c` of a variable -/
def declared (v : Var K) (c : Nat) : Option (K × K) :=
  match v.bounds with
  | .shared lo hi => some (lo, hi)
  | .each l => l[c]?

/-- the assignments the statement asks for: key `j` receives exactly its slice of `p` (a scalar
for `"_"`); `none` when `p` is too short to give a scalar its component -/
def assignSpec (p : List K) : Nat → List (Var K) → Option (List (String × Assigned K))
  | _, [] => some []
  | a, v :: vs =>
    match v.values with
    | .placeholder =>
      match p[a]?, assignSpec p (a + 1) vs with
      | some x, some r => some ((v.key, .scalar x) :: r)
      | _, _ => none
    | .list ph =>
      match assignSpec p (a + ph.length) vs with
      | some r => some ((v.key, .vec ((p.drop a).take ph.length)) :: r)
      | none => none
    | .other => assignSpec p a vs

/-- all values handed to the pipeline, in declaration order -/
def flattenAssigned : List (String × Assigned K) → List K
  | [] => []
  | (_, .scalar x) :: r => x :: flattenAssigned r
  | (_, .vec xs) :: r => xs ++ flattenAssigned r

end PyxelModel.C10
