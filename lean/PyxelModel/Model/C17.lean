import PyxelModel.Model.C02
/-!
# C17 — model of flux-integrating pipelines (one pixel; every listed model acts pixel by pixel)

Mirrors, for one pixel of the detector,

* `photon_collection.illumination` / `load_image` / `stripe_pattern`:
  `photon += pattern * (detector.time_step / time_scale)` (the pattern value of the pixel already
  contains `level`, `multiplier`, the ADU→photon factor) — `Flux` with `photonStep`;
* `charge_generation.simple_conversion(binomial_sampling=False)`: `charge += photon * qe`;
* `charge_generation.load_charge`: `charge += profile * detector.time_step / time_scale`,
  `charge_generation.dark_current(temporal_noise=False, spatial_noise_factor=None)`:
  `charge += rate * time_step` (a `Flux` of scale 1) — `chargeStep`;
* `charge_collection.simple_collection`: `pixel += charge` — `pixelStep`;
* the exposure loop of `run_pipeline` (C02): the time steps are `C02.steps start times`; photon and
  charge are emptied at the beginning of every step, pixel only in destructive mode — `frames`.

`K` is any number type (`Rat` in the driver; an arbitrary field in the theorems).
-/
namespace PyxelModel.C17
open PyxelModel.C02 (steps lastOr)

/-- a model adding `rate * (Δt / scale)` (photon models) resp. `rate * Δt / scale` (charge models) -/
structure Flux (K : Type) where
  rate : K
  scale : K
deriving Repr

structure Pipe (K : Type) where
  photon : List (Flux K)   -- enabled photon models, pipeline order
  qe : Option K            -- `simple_conversion` present (with this quantum efficiency)?
  charge : List (Flux K)   -- enabled `load_charge` / `dark_current` models, pipeline order
  collect : Bool           -- `simple_collection` present?
deriving Repr

variable {K : Type} [Add K] [Mul K] [Div K] [OfNat K 0]

/-- photon bucket after the photon models of a step of duration `dt` (bucket emptied before) -/
def photonStep (ms : List (Flux K)) (dt : K) : K :=
  ms.foldl (fun acc m => acc + m.rate * (dt / m.scale)) 0

/-- charge bucket after the charge-generation models of the step -/
def chargeStep (p : Pipe K) (dt : K) : K :=
  let fromPhoton : K := match p.qe with
    | some q => photonStep p.photon dt * q
    | none => 0
  p.charge.foldl (fun acc m => acc + m.rate * dt / m.scale) fromPhoton

/-- pixel bucket after collection, given its content at the beginning of the step -/
def pixelStep (p : Pipe K) (prev : K) (dt : K) : K :=
  if p.collect then prev + chargeStep p dt else prev

/-- pixel content at the end of every step, for the given list of time steps -/
def framesFrom (p : Pipe K) (nd : Bool) : K → List K → List K
  | _, [] => []
  | prev, dt :: r =>
    let v := pixelStep p (if nd then prev else 0) dt
    v :: framesFrom p nd v r

/-- the pixel slices of the result of an exposure (`start`, `times`, destructive or not) -/
def frames [Sub K] (p : Pipe K) (nd : Bool) (start : K) (ts : List K) : List K :=
  framesFrom p nd 0 (steps start ts)

/-- accumulated pixel charge at the end of the exposure -/
def finalPixel [Sub K] (p : Pipe K) (nd : Bool) (start : K) (ts : List K) : K :=
  (frames p nd start ts).getLastD 0

/-- collected charge per second (specification side): `qe · Σ rate/scale + Σ rate/scale` -/
def totalRate (p : Pipe K) : K :=
  let ph : K := (p.photon.map (fun m => m.rate / m.scale)).foldr (· + ·) 0
  let ch : K := (p.charge.map (fun m => m.rate / m.scale)).foldr (· + ·) 0
  let conv : K := match p.qe with
    | some q => ph * q
    | none => 0
  if p.collect then conv + ch else 0

end PyxelModel.C17
