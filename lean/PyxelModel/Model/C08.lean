/-!
# C08 — model of the processor's dotted-key store and of the literal conversion

Mirrors, in `/repo/pyxel`:

* `pipelines/processor.py::_get_obj_att` (split the key at `.`, walk all parts but the last with
  `hasattr`/`getattr`; a missing part is `KeyError` when the object is a `ModelGroup`, otherwise an
  `AttributeError` that is **caught** and turns the object into `None`; a property whose getter raises
  `ValueError` — a validated detector field that is still unset — lets the `ValueError` escape),
* `Processor.has` (`hasattr(obj, tail)`, `ValueError` ⇒ found), `Processor.get`
  (`operator.attrgetter`), `Processor.set` (`eval_entry`, walk, `setattr(obj, tail, v)`),
* `pipelines/model_function.py::Arguments.__setattr__/__getattr__` (unknown name ⇒ `AttributeError`),
  `ModelFunction` (`enabled` plain attribute; `name`, `arguments`, `func` read-only properties),
  `pipelines/model_group.py::ModelGroup.__getattr__` (first model with that name),
* `observation/observation.py::Observation.validate_steps`,
* `evaluator.py::eval_entry` (second half of this file).

A Python object is a `Tree`: a `leaf` (a value without walkable attributes; `leaf none` is a validated
field whose stored value is `None`, i.e. whose getter raises `ValueError`), a `node` (an object with named
slots; its `Kind` says how it reacts to an unknown name) or `pynone` (Python `None`, e.g. a model group
that is not configured).  Every slot carries its `Access`: plain attribute / property with setter (`rw`),
property without setter (`ro`), property whose setter validates (`guarded g`; the validators are a
parameter `accepts`, C12 is about them).  Dictionaries and list indices inside a key are not modelled
(the statement's keys never go through them).

`strict` is the existence check in `Processor.set` (`true` = the repaired code, proposed in
`proposed_fixes/C08-set-existence-check.diff`; `false` = `setattr` creating a new attribute on plain
objects, the pinned behaviour).  `Generated/C08.lean` says which one today's source has.
-/
namespace PyxelModel.C08

/-- values a setting can hold / a text can denote -/
inductive Val where
  | none
  | bool (b : Bool)
  | int (i : Int)
  | num (q : Rat)            -- a float literal: the exact decimal value (both sides round it to binary64)
  | str (s : String)
  | list (xs : List Val)
  | tuple (xs : List Val)
deriving Repr, Inhabited

inductive Kind | obj | args | group
deriving DecidableEq, Repr

inductive Access | rw | ro | guarded (g : Nat)
deriving DecidableEq, Repr

/-- error classes of the code: AttributeError, KeyError, ValueError, TypeError, AssertionError -/
inductive Err | attr | key | value | type | assertion
deriving DecidableEq, Repr

inductive Tree where
  | leaf (v : Option Val)
  | node (k : Kind) (cs : List (String × Access × Tree))
  | pynone
deriving Repr, Inhabited

abbrev Children := List (String × Access × Tree)

/-- `getattr(obj, n)`: the first slot with that name (dict order / first model with that name) -/
def find : Children → String → Option (Access × Tree)
  | [], _ => none
  | (m, a, t) :: r, n => if m = n then some (a, t) else find r n

/-- the slot `n` now holds `t` (its access kind is a property of the class: unchanged) -/
def replace : Children → String → Tree → Children
  | [], _, _ => []
  | (m, a, c) :: r, n, t => if m = n then (m, a, t) :: r else (m, a, c) :: replace r n t

/-- **Specification of "the key resolves"**: the one slot a path names, if any (no error semantics). -/
def slotAt : Tree → List String → Option (Access × Tree)
  | _, [] => none
  | .node _ cs, [a] => find cs a
  | .node _ cs, p :: q :: ps =>
    match find cs p with
    | some (_, c) => slotAt c (q :: ps)
    | none => none
  | _, _ :: _ => none

/-- `Processor.has(key)`; the key is the list of its `.`-separated parts (never empty: `str.split`). -/
def hasP : Tree → List String → Except Err Bool
  | _, [] => .ok false
  | .node _ cs, [a] => .ok (find cs a).isSome          -- hasattr: found, or getter raised ValueError ⇒ found
  | _, [_] => .ok false                                 -- hasattr(<leaf value> / None, a)
  | .node k cs, p :: q :: ps =>
    match find cs p with
    | some (_, .leaf none) => .error .value             -- hasattr(obj, p): the getter's ValueError escapes
    | some (_, c) => hasP c (q :: ps)
    | none => if k = .group then .error .key else .ok false   -- KeyError, or caught ⇒ obj = None ⇒ False
  | _, _ :: _ :: _ => .ok false

/-- `Processor.get(key)` = `operator.attrgetter(key)(processor)` (without a default) -/
def getP : Tree → List String → Except Err Tree
  | t, [] => .ok t
  | .node _ cs, p :: ps =>
    match find cs p with
    | some (_, .leaf none) => .error .value
    | some (_, c) => getP c ps
    | none => .error .attr
  | _, _ :: _ => .error .attr

/-- `Processor.set(key, v)` after the literal conversion.  Returns the new processor. -/
def setP (strict : Bool) (accepts : Nat → Val → Except Err Unit) :
    Tree → List String → Val → Except Err Tree
  | _, [], _ => .error .attr
  | .node k cs, [a], v =>
    match find cs a with
    | some (.ro, _) => .error .attr                                   -- property without setter
    | some (.rw, _) => .ok (.node k (replace cs a (.leaf (some v))))
    | some (.guarded g, _) =>
      match accepts g v with
      | .ok _ => .ok (.node k (replace cs a (.leaf (some v))))
      | .error e => .error e
    | none =>
      if k = .args || strict then .error .attr                        -- Arguments / existence check
      else .ok (.node k (cs ++ [(a, .rw, .leaf (some v))]))            -- setattr creates the attribute
  | _, [_], _ => .error .attr                                          -- setattr(None / 3, a, v)
  | .node k cs, p :: q :: ps, v =>
    match find cs p with
    | some (_, .leaf none) => .error .value
    | some (_, c) =>
      match setP strict accepts c (q :: ps) v with
      | .ok c' => .ok (.node k (replace cs p c'))
      | .error e => .error e
    | none => if k = .group then .error .key else .error .attr         -- obj = None ⇒ setattr(None, …)
  | _, _ :: _ :: _, _ => .error .attr

/-- a history of assignments on one processor, in order (stops at the first refused one) -/
def setAll (strict : Bool) (accepts : Nat → Val → Except Err Unit) :
    Tree → List (List String × Val) → Except Err Tree
  | t, [] => .ok t
  | t, (p, v) :: rest =>
    match setP strict accepts t p v with
    | .ok t' => setAll strict accepts t' rest
    | .error e => .error e

/-! ### calibration: `update_processor` hands every variable its own slice of the decision vector

`ModelFittingDataTree.update_processor(parameter, processor)`: the variables are visited in declaration order
with a running offset; a scalar variable (`values: '_'`) receives `parameter[a]` and advances by 1, a vector
variable (`values: ['_', …]` of length `n`) receives `parameter[a : a+n]` and advances by `n`. -/

/-- the assignments made for the variables `(key, none = scalar | some n = vector of n)` from the vector `xs` -/
def slices : List (List String × Option Nat) → List Val → List (List String × Val)
  | [], _ => []
  | (k, none) :: r, xs => (k, xs.headD .none) :: slices r (xs.drop 1)
  | (k, some n) :: r, xs => (k, .list (xs.take n)) :: slices r (xs.drop n)

def calUpdate (strict : Bool) (accepts : Nat → Val → Except Err Unit) (t : Tree)
    (vars : List (List String × Option Nat)) (xs : List Val) : Except Err Tree :=
  setAll strict accepts t (slices vars xs)

/-! ### command line: `--override key=value`

`pyxel.run(file, override=[…])`: `key, value = element.split("=")` — exactly one `=`; anything else is a
`ValueError` before anything runs.  The value then goes through `Processor.set` (literal conversion). -/

def splitOnEq : List Char → List (List Char)
  | [] => [[]]
  | c :: r =>
    if c = '=' then [] :: splitOnEq r
    else match splitOnEq r with
      | [] => [[c]]
      | h :: t => (c :: h) :: t

def parseOverride (cs : List Char) : Except Err (List Char × List Char) :=
  match splitOnEq cs with
  | [k, v] => .ok (k, v)
  | _ => .error .value

/-! ### `Observation.validate_steps` (one step) -/

/-- Python truthiness -/
def truthy : Val → Bool
  | .none => false
  | .bool b => b
  | .int i => i != 0
  | .num q => q != 0
  | .str s => s != ""
  | .list xs => !xs.isEmpty
  | .tuple xs => !xs.isEmpty

def isUnderscore : Val → Bool
  | .str s => s == "_"
  | _ => false

/-- string predicates through `toList` (these reduce in the kernel, `String.startsWith` does not) -/
def startsWith (s pre : String) : Bool := pre.toList.isPrefixOf s.toList
def endsWith (s suf : String) : Bool := suf.toList.isSuffixOf s.toList
/-- `s[:-1]` -/
def dropLastChar (s : String) : String := String.ofList s.toList.dropLast

/-- `"pipeline." in key`: some part that is not the last one ends with `pipeline` -/
def pipelineDot (key : List String) : Bool := key.dropLast.any (endsWith · "pipeline")

/-- `key.find(".arguments")`, as the index of the first part (not the first of the key) that starts
with `arguments`; `key[:idx]` is then the parts before it -/
def argIdxFrom : Nat → List String → Option Nat
  | _, [] => none
  | i, p :: ps => if i ≠ 0 ∧ startsWith p "arguments" then some i else argIdxFrom (i + 1) ps

def argIdx (key : List String) : Option Nat := argIdxFrom 0 key

def enabledOf (t : Tree) (modelKey : List String) : Except Err Unit :=
  match getP t (modelKey ++ ["enabled"]) with
  | .ok (.leaf (some v)) => if truthy v then .ok () else .error .value
  | .ok _ => .ok ()                                   -- an object: truthy
  | .error e => .error e

/-- `fixed = true`: `if "pipeline." in key and ".arguments" in key` (repaired); `false`: the pinned code
slices `key[: key.find(".arguments")]` even when `find` returned −1, i.e. drops the key's last character. -/
def validateStep (fixed : Bool) (t : Tree) (key : List String) (values : List Val) (custom : Bool) :
    Except Err Unit :=
  match hasP t key with
  | .error e => .error e
  | .ok false => .error .key
  | .ok true =>
    let enabledCheck : Except Err Unit :=
      if pipelineDot key then
        match argIdx key with
        | some i => enabledOf t (key.take i)
        | none =>
          if fixed then .ok ()
          else enabledOf t (key.dropLast ++ [dropLastChar (key.getLastD "")])
      else .ok ()
    match enabledCheck with
    | .error e => .error e
    | .ok _ => if values.any isUnderscore && !custom then .error .value else .ok ()

/-! ### the processor of a configuration (used to state `validate_steps` against the configuration) -/

structure ModelCfg where
  name : String
  enabled : Bool
  args : List (String × Val)

def argsTree (m : ModelCfg) : Tree := .node .args (m.args.map fun kv => (kv.1, Access.rw, Tree.leaf (some kv.2)))

def modelTree (m : ModelCfg) : Tree :=
  .node .obj [("enabled", .rw, .leaf (some (.bool m.enabled))), ("name", .ro, .leaf (some (.str m.name))),
              ("arguments", .ro, argsTree m), ("func", .ro, .leaf (some (.str "<function>")))]

def groupTree (ms : List ModelCfg) : Tree := .node .group (ms.map fun m => (m.name, Access.rw, modelTree m))

/-- a group of the configuration: `none` = not configured (`DetectionPipeline` stores `None`) -/
def groupSlot : Option (List ModelCfg) → Tree
  | some ms => groupTree ms
  | none => .pynone

def pipelineTree (gs : List (String × Option (List ModelCfg))) : Tree :=
  .node .obj (gs.map fun g => (g.1, Access.ro, groupSlot g.2))

def processorTree (detector : Tree) (gs : List (String × Option (List ModelCfg))) : Tree :=
  .node .obj [("detector", .rw, detector), ("pipeline", .rw, pipelineTree gs)]

/-- the configuration's view: the first model called `m` of group `g` -/
def cfgModel (gs : List (String × Option (List ModelCfg))) (g m : String) : Option ModelCfg :=
  match gs.find? (fun e => e.1 = g) with
  | some (_, some ms) => ms.find? (fun c => c.name = m)
  | _ => none

/-- the statement's reading of one sweep step on a model argument: the configuration's first model `m`
of group `g` must exist, declare `a`, and be enabled; `_` placeholders only in custom mode
(`KeyError` for an unknown group / model / argument, `ValueError` for a disabled model) -/
def validateArgSpec (gs : List (String × Option (List ModelCfg))) (g m a : String) (vals : List Val)
    (custom : Bool) : Except Err Unit :=
  match cfgModel gs g m with
  | none => .error .key
  | some c =>
    if a ∈ c.args.map Prod.fst then
      if c.enabled then (if vals.any isUnderscore && !custom then .error .value else .ok ())
      else .error .value
    else .error .key

/-! ### `eval_entry`: the literal conversion

`eval_entry(text)` = `ast.literal_eval(text)` if that succeeds, otherwise the text itself as a string
(the code wraps it in quotes and evaluates again).  The model parses the sub-grammar below on the
character list and falls back to the string; **restriction (exact)**: Python literals outside this
grammar — complex numbers, `+` signs, `_` digit separators, hex/octal/binary integers, `inf`/`nan`
overflow, escape sequences and triple quotes in strings, bytes, sets, dictionaries, trailing commas in
lists, comments and arbitrary white space (only blanks after a comma are skipped) — are not modelled; the
correspondence generator stays inside the grammar.

```
value  ::= "None" | "True" | "False" | number | string | "[" items? "]" | "(" ")" | "(" value ",)" |
           "(" value ")" | "(" value "," items ")"
items  ::= " "* value ("," " "* value)*
number ::= "-"? digits ("." digits?)? (("e"|"E") ("-"|"+")? digits)?        (int iff neither "." nor exponent;
           an int with a leading 0 and a non-zero digit is not a literal)
string ::= "'" [^'\\\n]* "'" | '"' [^"\\\n]* '"'
```
-/

def isIdStart (c : Char) : Bool := c.isAlpha || c == '_'
def isIdChar (c : Char) : Bool := c.isAlphanum || c == '_'

/-- longest prefix whose characters satisfy `p`, and the rest -/
def spanP (p : Char → Bool) : List Char → List Char × List Char
  | [] => ([], [])
  | c :: r => if p c then ((spanP p r).1 |> (c :: ·), (spanP p r).2) else ([], c :: r)

def natOf (ds : List Char) : Nat := Nat.ofDigitChars 10 ds 0

def pow10 (e : Nat) : Rat := ((10 ^ e : Nat) : Rat)

def applySign (neg : Bool) (q : Rat) : Rat := if neg then -q else q

/-- exponent part (or none): the mantissa has already been read -/
def pExp (neg : Bool) (mant : Rat) : List Char → Option (Val × List Char)
  | c :: r =>
    if c = 'e' || c = 'E' then
      let (eneg, r1) : Bool × List Char :=
        match r with
        | '-' :: r1 => (true, r1)
        | '+' :: r1 => (false, r1)
        | _ => (false, r)
      let (es, r2) := spanP Char.isDigit r1
      if es.isEmpty then none
      else
        let e := natOf es
        some (.num (applySign neg (if eneg then mant / pow10 e else mant * pow10 e)), r2)
    else some (.num (applySign neg mant), c :: r)
  | [] => some (.num (applySign neg mant), [])

/-- a number token; the sign has already been read -/
def pNumber (neg : Bool) (cs : List Char) : Option (Val × List Char) :=
  let (ds, r) := spanP Char.isDigit cs
  if ds.isEmpty then none
  else
    match r with
    | '.' :: r1 =>
      let (fs, r2) := spanP Char.isDigit r1
      pExp neg ((natOf ds : Rat) + (natOf fs : Rat) / pow10 fs.length) r2
    | 'e' :: _ => pExp neg (natOf ds : Rat) r
    | 'E' :: _ => pExp neg (natOf ds : Rat) r
    | _ =>
      if ds.head? = some '0' && ds.any (· != '0') then none          -- `007`: not a Python literal
      else some (.int (if neg then -(natOf ds : Int) else (natOf ds : Int)), r)

def pString (q : Char) (r : List Char) : Option (Val × List Char) :=
  let (body, r') := spanP (· != q) r
  match r' with
  | _ :: r'' => if body.any (fun c => c == '\\' || c == '\n') then none else some (.str (String.ofList body), r'')
  | [] => none

def pKeyword (cs : List Char) : Option (Val × List Char) :=
  let (id, r) := spanP isIdChar cs
  if id = "None".toList then some (.none, r)
  else if id = "True".toList then some (.bool true, r)
  else if id = "False".toList then some (.bool false, r)
  else none

def skipBlanks : List Char → List Char
  | ' ' :: r => skipBlanks r
  | cs => cs

mutual
/-- one value; `fuel` bounds the nesting (any fuel ≥ the text's length + 1 is enough) -/
def pVal : Nat → List Char → Option (Val × List Char)
  | 0, _ => none
  | _ + 1, [] => none
  | fuel + 1, c :: r =>
    if c = '[' then
      match r with
      | ']' :: r' => some (.list [], r')
      | _ => match pItems fuel ']' r with
        | some (xs, r') => some (.list xs, r')
        | none => none
    else if c = '(' then
      match r with
      | ')' :: r' => some (.tuple [], r')
      | _ => match pVal fuel (skipBlanks r) with
        | some (v, ')' :: r') => some (v, r')                        -- a parenthesised value
        | some (v, ',' :: ')' :: r') => some (.tuple [v], r')
        | some (v, ',' :: r') => match pItems fuel ')' r' with
          | some (vs, r'') => some (.tuple (v :: vs), r'')
          | none => none
        | _ => none
    else if c = '\'' || c = '"' then pString c r
    else if c = '-' then pNumber true r
    else if c.isDigit then pNumber false (c :: r)
    else if isIdStart c then pKeyword (c :: r)
    else none
/-- `value ("," value)* close` -/
def pItems : Nat → Char → List Char → Option (List Val × List Char)
  | 0, _, _ => none
  | fuel + 1, close, cs =>
    match pVal fuel (skipBlanks cs) with
    | some (v, c :: r) =>
      if c = close then some ([v], r)
      else if c = ',' then
        match pItems fuel close r with
        | some (vs, r') => some (v :: vs, r')
        | none => none
      else none
    | _ => none
end

/-- `eval_entry` on the characters of a text -/
def evalChars (cs : List Char) : Val :=
  match pVal (cs.length + 1) cs with
  | some (v, []) => v
  | _ => .str (String.ofList cs)

def evalEntry (s : String) : Val := evalChars s.toList

/-- `eval_entry` ends with `assert isinstance(new_value, str | Number | Sequence)`: the text `None` (the only
literal of the grammar that is neither a number, a sequence nor a string) is refused with `AssertionError` -/
def evalEntryPy (s : String) : Except Err Val :=
  match evalEntry s with
  | .none => .error .assertion
  | v => .ok v

/-- the literals of the grammar, as syntax trees -/
inductive Lit where
  | none
  | bool (b : Bool)
  | int (neg : Bool) (n : Nat)
  /-- `[-]ip.0…0fm[e[-]ex]` with `fz` zeros after the point -/
  | dec (neg : Bool) (ip fz fm : Nat) (ex : Option (Bool × Nat))
  | str (dq : Bool) (body : List Char)
  | list (xs : List Lit)
  | tuple (xs : List Lit)

def digits (n : Nat) : List Char := Nat.toDigits 10 n

def quoteChar (dq : Bool) : Char := if dq then '"' else '\''

def renderExp : Option (Bool × Nat) → List Char
  | Option.none => []
  | some (eneg, e) => 'e' :: ((if eneg then ['-'] else []) ++ digits e)

def fracDigits (fz fm : Nat) : List Char := List.replicate fz '0' ++ digits fm

mutual
/-- the text a literal is written as -/
def render : Lit → List Char
  | .none => "None".toList
  | .bool true => "True".toList
  | .bool false => "False".toList
  | .int neg n => (if neg then ['-'] else []) ++ digits n
  | .dec neg ip fz fm ex => (if neg then ['-'] else []) ++ digits ip ++ '.' :: fracDigits fz fm ++ renderExp ex
  | .str dq body => quoteChar dq :: body ++ [quoteChar dq]
  | .list xs => '[' :: renderItems xs ']'
  | .tuple [] => ['(', ')']
  | .tuple [x] => '(' :: render x ++ [',', ')']
  | .tuple (x :: y :: xs) => '(' :: renderItems (x :: y :: xs) ')'
/-- `x, y, z<close>` -/
def renderItems : List Lit → Char → List Char
  | [], close => [close]
  | [x], close => render x ++ [close]
  | x :: y :: ys, close => render x ++ ',' :: ' ' :: renderItems (y :: ys) close
end

def denoteExp (q : Rat) : Option (Bool × Nat) → Rat
  | Option.none => q
  | some (true, e) => q / pow10 e
  | some (false, e) => q * pow10 e

mutual
/-- the value a literal denotes -/
def denote : Lit → Val
  | .none => .none
  | .bool b => .bool b
  | .int neg n => .int (if neg then -(n : Int) else (n : Int))
  | .dec neg ip fz fm ex =>
    .num (applySign neg (denoteExp ((ip : Rat) + (fm : Rat) / pow10 (fracDigits fz fm).length) ex))
  | .str _ body => .str (String.ofList body)
  | .list xs => .list (denoteAll xs)
  | .tuple xs => .tuple (denoteAll xs)
def denoteAll : List Lit → List Val
  | [] => []
  | x :: xs => denote x :: denoteAll xs
end

mutual
/-- well-formed: string bodies contain neither their quote, nor a backslash, nor a newline -/
def Lit.wf : Lit → Bool
  | .str dq body => body.all (fun c => c != quoteChar dq && c != '\\' && c != '\n')
  | .list xs => wfAll xs
  | .tuple xs => wfAll xs
  | _ => true
def wfAll : List Lit → Bool
  | [] => true
  | x :: xs => x.wf && wfAll xs
end

end PyxelModel.C08
