/-!
# C03 — model of the result recorder and of the debug capture

Mirrors (file : function)

* `pyxel/exposure/exposure.py : _extract_datatree_2d` — `stepTree`: one dataset per step with the
  five buckets (`to_xarray()` of each container; a container without array gives a NaN scalar) and
  the coordinate `time = [detector.absolute_time]`;
* `pyxel/exposure/exposure.py : run_pipeline` — the loop `reset → models → extract → combine`:
  `record` (combination of the per-step datasets along `time`, then the image dtype is set to the
  detector's current image dtype), `runSteps` (the bucket states), the layout key (`"/bucket"` or
  `"/"`, the flat layout being refused when the scene is not empty);
* `pyxel/pipelines/model_group.py : ModelGroup.run` (debug branch) — `capture`: after each model the
  visible buckets (`Detector.to_xarray()`: containers that hold an array; `charge` only when it is
  not all zero) are compared with the snapshot `last` (`np.allclose`), the differing or new ones
  are stored under `time_idx_<i>/<group>/<model>/`, and `last` becomes the current state.

Modelled **after the two proposed repairs** (`proposed_fixes/C03-*.diff`):
1. the per-step datasets are combined with `xr.concat(…, dim="time")` (the pinned `xr.merge`
   re-indexes every variable through float64: 64-bit image values above 2^53 come back changed —
   kept here as `recordOrig` for the counter-witness);
2. `last` is refreshed from the detector right after the per-step reset (the pinned code keeps the
   previous step's final state: kept here as `runDebugOrig` for the counter-witness).

Arrays are integer-valued (the writer probes of the harness write integers): `Arr` is a dtype tag
and the flattened list of values.  `xr.concat` is modelled by its contract on datasets whose `time`
labels are distinct: concatenation in argument order (trusted base, exercised by the harness).
-/
namespace PyxelModel.C03

inductive Bk where
  | photon | charge | pixel | signal | image
deriving DecidableEq, Repr

def Bk.all : List Bk := [.photon, .charge, .pixel, .signal, .image]

inductive Dt where
  | u8 | u16 | u32 | u64 | f16 | f32 | f64
deriving DecidableEq, Repr

def Dt.isUnsigned : Dt → Bool
  | .u8 | .u16 | .u32 | .u64 => true
  | _ => false

structure Arr where
  dt : Dt
  vals : List Int
deriving DecidableEq, Repr

/-- the five data buckets of the detector; `none` = the container holds no array -/
structure Snap where
  photon : Option Arr
  charge : Option Arr
  pixel : Option Arr
  signal : Option Arr
  image : Option Arr
deriving DecidableEq, Repr

def Snap.get (s : Snap) : Bk → Option Arr
  | .photon => s.photon
  | .charge => s.charge
  | .pixel => s.pixel
  | .signal => s.signal
  | .image => s.image

def Snap.set (s : Snap) (b : Bk) (v : Option Arr) : Snap :=
  match b with
  | .photon => { s with photon := v }
  | .charge => { s with charge := v }
  | .pixel => { s with pixel := v }
  | .signal => { s with signal := v }
  | .image => { s with image := v }

/-- `Detector.empty(reset)` on the five buckets of a detector with `n` pixels: photon, signal,
image lose their array; charge becomes a zero float64 array; pixel too, but only when `reset` -/
def Snap.emptied (s : Snap) (n : Nat) (reset : Bool) : Snap :=
  { photon := none, signal := none, image := none,
    charge := some ⟨.f64, List.replicate n 0⟩,
    pixel := if reset then some ⟨.f64, List.replicate n 0⟩ else s.pixel }

/-! ## what the models do (writer probes) -/

inductive WriteOp where
  | set (b : Bk) (a : Arr)        -- assign a new array
  | add (b : Bk) (k : Int)        -- in-place `+= k` on an initialised bucket
  | same (b : Bk)                 -- assign a copy of the current content
  -- charge held as clusters (`Charge.add_charge`, `add_charge_dataframe`, `set_frame_values`,
  -- `remove_from_frame`); the bucket's array is the per-pixel sum of the clusters
  | addAt (b : Bk) (adds : List Int)    -- new clusters / an array addition: per-pixel increments
  | scale (b : Bk) (k : Int)            -- every cluster's `number` multiplied by `k`
  | moveTo (b : Bk) (idx : List Nat)    -- the clusters of pixel `j` are moved to pixel `idx[j]`
  | zeroAt (b : Bk) (p : Nat)           -- the clusters of pixel `p` are removed
  | collect                             -- `pixel.array += charge.array` (simple collection)
deriving Repr

def addLists : List Int → List Int → List Int
  | x :: xs, y :: ys => (x + y) :: addLists xs ys
  | xs, [] => xs
  | [], _ => []

/-- per-pixel sums after moving the content of pixel `j` to pixel `idx[j]` -/
def moveVals (vals : List Int) (idx : List Nat) : List Int :=
  (List.range vals.length).map (fun i =>
    ((vals.zip idx).filter (fun p => p.2 == i)).foldl (fun acc p => acc + p.1) 0)

def mapVals (s : Snap) (b : Bk) (f : List Int → List Int) : Snap :=
  s.set b ((s.get b).map (fun a => { a with vals := f a.vals }))

def WriteOp.apply (s : Snap) : WriteOp → Snap
  | .set b a => s.set b (some a)
  | .add b k => mapVals s b (fun v => v.map (· + k))
  | .same _ => s
  | .addAt b adds => mapVals s b (fun v => addLists v adds)
  | .scale b k => mapVals s b (fun v => v.map (· * k))
  | .moveTo b idx => mapVals s b (fun v => moveVals v idx)
  | .zeroAt b p => mapVals s b (fun v => v.set p 0)
  | .collect =>
    match s.charge with
    | some c => mapVals s .pixel (fun v => addLists v c.vals)
    | none => s

/-- one executed model: where it is configured and what it does to the buckets -/
structure ModelRun where
  group : String
  name : String
  effect : Snap → Snap

/-! ## the recorder -/

/-- one variable of the result: dtype and one entry per time label
(`none` = NaN: the container held no array in that step) -/
structure Var where
  dt : Dt
  slices : List (Option (List Int))
deriving DecidableEq, Repr

structure Tree (T : Type) where
  times : List T
  photon : Var
  charge : Var
  pixel : Var
  signal : Var
  image : Var
deriving DecidableEq, Repr

def Tree.get {T} (t : Tree T) : Bk → Var
  | .photon => t.photon
  | .charge => t.charge
  | .pixel => t.pixel
  | .signal => t.signal
  | .image => t.image

/-- `to_xarray()` of one container, expanded along `time` -/
def varOf : Option Arr → Var
  | some a => ⟨a.dt, [some a.vals]⟩
  | none => ⟨.f64, [none]⟩

/-- `_extract_datatree_2d` -/
def stepTree {T} (abs : T) (s : Snap) : Tree T :=
  ⟨[abs], varOf s.photon, varOf s.charge, varOf s.pixel, varOf s.signal, varOf s.image⟩

/-- numeric conversions of the environment: result dtype of combining two dtypes
(`promote`) and the value conversion into it (`conv from to v`) -/
structure Numerics where
  promote : Dt → Dt → Dt
  conv : Dt → Dt → Int → Int

/-- `xr.concat` of one variable -/
def concatVar (N : Numerics) (v w : Var) : Var :=
  let d := N.promote v.dt w.dt
  ⟨d, v.slices.map (Option.map (List.map (N.conv v.dt d))) ++
      w.slices.map (Option.map (List.map (N.conv w.dt d)))⟩

/-- `astype` of a variable -/
def castVar (N : Numerics) (v : Var) (d : Dt) : Var :=
  if v.dt = d then v else ⟨d, v.slices.map (Option.map (List.map (N.conv v.dt d)))⟩

/-- one iteration of the combination in `run_pipeline`: concat along time; when the detector's
image container holds an array its dtype is imposed on the combined image -/
def combine {T} (N : Numerics) (acc : Tree T) (abs : T) (s : Snap) : Tree T :=
  let p := stepTree abs s
  let img := concatVar N acc.image p.image
  ⟨acc.times ++ p.times, concatVar N acc.photon p.photon, concatVar N acc.charge p.charge,
   concatVar N acc.pixel p.pixel, concatVar N acc.signal p.signal,
   match s.image with
   | some a => castVar N img a.dt
   | none => img⟩

def recordFrom {T} (N : Numerics) (acc : Tree T) : List (T × Snap) → Tree T
  | [] => acc
  | (abs, s) :: rest => recordFrom N (combine N acc abs s) rest

/-- the bucket part of the result for the end-of-step states `steps` (at least one step) -/
def record {T} (N : Numerics) : List (T × Snap) → Option (Tree T)
  | [] => none
  | (abs, s) :: rest => some (recordFrom N (stepTree abs s) rest)

/-- where the bucket tree is put: hierarchical layout on request, always when the scene is not
empty, and (proposed repair `C03-flat-layout-falls-back-to-hierarchical`) also when another node of
the result has coordinates that clash with the buckets' (`clash`: e.g. a debug record of a
multi-wavelength photon on another wavelength grid) — the pinned code raises in that case -/
def layoutKey (withInheritedCoords sceneEmpty : Bool) (clash : Bool := false) : String :=
  if withInheritedCoords || !sceneEmpty || clash then "/bucket" else "/"

/-! ### the pinned combination (`xr.merge`): every variable goes through float64 -/

/-- nearest binary64 value of an integer (ties to even) -/
def roundF64 (v : Int) : Int :=
  let n := v.natAbs
  if n < 2 ^ 53 then v
  else
    let e := n.log2 - 52
    let q := n >>> e
    let r := n % 2 ^ e
    let half := 2 ^ (e - 1)
    let q' := if r > half || (r == half && q % 2 == 1) then q + 1 else q
    (if v < 0 then -1 else 1) * ((q' <<< e : Nat) : Int)

/-- the numerics the driver uses: same dtypes are left alone; anything else goes to float64 -/
def stdNumerics : Numerics :=
  ⟨fun a b => if a = b then a else .f64,
   fun a b v => if a = b then v else if b = .f64 then roundF64 v else v⟩

/-- image variable of the pinned code: merged as float64, then cast back to the image dtype -/
def imageOrig (steps : List (Option Arr)) : List (Option (List Int)) :=
  match steps with
  | [] => []
  | [a] => [a.map (·.vals)]                       -- a single step is not merged
  | _ => steps.map (Option.map (fun a => a.vals.map roundF64))

/-! ## the step loop and the debug capture -/

/-- what `Detector.to_xarray()` shows: buckets holding an array; charge only if not all zero -/
def visible (s : Snap) : Snap :=
  { s with charge := match s.charge with
      | some a => if a.vals.all (· == 0) then none else some a
      | none => none }

/-- `np.allclose(a, b)` on integer-valued arrays: same values (the dtype does not matter) -/
def sameVals (a b : Arr) : Bool := a.vals == b.vals

/-- the buckets stored for a model: visible now, and either absent from `last` or different -/
def capture (last now : Snap) : List (Bk × Arr) :=
  Bk.all.filterMap (fun b =>
    match (visible now).get b with
    | none => none
    | some a =>
      match last.get b with
      | some l => if sameVals a l then none else some (b, a)
      | none => some (b, a))

structure Rec where
  step : Nat
  group : String
  name : String
  vars : List (Bk × Arr)
deriving DecidableEq, Repr

/-- `ModelGroup.run` over the enabled models of one step: returns (detector, last, records) -/
def runModels (i : Nat) : List ModelRun → Snap → Snap → List Rec → Snap × Snap × List Rec
  | [], det, last, acc => (det, last, acc)
  | m :: ms, det, last, acc =>
    let det' := m.effect det
    runModels i ms det' (visible det') (acc ++ [⟨i, m.group, m.name, capture last det'⟩])

/-- the loop of `run_pipeline` in debug mode (after repair 2): `last` restarts from the
detector as the per-step reset leaves it.  Returns the end-of-step states and the records. -/
def runDebugFrom (n : Nat) (nd : Bool) : Nat → Snap → List (List ModelRun) → List Snap × List Rec
  | _, _, [] => ([], [])
  | i, det, ms :: rest =>
    let d0 := det.emptied n (!nd)
    let (d1, _, recs) := runModels i ms d0 (visible d0) []
    let (snaps, recs') := runDebugFrom n nd (i + 1) d1 rest
    (d1 :: snaps, recs ++ recs')

def runDebug (n : Nat) (nd : Bool) (prior : Snap) (steps : List (List ModelRun)) :
    List Snap × List Rec :=
  runDebugFrom n nd 0 (prior.emptied n true) steps

/-- the same loop without debug: only the bucket states -/
def runPlainFrom (n : Nat) (nd : Bool) : Snap → List (List ModelRun) → List Snap
  | _, [] => []
  | det, ms :: rest =>
    let d1 := ms.foldl (fun d m => m.effect d) (det.emptied n (!nd))
    d1 :: runPlainFrom n nd d1 rest

def runPlain (n : Nat) (nd : Bool) (prior : Snap) (steps : List (List ModelRun)) : List Snap :=
  runPlainFrom n nd (prior.emptied n true) steps

/-- the statement's "buckets that this model changed": visible after the model, and not held
with the same values just before it ran -/
def changedBy (before after : Snap) : List (Bk × Arr) := capture (visible before) after

/-- specification of the debug records: recomputed from the true before/after states of every
model, without any `last` bookkeeping -/
def specModels (i : Nat) : List ModelRun → Snap → List Rec
  | [], _ => []
  | m :: ms, det => ⟨i, m.group, m.name, changedBy det (m.effect det)⟩ :: specModels i ms (m.effect det)

def specDebugFrom (n : Nat) (nd : Bool) : Nat → Snap → List (List ModelRun) → List Rec
  | _, _, [] => []
  | i, det, ms :: rest =>
    let d0 := det.emptied n (!nd)
    specModels i ms d0 ++ specDebugFrom n nd (i + 1) (ms.foldl (fun d m => m.effect d) d0) rest

/-! ### the pinned capture: `last` survives the per-step reset; before the very first model it
is "zeros like the current state" -/

def captureFirstOrig (now : Snap) : List (Bk × Arr) :=
  Bk.all.filterMap (fun b =>
    match (visible now).get b with
    | none => none
    | some a => if a.vals.all (· == 0) then none else some (b, a))

def runModelsOrig (i : Nat) : List ModelRun → Snap → Option Snap → List Rec → Snap × Option Snap × List Rec
  | [], det, last, acc => (det, last, acc)
  | m :: ms, det, last, acc =>
    let det' := m.effect det
    let vars := match last with
      | some l => capture l det'
      | none => captureFirstOrig det'
    runModelsOrig i ms det' (some (visible det')) (acc ++ [⟨i, m.group, m.name, vars⟩])

def runDebugOrigFrom (n : Nat) (nd : Bool) : Nat → Snap → Option Snap → List (List ModelRun) → List Rec
  | _, _, _, [] => []
  | i, det, last, ms :: rest =>
    let (d1, last', recs) := runModelsOrig i ms (det.emptied n (!nd)) last []
    recs ++ runDebugOrigFrom n nd (i + 1) d1 last' rest

end PyxelModel.C03
