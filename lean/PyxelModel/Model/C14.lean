/-!
# C14 — model of the charge bucket (`pyxel/data_structure/charge.py`)

Mirrors `Charge`: the state is `_array` (rows × cols) and `_frame` (the table of clusters; only the
columns the accounting uses: index label, `number`, `position_ver`, `position_hor`) and `nextid`.

* `add_charge_array`      → `addArray`     (shape validated; added to the array while no cluster
                                             exists, otherwise converted to clusters at pixel centres)
* `add_charge_dataframe` / `add_charge` → `addClusters` (an existing non-zero array is first
                                             converted to clusters; `pd.concat(ignore_index=True)`
                                             renumbers the index)
* `array` (property)      → `read`          (recomputed from the clusters when there are any, and
                                             cached in `_array`)
* `convert_df_to_array`   → `dfToArray`     (loop `array[iv, ih] += number` over the clusters, after
                                             the proposed repair `proposed_fixes/C14-*.diff`: clusters
                                             whose pixel index is outside the array are skipped)
* `convert_array_to_df`   → `arrayToDf`     (entries `> 0`, row-major, at `k·size + size/2`)
* `remove_from_frame`     → `remove`        (by index label; an empty list removes all; the array
                                             cache is zeroed when the last clusters were removed)
* `empty`                 → `reset`         (`Detector.empty(reset)` calls it unconditionally for either value of
                                             `reset`: the driver maps the detector-level reset to `reset` too)
* `to_dict` / `from_dict`, `save` / `Detector.load` of the four detector classes → `roundtrip`

Arrays are *values* here: `addArray a` adds the values the caller's array holds at call time.  The
code must neither keep a reference to the caller's ndarray nor modify it (`self._array += array`
reads it only), so adding the same ndarray object again, or the caller overwriting its own array
afterwards, are not distinguishable from fresh arrays with those values (the harness exercises
both: same object re-added, caller's buffer zeroed / rewritten after the call).

Charge and positions are exact rationals (`Rat`); `np.floor_divide` is the exact floor of the
quotient (the harness compares on integer-valued charges, where binary64 sums are exact, and
checks the binning against an exact rational floor).  `flatWrite` describes what the *unrepaired*
`@njit` loop does with an index outside the array (numba: no bounds check, negative indices wrap
once per axis, the element address is `iv·cols + ih`).
-/
namespace PyxelModel.C14

structure Geo where
  rows : Nat
  cols : Nat
  h : Rat      -- pixel_vert_size
  w : Rat      -- pixel_horz_size
deriving Repr

structure Cluster where
  number : Rat
  v : Rat      -- position_ver
  u : Rat      -- position_hor
deriving DecidableEq, Repr

abbrev Grid := List (List Rat)

def Grid.get (a : Grid) (i j : Nat) : Rat := ((a[i]?).getD [])[j]?.getD 0

def zeros (g : Geo) : Grid := List.replicate g.rows (List.replicate g.cols 0)

/-- `a.shape == (rows, cols)` -/
def shapeOk (g : Geo) (a : Grid) : Bool := a.length == g.rows && a.all (fun r => r.length == g.cols)

def addGrid (a b : Grid) : Grid := List.zipWith (List.zipWith (· + ·)) a b

def allZero (a : Grid) : Bool := a.all (fun r => r.all (· == 0))

/-- pixel indices `np.floor_divide(position, size)` -/
def idxV (g : Geo) (c : Cluster) : Int := (c.v / g.h).floor
def idxH (g : Geo) (c : Cluster) : Int := (c.u / g.w).floor

/-- REPAIRED: the pixel a cluster is credited to; `none` when it lies outside the sensitive area -/
def bin (g : Geo) (c : Cluster) : Option (Nat × Nat) :=
  let iv := idxV g c
  let ih := idxH g c
  if 0 ≤ iv ∧ iv < g.rows ∧ 0 ≤ ih ∧ ih < g.cols then some (iv.toNat, ih.toNat) else none

/-- `array[i, j] += q` -/
def bump (a : Grid) (i j : Nat) (q : Rat) : Grid := a.modify i (fun row => row.modify j (· + q))

def dfStep (g : Geo) (a : Grid) (c : Cluster) : Grid :=
  match bin g c with
  | some (i, j) => bump a i j c.number
  | none => a

/-- `convert_df_to_array` (repaired) -/
def dfToArray (g : Geo) (frame : List Cluster) : Grid := frame.foldl (dfStep g) (zeros g)

/-- pixel-centre coordinate `k * size + size / 2` -/
def centre (size : Rat) (k : Nat) : Rat := (k : Rat) * size + size / 2

def rowToDf (g : Geo) (i : Nat) : Nat → List Rat → List Cluster
  | _, [] => []
  | j, x :: xs =>
    if x > 0 then ⟨x, centre g.h i, centre g.w j⟩ :: rowToDf g i (j + 1) xs
    else rowToDf g i (j + 1) xs

def gridToDf (g : Geo) : Nat → Grid → List Cluster
  | _, [] => []
  | i, r :: rs => rowToDf g i 0 r ++ gridToDf g (i + 1) rs

/-- `convert_array_to_df`: positive entries only, row-major, at pixel centres -/
def arrayToDf (g : Geo) (a : Grid) : List Cluster := gridToDf g 0 a

def labelFrom : Nat → List Cluster → List (Nat × Cluster)
  | _, [] => []
  | n, c :: cs => (n, c) :: labelFrom (n + 1) cs

structure St where
  arr : Grid
  frame : List (Nat × Cluster)
  nextid : Nat
deriving Repr

def St.clusters (s : St) : List Cluster := s.frame.map (·.2)

def init (g : Geo) : St := ⟨zeros g, [], 0⟩

inductive Op
  | addArray (a : Grid)
  | addClusters (cs : List Cluster)
  | read
  | remove (ids : List Nat)
  | reset
  | roundtrip (relabel : Bool)    -- the detector is rebuilt from `to_dict()` (labels kept) or from a saved file (relabelled)
deriving Repr

/-- `add_charge_dataframe` -/
def addClustersCore (g : Geo) (s : St) (cs : List Cluster) : St :=
  let newFrame :=
    if s.frame.isEmpty then
      if allZero s.arr then labelFrom 0 cs
      else labelFrom 0 (arrayToDf g s.arr ++ cs)
    else labelFrom 0 (s.clusters ++ cs)
  { s with frame := newFrame, nextid := s.nextid + cs.length }

/-- the `array` property: (state with refreshed cache, returned array) -/
def readArr (g : Geo) (s : St) : St × Grid :=
  if s.frame.isEmpty then (s, s.arr)
  else
    let a := dfToArray g s.clusters
    ({ s with arr := a }, a)

inductive Out
  | unit
  | arr (a : Grid)
  | valueError
deriving Repr

def step (g : Geo) (s : St) : Op → St × Out
  | .addArray a =>
    if !shapeOk g a then (s, .valueError)
    else if s.frame.isEmpty then ({ s with arr := addGrid s.arr a }, .unit)
    else (addClustersCore g s (arrayToDf g a), .unit)
  | .addClusters cs => (addClustersCore g s cs, .unit)
  | .read => let r := readArr g s; (r.1, .arr r.2)
  | .remove ids =>
    let fr := if ids.isEmpty then [] else s.frame.filter (fun e => !ids.contains e.1)
    -- /repo ba89bae + proposed C14-remove-keeps-array-charge: when the call removed the last
    -- clusters the cached array is reset to zeros; with no cluster before the call `_array` is the
    -- charge added as arrays and is kept
    ({ s with frame := fr, arr := if !s.frame.isEmpty && fr.isEmpty then zeros g else s.arr }, .unit)
  | .reset => (⟨zeros g, [], 0⟩, .unit)
  | .roundtrip relabel =>
    -- `<Detector>.from_dict(detector.to_dict())` / `Detector.load(save(...))`: `to_dict` stores `charge.array`
    -- (a read: the cache is refreshed) and the cluster table; `from_dict` puts both into a fresh bucket
    -- (`nextid` starts again at 0; a file does not keep the index labels)
    let r := (readArr g s).1
    ({ r with frame := if relabel then labelFrom 0 r.clusters else r.frame, nextid := 0 }, .unit)

def run (g : Geo) : St → List Op → St
  | s, [] => s
  | s, op :: ops => run g (step g s op).1 ops

def trace (g : Geo) : St → List Op → List (St × Out)
  | _, [] => []
  | s, op :: ops => let r := step g s op; r :: trace g r.1 ops

/-- what the detector reports: `charge.array` -/
def report (g : Geo) (s : St) : Grid := (readArr g s).2

/-! ## the statement's vocabulary -/

/-- total charge of the clusters credited to pixel `me` -/
def credit (g : Geo) (me : Nat × Nat) : List Cluster → Rat
  | [] => 0
  | c :: cs => (if bin g c = some me then c.number else 0) + credit g me cs

/-- the independent accumulator of the statement, for pixel `(i, j)`: everything added since the
last reset — array entries (a wrongly shaped array is rejected and adds nothing), and clusters
whose position lies in that pixel's area -/
def accStep (g : Geo) (i j : Nat) (x : Rat) : Op → Rat
  | .addArray a => if shapeOk g a then x + a.get i j else x
  | .addClusters cs => x + credit g (i, j) cs
  | .read => x
  | .remove _ => x      -- (not used: removals are excluded where `acc` is)
  | .reset => 0
  | .roundtrip _ => x

def acc (g : Geo) (i j : Nat) (x : Rat) (ops : List Op) : Rat := ops.foldl (accStep g i j) x

def Op.isRemoval : Op → Bool
  | .remove _ => true
  | _ => false

/-! ## the unrepaired loop, for the counter-witnesses -/

/-- element offset written by the unchecked `array[iv, ih] += q` -/
def flatWrite (g : Geo) (c : Cluster) : Int :=
  let iv := idxV g c
  let ih := idxH g c
  let iv' := if iv < 0 then iv + g.rows else iv
  let ih' := if ih < 0 then ih + g.cols else ih
  iv' * g.cols + ih'

/-- what that write does: credit some pixel of the array, or touch memory outside the buffer -/
inductive Landing
  | pixel (i j : Nat)
  | outsideBuffer
deriving DecidableEq, Repr

def landingUnrepaired (g : Geo) (c : Cluster) : Landing :=
  let k := flatWrite g c
  if 0 ≤ k ∧ k < g.rows * g.cols then .pixel (k.toNat / g.cols) (k.toNat % g.cols) else .outsideBuffer

end PyxelModel.C14
