import PyxelModel.Model.C05
/-!
# C07 — model of the parallel observation path (`pyxel/observation/observation_dask.py`, `misc.py`)

* `run_pipelines_with_dask`: `xr.apply_ufunc(..., vectorize=True, dask="parallelized")` over
  `create_params(...).chunk(1)` — one task per element of the parameter array; every task computes a
  function of the *base* processor and its own parameter tuple (`processor.replace(dct)`, C06) and the
  result is stored at the task's own position of the output array.  A scheduler is a completion order
  `σ` (any list of task numbers) plus a worker assignment `w` (task number → worker id):
  → `runIn`, `assemble`.  `executor.map` of `archipelago_datatree.py` (islands) has the same shape.
* the shared-state variant `runShared` / `assembleShared` (a task that reads and writes a store shared
  between tasks) exists only to show that the purity hypothesis of the theorem is not decorative.
* file name index of a run: `np.arange(size).reshape(shape)` at the run's grid position → `flatIndex`.
* `ProductMode.create_params`: `pd.MultiIndex.from_product(values).to_xarray()` — the grid of the
  value lists, every axis re-ordered by pandas (sorted levels): axis `j` lists `values_j` in the order
  `order_j` (a list of positions)                                           → `reorder`, `parGrid`
* `SequentialMode.create_params` (REPAIRED: `tuple(entry.parameters[key] for key in keys)` over
  `get_parameters_item(processor)`; before the repair `zip(*value_lists)`)  → `seqTuples`, `oldSeqTuples`
  and `dict(zip(dimension_names, params_tuple))` in `_run_pipelines_array_to_datatree` → `taskAssignment`
* `CustomMode.create_params` + `convert_custom_data` (REPAIRED: columns by position, a bare `_` is a
  scalar and a list of placeholders a tuple; before: `len(params) == 1` also made `['_']` a scalar and
  columns were looked up by *label*)                                        → `customTuples`, `oldCutOnePar`
-/
namespace PyxelModel.C07

open PyxelModel.C05

/-! ## scheduling -/

/-- one finished task: (task number, worker that ran it, value) -/
structure Done (δ : Type) where
  task : Nat
  worker : Nat
  value : δ
deriving Repr, DecidableEq

/-- the completion events of a schedule: tasks finish in the order `σ`, task `i` ran on worker `w i` -/
def runIn {τ δ : Type} (eval : τ → δ) (σ : List Nat) (w : Nat → Nat) (tasks : List τ) : List (Done δ) :=
  σ.filterMap (fun i => (tasks[i]?).map (fun t => ⟨i, w i, eval t⟩))

/-- the output array: every finished task stored at its own position -/
def assemble {δ : Type} (n : Nat) (events : List (Done δ)) : List (Option δ) :=
  events.foldl (fun acc e => acc.set e.task (some e.value)) (List.replicate n none)

/-- tasks that read and update a store shared between them (NOT what pyxel's tasks do: C06) -/
def runShared {τ δ S : Type} (step : S → τ → δ × S) (σ : List Nat) (tasks : List τ) :
    S → List (Done δ)
  | s => match σ with
    | [] => []
    | i :: rest =>
      match tasks[i]? with
      | none => runShared step rest tasks s
      | some t => let r := step s t; ⟨i, 0, r.1⟩ :: runShared step rest tasks r.2

/-! ## file index -/

/-- number of elements of a grid of shape `dims` -/
def size : List Nat → Nat
  | [] => 1
  | d :: ds => d * size ds

/-- `np.arange(size).reshape(shape)[I]` (row-major) -/
def flatIndex : List Nat → List Nat → Nat
  | _ :: ds, i :: is => i * size ds + flatIndex ds is
  | _, _ => 0

/-! ## the parameter array of each mode -/

/-- axis values in pandas' order: `order` lists positions of `l` -/
def reorder {α : Type} (order : List Nat) (l : List α) : List α := order.filterMap (fun i => l[i]?)

def reorderAll {α : Type} : List (List Nat) → List (List α) → List (List α)
  | o :: os, l :: ls => reorder o l :: reorderAll os ls
  | _, _ => []

/-- `ProductMode.create_params`: element `k` (row-major) of the parameter array; its coordinates are
the values themselves -/
def parGrid {α : Type} (orders : List (List Nat)) (ps : List (Param α)) : List (List α) :=
  prod (reorderAll orders ((enabledSteps ps).map (·.values)))

/-- `dict(zip(dimension_names, params_tuple))` -/
def taskAssignment {β : Type} (keys : List String) (tuple : List β) : List (String × β) := keys.zip tuple

def lookupD {β : Type} (d : β) (kvs : List (String × β)) (k : String) : β :=
  match kvs.lookup k with
  | some v => v
  | none => d

/-- `Processor.replace(changes)` (dask path) and `create_new_processor` (sequential path): `Processor.set` one key after
the other, in the order of the mapping; `set` is arbitrary — setters may depend on each other (APD: the avalanche gain
setter recomputes the common voltage, the voltage setters recompute the gain), so the order is behaviour -/
def applyChanges {σ β : Type} (set : σ → String → β → σ) (s : σ) (kvs : List (String × β)) : σ :=
  kvs.foldl (fun s kv => set s kv.1 kv.2) s

/-- REPAIRED `SequentialMode.create_params`: one tuple per entry of `get_parameters_item`, in key order -/
def seqTuples {α : Type} (defaults : String → α) (ps : List (Param α)) : List (List α) :=
  let keys := ((enabledSteps ps).map (·.key)).eraseDups
  (sequentialRuns defaults ps).map (fun r => keys.map (fun k => lookupD (defaults k) r.params k))

/-- `zip(*lists)` (shortest list wins) -/
def zipAll {α : Type} : List (List α) → List (List α)
  | [] => []
  | [l] => l.map (fun x => [x])
  | l :: ls => List.zipWith (· :: ·) l (zipAll ls)

/-- the code before the repair -/
def oldSeqTuples {α : Type} (ps : List (Param α)) : List (List α) :=
  zipAll ((enabledSteps ps).map (·.values))

/-- REPAIRED `convert_custom_data`: the table is converted *column-wise* — for each enabled parameter in
declaration order the column of its values over all rows (`iloc[:, idx]` for a bare `_`, tuples of
`iloc[:, idx:idx+w]` for `w` placeholders), `idx` advancing by the width -/
def convertCustom {α : Type} (rows : List (List α)) : Nat → List CParam → List (List (Option (CVal α)))
  | _, [] => []
  | i, p :: ps => rows.map (fun row => cutOne row i p.width) :: convertCustom rows (i + p.cols) ps

/-- `custom_data_df.values.tolist()`: the rows of the converted table = the parameter tuples of the tasks -/
def customTuples {α : Type} (rows : List (List α)) (ps : List CParam) :
    List (List (Option (CVal α))) :=
  let cols := convertCustom rows 0 (cenabled ps)
  (List.range rows.length).map (fun r => cols.map (fun col => (col[r]?).join))

/-- `convert_custom_data` before the repair: `len(params) == 1` → the single column as a scalar, also for
the one-element list `['_']`; columns addressed by *label*, which are `colStart, colStart+1, …` -/
def oldCutOnePar {α : Type} (colStart : Nat) (row : List α) (i : Nat) (w : Option Nat) :
    Option (CVal α) :=
  if colStart ≠ 0 then none   -- `custom_data[0]`: KeyError
  else match w with
    | none => (row[i]?).map CVal.scalar
    | some 1 => (row[i]?).map CVal.scalar
    | some w => if i + w ≤ row.length then some (CVal.vec ((row.drop i).take w)) else none

end PyxelModel.C07
