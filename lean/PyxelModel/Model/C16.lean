/-!
# C16 — model of the analog-to-digital converters

Mirrors (after the two repairs proposed in `/verif/proposed_fixes/C16-*.diff`)

* `pyxel/util/misc.py: get_dtype`                                   → `dtypeWidth`
* `pyxel/models/readout_electronics/simple_adc.py: apply_simple_adc` → `simpleAdc` (ℚ + explicit rounding), `simpleAdcF` (`Float`)
* `pyxel/models/readout_electronics/sar_adc.py: apply_sar_adc`       → `sar`, `sarF`
* `pyxel/models/readout_electronics/sar_adc_with_noise.py: apply_sar_adc_with_noise` → `sarNoise`, `sarNoiseF`
  (the normal draw of every step is an input of the model: `np.random.normal(loc, scale = 0)` is `loc`)

and the code **as it stands in the pinned tree** (`…AsIs`), kept for the counter-witnesses and so that the
driver can tell which of the two behaviours the implementation shows.

Two executable renderings of every converter:

* over `Rat`, with *every* binary64 rounding written as an explicit call of a function `rnd : Rat → Rat`
  (the theorems in `Props/C16.lean` hold for every `rnd` satisfying `IsRounding`; the driver runs the
  model with `rn53` = round-to-nearest-even to 53 significant bits with gradual underflow, i.e. binary64
  without overflow, which is proved to be an `IsRounding`);
* over Lean's `Float` (IEEE binary64 in hardware), the numpy cast `astype(uintN)` modelled explicitly
  (`castUF`: out-of-range / NaN is the outcome `castUB`, never saturation).

Both are compared bit-for-bit with numpy by `harness/c16.py`.  Core Lean only.
-/
namespace PyxelModel.C16

/-! ## `get_dtype` -/

/-- `get_dtype`: width in bits of the unsigned type chosen for a resolution (`none` = `ValueError`) -/
def dtypeWidth (bits : Nat) : Option Nat :=
  if 1 ≤ bits ∧ bits ≤ 8 then some 8
  else if 9 ≤ bits ∧ bits ≤ 16 then some 16
  else if 17 ≤ bits ∧ bits ≤ 32 then some 32
  else if 33 ≤ bits ∧ bits ≤ 64 then some 64
  else none

/-- full scale `2**bit_resolution - 1` (a Python `int`, exact) -/
def fullScale (bits : Nat) : Nat := 2 ^ bits - 1

/-! ## explicit rounding -/

/-- the laws of a rounding function that the theorems use -/
structure IsRounding (rnd : Rat → Rat) : Prop where
  mono : ∀ {x y : Rat}, x ≤ y → rnd x ≤ rnd y
  zero : rnd 0 = 0
  one : rnd 1 = 1
  idem : ∀ x : Rat, rnd (rnd x) = rnd x

/-- `2^e` for an integer exponent -/
def pow2 (e : Int) : Rat :=
  if 0 ≤ e then ((2 ^ e.toNat : Nat) : Rat) else 1 / ((2 ^ (-e).toNat : Nat) : Rat)

/-- `⌊log₂ x⌋` for `x > 0` -/
def ilog2 (x : Rat) : Int :=
  let k : Int := (x.num.natAbs.log2 : Int) - (x.den.log2 : Int)
  if x < pow2 k then k - 1 else k

/-- round a rational to the nearest integer, ties to even -/
def rnE (q : Rat) : Int :=
  let f := q.floor
  let r := q - (f : Rat)
  if r < 1 / 2 then f else if 1 / 2 < r then f + 1 else if f % 2 = 0 then f else f + 1

/-- exponent of the unit in the last place of a positive `x` in binary64 (gradual underflow) -/
def ulpExp (x : Rat) : Int :=
  let e := ilog2 x - 52
  if e < -1074 then -1074 else e

def rnPos (x : Rat) : Rat := (rnE (x / pow2 (ulpExp x)) : Rat) * pow2 (ulpExp x)

/-- binary64 rounding of a real (here: rational) result, without overflow -/
def rn53 (x : Rat) : Rat :=
  if x = 0 then 0 else if 0 < x then rnPos x else - rnPos (-x)

/-! ## voltages: finite or infinite -/

inductive XV where
  | ninf
  | fin (q : Rat)
  | pinf
deriving DecidableEq, Repr

/-- the order of the extended voltages -/
def XV.le : XV → XV → Prop
  | .ninf, _ => True
  | _, .pinf => True
  | .fin a, .fin b => a ≤ b
  | _, _ => False

/-- value of a 64-bit pattern (`none` = NaN); `-0.0` is `0` -/
def ofBits (b : Nat) : Option XV :=
  let sign : Nat := b / 2 ^ 63 % 2
  let ex : Nat := b / 2 ^ 52 % 2048
  let man : Nat := b % 2 ^ 52
  if ex = 2047 then
    if man = 0 then some (if sign = 1 then .ninf else .pinf) else none
  else
    let mag : Rat :=
      if ex = 0 then (man : Rat) * pow2 (-1074) else (((2 ^ 52 + man : Nat)) : Rat) * pow2 ((ex : Int) - 1075)
    some (.fin (if sign = 1 then -mag else mag))

/-! ## the numpy pieces -/

/-- `np.clip(v, lo, hi)` = `minimum(maximum(v, lo), hi)` -/
def clip (lo hi v : Rat) : Rat :=
  let m := if v < lo then lo else v
  if hi < m then hi else m

/-- `np.clip` of an infinite voltage -/
def clipX (lo hi : Rat) : XV → Rat
  | .ninf => clip lo hi lo
  | .fin v => clip lo hi v
  | .pinf => hi

/-- `np.trunc` (exact) -/
def trunc (y : Rat) : Int := if y < 0 then -((-y).floor) else y.floor

/-- `ndarray.astype(uint<w>)` of an integer-valued double: defined only inside the target range -/
def castU (w : Nat) (t : Int) : Except String Nat :=
  if 0 ≤ t ∧ t < 2 ^ w then .ok t.toNat else .error "castUB"

/-! ## simple ADC -/

/-- `output = fraction * full_scale` of the repaired `apply_simple_adc`, every rounding explicit -/
def adcY (rnd : Rat → Rat) (bits : Nat) (vmin vmax : Rat) (v : XV) : Rat :=
  let D := rnd (vmax - vmin)
  let d := rnd (clipX vmin vmax v - vmin)
  let fraction := rnd (d / D)
  rnd (fraction * rnd (fullScale bits))

/-- repaired `apply_simple_adc` with `dtype = uint<w>`:
```
full_scale = 2**bit_resolution - 1
fraction = (np.clip(signal, voltage_min, voltage_max) - voltage_min) / (voltage_max - voltage_min)
output = fraction * full_scale
saturated = output >= full_scale
digitized = np.trunc(np.where(saturated, 0.0, output)).astype(np.uint64)
digitized[saturated] = full_scale
return digitized.astype(dtype)
``` -/
def simpleAdc (rnd : Rat → Rat) (bits w : Nat) (vmin vmax : Rat) (v : XV) : Except String Nat :=
  let y := adcY rnd bits vmin vmax v
  let sat : Bool := decide (rnd (fullScale bits) ≤ y)
  (castU 64 (trunc (if sat then 0 else y))).map (fun t => (if sat then fullScale bits else t) % 2 ^ w)

/-- declarative reading of the statement for the simple ADC: the scaled fraction, floored, saturating
at full scale -/
def adcSpec (rnd : Rat → Rat) (bits : Nat) (vmin vmax : Rat) (v : XV) : Nat :=
  let y := adcY rnd bits vmin vmax v
  if rnd (fullScale bits) ≤ y then fullScale bits else y.floor.toNat

/-- the image bucket: element width of its unsigned type and the codes -/
structure Image where
  width : Nat
  codes : List (Except String Nat)

/-- `simple_adc`: `detector.image.array = apply_simple_adc(signal, …, dtype)` **rebinds** the bucket to the new
array (type and all); what the bucket held before (`prev`) is not consulted -/
def storeSimple (_prev : Option Image) (rnd : Rat → Rat) (bits w : Nat) (vmin vmax : Rat) (frame : List XV) : Image :=
  ⟨w, frame.map (simpleAdc rnd bits w vmin vmax)⟩

/-- `apply_simple_adc` of the pinned tree: scale first, divide, truncate, cast -/
def simpleAdcAsIs (rnd : Rat → Rat) (bits w : Nat) (vmin vmax : Rat) (v : XV) : Except String Nat :=
  let d := rnd (clipX vmin vmax v - vmin)
  let y := rnd (rnd (d * rnd (fullScale bits)) / rnd (vmax - vmin))
  castU w (trunc y)

/-! ## successive-approximation ADC -/

/-- repaired `apply_sar_adc` loop: `k` bits remain, the code is accumulated in `uint<w>` -/
def sarLoop (rnd : Rat → Rat) (w : Nat) : Nat → Rat → XV → Nat → Nat
  | 0, _, _, acc => acc
  | k + 1, ref, s, acc =>
    match s with
    | .ninf => sarLoop rnd w k (rnd (ref / 2)) s acc
    | .pinf => sarLoop rnd w k (rnd (ref / 2)) s ((acc + 2 ^ k) % 2 ^ w)
    | .fin q =>
      if ref ≤ q then sarLoop rnd w k (rnd (ref / 2)) (.fin (rnd (q - ref))) ((acc + 2 ^ k) % 2 ^ w)
      else sarLoop rnd w k (rnd (ref / 2)) s acc

def sar (rnd : Rat → Rat) (bits w : Nat) (vmax : Rat) (v : XV) : Nat :=
  sarLoop rnd w bits (rnd (vmax / 2)) v 0

/-- `sar_adc`: `detector.image.array = image_2d`, likewise -/
def storeSar (_prev : Option Image) (rnd : Rat → Rat) (bits w : Nat) (vmax : Rat) (frame : List XV) : Image :=
  ⟨w, frame.map (fun v => .ok (sar rnd bits w vmax v))⟩

/-- the same loop with unbounded accumulation: what the code is meant to compute -/
def sarIdealLoop (rnd : Rat → Rat) : Nat → Rat → XV → Nat → Nat
  | 0, _, _, acc => acc
  | k + 1, ref, s, acc =>
    match s with
    | .ninf => sarIdealLoop rnd k (rnd (ref / 2)) s acc
    | .pinf => sarIdealLoop rnd k (rnd (ref / 2)) s (acc + 2 ^ k)
    | .fin q =>
      if ref ≤ q then sarIdealLoop rnd k (rnd (ref / 2)) (.fin (rnd (q - ref))) (acc + 2 ^ k)
      else sarIdealLoop rnd k (rnd (ref / 2)) s acc

def sarIdeal (rnd : Rat → Rat) (bits : Nat) (vmax : Rat) (v : XV) : Nat :=
  sarIdealLoop rnd bits (rnd (vmax / 2)) v 0

/-- `apply_sar_adc` of the pinned tree: the code is accumulated in a **double** and cast at the end -/
def sarAsIsLoop (rnd : Rat → Rat) : Nat → Rat → XV → Rat → Rat
  | 0, _, _, acc => acc
  | k + 1, ref, s, acc =>
    match s with
    | .ninf => sarAsIsLoop rnd k (rnd (ref / 2)) s acc
    | .pinf => sarAsIsLoop rnd k (rnd (ref / 2)) s (rnd (acc + (2 ^ k : Nat)))
    | .fin q =>
      if ref ≤ q then sarAsIsLoop rnd k (rnd (ref / 2)) (.fin (rnd (q - ref))) (rnd (acc + (2 ^ k : Nat)))
      else sarAsIsLoop rnd k (rnd (ref / 2)) s acc

def sarAsIs (rnd : Rat → Rat) (bits w : Nat) (vmax : Rat) (v : XV) : Except String Nat :=
  castU w (trunc (sarAsIsLoop rnd bits (rnd (vmax / 2)) v 0))

/-- repaired `apply_sar_adc_with_noise` loop; `draws` are the values of `np.random.normal` per step.
`ref_2d += draw; mask = s >= ref; code[mask] += 2^k; s -= ref * mask; ref /= 2` -/
def sarNoiseLoop (rnd : Rat → Rat) (w : Nat) : Nat → List Rat → Rat → Rat → Nat → Option Nat
  | 0, _, _, _, acc => some acc
  | _ + 1, [], _, _, _ => none
  | k + 1, d :: ds, ref, s, acc =>
    let ref' := rnd (ref + d)
    if ref' ≤ s then
      sarNoiseLoop rnd w k ds (rnd (ref' / 2)) (rnd (s - rnd (ref' * 1))) ((acc + 2 ^ k) % 2 ^ w)
    else
      sarNoiseLoop rnd w k ds (rnd (ref' / 2)) (rnd (s - rnd (ref' * 0))) acc

/-- `none`: fewer draws than bits (the wrapper raises `ValueError` before) -/
def sarNoise (rnd : Rat → Rat) (bits w : Nat) (vmax : Rat) (draws : List Rat) (v : Rat) : Option Nat :=
  sarNoiseLoop rnd w bits draws (rnd (vmax / 2)) v 0

/-! ## `Float` renderings (hardware binary64) -/

def nanF : Float := 0.0 / 0.0

/-- `np.maximum` / `np.minimum` (NaN propagates) -/
def maxF (a b : Float) : Float := if a.isNaN || b.isNaN then nanF else if a < b then b else a
def minF (a b : Float) : Float := if a.isNaN || b.isNaN then nanF else if b < a then b else a
def clipF (lo hi v : Float) : Float := minF (maxF v lo) hi
def truncF (y : Float) : Float := if y < 0 then y.ceil else y.floor

/-- numpy's C cast double → uint<w>: only defined for values in range (NaN, negative, ≥ 2^w: `castUB`).
Lean's own `Float.toUInt64` saturates, so it is only called inside the range, where it is exact. -/
def castUF (w : Nat) (t : Float) : Except String Nat :=
  if t.isNaN then .error "castUB"
  else if t < 0 then .error "castUB"
  else if Float.ofNat (2 ^ w) ≤ t then .error "castUB"
  else .ok t.toUInt64.toNat

def simpleAdcF (bits w : Nat) (vmin vmax v : Float) : Except String Nat :=
  let nf := Float.ofNat (fullScale bits)
  let fraction := (clipF vmin vmax v - vmin) / (vmax - vmin)
  let y := fraction * nf
  let sat : Bool := nf ≤ y
  (castUF 64 (truncF (if sat then 0.0 else y))).map (fun t => (if sat then fullScale bits else t) % 2 ^ w)

def simpleAdcAsIsF (bits w : Nat) (vmin vmax v : Float) : Except String Nat :=
  let nf := Float.ofNat (fullScale bits)
  castUF w (truncF ((clipF vmin vmax v - vmin) * nf / (vmax - vmin)))

def sarLoopF (w : Nat) : Nat → Float → Float → Nat → Nat
  | 0, _, _, acc => acc
  | k + 1, ref, s, acc =>
    if ref ≤ s then sarLoopF w k (ref / 2.0) (s - ref) ((acc + 2 ^ k) % 2 ^ w)
    else sarLoopF w k (ref / 2.0) s acc

def sarF (bits w : Nat) (vmax v : Float) : Nat := sarLoopF w bits (vmax / 2.0) v 0

def sarAsIsLoopF : Nat → Float → Float → Float → Float
  | 0, _, _, acc => acc
  | k + 1, ref, s, acc =>
    if ref ≤ s then sarAsIsLoopF k (ref / 2.0) (s - ref) (acc + Float.ofNat (2 ^ k))
    else sarAsIsLoopF k (ref / 2.0) s acc

def sarAsIsF (bits w : Nat) (vmax v : Float) : Except String Nat :=
  castUF w (sarAsIsLoopF bits (vmax / 2.0) v 0.0)

def sarNoiseLoopF (w : Nat) : Nat → List Float → Float → Float → Nat → Option Nat
  | 0, _, _, _, acc => some acc
  | _ + 1, [], _, _, _ => none
  | k + 1, d :: ds, ref, s, acc =>
    let ref' := ref + d
    if ref' ≤ s then sarNoiseLoopF w k ds (ref' / 2.0) (s - ref' * 1.0) ((acc + 2 ^ k) % 2 ^ w)
    else sarNoiseLoopF w k ds (ref' / 2.0) (s - ref' * 0.0) acc

def sarNoiseF (bits w : Nat) (vmax : Float) (draws : List Float) (v : Float) : Option Nat :=
  sarNoiseLoopF w bits draws (vmax / 2.0) v 0

end PyxelModel.C16
