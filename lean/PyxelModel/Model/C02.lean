/-!
# C02 — model of the readout clock and of the per-step bucket lifecycle

Mirrors (file : function)

* `pyxel/exposure/readout.py : Readout.__init__`  — `resolve` (which of `times` / `times_from_file`
  is used; truthiness of `times`) followed by `checkReadout` (the three checks of the constructor),
  `Readout.times` / `Readout.start_time` setters — `Readout.setTimes`, `Readout.setStart`
  (the setters check *less* than the constructor; they are mirrored as they are),
  `calculate_steps` — `steps` (`np.diff` with the start time prepended).
* `pyxel/detectors/readout_properties.py : ReadoutProperties.__init__` — `checkProps`
  (the validation repeated by `Detector.set_readout` at the beginning of every run) and the clock
  fields `time`, `time_step`, `absolute_time = start_time + time`, `pipeline_count`,
  `is_first_readout`, `is_last_readout`, `num_steps`.
* `pyxel/detectors/detector.py : Detector.empty(reset)` — `Det.emptied`
  (`Scene()` replaced, `Photon/Signal/Image.empty` → no array, `Charge.empty` → zero array and no
  clusters, `Pixel.empty` → all-zero array, the latter only when `reset`).
* `pyxel/exposure/exposure.py : run_pipeline` — `runPipeline` / `loop`: `set_readout`, full
  `empty()`, then per `(time, step)` of `zip(times, steps)`: clock update, `empty(not non_destructive)`,
  the models (an *arbitrary* function `w i : Det → Det`), observation.

Both validators are modelled **after the two proposed repairs** (`proposed_fixes/C02-*.diff`):
every time is compared with 0 (the pinned code compares only the first one) and the start time
must satisfy `start < first` (the pinned code rejects on `start >= first`, which lets a NaN
through).  The pinned behaviour is kept as `checkOrig` for the counter-witness examples.

Times are `X`: exact rationals extended by `±∞` and NaN with the comparison and `+`/`−` rules of
IEEE-754 (the harness feeds dyadic rationals on which binary64 arithmetic is exact).
-/
namespace PyxelModel.C02

/-! ## IEEE-like values -/

inductive X where
  | nan
  | ninf
  | pinf
  | fin (q : Rat)
deriving DecidableEq, Repr

namespace X

/-- IEEE `a < b` (false as soon as a NaN is involved) -/
def lt : X → X → Bool
  | fin a, fin b => decide (a < b)
  | ninf, fin _ => true
  | ninf, pinf => true
  | fin _, pinf => true
  | _, _ => false

/-- IEEE `a == b` -/
def eqv : X → X → Bool
  | fin a, fin b => decide (a = b)
  | ninf, ninf => true
  | pinf, pinf => true
  | _, _ => false

/-- IEEE `a >= b` -/
def ge (a b : X) : Bool := lt b a || eqv a b

/-- `x == 0` (both signed zeros are the rational 0) -/
def isZero : X → Bool
  | fin q => decide (q = 0)
  | _ => false

/-- IEEE `a - b` on exact values -/
def sub : X → X → X
  | nan, _ => nan
  | _, nan => nan
  | fin a, fin b => fin (a - b)
  | pinf, pinf => nan
  | ninf, ninf => nan
  | pinf, _ => pinf
  | ninf, _ => ninf
  | fin _, pinf => ninf
  | fin _, ninf => pinf

/-- IEEE `a + b` on exact values -/
def add : X → X → X
  | nan, _ => nan
  | _, nan => nan
  | fin a, fin b => fin (a + b)
  | pinf, ninf => nan
  | ninf, pinf => nan
  | pinf, _ => pinf
  | ninf, _ => ninf
  | fin _, pinf => pinf
  | fin _, ninf => ninf

instance : Sub X := ⟨sub⟩
instance : Add X := ⟨add⟩

def zero : X := fin 0

end X

/-! ## Time steps (`calculate_steps`) — generic in the number type -/

/-- `np.diff(np.concatenate(([start], times)))` -/
def steps {K : Type} [Sub K] (start : K) : List K → List K
  | [] => []
  | t :: ts => (t - start) :: steps t ts

/-- last time of the schedule (the start time for an empty one) -/
def lastOr {K : Type} (start : K) : List K → K
  | [] => start
  | t :: ts => lastOr t ts

/-! ## Validation -/

inductive Err where
  | valueError
  | indexError
  | typeError
deriving DecidableEq, Repr

/-- `np.diff(ts)` -/
def diffs : List X → List X
  | a :: b :: r => (b - a) :: diffs (b :: r)
  | _ => []

/-- `np.all(np.diff(ts) > 0)` -/
def increasing (ts : List X) : Bool := (diffs ts).all (fun d => X.lt X.zero d)

/-- the checks of `Readout.__init__` on the evaluated array (after the repairs):
`if any(times == 0): raise … elif not start < times[0]: raise …` then
`if not all(diff(times) > 0): raise …`.  `times[0]` of an empty array is an `IndexError`. -/
def checkReadout (start : X) (ts : List X) : Except Err Unit :=
  match ts with
  | [] => .error .indexError
  | t0 :: _ =>
    if ts.any X.isZero then .error .valueError
    else if !(X.lt start t0) then .error .valueError
    else if !(increasing ts) then .error .valueError
    else .ok ()

/-- the checks of `ReadoutProperties.__init__` on a 1-D array (after the repairs): one
`if / elif` chain with the same four tests -/
def checkProps (start : X) (ts : List X) : Except Err Unit :=
  match ts with
  | [] => .error .indexError
  | t0 :: _ =>
    if ts.any X.isZero then .error .valueError
    else if !(X.lt start t0) then .error .valueError
    else if !(increasing ts) then .error .valueError
    else .ok ()

/-- the pinned (unrepaired) validator: only the *first* time is compared with 0 and the start
time is rejected on `start >= first` -/
def checkOrig (start : X) (ts : List X) : Except Err Unit :=
  match ts with
  | [] => .error .indexError
  | t0 :: _ =>
    if X.isZero t0 then .error .valueError
    else if X.ge start t0 then .error .valueError
    else if !(increasing ts) then .error .valueError
    else .ok ()

/-- how the sampling times were given to `Readout(...)` -/
inductive Src where
  | default                 -- neither `times` nor `times_from_file`
  | both                    -- both given
  | scalar (x : X)          -- a number (`True` is 1)
  | seq (xs : List X)       -- list / tuple
  | expr (xs : List X)      -- a non-empty string ("numpy.…" or a literal) evaluating to `xs`
  | file (xs : List X)      -- `times_from_file`: the table, flattened
deriving Repr

/-- the `if / elif` chain at the top of `Readout.__init__`: the evaluated times and the
`time_domain_simulation` flag.  `elif times:` is Python truthiness: the number 0 and the empty
sequence are refused, a non-empty string is always truthy. -/
def resolve : Src → Except Err (List X × Bool)
  | .default => .ok ([X.fin 1], false)
  | .both => .error .valueError
  | .scalar x => if x.isZero then .error .valueError else .ok ([x], true)
  | .seq [] => .error .valueError
  | .seq xs => .ok (xs, true)
  | .expr xs => .ok (xs, true)
  | .file xs => .ok (xs, true)

structure Readout where
  times : List X
  start : X
  nd : Bool
deriving DecidableEq, Repr

/-- `Readout.__init__` -/
def Readout.make (src : Src) (start : X) (nd : Bool) : Except Err Readout :=
  match resolve src with
  | .error e => .error e
  | .ok (ts, _) =>
    match checkReadout start ts with
    | .error e => .error e
    | .ok () => .ok ⟨ts, start, nd⟩

/-- `Readout.times` setter (1-D input): empty → `ValueError`; first time 0 → `ValueError`;
`start >= first` → `ValueError`; *no* monotonicity check (mirrored as it is). -/
def Readout.setTimes (r : Readout) (v : List X) : Except Err Readout :=
  match v with
  | [] => .error .valueError
  | v0 :: _ =>
    if X.isZero v0 then .error .valueError
    else if X.ge r.start v0 then .error .valueError
    else .ok { r with times := v }

/-- `Readout.start_time` setter: only `value >= times[0]` is refused -/
def Readout.setStart (r : Readout) (v : X) : Except Err Readout :=
  match r.times with
  | [] => .error .indexError
  | t0 :: _ => if X.ge v t0 then .error .valueError else .ok { r with start := v }

/-- operations a caller can apply to a constructed `Readout` before running it -/
inductive Op where
  | setTimes (v : List X)
  | setStart (v : X)
  | setNd (b : Bool)
deriving Repr

/-- apply setter operations; a refused one raises in the caller and leaves the object unchanged
(the harness catches it and continues, so does this fold) -/
def Readout.applyOps (r : Readout) : List Op → Readout
  | [] => r
  | .setTimes v :: ops =>
    match r.setTimes v with
    | .ok r' => r'.applyOps ops
    | .error _ => r.applyOps ops
  | .setStart v :: ops =>
    match r.setStart v with
    | .ok r' => r'.applyOps ops
    | .error _ => r.applyOps ops
  | .setNd b :: ops => ({ r with nd := b } : Readout).applyOps ops

/-! ## Buckets -/

/-- content of the six buckets as tokens: `none` = holds nothing (for `charge`: zero array and no
clusters); `pixel = some 0` = the all-zero array -/
structure Det where
  scene : Option Nat
  photon : Option Nat
  charge : Option Nat
  pixel : Option Nat
  signal : Option Nat
  image : Option Nat
deriving DecidableEq, Repr

/-- `Detector.empty(reset)` -/
def Det.emptied (d : Det) (reset : Bool) : Det :=
  { scene := none, photon := none, charge := none, signal := none, image := none,
    pixel := if reset then some 0 else d.pixel }

inductive Bucket where
  | scene | photon | charge | pixel | signal | image
deriving DecidableEq, Repr

/-- what a writer model does (used by the driver to build a concrete per-step effect) -/
inductive WriteOp where
  | set (b : Bucket) (v : Option Nat)
  | addPixel (k : Nat)             -- `detector.pixel += k` (an empty `Pixel` takes the value)
deriving Repr

def WriteOp.apply (d : Det) : WriteOp → Det
  | .set .scene v => { d with scene := v }
  | .set .photon v => { d with photon := v }
  | .set .charge v => { d with charge := v }
  | .set .pixel v => { d with pixel := v }
  | .set .signal v => { d with signal := v }
  | .set .image v => { d with image := v }
  | .addPixel k =>
    -- tokens ≥ 900000000 stand for arrays with a NaN / ±inf entry (or arbitrary content): adding a
    -- finite number leaves them what they are
    let p := d.pixel.getD 0
    { d with pixel := some (if p ≥ 900000000 then p else p + k) }

/-- the per-step effect described by a plan (one list of writes per step; no writes beyond it) -/
def planEffect (plan : List (List WriteOp)) (i : Nat) (d : Det) : Det :=
  (plan.getD i []).foldl WriteOp.apply d

/-! ## The step loop -/

/-- what a probe placed first (`atBegin`) and last (`atEnd`) in step `count` sees -/
structure Obs (K : Type) where
  time : K
  step : K
  abs : K
  count : Nat
  first : Bool
  last : Bool
  numSteps : Nat
  atBegin : Det
  atEnd : Det
deriving DecidableEq, Repr

/-- the `for i, (time, step) in enumerate(zip(times, steps))` loop of `run_pipeline`;
`w i` is whatever the models of step `i` do to the buckets -/
def loop {K : Type} [Add K] (start : K) (nd : Bool) (n : Nat) (w : Nat → Det → Det) :
    Nat → Det → List (K × K) → List (Obs K)
  | _, _, [] => []
  | i, d, (t, s) :: rest =>
    let b := d.emptied (!nd)
    let e := w i b
    ⟨t, s, start + t, i, i == 0, i == n - 1, n, b, e⟩ :: loop start nd n w (i + 1) e rest

/-- the body of `run_pipeline` once `set_readout` has accepted the schedule -/
def runLoop {K : Type} [Add K] [Sub K] (start : K) (ts : List K) (nd : Bool) (prior : Det)
    (w : Nat → Det → Det) : List (Obs K) :=
  loop start nd ts.length w 0 (prior.emptied true) (ts.zip (steps start ts))

/-- `run_pipeline`: `detector.set_readout(...)` re-validates, then the loop -/
def runPipeline (r : Readout) (prior : Det) (w : Nat → Det → Det) : Except Err (List (Obs X)) :=
  match checkProps r.start r.times with
  | .error e => .error e
  | .ok () => .ok (runLoop r.start r.times r.nd prior w)

/-- Observation (sequential and dask path) and Calibration call the same engine `run_pipeline` once
per parameter set / fitness evaluation, each time on a detector (a deep copy, or a processor re-used
from the previous evaluation) that holds whatever the history left: `priors` -/
def runMany (r : Readout) (priors : List Det) (w : Nat → Det → Det) :
    List (Except Err (List (Obs X))) :=
  priors.map (fun p => runPipeline r p w)

/-- `Readout.replace(times=v)`: a new `Readout` built by the constructor from the scalar `v` and
the *current* start time and mode (what the dask observation path does for every value of the
scanned parameter `observation.readout.times`) -/
def Readout.replaceTimes (r : Readout) (v : X) : Except Err Readout :=
  Readout.make (.scalar v) r.start r.nd

/-- an Observation scanning `observation.readout.times` over `vals`: one run per value -/
def sweepTimes (r : Readout) (vals : List X) (prior : Det) (w : Nat → Det → Det) :
    List (Except Err (List (Obs X))) :=
  vals.map (fun v => match r.replaceTimes v with
    | .error e => .error e
    | .ok r' => runPipeline r' prior w)

/-- the `times:` entry of the `readout:` section of a YAML configuration -/
inductive YamlTimes where
  | absent                  -- no entry, or `times:` / `times: null`
  | num (x : X)             -- `times: 2.5`, `times: 0`, `times: true`
  | seq (xs : List X)       -- `times: [1, 2]`, `times: []`
  | emptyStr                -- `times: ""`
  | str (xs : List X)       -- a non-empty string evaluating to `xs`

/-- `configuration.to_readout`: `Readout(**dct)` — a `null` entry is `None`, i.e. not given;
every other value, however falsy, is handed to the constructor -/
def srcOfYaml (times : YamlTimes) (file : Option (List X)) : Src :=
  match times, file with
  | .absent, none => .default
  | .absent, some f => .file f
  | .num x, none => .scalar x
  | .seq xs, none => .seq xs
  | .emptyStr, none => .seq []          -- falsy like the empty list: "Sampling times not specified"
  | .str xs, none => .expr xs
  | _, some _ => .both

/-- construction, caller's setter operations, run -/
def session (src : Src) (start : X) (nd : Bool) (ops : List Op) (prior : Det)
    (w : Nat → Det → Det) : Except Err (List (Obs X)) :=
  match Readout.make src start nd with
  | .error e => .error e
  | .ok r => runPipeline (r.applyOps ops) prior w

/-! ## The statement's notion of a valid schedule (specification) -/

/-- "strictly increasing, non-zero times later than the start time" (and at least one time) -/
def ValidSpec (start : X) (ts : List X) : Prop :=
  ts ≠ [] ∧ (∀ t ∈ ts, X.isZero t = false) ∧ (∀ t ∈ ts, X.lt start t = true) ∧
    ts.Pairwise (fun a b => X.lt a b = true)

/-- executable form of `ValidSpec` for the driver (all pairs, not neighbours) -/
def pairwiseLt : List X → Bool
  | [] => true
  | a :: r => r.all (fun b => X.lt a b) && pairwiseLt r

def validSpecB (start : X) (ts : List X) : Bool :=
  !ts.isEmpty && ts.all (fun t => !X.isZero t) && ts.all (fun t => X.lt start t) && pairwiseLt ts

end PyxelModel.C02
