/-!
# C19 — model of the output-directory protocol and of output-file naming / writing

Mirrors

* `pyxel/outputs/outputs.py: create_output_directory` → `createDir` (one process) and `Sys` /
  `step` / `runSched` (any number of processes, arbitrary interleaving): the name tried at attempt
  `k` is `prefix ++ stamp ++ ("" | "_k")`; `Path.mkdir(parents=True, exist_ok=False)` is an atomic
  test-and-set on the set of names of the parent folder (`mkdirExcl`); on `FileExistsError` the
  counter is incremented and the loop repeats (`while True`).  The model's loop takes fuel; that
  `fs.length + 1` is always enough is theorem `createDir_terminates` (the termination obligation).
* `Outputs.build_filenames` (exposure: `detector_<bucket>.<ext>`; parallel observation:
  `detector_<bucket>_<flat index>.<ext>`) and `Outputs.save_to_file` / `to_fits` … with
  `apply_run_number` (sequential observation: `detector_<bucket>_array_<run+1>.<ext>`) → `fileName`.
* the three writer disciplines of `pyxel/outputs/utils.py`: `write_to_fits/npy/jpg` called by
  `save_to_files(overwrite=False)` return silently when the file exists (`Writer.skip`);
  `to_fits`, `to_npy`, `to_png`, `to_jpg` raise `FileExistsError` (`Writer.excl`); `to_txt`, `to_csv`
  overwrite (`Writer.over`).
* a run = `saveRun`: all its writes go into its own (fresh) directory.

Names are `List Char` (the driver converts to `String`).  A file system is an association list from
`(directory, file name)` to a content token; directories of the parent folder are a list of names.
-/
namespace PyxelModel.C19

/-! ## directory names -/

/-- `add`: `""` for the first attempt, `"_" + str(count)` afterwards -/
def suffix (k : Nat) : List Char := if k = 0 then [] else '_' :: (Nat.repr k).toList

/-- `f"{prefix_dir}{date_str}{add}"` -/
def dirName (pre stamp : List Char) (k : Nat) : List Char := pre ++ stamp ++ suffix k

/-- `mkdir(exist_ok=False)`: atomic test-and-set on the parent folder's names -/
def mkdirExcl (fs : List (List Char)) (d : List Char) : Option (List (List Char)) :=
  if d ∈ fs then none else some (d :: fs)

/-- `create_output_directory`: retry loop (`fuel` bounds the number of attempts) -/
def createDirFrom (pre stamp : List Char) (fs : List (List Char)) : Nat → Nat →
    Option (List Char × List (List Char))
  | 0, _ => none
  | fuel + 1, k =>
    match mkdirExcl fs (dirName pre stamp k) with
    | some fs' => some (dirName pre stamp k, fs')
    | none => createDirFrom pre stamp fs fuel (k + 1)

def createDir (pre stamp : List Char) (fs : List (List Char)) : Option (List Char × List (List Char)) :=
  createDirFrom pre stamp fs (fs.length + 1) 0

/-! ## concurrent starts -/

/-- one starting simulation: its prefix and time stamp, its attempt counter, and the directory it
obtained -/
structure Proc where
  pre : List Char
  stamp : List Char
  k : Nat
  done : Option (List Char)
deriving DecidableEq, Repr

structure Sys where
  fs : List (List Char)
  procs : List Proc
deriving Repr

/-- one iteration of the retry loop of process `p` on the shared folder -/
def stepProc (fs : List (List Char)) (p : Proc) : List (List Char) × Proc :=
  match p.done with
  | some _ => (fs, p)
  | none =>
    match mkdirExcl fs (dirName p.pre p.stamp p.k) with
    | some fs' => (fs', { p with done := some (dirName p.pre p.stamp p.k) })
    | none => (fs, { p with k := p.k + 1 })

/-- the scheduler lets process `i` perform one iteration (no-op for an unknown id) -/
def step (s : Sys) (i : Nat) : Sys :=
  match s.procs[i]? with
  | none => s
  | some p => ⟨(stepProc s.fs p).1, s.procs.set i (stepProc s.fs p).2⟩

def runSched (s : Sys) (sched : List Nat) : Sys := sched.foldl step s

def initSys (fs0 : List (List Char)) (starts : List (List Char × List Char)) : Sys :=
  ⟨fs0, starts.map (fun ps => ⟨ps.1, ps.2, 0, none⟩)⟩

def doneDirs (procs : List Proc) : List (List Char) := procs.filterMap (·.done)

/-! ## file names -/

inductive Bucket | photon | charge | pixel | signal | image
deriving DecidableEq, Repr

def Bucket.name : Bucket → List Char
  | .photon => ['p', 'h', 'o', 't', 'o', 'n']
  | .charge => ['c', 'h', 'a', 'r', 'g', 'e']
  | .pixel => ['p', 'i', 'x', 'e', 'l']
  | .signal => ['s', 'i', 'g', 'n', 'a', 'l']
  | .image => ['i', 'm', 'a', 'g', 'e']

def Bucket.all : List Bucket := [.photon, .charge, .pixel, .signal, .image]

inductive Mode | exposure | sequential | parallel
deriving DecidableEq, Repr

/-- `"detector_"` -/
def detectorPrefix : List Char := ['d', 'e', 't', 'e', 'c', 't', 'o', 'r', '_']
/-- `"array_"` -/
def arrayTag : List Char := ['a', 'r', 'r', 'a', 'y', '_']

/-- the run tag of a file name: nothing (exposure), `_array_<run+1>` (`save_to_file` +
`apply_run_number`), `_<flat index>` (dask path) -/
def runTag : Mode → Nat → List Char
  | .exposure, _ => []
  | .sequential, r => '_' :: (arrayTag ++ (Nat.repr (r + 1)).toList)
  | .parallel, r => '_' :: (Nat.repr r).toList

/-- `detector_<bucket><run tag>.<ext>` -/
def fileName (m : Mode) (b : Bucket) (ext : List Char) (run : Nat) : List Char :=
  detectorPrefix ++ (b.name ++ (runTag m run ++ '.' :: ext))

/-- extensions are made of letters and digits -/
def ExtOk (ext : List Char) : Prop := ∀ c ∈ ext, c ≠ '.' ∧ c ≠ '_'

/-! ## automatic numbering (`apply_run_number` without a run number; used by the deprecated
`pyxel.exposure_mode`, one save per readout): the number of every existing `<name>_*.<ext>` file is
extracted (`get_number`, 0 when there is none), the numbers are sorted, and the next file gets the largest + 1
(1 in an empty folder). -/

def maxOf (l : List Nat) : Nat := l.foldl max 0

def nextNumber (existing : List Nat) : Nat := if existing.isEmpty then 1 else maxOf existing + 1

/-- the numbers given to `n` consecutive automatic saves of one template into a folder -/
def autoSaves : List Nat → Nat → List Nat
  | _, 0 => []
  | ex, n + 1 => nextNumber ex :: autoSaves (nextNumber ex :: ex) n

/-- lexicographic order on rendered names (what sorting the *file names* as text does) -/
def lexLt : List Char → List Char → Bool
  | [], [] => false
  | [], _ :: _ => true
  | _ :: _, [] => false
  | a :: as, b :: bs => if a.toNat < b.toNat then true else if a.toNat > b.toNat then false else lexLt as bs

/-- a wrong variant (seeded defect C19-8): the file *names* are sorted as text and the number of the last
one is continued -/
def nextNumberTextSorted (existing : List Nat) : Nat :=
  match existing with
  | [] => 1
  | x :: xs => (xs.foldl (fun best y => if lexLt (Nat.repr best).toList (Nat.repr y).toList then y else best) x) + 1

/-! ## writers -/

inductive Writer | skip | excl | over
deriving DecidableEq, Repr

abbrev Path := List Char × List Char        -- (directory, file name)
abbrev Files (C : Type) := List (Path × C)

def lookupF {C} (fs : Files C) (p : Path) : Option C :=
  match fs.find? (fun e => e.1 == p) with
  | some e => some e.2
  | none => none

/-- one write; `none` = `FileExistsError` -/
def writeFile {C} (w : Writer) (fs : Files C) (p : Path) (c : C) : Option (Files C) :=
  match lookupF fs p with
  | none => some ((p, c) :: fs)
  | some _ =>
    match w with
    | .skip => some fs
    | .excl => none
    | .over => some ((p, c) :: fs)          -- the newest binding shadows the old one

structure WriteOp (C : Type) where
  writer : Writer
  name : List Char
  content : C
  reported : Bool

/-- all writes of one run into its directory `d`; returns the reported names too -/
def saveRun {C} (d : List Char) : Files C → List (WriteOp C) → Option (Files C × List (List Char))
  | fs, [] => some (fs, [])
  | fs, op :: ops =>
    match writeFile op.writer fs (d, op.name) op.content with
    | none => none
    | some fs' =>
      match saveRun d fs' ops with
      | none => none
      | some (fs'', rep) => some (fs'', if op.reported then op.name :: rep else rep)

/-- the writes of an exposure / one parallel-observation element: one `skip` write per requested
(bucket, extension), reported -/
def opsDirect {C} (m : Mode) (run : Nat) (data : Bucket → C) (combos : List (Bucket × List Char)) :
    List (WriteOp C) :=
  combos.map (fun be => ⟨.skip, fileName m be.1 be.2 run, data be.1, true⟩)

/-- the writes of run `run` of a sequential observation: first `run_pipeline` saves the exposure-style
names through `save_to_files` (unreported, silently skipped when present), then `save_to_file`
writes the `_array_<run+1>` names with the refusing writers (reported) -/
def opsSequential {C} (run : Nat) (data : Bucket → C) (combos : List (Bucket × List Char)) :
    List (WriteOp C) :=
  combos.map (fun be => ⟨.skip, fileName .exposure be.1 be.2 0, data be.1, false⟩) ++
  combos.map (fun be => ⟨.excl, fileName .sequential be.1 be.2 run, data be.1, true⟩)

/-- all runs `0 … n-1` of a sequential observation, in order -/
def opsObservation {C} (data : Nat → Bucket → C) (combos : List (Bucket × List Char)) :
    Nat → List (WriteOp C)
  | 0 => []
  | n + 1 => opsObservation data combos n ++ opsSequential n (data n) combos

end PyxelModel.C19
