/-!
# C15 — conservation algebra of the charge-handling models

Core Lean only.  Every definition is polymorphic in the number type `α` (only the arithmetic and order
*operations* are assumed), so that the same text is
* executed on `Rat` by the driver (inputs are doubles sent as exact rationals),
* executed on `Float` where `exp` / `pow` occur (CDM),
* reasoned about over an arbitrary linearly ordered field `K` in `Props/C15.lean` and over `ℝ` in
  `Props/C15Real.lean`.

Mirrors
* `pyxel/models/charge_collection/collection.py: simple_collection`                → `collect`
* `pyxel/models/charge_generation/photoelectrons.py: apply_qe`                     → `applyQE` (product branch;
  the binomial branch is a draw `k ≤ ⌊photons⌋`, see `Props/C15.lean: qe_sampled_bounds`)
* `pyxel/models/charge_collection/full_well.py: apply_simple_full_well_capacity`   → `fullWell`
* `pyxel/models/charge_collection/inter_pixel_capacitance.py: ipc_kernel`, `compute_ipc_convolution`
                                                                                   → `ipcKernel`, `conv3`, `ipc`
* `pyxel/models/charge_transfer/cdm.py: run_cdm_parallel`, `run_cdm_serial`         → `cdmCell`, `speciesPass`,
  `linePass` (one column of the parallel pass = one row of the serial pass)
* `pyxel/models/charge_collection/persistence.py: compute_simple_persistence`, `compute_persistence`,
  `clip_diff`, `clip_trapped_charge` (after the repair `proposed_fixes/C15-persistence-release.diff`)
                                                                                   → `clipDiff`, `loop1`, `clipOne`,
  `loop2`, `persistPixel`; the second loop of the pinned tree is `loop2AsIs`.
-/
namespace PyxelModel.C15

section
variable {α : Type} [Add α] [Sub α] [Mul α] [Div α] [Neg α] [LT α] [LE α]
  [DecidableLT α] [DecidableLE α] [OfNat α 0] [OfNat α 1]

/-! ## simple collection: `detector.pixel.array += detector.charge.array` -/
def collect (pixel charge : List α) : List α := List.zipWith (· + ·) pixel charge

/-- the generated charge of one step: the pixelwise sum of everything that was generated (2-D arrays and
clusters binned into their pixels — `Charge.array`; the binning itself is C14's subject) -/
def generated (zero : List α) (contributions : List (List α)) : List α := contributions.foldl collect zero

/-- several steps without reset: `charges[k]` is collected at step `k` -/
def collectRun (pixel : List α) : List (List α) → List α
  | [] => pixel
  | c :: cs => collectRun (collect pixel c) cs

/-! ## photo-conversion without sampling: `array * qe` -/
def applyQE (qe : α) (photons : List α) : List α := photons.map (· * qe)

/-! ## full well: `array[array > fwc] = fwc` -/
def fullWell (fwc : α) (xs : List α) : List α := xs.map (fun x => if fwc < x then fwc else x)

/-! ## inter-pixel capacitance -/

/-- the 3×3 kernel, row by row -/
structure Kernel (α : Type) where
  tl : α
  t : α
  tr : α
  l : α
  c : α
  r : α
  bl : α
  b : α
  br : α
deriving Repr

def four : α := 1 + 1 + 1 + 1

/-- `ipc_kernel`: the three guards, then the weights -/
def ipcKernel (c d a : α) : Except String (Kernel α) :=
  if ¬ (d < c) then .error "ValueError"
  else if ¬ (a < c) then .error "ValueError"
  else if ¬ (0 ≤ c + d ∧ c + d ≤ 1 / four) then .error "ValueError"
  else .ok ⟨d, c - a, d, c + a, 1 - four * (c + d), c + a, d, c - a, d⟩

def Kernel.sum (k : Kernel α) : α := k.tl + k.t + k.tr + k.l + k.c + k.r + k.bl + k.b + k.br

/-- cell `(i, j)` of a grid, `fill` outside -/
def cell (g : List (List α)) (fill : α) (i j : Int) : α :=
  if i < 0 ∨ j < 0 then fill else (g.getD i.toNat []).getD j.toNat fill

/-- convolution with a 3×3 kernel, boundary filled with `fill` (`convolve_fft(boundary="fill")`; the kernel
is symmetric under a half-turn, so convolution and correlation coincide) -/
def conv3 (k : Kernel α) (fill : α) (g : List (List α)) : List (List α) :=
  (List.range g.length).map fun (i : Nat) =>
    (List.range (g.getD i []).length).map fun (j : Nat) =>
      let I : Int := i
      let J : Int := j
      k.tl * cell g fill (I - 1) (J - 1) + k.t * cell g fill (I - 1) J + k.tr * cell g fill (I - 1) (J + 1)
        + k.l * cell g fill I (J - 1) + k.c * cell g fill I J + k.r * cell g fill I (J + 1)
        + k.bl * cell g fill (I + 1) (J - 1) + k.b * cell g fill (I + 1) J + k.br * cell g fill (I + 1) (J + 1)

def sumList (xs : List α) : α := xs.foldr (· + ·) 0

/-- `np.mean` of a grid -/
def mean [NatCast α] (g : List (List α)) : α :=
  sumList (g.map sumList) / ((g.map List.length).sum : Nat)

/-- `compute_ipc_convolution` -/
def ipc [NatCast α] (c d a : α) (g : List (List α)) : Except String (List (List α)) :=
  match ipcKernel c d a with
  | .error e => .error e
  | .ok k => .ok (conv3 k (mean g) g)

/-! ## charge-transfer inefficiency (CDM) -/

/-- one `(pixel, trap species)` visit of `run_cdm_parallel` / `run_cdm_serial`.
`capRaw s n` is the capture formula, `rel = 1 − exp(−t/τ)`, `thr = 0.01`:
```
nc = 0.0
if s > 0.01: nc = max(capRaw, 0.0); n += nc
nr = n * rel;  s += -nc + nr;  n -= nr
if s < 0.01: s = 0.0
```
returns (new pixel, new trap occupancy) -/
def cdmCell (capRaw : α → α → α) (rel thr : α) (s n : α) : α × α :=
  let nc : α := if thr < s then (let c := capRaw s n; if c < 0 then 0 else c) else 0
  let n1 := n + nc
  let nr := n1 * rel
  let s1 := s + (-nc + nr)
  let n2 := n1 - nr
  (if s1 < thr then 0 else s1, n2)

/-- all species in turn on one pixel: `for k in range(kdim)` -/
def speciesPass (capRaw : Nat → α → α → α) (rel : Nat → α) (thr : α) : Nat → α → List α → α × List α
  | _, s, [] => (s, [])
  | k, s, n :: ns =>
    let r := cdmCell (capRaw k) (rel k) thr s n
    let rest := speciesPass capRaw rel thr (k + 1) r.1 ns
    (rest.1, r.2 :: rest.2)

/-- one column (parallel) / one row (serial): pixels in transfer order, trap occupancies carried along.
`capRaw i k` is the capture formula of transfer `i`, species `k` -/
def linePass (capRaw : Nat → Nat → α → α → α) (rel : Nat → α) (thr : α) : Nat → List α → List α → List α × List α
  | _, [], no => ([], no)
  | i, s :: ss, no =>
    let r := speciesPass (capRaw i) rel thr 0 s no
    let rest := linePass capRaw rel thr (i + 1) ss r.2
    (r.1 :: rest.1, rest.2)

/-! ## persistence -/

structure Species (α : Type) where
  dens : α             -- trap density seen by this pixel (simple: the scalar; full: map × proportion)
  tf : α               -- time factor `delta_t / trap_time_constant`
  cap : Option α       -- trap capacity (simple: scalar; full: map × proportion), if given
deriving Repr

/-- `clip_diff` on one pixel -/
def clipDiff (diff trapped empty : α) : α :=
  if diff < 0 then (if diff < -trapped then -trapped else diff)
  else (if empty < diff then empty else diff)

/-- first loop, one pixel: returns (pixel, trapped per species) -/
def loop1 : α → List (Species α × α) → α × List α
  | p, [] => (p, [])
  | p, (s, t) :: rest =>
    let empty := s.dens * p - t
    let d := clipDiff (s.tf * empty) t empty
    let r := loop1 (p - d) rest
    (r.1, (t + d) :: r.2)

/-- `clip_trapped_charge` on one pixel and one species: the clipped trapped charge -/
def clipOne (pdiff p : α) (s : Species α) (t : α) : α :=
  if pdiff < 0 then
    let avail := p * s.dens
    let m := match s.cap with
      | some c => if c < avail then c else avail
      | none => avail
    if m < t then m else t
  else t

/-- second loop, one pixel, **repaired**: what every species releases goes back to the pixel.
returns (released charge, trapped per species) -/
def loop2 (pdiff p : α) : List (Species α × α) → α × List α
  | [] => (0, [])
  | (s, t) :: rest =>
    let c := clipOne pdiff p s t
    let r := loop2 pdiff p rest
    ((t - c) + r.1, c :: r.2)

/-- second loop of the pinned tree: `output_pixel` is overwritten by every species, the last one wins -/
def loop2AsIs (pdiff p : α) : List (Species α × α) → α × List α
  | [] => (0, [])
  | [(s, t)] => (t - clipOne pdiff p s t, [clipOne pdiff p s t])
  | (s, t) :: rest => ((loop2AsIs pdiff p rest).1, clipOne pdiff p s t :: (loop2AsIs pdiff p rest).2)

/-- one pixel, one time step of `compute_simple_persistence` / `compute_persistence` -/
def persistPixel (p : α) (l : List (Species α × α)) : α × List α :=
  let a := loop1 p l
  let b := loop2 (a.1 - p) a.1 ((l.map (·.1)).zip a.2)
  (a.1 + b.1, b.2)

def persistPixelAsIs (p : α) (l : List (Species α × α)) : α × List α :=
  let a := loop1 p l
  let b := loop2AsIs (a.1 - p) a.1 ((l.map (·.1)).zip a.2)
  (a.1 + b.1, b.2)

/-- several steps; before step `k` the charge `adds[k]` is collected in the pixel -/
def persistRun (sp : List (Species α)) : List α → α × List α → α × List α
  | [], st => st
  | a :: as, st => persistRun sp as (persistPixel (st.1 + a) (sp.zip st.2))

end

/-! ## CDM with the formulas of `cdm.py` on hardware doubles (driver only; `exp`, `pow` from libm) -/

/-- `(γ s^β − n) / (γ s^(β−1) + 1) · (1 − exp(−1·α·s^(1−β)))` -/
def capF (γ α β s n : Float) : Float :=
  (γ * s.pow β - n) / (γ * s.pow (β - 1.0) + 1.0) * (1.0 - Float.exp (-1.0 * α * s.pow (1.0 - β)))

/-- `1 − exp(−t/τ)` -/
def relF (t τ : Float) : Float := 1.0 - Float.exp (-t / τ)

/-- `run_cdm_parallel` (lines = columns, transfer index = row) / `run_cdm_serial` (lines = rows, transfer
index = column): `alpha = t·σ·vth·fwc^β / (2 vg)`, `g = 2·nt·vg / fwc^β`, `γ = g · i` (or `g · transfers` under
charge injection), traps start empty for every line -/
def cdmLinesF (β vg t fwc vth : Float) (tr nt sigma : List Float) (chargeInjection : Bool) (transfers : Nat)
    (lines : List (List Float)) : List (List Float) :=
  let alpha : Nat → Float := fun k => t * sigma.getD k 0.0 * vth * fwc.pow β / (2.0 * vg)
  let g : Nat → Float := fun k => 2.0 * nt.getD k 0.0 * vg / fwc.pow β
  let m : Nat → Float := fun i => if chargeInjection then Float.ofNat transfers else Float.ofNat i
  lines.map fun px =>
    (linePass (fun i k => capF (g k * m i) (alpha k) β) (fun k => relF t (tr.getD k 1.0)) 0.01 0 px
      (List.replicate nt.length 0.0)).1

end PyxelModel.C15
