import PyxelModel.Generated.C12
/-!
# C12 — model of the range guards and of the configuration loader's sanity checks

## Guards

Every validated detector / calibration setting is guarded on two paths: the constructor (`Geometry.__init__`,
`Characteristics.__init__`, `Environment.__init__`, `APDCharacteristics.__init__`, `Calibration.__init__`,
`Algorithm.__init__`) and the property setter.  `harness/gen/c12.py` **observes** both on every run: the fields are
the constructor parameters that have a setter (public signatures), the candidate breakpoints are all numeric
literals of the class's module and all numbers quoted in its messages, and a probe executed with the tree under
translation asks the real constructor and the real setter at every candidate, between neighbours, beyond both ends,
at `nan` and `±inf`.  The accepted set of each path is written into `Generated/C12.lean` as a `Cond`
(`not (union of accepted intervals)`; `union of refused intervals` when `nan` is accepted).  A rewrite of the source
that keeps the behaviour keeps the table; a changed bound, a dropped or a truthiness-guarded check changes it.
(The syntax types `Cmp`, `Term`, `Cond`, `Entry` are declared in the generated file, which cannot import this one.)

Values are `Num`: a finite rational (every int and every finite double is one), `nan`, `+inf`, `-inf`, with
IEEE comparison semantics (every ordered comparison with `nan` is false) and Python truthiness.  `raises c x`
evaluates the condition; the setter / constructor stores the value iff it does not raise.  Settings declared `int`
(`intOnlyFields`, from the signatures) are probed at integers only and their intervals have closed integer ends: for
them the theorems speak about integers (`intDomain`).

## Specification

`Range` = the documented interval of a field (`lo`, strict or not, optional `hi`); `inRange` is false for
`nan` and `-inf`, and `+inf` is inside only when there is no upper bound.  `specOf` is the statement's
table ("quantum efficiency outside 0..1, non-positive temperature or array size, ADC resolution outside
4..64 bits, and so on": the ranges named in the error messages and docstrings).

## Decision procedure

Two conditions built from comparisons with constants agree on **all** numbers iff they agree on finitely
many test points: `nan`, `±inf`, every constant, a point below / above each constant, and the midpoint of
every pair of constants (`testPoints`).  `condEquivCheck` runs that finite test; its soundness for every
`x : Num` is `Lemmas/C12.lean: condEquiv_sound`.  So the theorems over the regenerated table are re-proved
against today's code by kernel evaluation, whatever the shape of the guards has become.

## Loader

`buildConfiguration` mirrors `configuration.py::_build_configuration` + `Configuration.__post_init__`:
count the running-mode keys and the detector keys present in the YAML mapping, raise unless each count
passes the test the source makes (`!= 1`, regenerated), then build the mode / detector of the first key
found in the `if/elif` order of the source.  `loadSection` mirrors `to_*_geometry / to_environment /
to_*_characteristics`: the mapping's entries become constructor arguments, the constructor's guards run,
the values are stored unchanged.
-/
namespace PyxelModel.C12
export PyxelModel.Generated.C12 (Cmp Term Cond Entry)

/-! ## numbers -/

inductive Num where
  | fin (q : Rat)
  | nan
  | pinf
  | ninf
deriving DecidableEq, Repr, Inhabited

def Num.lt : Num → Num → Bool
  | .fin a, .fin b => decide (a < b)
  | .fin _, .pinf => true
  | .ninf, .fin _ => true
  | .ninf, .pinf => true
  | _, _ => false

def Num.eq : Num → Num → Bool
  | .fin a, .fin b => decide (a = b)
  | .pinf, .pinf => true
  | .ninf, .ninf => true
  | _, _ => false

/-- IEEE / Python comparison -/
def cmpEval : Cmp → Num → Num → Bool
  | .lt, a, b => a.lt b
  | .le, a, b => a.lt b || a.eq b
  | .gt, a, b => b.lt a
  | .ge, a, b => b.lt a || a.eq b
  | .eq, a, b => a.eq b
  | .ne, a, b => !(a.eq b)

/-- Python truthiness of a number -/
def Num.truthy : Num → Bool
  | .fin q => decide (q ≠ 0)
  | _ => true

def termEval (x : Num) : Term → Num
  | .x => x
  | .const q => .fin q

/-- does the guard's test hold (⇒ `raise ValueError`) for the number `x`? -/
def raises : Cond → Num → Bool
  | .cmp a op b, x => cmpEval op (termEval x a) (termEval x b)
  | .chain a op1 b op2 c, x => cmpEval op1 (termEval x a) (termEval x b) && cmpEval op2 (termEval x b) (termEval x c)
  | .not c, x => !raises c x
  | .and a b, x => raises a x && raises b x
  | .or a b, x => raises a x || raises b x
  | .truthy, x => x.truthy
  | .notNone, _ => true
  | .isNumber, _ => true
  | .tt, _ => true
  | .ff, _ => false

def accepts (c : Cond) (x : Num) : Bool := !raises c x

/-! ## documented ranges -/

structure Range where
  lo : Rat
  loStrict : Bool
  hi : Option Rat
deriving DecidableEq, Repr

def inRange (r : Range) : Num → Bool
  | .fin q => (if r.loStrict then decide (r.lo < q) else decide (r.lo ≤ q)) &&
      (match r.hi with | some h => decide (q ≤ h) | none => true)
  | .pinf => r.hi.isNone
  | .nan => false
  | .ninf => false

/-- the test a guard *should* make for a range, as a `Cond` (so that "guard = range" is an equivalence of
two conditions) -/
def rangeCond (r : Range) : Cond :=
  match r.hi with
  | some h => .not (.chain (.const r.lo) (if r.loStrict then .lt else .le) .x .le (.const h))
  | none => .not (.cmp .x (if r.loStrict then .gt else .ge) (.const r.lo))

/-- The statement's table: class, field ↦ documented range. -/
def specOf : String → String → Option Range
  -- array sizes are integers: "strictly greater than 0" is "at least 1"
  | "Geometry", "row" => some ⟨1, false, none⟩
  | "Geometry", "col" => some ⟨1, false, none⟩
  | "Geometry", "total_thickness" => some ⟨0, false, some 10000⟩
  | "Geometry", "pixel_vert_size" => some ⟨0, false, some 1000⟩
  | "Geometry", "pixel_horz_size" => some ⟨0, false, some 1000⟩
  | "Geometry", "pixel_scale" => some ⟨0, false, some 1000⟩
  | "Characteristics", "quantum_efficiency" => some ⟨0, false, some 1⟩
  | "Characteristics", "charge_to_volt_conversion" => some ⟨0, false, some 100⟩
  | "Characteristics", "pre_amplification" => some ⟨0, false, some 10000⟩
  | "Characteristics", "full_well_capacity" => some ⟨0, false, some 10000000⟩
  | "Characteristics", "adc_bit_resolution" => some ⟨4, false, some 64⟩
  | "Environment", "temperature" => some ⟨0, true, some 1000⟩
  | "Environment", "wavelength" => some ⟨0, true, none⟩
  | "APDCharacteristics", "quantum_efficiency" => some ⟨0, false, some 1⟩
  | "APDCharacteristics", "full_well_capacity" => some ⟨0, false, some 10000000⟩
  | "APDCharacteristics", "adc_bit_resolution" => some ⟨4, false, some 64⟩
  | "APDCharacteristics", "avalanche_gain" => some ⟨1, false, some 1000⟩
  -- mode-level settings (calibration): "'Pygmo seed' must be between 0 and 100000", "'num_islands' must superior or
  -- equal to 1", "'num_best_decisions' must be 'None' or a positive integer", "'generations' must be between 1 and
  -- 100000", "'variant' must be between 1 and 18", "'cr' / 'm' must be between 0.0 and 1.0"
  | "Calibration", "pygmo_seed" => some ⟨0, false, some 100000⟩
  | "Calibration", "num_islands" => some ⟨1, false, none⟩
  | "Calibration", "num_best_decisions" => some ⟨0, false, none⟩
  | "Algorithm", "generations" => some ⟨1, false, some 100000⟩
  | "Algorithm", "population_size" => some ⟨1, false, some 100000⟩
  | "Algorithm", "variant" => some ⟨1, false, some 18⟩
  | "Algorithm", "variant_adptv" => some ⟨1, false, some 2⟩
  | "Algorithm", "cr" => some ⟨0, false, some 1⟩
  | "Algorithm", "m" => some ⟨0, false, some 1⟩
  | _, _ => none

/-- fields of the statement's table, as (class, field) -/
def specFields : List (String × String) :=
  [("Geometry", "row"), ("Geometry", "col"), ("Geometry", "total_thickness"), ("Geometry", "pixel_vert_size"),
   ("Geometry", "pixel_horz_size"), ("Geometry", "pixel_scale"),
   ("Characteristics", "quantum_efficiency"), ("Characteristics", "charge_to_volt_conversion"),
   ("Characteristics", "pre_amplification"), ("Characteristics", "full_well_capacity"),
   ("Characteristics", "adc_bit_resolution"),
   ("Environment", "temperature"), ("Environment", "wavelength"),
   ("APDCharacteristics", "quantum_efficiency"), ("APDCharacteristics", "full_well_capacity"),
   ("APDCharacteristics", "adc_bit_resolution"), ("APDCharacteristics", "avalanche_gain"),
   ("Calibration", "pygmo_seed"), ("Calibration", "num_islands"), ("Calibration", "num_best_decisions"),
   ("Algorithm", "generations"), ("Algorithm", "population_size"), ("Algorithm", "variant"),
   ("Algorithm", "variant_adptv"), ("Algorithm", "cr"), ("Algorithm", "m")]

/-- The array sizes are integers in every use; the statement says nothing about a `nan` row count
(`nan <= 0` is false, so the code lets it through on both paths).  For these fields `nan` is outside the
quantifier. -/
def nanSilent : String → String → Bool
  | "Geometry", "row" => true
  | "Geometry", "col" => true
  | "Calibration", "num_islands" => true
  | "Calibration", "num_best_decisions" => true
  | _, _ => false

/-! ## finite decision of "two conditions agree on every number" -/

def termConsts : Term → List Rat
  | .x => []
  | .const q => [q]

def condConsts : Cond → List Rat
  | .cmp a _ b => termConsts a ++ termConsts b
  | .chain a _ b _ c => termConsts a ++ termConsts b ++ termConsts c
  | .not c => condConsts c
  | .and a b => condConsts a ++ condConsts b
  | .or a b => condConsts a ++ condConsts b
  | .truthy => [0]
  | _ => []

/-- greatest constant below `x` -/
def lowerOf : List Rat → Rat → Option Rat
  | [], _ => none
  | k :: ks, x =>
    match lowerOf ks x with
    | none => if k < x then some k else none
    | some a => if k < x ∧ a < k then some k else some a

/-- least constant above `x` -/
def upperOf : List Rat → Rat → Option Rat
  | [], _ => none
  | k :: ks, x =>
    match upperOf ks x with
    | none => if x < k then some k else none
    | some b => if x < k ∧ k < b then some k else some b

/-- a representative of `x`'s position relative to the constants -/
def rep (ks : List Rat) (x : Rat) : Rat :=
  if x ∈ ks then x
  else match lowerOf ks x, upperOf ks x with
    | none, none => 0
    | some a, none => a + 1
    | none, some b => b - 1
    | some a, some b => (a + b) / 2

def finitePoints (ks : List Rat) : List Rat :=
  0 :: ks ++ ks.map (· + 1) ++ ks.map (· - 1) ++ ks.flatMap (fun a => ks.map (fun b => (a + b) / 2))

def testPoints (ks : List Rat) (withNan : Bool) : List Num :=
  (if withNan then [Num.nan] else []) ++ [Num.pinf, Num.ninf] ++ (finitePoints ks).map Num.fin

/-- finite test: do `c1` and `c2` raise on the same test points? -/
def condEquivCheck (c1 c2 : Cond) (withNan : Bool) : Bool :=
  (testPoints (condConsts c1 ++ condConsts c2) withNan).all (fun y => raises c1 y == raises c2 y)

/-- Fields whose guard is `x not in range(a, b)` / `isinstance(x, int) and …` (list regenerated from the source):
the translated condition is the code's behaviour on integers; for them the theorems speak about integers. -/
def isIntegral : Num → Bool
  | .fin q => q.den == 1
  | _ => false

def intDomain (e : Entry) (x : Num) : Prop :=
  (e.cls, e.field) ∈ PyxelModel.Generated.C12.intOnlyFields → isIntegral x = true

/-- the three table-wide checks (run by the kernel on the regenerated table in `Props/C12.lean`) -/
def withNanFor (e : Entry) : Bool := !nanSilent e.cls e.field

def ctorSetterCheck (e : Entry) : Bool := condEquivCheck e.ctor e.setter (withNanFor e)

def setterSpecCheck (e : Entry) : Bool :=
  match specOf e.cls e.field with
  | some r => condEquivCheck e.setter (rangeCond r) (withNanFor e)
  | none => false

def ctorSpecCheck (e : Entry) : Bool :=
  match specOf e.cls e.field with
  | some r => condEquivCheck e.ctor (rangeCond r) (withNanFor e)
  | none => false

/-! ## the loader's "exactly one" checks -/

inductive Err | value | key
deriving DecidableEq, Repr

/-- how the source compares a count with 1 (regenerated: `!=` in the pinned tree) -/
def countFails (op : String) (n : Nat) : Bool :=
  match op with
  | "!=" => n != 1
  | ">" => n > 1
  | "<" => n < 1
  | ">=" => n >= 1
  | "<=" => n <= 1
  | "==" => n == 1
  | _ => false

def countPresent (keys present : List String) : Nat := (keys.filter (present.contains ·)).length

/-- `_build_configuration(dct)` up to the choice of builders: `present` = the keys of the YAML mapping.
`modeKeys / detKeys` are the lists the counts run over, `modeDispatch / detDispatch` the order of the
`if "…" in dct … elif` chains, `modeOp / detOp` the comparison of each count with 1 — all six regenerated
from the source.  Returns the (mode key, detector key) whose builders run. -/
def buildConfiguration (modeKeys detKeys modeDispatch detDispatch : List String) (modeOp detOp : String)
    (present : List String) : Except Err (String × String) :=
  if !present.contains "pipeline" then .error .key                      -- dct["pipeline"]
  else if countFails modeOp (countPresent modeKeys present) then .error .value
  else if countFails detOp (countPresent detKeys present) then .error .value
  else
    match modeDispatch.find? (present.contains ·), detDispatch.find? (present.contains ·) with
    | some m, some d => .ok (m, d)
    | _, _ => .error .value                                             -- "No mode / detector configuration provided."

/-- the documented keys -/
def docModeKeys : List String := ["exposure", "observation", "calibration"]
def docDetKeys : List String := ["ccd_detector", "cmos_detector", "mkid_detector", "apd_detector"]

/-- **The statement**: a document is loaded iff it names exactly one running mode and exactly one detector
(and a pipeline); the configuration then holds that mode and that detector. -/
def specBuild (present : List String) : Except Err (String × String) :=
  if !present.contains "pipeline" then .error .key
  else
    match docModeKeys.filter (present.contains ·), docDetKeys.filter (present.contains ·) with
    | [m], [d] => .ok (m, d)
    | _, _ => .error .value

def sameResult : Except Err (String × String) → Except Err (String × String) → Bool
  | .ok a, .ok b => a == b
  | .error a, .error b => a == b
  | _, _ => false

/-! ## APD: the three bias inputs

`APDCharacteristics(avalanche_gain, pixel_reset_voltage, common_voltage)`: exactly two of the three are given, the
third follows (`avalanche bias = pixel reset voltage − common voltage`, gain ↔ bias by the SAPHIRA curve).  The
documented limits: gain in 1..1000; the avalanche bias must be at least 1 V ("node capacitance calculation is
inaccurate for bias voltages < 1 V" — a pair of voltages less than 1 V apart, equal or reversed is refused).  With a
gain and one voltage the bias is `2.65 + 2.17·log2(gain) ≥ 2.65`, so only the gain's range matters. -/
def apdSpec : Option Rat → Option Rat → Option Rat → Bool
  | some g, some _, none => decide (1 ≤ g ∧ g ≤ 1000)
  | some g, none, some _ => decide (1 ≤ g ∧ g ≤ 1000)
  | none, some p, some c => decide (1 ≤ p - c)
  | _, _, _ => false

/-! ## loading one section (geometry / environment / characteristics) -/

/-- constructor guard of a field of class `cls` in the table (`ff` when the field is not validated) -/
def ctorGuard (table : List Entry) (cls field : String) : Cond :=
  match table.find? (fun e => e.cls = cls ∧ e.field = field) with
  | some e => e.ctor
  | none => .ff

/-- `Cls(**dct)`: every entry is a keyword argument; any guard that holds raises; otherwise each value is
stored as it is and read back by the property of the same name. -/
def loadSection (table : List Entry) (cls : String) (kv : List (String × Num)) : Except Err (List (String × Num)) :=
  if kv.any (fun e => raises (ctorGuard table cls e.1) e.2) then .error .value else .ok kv

end PyxelModel.C12
