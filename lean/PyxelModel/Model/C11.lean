/-!
# C11 — model of the fit-range checker and of the fitness accumulation

Mirrors
* `pyxel/calibration/util.py`: `check_fit_ranges`, `_check_out_fit_ranges`, `FitRange2D.check`,
  `FitRange3D.check` — **as repaired** by `proposed_fixes/C11-fit-range-extents.diff`
  (`checkFitRanges`: extents via `slice.indices`, target range inside the target's size) and as they
  stand on the pinned tree (`checkOld`: end points compared, start never looked at, `None` stops
  raise `TypeError`);
* Python's `slice(start, stop).indices(n)` → `resolve`, `extent`, `sliceList`;
* `ModelFittingDataTree.fitness` / `_get_simulated_data` / `_calculate_fitness`
  (`fitting_datatree.py`): loop over `zip(processors, targets)`, simulated data restricted with the
  result range, targets restricted at construction with the target range, weights, accumulation
  from `0.0` → `restrict2`, `fitnessTotal`;
* `pyxel/calibration/fitness.py`: `sum_of_abs_residuals`, `sum_of_squared_residuals`,
  `reduced_chi_squared` with `np.nansum` / `np.isfinite` made explicit (`Option K`, `none` = NaN)
  → `sumAbs`, `sumSq`, `redChi2`;
* pygmo's champion bookkeeping (contract: champion = best evaluated so far) → `champions`.
-/
namespace PyxelModel.C11

/-- `slice(start, stop)` with `None` = `none` -/
abbrev Range := Option Int × Option Int

/-- one bound of `slice.indices(n)` for step 1: `None` ↦ the default, negative ↦ `+ n` then
clamped at 0, otherwise clamped at `n` -/
def resolve (n : Nat) (d : Int) : Option Int → Int
  | none => d
  | some i => if i < 0 then max (i + n) 0 else min i n

def startOf (n : Nat) (r : Range) : Nat := (resolve n 0 r.1).toNat
def stopOf (n : Nat) (r : Range) : Nat := (resolve n n r.2).toNat

/-- `len(range(*slice(start, stop).indices(n)))` -/
def extent (n : Nat) (r : Range) : Nat := stopOf n r - startOf n r

/-- `xs[start:stop]` -/
def sliceList {α} (r : Range) (xs : List α) : List α :=
  (xs.drop (startOf xs.length r)).take (extent xs.length r)

/-- a bound that Python would *not* clamp: `None`, or an index in `[-n, n]` -/
def boundWithin (n : Nat) : Option Int → Bool
  | none => true
  | some i => decide (-(n : Int) ≤ i ∧ i ≤ n)

def rangeWithin (n : Nat) (r : Range) : Bool := boundWithin n r.1 && boundWithin n r.2

/-- one dimension of the comparison: sizes of target and simulated result along it, and the two
declared ranges -/
structure Dim where
  tSize : Nat
  rSize : Nat
  tRange : Range
  rRange : Range
deriving Repr, DecidableEq

inductive Err | value | type
deriving Repr, DecidableEq

/-- repaired `_check_out_fit_ranges`: same number of selected elements in every dimension -/
def checkOut : List Dim → Except Err Unit
  | [] => .ok ()
  | d :: ds =>
    if extent d.tSize d.tRange != extent d.rSize d.rRange then .error .value else checkOut ds

/-- repaired `FitRange*.check`: the target range lies inside the target -/
def checkTarget : List Dim → Except Err Unit
  | [] => .ok ()
  | d :: ds => if rangeWithin d.tSize d.tRange then checkTarget ds else .error .value

/-- repaired `check_fit_ranges` (dimensions in the order time, y, x) -/
def checkFitRanges (dims : List Dim) : Except Err Unit :=
  match checkOut dims with
  | .error e => .error e
  | .ok () => checkTarget dims

/-! ### the pinned tree (kept for the counter-witness) -/

/-- `_check_out_fit_ranges` of the pinned tree: `target.stop != out.stop` per dimension -/
def checkOutOld : List Dim → Except Err Unit
  | [] => .ok ()
  | d :: ds => if d.tRange.2 != d.rRange.2 then .error .value else checkOutOld ds

/-- `FitRange*.check` of the pinned tree: `not stop <= size` (`None <= int` is a `TypeError`) -/
def checkTargetOld : List Dim → Except Err Unit
  | [] => .ok ()
  | d :: ds =>
    match d.tRange.2 with
    | none => .error .type
    | some s => if s ≤ d.tSize then checkTargetOld ds else .error .value

def checkOld (dims : List Dim) : Except Err Unit :=
  match checkOutOld dims with
  | .error e => .error e
  | .ok () => checkTargetOld dims

/-! ### the statement's notions (declarative) -/

/-- index `i` of an axis of length `n` is selected by `slice(start, stop)`: no clamping, no
arithmetic on lengths — `start ≤ i < stop` with negative bounds counted from the end -/
def selected (n : Nat) (r : Range) (i : Nat) : Bool :=
  let norm : Int → Int := fun k => if k < 0 then k + n else k
  (match r.1 with | none => true | some s => decide (norm s ≤ (i : Int))) &&
  (match r.2 with | none => true | some e => decide ((i : Int) < norm e))

/-- number of selected indices -/
def extentSpec (n : Nat) (r : Range) : Nat := ((List.range n).filter (selected n r)).length

/-- "exceeds the size": a bound that is not an index position of the axis (Python would clamp it) -/
def exceeds (n : Nat) (r : Range) : Prop :=
  (∃ s, r.1 = some s ∧ (s < -(n : Int) ∨ (n : Int) < s)) ∨ (∃ e, r.2 = some e ∧ (e < -(n : Int) ∨ (n : Int) < e))

/-- the ranges the statement lets through: equal extent in every dimension and the target range
not exceeding the target's size -/
def rangesOk (dims : List Dim) : Prop :=
  ∀ d ∈ dims, extentSpec d.tSize d.tRange = extentSpec d.rSize d.rRange ∧ ¬ exceeds d.tSize d.tRange

/-! ## fitness -/

section fitness
variable {K : Type} [Add K] [Sub K] [Mul K] [Div K] [Neg K] [OfNat K 0] [LT K] [DecidableLT K]

def absK (x : K) : K := if x < 0 then -x else x

/-- `np.nansum`: NaN entries are skipped -/
def nansum : List (Option K) → K
  | [] => 0
  | none :: xs => nansum xs
  | some x :: xs => x + nansum xs

/-- elementwise binary operation on possibly-NaN values; `zipWith` = equal shapes -/
def lift2 (f : K → K → K) : Option K → Option K → Option K
  | some a, some b => some (f a b)
  | _, _ => none

/-- `sum_of_abs_residuals`: `nansum(|(target − simulated) · weighting|)` -/
def sumAbs (sim tgt w : List (Option K)) : K :=
  nansum ((List.zipWith (lift2 (· * ·)) (List.zipWith (lift2 (· - ·)) tgt sim) w).map (Option.map absK))

/-- `sum_of_squared_residuals`: `nansum((target − simulated)² · weighting)` -/
def sumSq (sim tgt w : List (Option K)) : K :=
  nansum (List.zipWith (lift2 (· * ·))
    ((List.zipWith (lift2 (· - ·)) tgt sim).map (Option.map fun d => d * d)) w)

/-- `reduced_chi_squared`: `nansum(((target − simulated)/weighting)²) / (#finite(diff) − free)`;
`ofInt` embeds the integer number of degrees of freedom into the field -/
def redChi2 (ofInt : Int → K) (free : Int) (sim tgt w : List (Option K)) : K :=
  let diff := List.zipWith (lift2 (· - ·)) tgt sim
  let dev := (List.zipWith (lift2 (· / ·)) diff w).map (Option.map fun d => d * d)
  nansum dev / ofInt ((diff.filter Option.isSome).length - free)

/-- rows `rr`, columns `cr` of a 2-D array (`isel(y=…, x=…)`) -/
def restrict2 {α} (rr cr : Range) (g : List (List α)) : List (List α) :=
  (sliceList rr g).map (sliceList cr)

/-- 3-D: times, rows, columns -/
def restrict3 {α} (tr rr cr : Range) (g : List (List (List α))) : List (List (List α)) :=
  (sliceList tr g).map (restrict2 rr cr)

/-- `fitness`: `overall_fitness = 0.0; for (processor, target) in zip(...): overall_fitness += f(...)`
— each term is the figure of merit of one (simulated, target, weighting) triple -/
def fitnessTotal (f : List (Option K) → List (Option K) → List (Option K) → K) :
    List (List (Option K)) → List (List (Option K)) → List (List (Option K)) → K → K
  | s :: ss, t :: ts, w :: ws, acc => fitnessTotal f ss ts ws (acc + f s t w)
  | _, _, _, acc => acc

end fitness

/-- pygmo's champion after each evolution: the best fitness evaluated so far (`prev` = champion
of the initial population) -/
def champions {K} [LT K] [DecidableLT K] (prev : K) : List (List K) → List K
  | [] => []
  | ev :: evs =>
    let c := ev.foldl (fun m x => if x < m then x else m) prev
    c :: champions c evs

/-! ### declared files: a relative name means the file of the declaration's own working directory -/

/-- `resolve_with_working_directory` + `Path.resolve` (`calibration.to_path_list`): a relative name is looked up
under the working directory in force when the calibration is declared -/
def resolvePath (wd name : String) : String := wd ++ "/" ++ name

/-- the data a declaration (working directory, relative file names) is fitted against, for a file system `fs` -/
def declaredData {α} (fs : String → Option α) (decl : String × List String) : List (Option α) :=
  decl.2.map (fun n => fs (resolvePath decl.1 n))

end PyxelModel.C11
