/-!
# C13 — model of the data containers (Photon, Pixel, Signal, Image, Phase)

Mirrors, as the code is after the three proposed repairs (`proposed_fixes/C13-*.diff`):

* `ArrayBase._validate`, the `array` getter / setter, `update`, `empty`, `__iadd__` / `__add__`,
  `shape`, `dtype`, `__eq__`                                   (pyxel/data_structure/array.py)
* `Pixel.empty` (all-zero float64 array) and `Pixel.update(None)` (really empty)   (pixel.py)
* the bucket setters of `Detector` (`detector.pixel = other` …, `detector.photon = other`)   (detectors/detector.py)
* `Detector.empty(reset)` and `MKID.empty(reset)` as seen from each bucket (`emptyAll`)     (detectors/detector.py, mkid.py)
* `pyxel.models.load_detector(detector, file)` as seen from each bucket (`load`)            (models/util.py)
* `Photon.array` / `array_3d` getters and setters (check order, clipping of negatives, copy),
  `Photon.__iadd__` / `__add__`, `shape`, `dtype`, `empty`, `__eq__`      (photon.py)

An array is described by what the property talks about: ndarray or DataArray, shape, dtype, and a
*symbolic* content (which caller array it is, clipped or not, which operands were added in
place).  The harness evaluates the symbolic content with numpy and compares it byte for byte with
what the container really holds, so arbitrary values (NaN, huge, negative) are covered without
modelling binary arithmetic.  numpy's contract used here: `a += b` keeps `a`'s shape and dtype,
needs `b` broadcastable *to* `a.shape` and `result_type` castable to `a.dtype` under `same_kind`
(type error reported before the shape error); Python ints are weak scalars (range-checked
against unsigned targets); xarray's in-place add first aligns (ValueError) then adds.

The `TYPE_LIST` tables are a parameter `tl` (the driver passes the ones regenerated from source).
-/
namespace PyxelModel.C13

inductive Kind | photon | pixel | signal | image | phase
deriving DecidableEq, Repr

def Kind.className : Kind → String
  | .photon => "Photon" | .pixel => "Pixel" | .signal => "Signal" | .image => "Image"
  | .phase => "Phase"

def Kind.all : List Kind := [.photon, .pixel, .signal, .image, .phase]

inductive DType
  | bool | int8 | int16 | int32 | int64 | uint8 | uint16 | uint32 | uint64
  | float16 | float32 | float64 | longdouble | complex64 | complex128 | clongdouble | other
deriving DecidableEq, Repr

def DType.all : List DType :=
  [.bool, .int8, .int16, .int32, .int64, .uint8, .uint16, .uint32, .uint64, .float16, .float32,
   .float64, .longdouble, .complex64, .complex128, .clongdouble, .other]

def DType.name : DType → String
  | .bool => "bool" | .int8 => "int8" | .int16 => "int16" | .int32 => "int32" | .int64 => "int64"
  | .uint8 => "uint8" | .uint16 => "uint16" | .uint32 => "uint32" | .uint64 => "uint64"
  | .float16 => "float16" | .float32 => "float32" | .float64 => "float64"
  | .longdouble => "longdouble" | .complex64 => "complex64" | .complex128 => "complex128"
  | .clongdouble => "clongdouble" | .other => "other"

/-- anything that is not one of the sixteen numeric names is `other` (object, str, datetime …) -/
def DType.ofName (s : String) : DType :=
  match DType.all.find? (fun d => d.name == s) with
  | some d => d
  | none => .other

/-- numpy kind rank used by `same_kind` casting: b < u < i < f < c; `none` = never castable -/
def DType.rank : DType → Option Nat
  | .bool => some 0
  | .uint8 | .uint16 | .uint32 | .uint64 => some 1
  | .int8 | .int16 | .int32 | .int64 => some 2
  | .float16 | .float32 | .float64 | .longdouble => some 3
  | .complex64 | .complex128 | .clongdouble => some 4
  | .other => none

def DType.isFloat (d : DType) : Bool := d.rank == some 3
def DType.isUnsigned (d : DType) : Bool := d.rank == some 1

def DType.bits : DType → Nat
  | .uint8 => 8 | .uint16 => 16 | .uint32 => 32 | .uint64 => 64 | _ => 0

/-- can `left += right` write its result back into `left` (ufunc `same_kind` rule)?
(For signed-integer left operands numpy has one more exception, uint64 + int64 → float64; such a
left operand is not reachable in a container and the case is never generated.) -/
def castOnto (l r : DType) : Bool :=
  match l.rank, r.rank with
  | some a, some b => b ≤ a
  | _, _ => false

/-- `b` broadcasts *to* `a` (in-place output cannot grow): align on the right, every dimension
of `b` is 1 or equal, `b` has no more dimensions than `a`. -/
def bcastRev : List Nat → List Nat → Bool
  | _, [] => true
  | [], _ :: _ => false
  | x :: xs, y :: ys => (y == 1 || y == x) && bcastRev xs ys

def broadcastsTo (b a : List Nat) : Bool := bcastRev a.reverse b.reverse

/-- what the container holds, symbolically -/
inductive Content
  | input (id : Nat) (hasNeg : Bool)     -- the caller's array `id`, values unchanged
  | clipped (id : Nat)                   -- `np.clip(array id, 0, None)`
  | plus (c : Content) (operand : Nat)   -- numpy / xarray in-place `c += operand`
  | zeros                                -- `np.zeros(shape, float)` (Pixel.empty)
  | timesZero (c : Content)              -- numpy in-place `c *= 0` (MKID.empty on the phase bucket; keeps NaN)
deriving DecidableEq, Repr

/-- syntactically certain to have no negative entry -/
def Content.noNeg : Content → Bool
  | .input _ hn => !hn
  | .clipped _ => true
  | .zeros => true
  | .plus _ _ => false
  | .timesZero _ => false

structure Arr (γ : Type) where
  is3d : Bool            -- xarray DataArray (wavelength, y, x) rather than numpy ndarray
  shape : List Nat
  dtype : DType
  content : γ
deriving DecidableEq, Repr

abbrev State := Option (Arr Content)

/-- dimension names of a DataArray operand: `("wavelength","y","x")`, `("y","x")`, anything else -/
inductive Dims | std | yx | other
deriving DecidableEq, Repr

/-- right-hand sides.  `nd`: a numpy ndarray (`isNd`) or something `np.asarray` turns into one of
that shape/dtype (list, numpy scalar, Python float / bool / str / None: `isNd = false`);
`xr`: an xarray DataArray; `pyint`: a Python int (weak scalar). -/
inductive Operand
  | nd (isNd : Bool) (shape : List Nat) (dt : DType) (hasNeg : Bool) (id : Nat)
  | xr (dims : Dims) (hasCoord : Bool) (shape : List Nat) (dt : DType) (hasNeg : Bool) (id : Nat)
  | pyint (v : Int) (id : Nat)
deriving DecidableEq, Repr

inductive Op
  | set (v : Operand)             -- `c.array = v`  (`array_2d` is the same setter)
  | set3 (v : Operand)            -- `c.array_3d = v`
  | update (v : Option Operand)   -- `c.update(v)`
  | iadd (v : Operand)            -- `c += v`  and  `c + v` (same body in the code)
  | adopt (v : Option Operand)    -- `detector.<bucket> = other` where the container `other` holds `v` (or is empty)
  | load (v : Option Operand) (sameType sameGeo : Bool)
                                  -- `load_detector(detector, file)`: the file's detector holds `v` in this bucket
  | empty                         -- `c.empty()`
  | emptyAll (reset : Bool)       -- `detector.empty(reset)` seen from this bucket (Detector.empty, MKID.empty)
  | read | read3 | readDtype | readShape
deriving DecidableEq, Repr

inductive Err | typeError | valueError | attributeError | overflowError
deriving DecidableEq, Repr

inductive Obs
  | unit
  | arr (a : Arr Content)
  | dtype (d : DType)
  | shape (s : List Nat)
deriving DecidableEq, Repr

abbrev Outcome := Except Err Obs

structure Cfg where
  tl : Kind → List DType      -- TYPE_LIST of each class
  kind : Kind
  rows : Nat
  cols : Nat

/-- the regenerated `TYPE_LIST` table (class name ↦ dtype names) as the model's parameter -/
def tableOf (raw : List (String × List String)) (k : Kind) : List DType :=
  match raw.find? (fun e => e.1 == k.className) with
  | some e => e.2.map DType.ofName
  | none => []

def Cfg.inTl (c : Cfg) (d : DType) : Bool := (c.tl c.kind).contains d

/-- `np.asarray(data)` in `update` -/
def asArray : Operand → Operand
  | .nd _ s d h i => .nd true s d h i
  | .xr _ _ s d h i => .nd true s d h i
  | .pyint v i =>
    -- numpy's choice for a Python int: int64, uint64 beyond that, else an object array
    .nd true [] (if -(2 ^ 63) ≤ v ∧ v < 2 ^ 63 then .int64 else if 0 ≤ v ∧ v < 2 ^ 64 then .uint64 else .other)
      (decide (v < 0)) i

/-- `ArrayBase._validate` + store (no copy, no clipping) -/
def validateBase (c : Cfg) : Operand → Except Err (Arr Content)
  | .nd isNd s d hn i =>
    if !isNd then .error .typeError
    else if !c.inTl d then .error .typeError
    else if s != [c.rows, c.cols] then .error .valueError
    else .ok ⟨false, s, d, .input i hn⟩
  | _ => .error .typeError

/-- `Photon.array` setter -/
def validatePhoton2 (c : Cfg) : Operand → Except Err (Arr Content)
  | .nd isNd s d hn i =>
    if !isNd then .error .typeError
    else if !c.inTl d then .error .valueError
    else if s.length != 2 then .error .valueError
    else if s != [c.rows, c.cols] then .error .valueError
    else .ok ⟨false, s, d, if hn then .clipped i else .input i hn⟩
  | _ => .error .typeError

/-- `Photon.array_3d` setter -/
def validatePhoton3 (c : Cfg) : Operand → Except Err (Arr Content)
  | .xr dims hasCoord s d hn i =>
    if !c.inTl d then .error .valueError
    else if s.length != 3 then .error .valueError
    else if dims != .std then .error .valueError
    else if s.drop 1 != [c.rows, c.cols] then .error .valueError
    else if !hasCoord then .error .valueError
    else .ok ⟨true, s, d, if hn then .clipped i else .input i hn⟩
  | _ => .error .typeError

def opId : Operand → Nat
  | .nd _ _ _ _ i => i
  | .xr _ _ _ _ _ i => i
  | .pyint _ i => i

/-- numpy `a += v` on an ndarray (or xarray `a += v` with a non-DataArray right-hand side):
`none` = success (content becomes `plus`), `some e` = raised, buffer untouched. -/
def numpyIaddErr (a : Arr Content) : Operand → Option Err
  | .nd _ s d _ _ =>
    if !castOnto a.dtype d then some .typeError
    else if !broadcastsTo s a.shape then some .valueError
    else none
  | .xr _ _ s d _ _ =>     -- numpy treats the DataArray's data as the operand
    if !castOnto a.dtype d then some .typeError
    else if !broadcastsTo s a.shape then some .valueError
    else none
  | .pyint v _ =>
    if a.dtype.isUnsigned then
      if 0 ≤ v ∧ v < 2 ^ a.dtype.bits then none else some .overflowError
    else if a.dtype.rank.isSome then none else some .typeError

/-- xarray `A += B` for two DataArrays: alignment / dimension check first (dimensions are matched
by name: the operand's must be the same three, or `("y","x")` which is broadcast along the
wavelength axis; sizes must be equal — xarray does not stretch size-1 dimensions), then the ufunc -/
def xarrayIaddErr (a : Arr Content) : Operand → Option Err
  | .xr dims _ s d _ _ =>
    if !((dims == .std && s == a.shape) || (dims == .yx && s == a.shape.drop 1)) then some .valueError
    else if !castOnto a.dtype d then some .typeError
    else none
  | v => numpyIaddErr a v

def isXr : Operand → Bool
  | .xr .. => true
  | _ => false

def isRealNd : Operand → Bool
  | .nd isNd .. => isNd
  | _ => false

def bumped (a : Arr Content) (v : Operand) : Arr Content := { a with content := .plus a.content (opId v) }

/-- one operation: new state and what the caller sees -/
def step (c : Cfg) (s : State) : Op → State × Outcome
  | .set v =>
    match c.kind with
    | .photon => match validatePhoton2 c v with
      | .ok a => (some a, .ok .unit)
      | .error e => (s, .error e)
    | _ => match validateBase c v with
      | .ok a => (some a, .ok .unit)
      | .error e => (s, .error e)
  | .set3 v =>
    match c.kind with
    | .photon => match validatePhoton3 c v with
      | .ok a => (some a, .ok .unit)
      | .error e => (s, .error e)
    | _ => (s, .ok .unit)      -- plain Python attribute creation on an ArrayBase: no effect on `_array`
  | .update v =>
    match c.kind with
    | .photon => (s, .error .attributeError)     -- Photon has no `update`
    | _ => match v with
      | none => (none, .ok .unit)                -- also for Pixel (`self._array = None`)
      | some v => match validateBase c (asArray v) with
        | .ok a => (some a, .ok .unit)
        | .error e => (s, .error e)
  | .iadd v =>
    match c.kind with
    | .photon =>
      match s with
      | none =>
        -- REPAIRED (C13-photon-iadd-empty): through the validating setters
        match (if isXr v then validatePhoton3 c v else validatePhoton2 c v) with
        | .ok a => (some a, .ok .unit)
        | .error e => (s, .error e)
      | some a =>
        if isRealNd v && a.is3d then (s, .error .typeError)
        else if isXr v && !a.is3d then (s, .error .typeError)
        else match (if a.is3d then xarrayIaddErr a v else numpyIaddErr a v) with
          | some e => (s, .error e)
          | none => (some (bumped a v), .ok .unit)
    | _ =>
      match s with
      | none => match validateBase c v with
        | .ok a => (some a, .ok .unit)
        | .error e => (s, .error e)
      | some a =>
        -- `self.array += other`:  tmp = self.array; tmp += other; self.array = tmp
        match numpyIaddErr a v with
        | some e => (s, .error e)
        | none =>
          -- buffer already modified in place; then the setter validates `tmp` again
          if isXr v then (some (bumped a v), .error .typeError)   -- `tmp` came back as a DataArray
          else if !c.inTl a.dtype then (some (bumped a v), .error .typeError)
          else if a.shape != [c.rows, c.cols] then (some (bumped a v), .error .valueError)
          else (some (bumped a v), .ok .unit)
  | .adopt v =>
    -- the bucket setters of `Detector` (detectors/detector.py)
    match c.kind with
    | .photon =>
      -- REPAIRED (C13-detector-photon-setter): through the validating setters of the bucket
      match v with
      | none => (none, .ok .unit)
      | some v => match (if isXr v then validatePhoton3 c v else validatePhoton2 c v) with
        | .ok a => (some a, .ok .unit)
        | .error e => (s, .error e)
    | .phase => (s, .error .attributeError)      -- MKID.phase has no setter
    | _ =>
      -- `self.<bucket>.array = obj.array`
      match v with
      | none => (s, .error .valueError)          -- reading the empty source raises
      | some v =>
        if isXr v then (s, .error .typeError)    -- `.array` of a 3-D photon source raises
        else match validateBase c v with
          | .ok a => (some a, .ok .unit)
          | .error e => (s, .error e)
  | .load v sameType sameGeo =>
    -- models/util.py `load_detector`: type and geometry of the file's detector are compared
    -- BEFORE any bucket is replaced; then the buckets of the detector rebuilt by `from_dict`
    -- (through the validating setters / `update` of fresh buckets of the same geometry) are installed
    if !sameType then (s, .error .typeError)
    else if !sameGeo then (s, .error .valueError)
    else
      match c.kind, v with
      | _, none => (none, .ok .unit)
      | .photon, some v =>
        match (if isXr v then validatePhoton3 c v else validatePhoton2 c v) with
        | .ok a => (some a, .ok .unit)
        | .error e => (s, .error e)
      | _, some v =>
        match validateBase c (asArray v) with
        | .ok a => (some a, .ok .unit)
        | .error e => (s, .error e)
  | .empty =>
    match c.kind with
    | .pixel => (some ⟨false, [c.rows, c.cols], .float64, .zeros⟩, .ok .unit)
    | _ => (none, .ok .unit)
  | .emptyAll reset =>
    -- Detector.empty: photon, (charge,) signal and image are always emptied; pixel only on a
    -- destructive reset (then: zeros); MKID.empty: an initialised phase bucket is multiplied by 0
    -- in place on a destructive reset (`self.phase.array *= 0`, through the validating setter)
    match c.kind with
    | .photon | .signal | .image => (none, .ok .unit)
    | .pixel =>
      if reset then (some ⟨false, [c.rows, c.cols], .float64, .zeros⟩, .ok .unit) else (s, .ok .unit)
    | .phase =>
      match s with
      | none => (s, .ok .unit)
      | some a =>
        if !reset then (s, .ok .unit)
        else
          let z : Arr Content := { a with content := .timesZero a.content }
          if !c.inTl a.dtype then (some z, .error .typeError)
          else if a.shape != [c.rows, c.cols] then (some z, .error .valueError)
          else (some z, .ok .unit)
  | .read =>
    match s with
    | none => (s, .error .valueError)
    | some a => if c.kind == .photon && a.is3d then (s, .error .typeError) else (s, .ok (.arr a))
  | .read3 =>
    match c.kind with
    | .photon => match s with
      | none => (s, .error .valueError)
      | some a => if a.is3d then (s, .ok (.arr a)) else (s, .error .typeError)
    | _ => (s, .error .attributeError)
  | .readDtype =>
    match s with
    | none => (s, .error .valueError)
    | some a => (s, .ok (.dtype a.dtype))
  | .readShape =>
    match c.kind with
    | .photon => match s with
      | none => (s, .ok (.shape []))
      | some a => (s, .ok (.shape a.shape))
    | _ => (s, .ok (.shape [c.rows, c.cols]))

/-- a whole history: every intermediate (state, outcome) -/
def runFrom (c : Cfg) : State → List Op → List (State × Outcome)
  | _, [] => []
  | s, op :: ops => let r := step c s op; r :: runFrom c r.1 ops

def finalFrom (c : Cfg) : State → List Op → State
  | s, [] => s
  | s, op :: ops => finalFrom c (step c s op).1 ops

/-! ## the statement's vocabulary -/

/-- allowed numeric types: floating point for photon, pixel, signal, phase; unsigned for image -/
def allowed : Kind → DType → Bool
  | .image, d => d.isUnsigned
  | _, d => d.isFloat

/-- empty, or detector-shaped (plus a wavelength axis for a 3-D photon) with an allowed type -/
def Inv {γ : Type} (k : Kind) (rows cols : Nat) : Option (Arr γ) → Prop
  | none => True
  | some a => allowed k a.dtype = true ∧
      ((a.is3d = false ∧ a.shape = [rows, cols]) ∨
       (k = .photon ∧ a.is3d = true ∧ ∃ w, a.shape = [w, rows, cols]))

def invB {γ : Type} (k : Kind) (rows cols : Nat) : Option (Arr γ) → Bool
  | none => true
  | some a => allowed k a.dtype &&
      ((!a.is3d && a.shape == [rows, cols]) ||
       (k == .photon && a.is3d && a.shape.length == 3 && a.shape.drop 1 == [rows, cols]))

def isAssign : Op → Bool
  | .set _ | .set3 _ | .update _ | .adopt _ | .load _ _ _ => true
  | _ => false

/-! ## equality of two containers (`__eq__`), values abstracted to a token type `γ` -/

structure Box (γ : Type) where
  kind : Kind
  rows : Nat
  cols : Nat
  st : Option (Arr γ)

/-- the public `.shape`: the detector shape for ArrayBase containers; for Photon `()` when empty,
else the stored array's shape -/
def Box.pubShape {γ} (b : Box γ) : List Nat :=
  match b.kind, b.st with
  | .photon, none => []
  | .photon, some a => a.shape
  | _, _ => [b.rows, b.cols]

/-- `np.array_equal` / `DataArray.equals`: same shape and same values -/
def arrEq {γ} [DecidableEq γ] (a b : Arr γ) : Bool :=
  a.is3d == b.is3d && a.shape == b.shape && decide (a.content = b.content)

/-- `Photon.__eq__` (as is) and `ArrayBase.__eq__` (REPAIRED, C13-eq-empty) -/
def eqOp {γ} [DecidableEq γ] (x y : Box γ) : Bool :=
  if x.kind != y.kind then false
  else match x.kind with
    | .photon =>
      match x.st, y.st with
      | none, none => true
      | some a, some b => arrEq a b
      | _, _ => false
    | _ =>
      if (x.rows, x.cols) != (y.rows, y.cols) then false
      else match x.st, y.st with
        | none, none => true
        | some a, some b => arrEq a b
        | _, _ => false

/-- the code before the repair: `True` for empty == full; raises (`none`) for full == empty -/
def eqOpUnrepaired {γ} [DecidableEq γ] (x y : Box γ) : Option Bool :=
  if x.kind != y.kind || (x.rows, x.cols) != (y.rows, y.cols) then some false
  else match x.st, y.st with
    | none, _ => some true
    | some _, none => none
    | some a, some b => some (arrEq a b)

/-- the statement: same kind and shape, and both empty or equal arrays -/
def eqSpec {γ} (x y : Box γ) : Prop :=
  x.kind = y.kind ∧ x.pubShape = y.pubShape ∧
    ((x.st = none ∧ y.st = none) ∨
     ∃ a b, x.st = some a ∧ y.st = some b ∧ a.content = b.content)

def eqSpecB {γ} [DecidableEq γ] (x y : Box γ) : Bool :=
  x.kind == y.kind && x.pubShape == y.pubShape &&
    match x.st, y.st with
    | none, none => true
    | some a, some b => decide (a.content = b.content)
    | _, _ => false

end PyxelModel.C13
