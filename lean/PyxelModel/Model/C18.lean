/-!
# C18 — model of detector (de)serialisation and of the `load_detector` model

Mirrors

* `CCD/CMOS/MKID/APD.to_dict` → `toDict`: the "data" mapping has one entry per key of the type's
  *written* table, holding the container's content (`none` = uninitialised container / `None`);
* `….from_dict` → `fromDict`: a fresh detector (every container uninitialised) in which exactly the
  keys of the type's *read* table are restored with `data.get(key)` (a missing key gives `None`);
* the property classes' `to_dict` / `from_dict(cls(**dct))` → `propsToDict` / `propsFromDict`: a key
  that is not a constructor parameter makes the constructor raise `TypeError`; a parameter that is
  not written keeps its default `None`;
* `Detector.save` / `Detector.load` → `save` / `load` (the ASDF / HDF5 backend is the identity on
  trees — trusted, exercised by the correspondence);
* `pyxel/models/util.py: load_detector` **as repaired** by `proposed_fixes/C18-load-detector.diff` →
  `Step.load`: after checking type and shape, the data containers of the running detector are
  replaced by the file's.  `runStepNoop` is the unrepaired code (`detector = new_detector` rebinds
  a local name).

The key tables are *parameters* here; `Generated/C18.lean` instantiates them with what today's
code writes and reads.  A container's content is an opaque payload `P` (the harness sends a digest
of the field-by-field snapshot).
-/
namespace PyxelModel.C18

abbrev Store (P : Type) := String → Option P          -- container / property name ↦ content
abbrev Dict (P : Type) := List (String × Option P)     -- a written mapping (`None` values allowed)

def toDict {P} (W : List String) (s : Store P) : Dict P := W.map (fun k => (k, s k))

/-- `dct.get(k)`: `None` for a missing key and for a stored `None` -/
def getD {P} (d : Dict P) (k : String) : Option P :=
  match d.lookup k with
  | some v => v
  | none => none

def fromDict {P} (R : List String) (d : Dict P) : Store P := fun k => if k ∈ R then getD d k else none

/-- `cls(**dct)`: refuses an unexpected keyword -/
def propsFromDict {P} (params : List String) (d : Dict P) : Except String (Store P) :=
  match d.find? (fun e => !(params.contains e.1)) with
  | some e => .error e.1
  | none => .ok (fun k => if k ∈ params then getD d k else none)

structure Tables where
  containers : List String
  written : List String
  read : List String
  ctorParams : List String       -- flattened: "geometry.row", …
  writtenProps : List String

structure Det (P : Type) where
  ty : String
  shape : Nat × Nat
  props : Store P
  store : Store P

/-- the tree written to the file -/
structure Saved (P : Type) where
  ty : String
  shape : Nat × Nat
  props : Dict P
  data : Dict P

def save {P} (t : Tables) (d : Det P) : Saved P :=
  ⟨d.ty, d.shape, toDict t.writtenProps d.props, toDict t.written d.store⟩

def load {P} (t : Tables) (f : Saved P) : Except String (Det P) :=
  match propsFromDict t.ctorParams f.props with
  | .error k => .error k
  | .ok props => .ok ⟨f.ty, f.shape, props, fromDict t.read f.data⟩

/-- the tables say: every container is written, everything written is read, and the property keys
are exactly the constructor parameters -/
def Tables.ok (t : Tables) : Bool :=
  t.containers.all (t.written.contains ·) && t.written.all (t.read.contains ·) &&
  t.ctorParams.all (t.writtenProps.contains ·) && t.writtenProps.all (t.ctorParams.contains ·)

/-! ## pipelines containing the load model -/

inductive Step (P : Type)
  | write (k : String) (v : Option P)                       -- a model (re)writes / empties a container
  | load (ty : String) (shape : Nat × Nat) (file : Store P) -- `load_detector(filename)`

/-- running detector: its type and shape never change during a pipeline -/
structure Running (P : Type) where
  ty : String
  shape : Nat × Nat
  store : Store P

def runStep {P} (r : Running P) : Step P → Except String (Running P)
  | .write k v => .ok { r with store := fun q => if q = k then v else r.store q }
  | .load ty shape file =>
    if ty ≠ r.ty then .error "TypeError"
    else if shape ≠ r.shape then .error "ValueError"
    else .ok { r with store := file }

/-- the code before the repair: the loaded detector is bound to a local name and dropped -/
def runStepNoop {P} (r : Running P) : Step P → Except String (Running P)
  | .write k v => .ok { r with store := fun q => if q = k then v else r.store q }
  | .load ty _ _ => if ty ≠ r.ty then .error "TypeError" else .ok r

def runSteps {P} (step : Running P → Step P → Except String (Running P)) :
    Running P → List (Step P) → Except String (Running P)
  | r, [] => .ok r
  | r, s :: ss =>
    match step r s with
    | .error e => .error e
    | .ok r' => runSteps step r' ss

/-- a wrong variant (seeded defect C18-4): containers that are uninitialised in the file are skipped, so
the running detector keeps whatever it held in them -/
def runStepSkipEmpty {P} (r : Running P) : Step P → Except String (Running P)
  | .write k v => .ok { r with store := fun q => if q = k then v else r.store q }
  | .load ty shape file =>
    if ty ≠ r.ty then .error "TypeError"
    else if shape ≠ r.shape then .error "ValueError"
    else .ok { r with store := fun q => match file q with | some v => some v | none => r.store q }

/-- the states after each step (what the model placed next would see) -/
def runTrace {P} (step : Running P → Step P → Except String (Running P)) :
    Running P → List (Step P) → Except String (List (Running P))
  | _, [] => .ok []
  | r, s :: ss =>
    match step r s with
    | .error e => .error e
    | .ok r' =>
      match runTrace step r' ss with
      | .error e => .error e
      | .ok tr => .ok (r' :: tr)

/-! ## a wrong optimisation (seeded defect C18-2): the loaded detector is cached and its container
objects are handed to the running detector *by reference*.  From then on everything done in place
to the running detector — a model's write, the `detector.empty()` before the next readout — is
done to the cached object too, and the next execution of the load model returns that object. -/

structure Shared (P : Type) where
  run : Running P
  cache : Option (Store P)        -- the containers of the cached detector object
  aliased : Bool                  -- the running detector's containers *are* the cached objects

def runStepShared {P} (w : Shared P) : Step P → Except String (Shared P)
  | .write k v =>
    let upd : Store P → Store P := fun s q => if q = k then v else s q
    .ok { w with run := { w.run with store := upd w.run.store },
                 cache := if w.aliased then w.cache.map upd else w.cache }
  | .load ty shape file =>
    if ty ≠ w.run.ty then .error "TypeError"
    else if shape ≠ w.run.shape then .error "ValueError"
    else match w.cache with
      | some c => .ok { w with run := { w.run with store := c }, aliased := true }
      | none => .ok { run := { w.run with store := file }, cache := some file, aliased := true }

def runStepsShared {P} : Shared P → List (Step P) → Except String (Shared P)
  | w, [] => .ok w
  | w, s :: ss =>
    match runStepShared w s with
    | .error e => .error e
    | .ok w' => runStepsShared w' ss

end PyxelModel.C18
