/-!
# C01 — model of the pipeline scheduler

Mirrors `DetectionPipeline.__init__` (one optional model list per group, a falsy list is an absent
group), `Processor.run_pipeline` (iterate `MODEL_GROUPS`, skip absent groups),
`ModelGroup.__iter__` / `ModelGroup.run` (enabled models only, in list order) and
`ModelFunction.__call__` (`func(detector, **arguments)`).  The argument dictionary is an opaque
value `α` (the driver instantiates it with the canonical JSON text of the kwargs).
The debug capture in `ModelGroup.run` runs *after* each call and calls no model: it does not
appear in the call trace; `runExposure` carries the flag only to state that.
-/
namespace PyxelModel.C01

structure Model (α : Type) where
  name : String
  enabled : Bool
  args : α
deriving DecidableEq, Repr

structure Call (α : Type) where
  group : String
  idx : Nat          -- position in the user's list of that group (disabled ones counted)
  name : String
  args : α
deriving DecidableEq, Repr

/-- association list in *user* order (YAML file order / keyword order) -/
abbrev Pipeline (α : Type) := List (String × List (Model α))

def lookup {α} (p : Pipeline α) (g : String) : List (Model α) :=
  match p.find? (fun e => e.1 == g) with
  | some e => e.2
  | none => []

def groupCallsFrom {α} (g : String) : Nat → List (Model α) → List (Call α)
  | _, [] => []
  | i, m :: ms =>
    if m.enabled then ⟨g, i, m.name, m.args⟩ :: groupCallsFrom g (i+1) ms
    else groupCallsFrom g (i+1) ms

/-- one readout step: `Processor.run_pipeline` -/
def runStep {α} (order : List String) (p : Pipeline α) : List (Call α) :=
  order.flatMap (fun g => groupCallsFrom g 0 (lookup p g))

/-- `n` readout steps; every call tagged with its step counter. `debug` only adds bookkeeping
after each call in the code, so the trace does not depend on it. -/
def runExposure {α} (order : List String) (p : Pipeline α) (n : Nat) (_debug : Bool) :
    List (Nat × Call α) :=
  (List.range n).flatMap (fun i => (runStep order p).map (fun c => (i, c)))

/-- the physical order the property names -/
def physicalOrder : List String :=
  ["scene_generation", "photon_collection", "phasing", "charge_generation", "charge_collection",
   "charge_transfer", "charge_measurement", "signal_transfer", "readout_electronics",
   "data_processing"]

end PyxelModel.C01
