/-!
# C05 — model of the observation parameter modes (`pyxel/observation/misc.py`, `observation.py`)

Mirrors, as the code is (after the two proposed repairs `proposed_fixes/C05-*.diff`):

* `ProductMode._product_indices` / `_product_parameters` / `get_parameters_item`
  (`itertools.product` of index ranges zipped with the product of the value lists, numbered by
  `enumerate`)                                                            → `prod`, `idxs`, `productRuns`
* `SequentialMode._sequential_parameters` / `get_parameters_item` (one parameter at a time, running
  index, `{**defaults, key: value}` over the `toolz.unique` keys)        → `assign`, `seqFrom`, `sequentialRuns`
* `CustomMode._custom_parameters` / `get_parameters_item` (row columns consumed left to right, a bare
  `_` takes one column as a scalar, a list of `w` placeholders takes `w` columns as a list;
  `CustomMode.build` refuses a table whose column count is not the number of placeholders)
                                                                          → `cutOne`, `cutRow`, `customRuns`
* `enabled_steps` of the three modes                                      → `enabledSteps`
* `_get_short_dimension_names_new` + `_get_short_name_with_model`
  (REPAIRED: shortest dotted ending, `arguments` dropped, that no other key shares)   → `dimNames`
  and the code before the repair (`_, _, model, _, param = name.split(".")`)          → `oldDimNames`
* the coordinates attached by `_add_product_parameters` / `_add_custom_parameters` (sequential path) and by
  `create_params` (parallel path)                                         → `labelSeq`, `labelPar`
* the merged result (`xr.merge` of the per-run trees / `apply_ufunc` over the parameter array):
  an association from label to the data of that run, for an arbitrary run function `f`  → `result`

Values are an opaque type `α` (the driver instantiates it with the canonical JSON text of a value).
A Python `dict` built by `update` in key order is modelled as the association list `keys.zip values`;
the two coincide when the keys are pairwise different (a parameter *set*), which theorems that read an
assignment by key state as an explicit hypothesis.
-/
namespace PyxelModel.C05

/-! ## Cartesian product in `itertools.product` order (first factor outermost) -/

def prod {α : Type} : List (List α) → List (List α)
  | [] => [[]]
  | l :: ls => l.flatMap (fun x => (prod ls).map (x :: ·))

/-- `_product_indices`: product of `range(len(step))` -/
def idxs {α : Type} (ls : List (List α)) : List (List Nat) :=
  prod (ls.map (fun l => List.range l.length))

/-- the value tuple an index tuple selects (`none`: an index out of range / arity mismatch) -/
def pick? {α : Type} : List (List α) → List Nat → Option (List α)
  | [], [] => some []
  | l :: ls, i :: is => (l[i]?).bind (fun v => (pick? ls is).map (v :: ·))
  | _, _ => none

/-! ## Parameters and runs -/

structure Param (α : Type) where
  key : String
  /-- what iterating the `ParameterValues` yields (`eval_range` of the declaration) -/
  values : List α
  enabled : Bool
  /-- `ParameterType.Multi` (vector-valued): labelled by position on the sequential path -/
  multi : Bool
deriving Repr

def enabledSteps {α : Type} (ps : List (Param α)) : List (Param α) := ps.filter (·.enabled)

/-- `ParameterEntry` -/
structure Run (α : Type) where
  index : List Nat
  params : List (String × α)
  runIndex : Nat
deriving Repr, DecidableEq

/-- `CustomParameterEntry` -/
structure CRun (β : Type) where
  index : Nat
  params : List (String × β)
  runIndex : Nat
deriving Repr, DecidableEq

/-- `ProductMode.get_parameters_item` -/
def productRuns {α : Type} (ps : List (Param α)) : List (Run α) :=
  let es := enabledSteps ps
  let keys := es.map (·.key)
  let vals := es.map (·.values)
  ((idxs vals).zip (prod vals)).mapIdx (fun n iv => ⟨iv.1, keys.zip iv.2, n⟩)

/-! ### sequential mode -/

/-- `{**params_defaults, key: value}` over the unique keys -/
def assign {α : Type} (defaults : String → α) (keys : List String) (key : String) (v : α) :
    List (String × α) :=
  keys.map (fun k => (k, if k = key then v else defaults k))

/-- the runs of the steps `ps`, the running index starting at `n` -/
def seqFrom {α : Type} (defaults : String → α) (keys : List String) :
    Nat → List (Param α) → List (CRun α)
  | _, [] => []
  | n, p :: ps =>
    p.values.mapIdx (fun k v => (⟨n + k, assign defaults keys p.key v, n + k⟩ : CRun α))
      ++ seqFrom defaults keys (n + p.values.length) ps

/-- `SequentialMode.get_parameters_item(processor)`; `defaults k` is `processor.get(k)` of the processor
given to THIS call: the mode object keeps no state between calls, so the runs of a call are a function
of (the parameter declarations, the configuration of that call) only — the harness's history stream
(one `Observation` reused for several `run_mode` calls on reconfigured objects) sends every call to
this function with that call's own `defaults`. -/
def sequentialRuns {α : Type} (defaults : String → α) (ps : List (Param α)) : List (CRun α) :=
  let es := enabledSteps ps
  seqFrom defaults (es.map (·.key)).eraseDups 0 es

/-! ### custom mode -/

structure CParam where
  key : String
  /-- `none`: the declaration is the bare `"_"`; `some w`: a list of `w` placeholders -/
  width : Option Nat
  enabled : Bool
deriving Repr, DecidableEq

/-- `len(step.values)` -/
def CParam.cols (p : CParam) : Nat := p.width.getD 1

/-- value handed to `Processor.set`: a scalar or a list -/
inductive CVal (α : Type) where
  | scalar (a : α)
  | vec (l : List α)
deriving Repr, DecidableEq

def cutOne {α : Type} (row : List α) (i : Nat) : Option Nat → Option (CVal α)
  | none => (row[i]?).map CVal.scalar
  | some w => if i + w ≤ row.length then some (CVal.vec ((row.drop i).take w)) else none

def cutRow {α : Type} (row : List α) : Nat → List CParam → Option (List (String × CVal α))
  | _, [] => some []
  | i, p :: ps =>
    match cutOne row i p.width, cutRow row (i + p.cols) ps with
    | some v, some rest => some ((p.key, v) :: rest)
    | _, _ => none

def cenabled (ps : List CParam) : List CParam := ps.filter (·.enabled)

def totalCols (ps : List CParam) : Nat := (ps.map (·.cols)).sum

inductive CustomErr where
  | missingPlaceholder     -- `"_" not in counter`
  | columnCount            -- number of placeholders ≠ number of columns
  | shortRow               -- (unreachable for a rectangular table: kept so that the model is total)
deriving Repr, DecidableEq

def rowsFrom {α : Type} (es : List CParam) : Nat → List (List α) → Option (List (CRun (CVal α)))
  | _, [] => some []
  | n, row :: rows =>
    match cutRow row 0 es, rowsFrom es (n + 1) rows with
    | some a, some rest => some (⟨n, a, n⟩ :: rest)
    | _, _ => none

/-- `CustomMode.build` (sanity checks) followed by `get_parameters_item`; `ncols` is the number of
columns of the selected table, every row of `rows` has that many entries. -/
def customRuns {α : Type} (ncols : Nat) (rows : List (List α)) (ps : List CParam) :
    Except CustomErr (List (CRun (CVal α))) :=
  let es := cenabled ps
  if totalCols es = 0 then .error .missingPlaceholder
  else if totalCols es ≠ ncols then .error .columnCount
  else match rowsFrom es 0 rows with
    | some rs => .ok rs
    | none => .error .shortRow

/-! ## validation before any run (`Observation.validate_steps`) -/

inductive StepErr where
  | missingKey        -- `KeyError`: the processor has no such key
  | modelNotEnabled   -- `ValueError`: the swept argument belongs to a switched-off model
  | placeholder       -- `ValueError`: `_` outside custom mode
deriving Repr, DecidableEq

/-- what the validation looks at for one declared parameter -/
structure StepFacts where
  enabled : Bool        -- the parameter's own `enabled` flag
  hasKey : Bool         -- `processor.has(key)`
  modelOn : Bool        -- `processor.get(<model>.enabled)` for a `pipeline.….arguments.…` key (true for other keys)
  placeholder : Bool    -- some value is `_`
deriving Repr, DecidableEq

/-- `validate_steps`: only the ENABLED steps are looked at, in declaration order; the first problem is raised -/
def validateSteps (custom : Bool) : List StepFacts → Except StepErr Unit
  | [] => .ok ()
  | f :: fs =>
    if !f.enabled then validateSteps custom fs
    else if !f.hasKey then .error .missingKey
    else if !f.modelOn then .error .modelNotEnabled
    else if f.placeholder && !custom then .error .placeholder
    else validateSteps custom fs

/-! ## Dimension names -/

/-- a key split at the dots -/
abbrev Key := List String

def filt (k : Key) : Key := k.filter (· ≠ "arguments")

/-- Python `parts[-n:]` -/
def ending (n : Nat) (l : List String) : List String := l.drop (l.length - n)

def obsTimes : Key := ["observation", "readout", "times"]

/-- `short(param_name)` with the `readout_time` special case -/
def shortName (k : Key) : List String :=
  if k = obsTimes then ["readout_time"] else ending 1 k

/-- first `n` in `n₀, n₀+1, …` (at most `fuel` candidates) whose ending no other key shares -/
def findEnding (others : List Key) (parts : Key) : Nat → Nat → Option (List String)
  | 0, _ => none
  | fuel + 1, n =>
    if others.all (fun o => ending n o != ending n parts) then some (ending n parts)
    else findEnding others parts fuel (n + 1)

/-- REPAIRED `_get_short_name_with_model(name, other_names)` -/
def qualified (keys : List Key) (k : Key) : List String :=
  let parts := filt k
  let others := (keys.filter (· ≠ k)).map filt
  let maxLen := (parts :: others).foldl (fun m o => max m o.length) 0
  match findEnding others parts (maxLen - 1) 2 with
  | some e => e
  | none => k



/-- `_get_short_dimension_names_new` (names as part lists; the code joins them with ".") -/
def dimName (keys : List Key) (k : Key) : List String :=
  if 1 < (keys.map shortName).count (shortName k) then qualified keys k else shortName k

def dimNames (keys : List Key) : List (List String) := keys.map (dimName keys)

/-- the code before the repair: `_, _, model_name, _, param_name = name.split(".")` -/
def oldQualified : Key → Option (List String)
  | [_, _, m, _, p] => some [m, p]
  | _ => none

def oldDimName (keys : List Key) (k : Key) : Option (List String) :=
  if 1 < (keys.map shortName).count (shortName k) then oldQualified k else some (shortName k)

/-! ## Labels and the labelled result -/

/-- one coordinate of a run: by position (vector-valued parameter on the sequential path) or by value -/
inductive Lab (α : Type) where
  | idx (i : Nat)
  | val (a : α)
deriving Repr, DecidableEq

/-- coordinates `_add_product_parameters` attaches to a run of the product mode -/
def labelSeqAux {α : Type} : List (Param α) → List Nat → List (String × α) → List (Lab α)
  | p :: ps, i :: is, kv :: kvs =>
    (if p.multi then Lab.idx i else Lab.val kv.2) :: labelSeqAux ps is kvs
  | _, _, _ => []

def labelSeq {α : Type} (ps : List (Param α)) (r : Run α) : List (Lab α) :=
  labelSeqAux (enabledSteps ps) r.index r.params

/-- coordinates of the parameter array of the parallel path: the values themselves -/
def labelPar {α : Type} (r : Run α) : List α := r.params.map (·.2)

/-- the labelled result: one entry per run, `f` is what a run computes from its assignment -/
def result {ρ L δ : Type} (label : ρ → L) (f : ρ → δ) (runs : List ρ) : List (L × δ) :=
  runs.map (fun r => (label r, f r))


end PyxelModel.C05
