import PyxelModel.Drive.C01
def main : IO Unit := PyxelModel.J.loop PyxelModel.C01.handle
