import PyxelModel.Drive.C13
def main : IO Unit := PyxelModel.J.loop PyxelModel.C13.handle
