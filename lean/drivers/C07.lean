import PyxelModel.Drive.C07
def main : IO Unit := PyxelModel.J.loop PyxelModel.C07.handle
