import PyxelModel.Drive.C03
def main : IO Unit := PyxelModel.J.loop PyxelModel.C03.handle
