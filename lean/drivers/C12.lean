import PyxelModel.Drive.C12
def main : IO Unit := PyxelModel.J.loop PyxelModel.C12.handle
