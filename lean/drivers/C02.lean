import PyxelModel.Drive.C02
def main : IO Unit := PyxelModel.J.loop PyxelModel.C02.handle
