import PyxelModel.Drive.C15
def main : IO Unit := PyxelModel.J.loop PyxelModel.C15.handle
