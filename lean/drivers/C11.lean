import PyxelModel.Drive.C11
def main : IO Unit := PyxelModel.J.loop PyxelModel.C11.handle
