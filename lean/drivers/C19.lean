import PyxelModel.Drive.C19
def main : IO Unit := PyxelModel.J.loop PyxelModel.C19.handle
