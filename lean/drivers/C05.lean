import PyxelModel.Drive.C05
def main : IO Unit := PyxelModel.J.loop PyxelModel.C05.handle
