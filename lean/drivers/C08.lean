import PyxelModel.Drive.C08
def main : IO Unit := PyxelModel.J.loop PyxelModel.C08.handle
