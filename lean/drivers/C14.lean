import PyxelModel.Drive.C14
def main : IO Unit := PyxelModel.J.loop PyxelModel.C14.handle
