import PyxelModel.Drive.C10
def main : IO Unit := PyxelModel.J.loop PyxelModel.C10.handle
