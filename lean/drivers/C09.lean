import PyxelModel.Drive.C09
def main : IO Unit := PyxelModel.J.loop PyxelModel.C09.handle
