import PyxelModel.Drive.C04
def main : IO Unit := PyxelModel.J.loop PyxelModel.C04.handle
