import PyxelModel.Drive.C20
def main : IO Unit := PyxelModel.J.loop PyxelModel.C20.handle
