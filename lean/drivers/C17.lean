import PyxelModel.Drive.C17
def main : IO Unit := PyxelModel.J.loop PyxelModel.C17.handle
