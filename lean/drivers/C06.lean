import PyxelModel.Drive.C06
def main : IO Unit := PyxelModel.J.loop PyxelModel.C06.handle
