import PyxelModel.Drive.C16
def main : IO Unit := PyxelModel.J.loop PyxelModel.C16.handle
