import PyxelModel.Drive.C18
def main : IO Unit := PyxelModel.J.loop PyxelModel.C18.handle
