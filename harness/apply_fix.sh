#!/bin/bash
# usage: harness/apply_fix.sh <name>   — applies proposed_fixes/<name>.diff to /repo as one "fix:" commit
set -e
n="$1"
cd /repo
if git apply --check "/verif/proposed_fixes/$n.diff" 2>/dev/null; then
  git apply "/verif/proposed_fixes/$n.diff"
else
  echo "(git apply failed; using patch with fuzz)"
  patch -p1 --fuzz=3 --no-backup-if-mismatch < "/verif/proposed_fixes/$n.diff"
fi
git commit -qa -F "/verif/proposed_fixes/$n.msg"
git log --oneline | head -1
