#!/bin/bash
# usage: harness/apply_fix.sh <name>   — applies proposed_fixes/<name>.diff to /repo as one "fix:" commit
set -e
n="$1"
cd /repo
git apply --check "/verif/proposed_fixes/$n.diff"
git apply "/verif/proposed_fixes/$n.diff"
git commit -qa -F "/verif/proposed_fixes/$n.msg"
git log --oneline | head -1
