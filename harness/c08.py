"""C08 — a dotted parameter key addresses exactly one existing setting.

obligations: lean/PyxelModel/Props/C08.lean (all trees / keys / values; literal round trip by structural induction)
tie to code : Generated/C08.lean (existence check in Processor.set, `.arguments` guard in validate_steps, entry
              points assign through Processor.set) + differential run of the REAL Processor.has/get/set,
              run.apply_overrides, Processor.replace, ModelFittingDataTree.update_processor,
              Observation.validate_steps / run_mode and evaluator.eval_entry against the Lean model.
oracle      : the statement itself on the implementation: raw state snapshot (every instance attribute of the
              settings objects, created ones included) before/after; call log of probe models; the value a
              generated literal denotes.
"""

from __future__ import annotations

import json
import shutil
import sys
import tempfile
import types
from fractions import Fraction

import common
from common import LeanDriver, run_check

GROUPS = [
    "scene_generation", "photon_collection", "phasing", "charge_generation", "charge_collection",
    "charge_transfer", "charge_measurement", "signal_transfer", "readout_electronics", "data_processing",
]
KINDS = ["CCD", "CMOS", "MKID", "APD"]
SECTIONS = ["geometry", "environment", "characteristics"]
# APD: avalanche gain / pixel reset voltage / common voltage are three views of two numbers (setting one moves
# another by design) — not exercised as keys (see assumptions).
COUPLED = {"avalanche_gain", "pixel_reset_voltage", "common_voltage"}
SKIP_PROPS = {"numbytes"}


# ------------------------------------------------------------------ literals (independent mirror of the grammar)
def gen_lit(rng, depth=0):
    r = rng.random()
    if depth < 3 and r < (0.30 if depth == 0 else 0.18):
        n = rng.choice([0, 1, 1, 2, 3, 4])
        kind = "list" if rng.random() < 0.6 else "tuple"
        return (kind, [gen_lit(rng, depth + 1) for _ in range(n)])
    r = rng.random()
    if r < 0.08:
        return ("none",)
    if r < 0.2:
        return ("bool", rng.random() < 0.5)
    if r < 0.45:
        n = rng.choice([0, 1, 7, 10, 42, 100, 255, 65535, 10**9, 2**53 + 1, 10**25 + 7, rng.randrange(10**6)])
        return ("int", rng.random() < 0.3, n)
    if r < 0.75:
        ip = rng.choice([0, 0, 1, 3, 12, 500, rng.randrange(10**5)])
        fz = rng.choice([0, 0, 0, 1, 2, 5])
        fm = rng.choice([0, 5, 25, 1, 125, 999, rng.randrange(10**6)])
        ex = None
        if rng.random() < 0.45:
            ex = (rng.random() < 0.5, rng.choice([0, 1, 2, 3, 5, 9, 12, 20]))
        return ("dec", rng.random() < 0.3, ip, fz, fm, ex)
    body_alphabet = "abcXYZ019 _-./:,[](){}#@!~" + ("\"" if rng.random() < 0.5 else "'")
    dq = rng.random() < 0.5
    q = '"' if dq else "'"
    body = "".join(rng.choice(body_alphabet) for _ in range(rng.choice([0, 1, 3, 6, 12])))
    if rng.random() < 0.3:      # a string whose content looks like another literal
        body = rng.choice(["42", "3.5", "True", "[1, 2]", "None", "1e3", "007", "(1, 2)", "-7", "0.5e-3"])
    body = body.replace(q, "")
    return ("str", dq, body)


def render(l) -> str:
    k = l[0]
    if k == "none":
        return "None"
    if k == "bool":
        return "True" if l[1] else "False"
    if k == "int":
        return ("-" if l[1] else "") + str(l[2])
    if k == "dec":
        _, neg, ip, fz, fm, ex = l
        s = ("-" if neg else "") + str(ip) + "." + "0" * fz + str(fm)
        if ex is not None:
            s += "e" + ("-" if ex[0] else "") + str(ex[1])
        return s
    if k == "str":
        q = '"' if l[1] else "'"
        return q + l[2] + q
    items = [render(x) for x in l[1]]
    if k == "list":
        return "[" + ", ".join(items) + "]"
    if len(items) == 1:
        return "(" + items[0] + ",)"
    return "(" + ", ".join(items) + ")"


def denote(l):
    """the Python value the literal denotes (floats: the exactly rounded decimal value)"""
    k = l[0]
    if k == "none":
        return None
    if k == "bool":
        return l[1]
    if k == "int":
        return -l[2] if l[1] else l[2]
    if k == "dec":
        _, neg, ip, fz, fm, ex = l
        nd = fz + len(str(fm))
        q = Fraction(ip) + Fraction(fm, 10**nd)
        if ex is not None:
            q = q / 10 ** ex[1] if ex[0] else q * 10 ** ex[1]
        f = float(q)
        return -f if neg else f
    if k == "str":
        return l[2]
    xs = [denote(x) for x in l[1]]
    return xs if k == "list" else tuple(xs)


BARE_ALPHABET = "abcdefgXYZ_0123456789./- "


def gen_bare(rng):
    first = rng.choice("abcdefgNTFXYZ_")
    s = first + "".join(rng.choice(BARE_ALPHABET) for _ in range(rng.choice([0, 1, 3, 5, 9, 14])))
    s = rng.choice([s, s, s, "None_", "Truex", "Falsey", "Non", "true", "none", "image.fits", "data/img_01.npy",
                    "nan", "inf", "e5", "_", "numpy.linspace"])
    s = s.rstrip(" ")
    if s in ("None", "True", "False") or not s:
        s = "word"
    return s


# ------------------------------------------------------------------ canonical values
def canon_py(v):
    """type-exact canonical JSON of a Python value (floats as exact rationals).  numpy scalars and arrays are NOT
    identified with Python numbers / lists: they are canonicalised as (type name, dtype, shape, exact values) —
    `np.array_equal(60.0, np.array([60.]))` is True, a read-back check must not be."""
    import numpy as np

    if v is None:
        return None
    if isinstance(v, np.ndarray):
        flat = [x.hex() if isinstance(x, float) else repr(x) for x in v.ravel().tolist()]
        return {"s": "<ndarray dtype=%s shape=%s values=%s>" % (v.dtype, list(v.shape), json.dumps(flat))}
    if isinstance(v, np.generic):
        x = v.item()
        return {"s": "<numpy.%s %s>" % (type(v).__name__, x.hex() if isinstance(x, float) else repr(x))}
    if isinstance(v, bool):
        return bool(v)
    if isinstance(v, int):
        return {"i": str(int(v))}
    if isinstance(v, float):
        f = float(v)
        if f != f or f in (float("inf"), float("-inf")):
            return {"s": "<nonfinite %r>" % f}
        n, d = common.frac(f)
        return {"f": [str(n), str(d)]}
    if isinstance(v, str):
        return {"s": v}
    if isinstance(v, list):
        return {"l": [canon_py(x) for x in v]}
    if isinstance(v, tuple):
        return {"t": [canon_py(x) for x in v]}
    return {"s": "<object %s>" % type(v).__name__}


def norm_model_val(j):
    """Lean sends a float literal as its exact decimal value; the code rounds it to binary64: round here too"""
    if isinstance(j, dict):
        if "f" in j:
            n, d = int(j["f"][0]), int(j["f"][1])
            try:
                f = float(Fraction(n, d))
            except OverflowError:
                return {"s": "<overflow>"}
            a, b = common.frac(f)
            return {"f": [str(a), str(b)]}
        if "l" in j:
            return {"l": [norm_model_val(x) for x in j["l"]]}
        if "t" in j:
            return {"t": [norm_model_val(x) for x in j["t"]]}
        if "v" in j:
            return {"v": norm_model_val(j["v"])}
        if "ok" in j and isinstance(j["ok"], dict):
            return {"ok": norm_model_val(j["ok"])}
    return j


def canon_obj(v):
    """what `get` returned, in the driver's `encSub` form"""
    if v is None:
        return {"v": None}
    tn = type(v).__name__
    if tn == "Arguments":
        return {"node": "args"}
    if tn == "ModelGroup":
        return {"node": "group"}
    import numpy as np

    if isinstance(v, (bool, int, float, str, list, tuple, np.generic, np.ndarray)):
        return {"v": canon_py(v)}
    return {"node": "obj"}


def attempt(f, *a, **kw):
    try:
        return {"ok": f(*a, **kw)}
    except Exception as e:  # noqa: BLE001
        return {"err": common.err_kind(e), "msg": str(e)[:160]}


# ------------------------------------------------------------------ worlds
ARG_NAMES = ["level", "alpha", "beta", "seed", "filename", "option", "gain", "size", "lst"]
ARG_VALUES = [1, 0, -7, 2.5, 0.1, "abc", "", True, False, None, [1, 2, 3], [0.5], "data/img.fits"]
TYPO_POOL = ["nope", "x", "value", "rows", "colum", "enable", "argument", "argumentss", "Level", "quantum_eficiency",
             "temprature", "geometri", "enviroment", "characteristic", "pipelin", "detectr", "photon_colection", ""]


def gen_world(rng):
    k = rng.choice([1, 2, 2, 3, 4])
    groups = []
    for j, g in enumerate(rng.sample(GROUPS, k)):
        if j > 0 and rng.random() < 0.12:
            groups.append([g, None])
            continue
        ms = []
        for i in range(rng.choice([1, 1, 2, 3])):
            name = rng.choice(["illumination", "shot_noise", "cdm", "m%d" % i, "simple_adc", "model_%d" % rng.randrange(5)])
            while any(m["name"] == name for m in ms):
                name += "b"
            args = {}
            for a in rng.sample(ARG_NAMES, rng.choice([0, 1, 2, 3])):
                args[a] = rng.choice(ARG_VALUES)
            ms.append({"name": name, "enabled": rng.random() < 0.65, "args": args})
        groups.append([g, ms])
    return {"kind": rng.choice(KINDS), "rows": rng.choice([2, 3, 4]), "cols": rng.choice([2, 3, 5]), "groups": groups}


def py_args(args):
    return {k: (list(v) if isinstance(v, list) else v) for k, v in args.items()}


def build(world):
    import pyx
    from pyxel.pipelines import DetectionPipeline, ModelFunction, Processor

    det = pyx.make_detector(world["kind"], world["rows"], world["cols"])
    kw = {}
    for g, ms in world["groups"]:
        kw[g] = None if ms is None else [
            ModelFunction(func="probes.trace", name=m["name"], arguments=py_args(m["args"]), enabled=m["enabled"]) for m in ms
        ]
    pipe = DetectionPipeline(**kw)
    return Processor(detector=det, pipeline=pipe)


def cfg_json(world):
    out = []
    for g in GROUPS:  # the pipeline object has all ten group attributes; unconfigured ones are None
        ms = dict((gg, mm) for gg, mm in world["groups"]).get(g)
        if not ms:
            out.append([g, None])
        else:
            out.append([g, [[m["name"], m["enabled"], [[a, canon_py(py_args(m["args"])[a])] for a in m["args"]]] for m in ms]])
    return out


def section_tree(obj):
    """tree of one settings object: its properties (ro / with setter) and its instance attributes"""
    cls = type(obj)
    cs = []
    seen = set()
    for name in dir(cls):
        if name.startswith("__") or name in SKIP_PROPS:
            continue
        p = getattr(cls, name, None)
        if isinstance(p, property):
            seen.add(name)
            acc = "ro" if p.fset is None else "g"
            try:
                val = getattr(obj, name)
                sub = {"v": canon_py(val)}
            except ValueError:
                sub = {"u": True}
            except Exception:  # noqa: BLE001
                continue
            cs.append([name, acc, sub])
    for name, val in vars(obj).items():
        if name not in seen:
            cs.append([name, "rw", {"v": canon_py(val)}])
    return {"k": "obj", "c": cs + class_slots(obj)}


def class_attr_names(obj):
    """names that `hasattr(obj, …)` finds on the CLASS and that are no settings: methods, dunder names, class
    constants — not properties, not instance attributes, not declared arguments"""
    cls = type(obj)
    inst = vars(obj) if hasattr(obj, "__dict__") else {}
    declared = getattr(obj, "_arguments", {}) if type(obj).__name__ == "Arguments" else {}
    out = []
    for n in dir(cls):
        if n in inst or n in declared or isinstance(getattr(cls, n, None), property):
            continue
        try:
            getattr(obj, n)
        except Exception:  # noqa: BLE001
            continue
        out.append(n)
    return out


def class_slots(obj, acc="m"):
    out = []
    for n in class_attr_names(obj):
        c = canon_obj(getattr(obj, n))
        out.append([n, acc, {"v": c["v"]} if "v" in c else {"k": c["node"], "c": []}])
    return out


def extras_of(proc):
    """class-level attributes of the objects the Lean side builds itself"""
    pipe = proc.pipeline
    grp = next((getattr(pipe, g) for g in pipe.model_group_names if getattr(pipe, g) is not None), None)
    model = grp.models[0] if grp is not None else None
    return {"processor": class_slots(proc), "pipeline": class_slots(pipe),
            "group": class_slots(grp) if grp is not None else [],
            "model": class_slots(model) if model is not None else [],
            "args": class_slots(model.arguments, "ma") if model is not None else []}


def is_class_attr_key(proc, key):
    """ground truth: does the key's last part name a class-level attribute (no setting) of the object it is on?"""
    obj = proc
    for part in key[:-1]:
        try:
            obj = getattr(obj, part)
        except Exception:  # noqa: BLE001
            return False
    return type(obj).__name__ if (key and key[-1] in class_attr_names(obj)) else False


def detector_tree(det):
    return {"k": "obj", "c": [[s, "ro", section_tree(getattr(det, s))] for s in SECTIONS] + class_slots(det)}


def settable_fields(det):
    out = []
    for s in SECTIONS:
        obj = getattr(det, s)
        for name in dir(type(obj)):
            p = getattr(type(obj), name, None)
            if isinstance(p, property) and p.fset is not None and name not in COUPLED and not name.startswith("_"):
                out.append((s, name))
    return out


def readonly_fields(det):
    out = []
    for s in SECTIONS:
        obj = getattr(det, s)
        for name in dir(type(obj)):
            p = getattr(type(obj), name, None)
            if isinstance(p, property) and p.fset is None and name not in SKIP_PROPS and not name.startswith("_"):
                out.append((s, name))
    return out


# a value inside the documented range of each validated field (C12 is about the ranges themselves)
def valid_value(rng, field):
    if field in ("row", "col"):
        return rng.choice([1, 2, 7, 64])
    if field == "total_thickness":
        return rng.choice([1, 40.5, 10000, 12])
    if field in ("pixel_vert_size", "pixel_horz_size", "pixel_scale"):
        return rng.choice([1, 0.25, 1000, 18.0])
    if field == "temperature":
        return rng.choice([1, 77.5, 300, 1000])
    if field == "wavelength":
        return rng.choice([1, 550.0, 0.5, 2200])
    if field == "quantum_efficiency":
        return rng.choice([0, 1, 0.5, 0.125])
    if field == "charge_to_volt_conversion":
        return rng.choice([0, 1e-6, 100, 2.5])
    if field == "pre_amplification":
        return rng.choice([0, 1, 10000, 80.5])
    if field == "full_well_capacity":
        return rng.choice([0, 1, 10000000, 2000.5])
    if field == "adc_bit_resolution":
        return rng.choice([4, 8, 16, 64])
    if field == "adc_voltage_range":
        return rng.choice([(0.0, 5.0), [1, 2], (-3.5, 3.5)])
    return rng.choice([1, 2.5])


def tag(v):
    """JSON-safe, type-exact description of a native Python value (for replays)"""
    if v is None:
        return ["none"]
    if isinstance(v, bool):
        return ["bool", v]
    if isinstance(v, int):
        return ["int", str(v)]
    if isinstance(v, float):
        return ["float", v.hex()]
    if isinstance(v, str):
        return ["str", v]
    if isinstance(v, list):
        return ["list", [tag(x) for x in v]]
    if isinstance(v, tuple):
        return ["tuple", [tag(x) for x in v]]
    import numpy as np

    if isinstance(v, np.ndarray):
        return ["nd", str(v.dtype), list(v.shape), [tag(x) for x in v.ravel().tolist()]]
    if isinstance(v, np.floating):
        return ["npfloat", float(v).hex()]
    raise TypeError(v)


def untag(t):
    import numpy as np

    k = t[0]
    if k == "none":
        return None
    if k == "bool":
        return bool(t[1])
    if k == "int":
        return int(t[1])
    if k == "float":
        return float.fromhex(t[1])
    if k == "npfloat":
        return np.float64(float.fromhex(t[1]))
    if k == "str":
        return t[1]
    if k == "list":
        return [untag(x) for x in t[1]]
    if k == "tuple":
        return tuple(untag(x) for x in t[1])
    if k == "nd":
        return np.array([untag(x) for x in t[3]], dtype=t[1]).reshape(t[2])
    raise TypeError(t)


def as_input(rng, v):
    """how the value reaches Processor.set: as text (converted by eval_entry), as a sequence of texts, or natively.
    returns (input description, the Python value that must be read back)"""
    import numpy as np

    if isinstance(v, QText):
        return {"text": v.text}, v.denotes
    if isinstance(v, np.ndarray):
        return {"value": canon_py(v), "native": tag(v)}, v       # an array is kept as it is (type, dtype, shape)
    if isinstance(v, (list, tuple)):
        mode = rng.choice(["text", "native", "items"])
        if mode == "text":
            lit = py_to_lit(v)
            return {"text": render(lit)}, denote(lit)
        if mode == "items":
            items = [{"text": render(py_to_lit(x))} for x in v]
            return {"items": items}, [denote(py_to_lit(x)) for x in v]
        nat = list(v) if rng.random() < 0.5 else tuple(v)
        return {"items": [{"value": canon_py(x)} for x in v], "native": tag(nat)}, list(v)   # a sequence becomes a list
    if isinstance(v, str):
        return {"text": v}, v
    if rng.random() < 0.55:
        lit = py_to_lit(v)
        return {"text": render(lit)}, denote(lit)
    if isinstance(v, float) and rng.random() < 0.3:
        return {"value": canon_py(np.float64(v)), "native": ["npfloat", v.hex()]}, np.float64(v)
    if v is None:
        lit = py_to_lit(v)
        return {"text": render(lit)}, None          # a native None is a TypeError in Processor.set: use the text
    return {"value": canon_py(v), "native": tag(v)}, v


def py_to_lit(v):
    if v is None:
        return ("none",)
    if isinstance(v, bool):
        return ("bool", v)
    if isinstance(v, int):
        return ("int", v < 0, abs(v))
    if isinstance(v, float):
        s = repr(abs(v))
        if "e" in s or "inf" in s or "nan" in s:
            m, _, e = s.partition("e")
            ip, _, fr = m.partition(".")
            fr = fr or "0"
            fz = len(fr) - len(fr.lstrip("0")) if fr.strip("0") else len(fr) - 1
            fm = int(fr)
            return ("dec", v < 0, int(ip), fz if fm else max(len(fr) - 1, 0), fm, (int(e) < 0, abs(int(e))))
        ip, _, fr = s.partition(".")
        fm = int(fr)
        fz = (len(fr) - len(fr.lstrip("0"))) if fm else len(fr) - 1
        return ("dec", v < 0, int(ip), fz, fm, None)
    if isinstance(v, str):
        return ("str", '"' not in v, v.replace('"', "") if '"' not in v else v.replace("'", ""))
    if isinstance(v, list):
        return ("list", [py_to_lit(x) for x in v])
    if isinstance(v, tuple):
        return ("tuple", [py_to_lit(x) for x in v])
    raise TypeError(v)


def native_of(inp):
    if "text" in inp:
        return inp["text"]
    if "native" not in inp:
        return [i["text"] for i in inp["items"]]
    return untag(inp["native"])


class QText:
    """a quoted literal given as text: it denotes the STRING inside the quotes (the way to keep `42` a label)"""

    def __init__(self, text, denotes):
        self.text, self.denotes = text, denotes


QUOTED_TEXTS = [('"42"', "42"), ("'3.5'", "3.5"), ('"True"', "True"), ('"[1, 2]"', "[1, 2]"), ('"None"', "None"), ("'1e3'", "1e3"),
                ('"007"', "007"), ("'(1, 2)'", "(1, 2)"), ('"-7"', "-7"), ("'abc'", "abc")]


def array_values():
    """numpy arrays of sizes 0 / 1 / 2 / many, shapes (0,), (1,), (1, 1), (2,), 0-d, (2, 3), float and int dtypes"""
    import numpy as np

    return [np.array([]), np.array([60.0]), np.array([[60.0]]), np.array([1.0, 2.5]), np.array(5.0), np.array(7),
            np.arange(6.0).reshape(2, 3), np.array([3]), np.array([[1, 2]]), np.array([0.0]), np.array([[[2.5]]]),
            np.array([1.5, 2.5, 3.5, 4.5, 5.5])]


# ------------------------------------------------------------------ key cases
def all_setting_keys(world, det):
    keys = [["detector", s, f] for s, f in settable_fields(det)]
    for g, ms in world["groups"]:
        for m in ms or []:
            if not first_named(ms, m["name"]) is m:
                continue
            keys.append(["pipeline", g, m["name"], "enabled"])
            for a in m["args"]:
                keys.append(["pipeline", g, m["name"], "arguments", a])
    return keys


def first_named(ms, name):
    for m in ms:
        if m["name"] == name:
            return m
    return None


def exists_by_getattr(proc, key):
    """does the dotted name exist, by plain Python attribute access (independent of Processor.has)?"""
    obj = proc
    for i, part in enumerate(key):
        try:
            obj = getattr(obj, part)
        except ValueError:
            # an unset validated field exists (its getter refuses to answer); nothing can exist below it
            return i == len(key) - 1
        except Exception:  # noqa: BLE001
            return False
    return True


def gen_key_case(rng, world, det_probe_proc):
    """returns (key parts, class, expected value or None, input)"""
    det = det_probe_proc.detector
    valid = all_setting_keys(world, det)
    cls = rng.choice(["valid", "valid", "valid", "misspelt_leaf", "misspelt_leaf", "misspelt_inner", "truncated",
                      "overlong", "absent_group", "unknown_model", "readonly", "class_attr", "class_attr"])
    base = list(rng.choice(valid))
    is_det = base[0] == "detector"
    if is_det:
        v = valid_value(rng, base[2])
        if base[2] == "quantum_efficiency" and rng.random() < 0.4:
            import numpy as np

            v = rng.choice([np.array([0.5]), np.array([[0.25]]), np.array([0.2, 0.7]), np.array(0.5), np.array([0.0, 0.5, 1.0])])
    elif base[-1] == "enabled":
        v = rng.choice([True, False])
    else:
        v = rng.choice([3, -1, 0.75, 1e-3, "abc", "image.fits", True, [1, 2.5], (0.0, 5.0), [[1, 2], [3]], 12345678901234567890,
                        [7], (7,), [0.5], ("a",)])
        if rng.random() < 0.12:
            v = QText(*rng.choice(QUOTED_TEXTS))
        if rng.random() < 0.35:
            v = rng.choice(array_values())
    inp, expected = as_input(rng, v)
    if cls == "valid":
        return base, cls, expected, inp
    if cls == "class_attr":
        # the leaf is a method / dunder / constant of the class of the object the key is on (any level of the key)
        depth = rng.choice([len(base) - 1, len(base) - 1, len(base) - 1, rng.randrange(0, len(base))])
        obj = det_probe_proc
        for part in base[:depth]:
            obj = getattr(obj, part)
        names = class_attr_names(obj)
        plain = [n for n in names if not n.startswith("_")]
        pool = plain * 3 + [n for n in names if n in ("__class__", "__dict__", "__doc__", "__eq__", "__call__", "__len__", "__iter__", "__module__", "__init__")]
        key = base[:depth] + [rng.choice(pool or names)]
    elif cls == "misspelt_leaf":
        key = base[:-1] + [mutate(rng, base[-1])]
    elif cls == "misspelt_inner":
        i = rng.randrange(0, len(base) - 1)
        key = base[:i] + [mutate(rng, base[i])] + base[i + 1:]
        if i == 2 and base[0] == "pipeline":
            cls = "unknown_model"
    elif cls == "truncated":
        key = base[: rng.randrange(1, len(base))]
    elif cls == "overlong":
        key = base + [rng.choice(["x", "value", "nope", "arguments", "enabled"])]
    elif cls == "absent_group":
        absent = [g for g in GROUPS if not dict((gg, mm) for gg, mm in world["groups"]).get(g)]
        if not absent:
            return base, "valid", expected, inp
        key = ["pipeline", rng.choice(absent), "m0", rng.choice(["enabled", "arguments"])]
        if key[-1] == "arguments":
            key.append("level")
    elif cls == "unknown_model":
        gs = [g for g, ms in world["groups"] if ms]
        key = ["pipeline", rng.choice(gs), rng.choice(["nomodel", "illuminatio", "m9"]), "arguments", "level"]
    else:  # readonly
        ro = readonly_fields(det)
        choices = [["detector", s, f] for s, f in ro]
        for g, ms in world["groups"]:
            for m in ms or []:
                choices += [["pipeline", g, m["name"], "name"], ["pipeline", g, m["name"], "arguments"]]
        choices += [["detector", "geometry"], ["pipeline", world["groups"][0][0]]]
        key = rng.choice(choices)
    return key, cls, expected, inp


def mutate(rng, name):
    r = rng.random()
    if r < 0.3 and len(name) > 2:
        i = rng.randrange(len(name))
        return name[:i] + name[i + 1:]
    if r < 0.5:
        return name + rng.choice(["s", "_", "x"])
    if r < 0.6:
        return name.upper() if name.upper() != name else name + "X"
    if r < 0.7 and len(name) > 1:
        return name[:-1]
    return rng.choice(TYPO_POOL)


# ------------------------------------------------------------------ raw state snapshot (the frame oracle)
def raw_snapshot(proc):
    snap = {}
    for k, v in vars(proc).items():
        if k in ("detector", "pipeline", "_log"):
            continue
        snap["processor.%s" % k] = canon_small(v)
    det = proc.detector
    snap["detector.__attrs__"] = sorted(vars(det).keys()) if hasattr(det, "__dict__") else ["<%s>" % type(det).__name__]
    if hasattr(det, "geometry"):
        for s in SECTIONS:
            obj = getattr(det, s)
            for k, v in vars(obj).items():
                if k == "_numbytes":
                    continue
                snap["detector.%s.%s" % (s, k)] = canon_small(v)
    pipe = proc.pipeline
    snap["pipeline.__attrs__"] = sorted(vars(pipe).keys()) if hasattr(pipe, "__dict__") else ["<%s>" % type(pipe).__name__]
    if hasattr(pipe, "model_group_names"):
        for g in pipe.model_group_names:
            grp = getattr(pipe, g)
            if grp is None:
                snap["pipeline.%s" % g] = None
                continue
            snap["pipeline.%s.__attrs__" % g] = {k: canon_small(v) for k, v in vars(grp).items() if k not in ("_log", "models")}
            for i, m in enumerate(grp.models):
                for k, v in vars(m).items():
                    if k in ("_func", "_arguments") or callable(v) or type(v).__name__ == "Arguments":
                        continue
                    snap["pipeline.%s[%d].%s" % (g, i, k)] = canon_small(v)
                args = m.arguments  # public view of the arguments object
                inner = [k for k, v in vars(args).items() if isinstance(v, dict)]  # the mapping it wraps, whatever its name
                for k, v in vars(args).items():
                    if k not in inner:
                        snap["pipeline.%s[%d].arguments.__attr__%s" % (g, i, k)] = canon_small(v)
                for k, v in dict(args).items():
                    snap["pipeline.%s[%d].arguments.%s" % (g, i, k)] = canon_small(v)
    return snap


def canon_small(v):
    c = canon_py(v)
    return c


def cell_of(world, key):
    """raw-snapshot cell(s) that assigning through a *valid* key may change"""
    if key[0] == "detector":
        return {"detector.%s._%s" % (key[1], key[2])}
    g, m = key[1], key[2]
    ms = dict((gg, mm) for gg, mm in world["groups"])[g]
    idx = [i for i, mm in enumerate(ms) if mm["name"] == m][0]
    if key[3] == "enabled":
        return {"pipeline.%s[%d].enabled" % (g, idx)}
    return {"pipeline.%s[%d].arguments.%s" % (g, idx, key[4])}


def snap_diff(a, b):
    return sorted(k for k in set(a) | set(b) if a.get(k, "<absent>") != b.get(k, "<absent>"))


# ------------------------------------------------------------------ implementation side: one key case
ENTRIES = ["set", "set", "override", "replace", "calibration"]


def run_key_impl(case):
    import numpy as np
    import probes
    import pyx
    from pyxel.run import apply_overrides

    probes.reset()
    world, key, inp, entry = case["world"], case["key"], case["input"], case["entry"]
    proc = build(world)
    dotted = ".".join(key)
    out = {}
    snap0 = raw_snapshot(proc)
    out["det_tree"] = detector_tree(proc.detector)
    out["extras"] = extras_of(proc)
    plist = case["probes"]
    out["has"] = attempt(proc.has, dotted)
    g = attempt(proc.get, dotted)
    out["get"] = {"ok": canon_obj(g["ok"])} if "ok" in g else g
    out["before"] = [probe_get(proc, p) for p in plist]
    value = native_of(inp)
    target = proc
    if entry == "set":
        r = attempt(proc.set, dotted, value)
    elif entry == "override":
        mode = pyx.make_exposure(times=[1.0])
        r = attempt(apply_overrides, {dotted: value}, proc, mode)
    elif entry == "replace":
        r = attempt(proc.replace, {dotted: value})
        if "ok" in r:
            target = r["ok"]
    else:  # calibration: the real update_processor, on a stub holding the variables
        from pyxel.calibration.fitting_datatree import ModelFittingDataTree
        from pyxel.observation import ParameterValues

        if "cal_n" in inp:     # a vector variable: update_processor assigns the slice parameter[start:stop]
            var = ParameterValues(key=dotted, values=["_"] * inp["cal_n"], boundaries=(0.0, 1.0e9))
            vec = np.asarray(value, dtype=float)
        else:
            var = ParameterValues(key=dotted, values="_", boundaries=(0.0, 1.0e9))
            vec = np.array([float(value)])
        stub = types.SimpleNamespace(_variables=[var])
        r = attempt(ModelFittingDataTree.update_processor, stub, vec, proc)
        if "ok" in r:
            target = r["ok"]
    out["set"] = {"ok": True} if "ok" in r else r
    snap1 = raw_snapshot(target)
    out["diff"] = snap_diff(snap0, snap1)
    out["diff_detail"] = {k: [snap0.get(k, "<absent>"), snap1.get(k, "<absent>")] for k in out["diff"][:6]}
    if target is not proc:
        out["orig_diff"] = snap_diff(snap0, raw_snapshot(proc))
    if "ok" in r:
        out["after"] = [probe_get(target, p) for p in plist]
        out["has_after"] = [attempt(target.has, ".".join(p)) for p in plist]
    out["calls"] = len(probes.LOG)
    return out


def probe_get(proc, p):
    g = attempt(proc.get, ".".join(p))
    return {"ok": canon_obj(g["ok"])} if "ok" in g else {"err": g["err"]}


def strip_msg(r):
    return {k: v for k, v in r.items() if k != "msg"}


def key_predicate(case, impl):
    """the statement on the implementation's observable behaviour; None = holds"""
    cls, key, world = case["class"], case["key"], case["world"]
    ok = "ok" in impl["set"]
    if not ok and impl["diff"]:
        return "rejected:state-changed", "the assignment raised %s but the processor changed at %s" % (impl["set"]["err"], impl["diff"])
    if impl.get("orig_diff"):
        return "copy:original-changed", "assigning on a copy changed the original processor at %s" % impl["orig_diff"]
    if not case["exists"]:
        if ok:
            where = "plain-object" if True else ""
            return ("set-accepts-nonexistent-key", "key %r names no existing setting (has=%s) but %s accepted it; the "
                    "processor now differs at %s" % (".".join(key), impl["has"].get("ok"), case["entry"], impl["diff"] or "<nothing observable>"))
        return None
    if case.get("class_attr"):
        # a method / dunder / constant of the class is not a setting: the key resolves to no setting and must be refused
        if ok:
            return ("set-accepts-class-attribute:" + ("Arguments" if case["class_attr"] == "Arguments" else "plain-object"),
                    "key %r names a method / class-level attribute of %s, not a setting, but %s accepted the assignment "
                    "(processor now differs at %s)" % (".".join(key), case["class_attr"], case["entry"], impl["diff"]))
        return None
    if cls == "valid":
        if impl["has"].get("ok") is not True:
            return "valid-key:has-false", "existing setting %r: has() = %s" % (".".join(key), strip_msg(impl["has"]))
        if not ok:
            return "valid-key:rejected", "existing setting %r with an in-range value was refused: %s" % (".".join(key), impl["set"])
        allowed = cell_of(world, key)
        extra = [d for d in impl["diff"] if d not in allowed]
        if extra:
            return "frame", "assigning %r also changed %s" % (".".join(key), extra)
        i = case["probes"].index(key)
        got = impl["after"][i]
        exp = {"ok": {"v": case["expected"]}}
        if got != exp:
            return "read-back", "assigned %r through %r, read back %r" % (case["expected"], ".".join(key), got)
        return None
    # a name that exists but is not a plain setting (object / read-only property): the statement is silent on
    # acceptance; only "nothing else changes" is checked (done above for the rejected case)
    return None


# ------------------------------------------------------------------ validate_steps / sweep cases
def gen_validate_case(rng, world):
    gs = [(g, ms) for g, ms in world["groups"] if ms]
    cls = rng.choice(["declared", "declared", "undeclared", "disabled_or_enabled", "unknown_model", "absent_group",
                      "enabled_flag", "enabled_flag", "detector", "detector_typo", "underscore"])
    g, ms = rng.choice(gs)
    m = rng.choice(ms)
    vals = rng.choice([[1, 2, 3], [0.5, 1.5], ["a", "b"], [7]])
    if cls in ("declared", "disabled_or_enabled", "underscore"):
        if not m["args"]:
            return ["pipeline", g, m["name"], "arguments", "level"], vals, "undeclared"
        a = rng.choice(sorted(m["args"]))
        if cls == "underscore":
            vals = ["_", "_"]
        return ["pipeline", g, m["name"], "arguments", a], vals, cls
    if cls == "undeclared":
        # ordinary typos, and names that are attributes of the `Arguments` class itself (hasattr is true for them)
        name = rng.choice(["nope", "levl", "Alpha", "x_", "values", "items", "keys", "get", "pop", "update", "clear", "setdefault",
                           "popitem", "__class__", "__len__"])
        return ["pipeline", g, m["name"], "arguments", name], vals, cls
    if cls == "unknown_model":
        return ["pipeline", g, rng.choice(["nomodel", m["name"] + "_", m["name"][:-1] or "q"]), "arguments", "level"], vals, cls
    if cls == "absent_group":
        absent = [x for x in GROUPS if not dict((gg, mm) for gg, mm in world["groups"]).get(x)]
        return ["pipeline", rng.choice(absent or ["nogroup"]), "m0", "arguments", "level"], vals, cls
    if cls == "enabled_flag":
        return ["pipeline", g, m["name"], "enabled"], [True, False], cls
    if cls == "detector":
        if rng.random() < 0.4:    # a method / dunder of a detector object: not a setting
            sect = rng.choice(SECTIONS)
            return ["detector", sect, rng.choice(["to_dict", "from_dict", "__eq__", "__class__", "__doc__"])], [1, 2], "class_attr"
        return ["detector", "environment", "temperature"], [100, 200], cls
    return ["detector", rng.choice(["enviroment", "environment"]), rng.choice(["temperatur", "temp"])], [100, 200], cls


def classify_sweep(world, key, cls):
    """ground truth about a sweep key, from the configuration itself (not from how the key was generated)"""
    if key[0] != "pipeline" or len(key) < 4:
        return cls
    ms = dict((gg, mm) for gg, mm in world["groups"]).get(key[1])
    if not ms:
        return "absent_group"
    m = first_named(ms, key[2])
    if m is None:
        return "unknown_model"
    if key[3] == "enabled" and len(key) == 4:
        return "enabled_flag"
    if key[3] == "arguments" and len(key) == 5:
        if key[4] not in m["args"]:
            return "undeclared"
        if cls == "underscore":
            return cls
        return "declared" if m["enabled"] else "disabled"
    return cls


def run_validate_impl(case):
    import probes
    import pyx
    from pyxel.observation import Observation, ParameterValues

    world, key, vals = case["world"], case["key"], case["values"]
    proc = build(world)
    out = {"det_tree": detector_tree(proc.detector), "extras": extras_of(proc)}
    try:
        obs = Observation(parameters=[ParameterValues(key=".".join(key), values=list(vals))], mode=case["mode"])
    except Exception as e:  # noqa: BLE001
        return {"construct_error": common.err_kind(e), **out}
    r = attempt(obs.validate_steps, proc)
    out["validate"] = {"ok": True} if "ok" in r else r
    if case["run"]:
        import dask

        # both observation paths, end to end: sequential and with_dask (synchronous scheduler, results computed)
        for tag_, with_dask in (("", False), ("_dask", True)):
            probes.reset()
            proc2 = build(world)
            obs2 = Observation(parameters=[ParameterValues(key=".".join(key), values=list(vals))], mode=case["mode"],
                               with_dask=with_dask)

            def go():
                with dask.config.set(scheduler="synchronous"):
                    res = pyx.run(obs2, proc2.detector, proc2.pipeline)
                    return res.compute() if hasattr(res, "compute") else res

            rr = attempt(go)
            out["run" + tag_] = {"ok": True} if "ok" in rr else rr
            out["calls" + tag_] = len(probes.LOG)
    return out


def run_paths(impl):
    return [(t or "sequential", impl["run" + s_], impl.get("calls" + s_, 0)) for t, s_ in (("", ""), ("with_dask", "_dask")) if "run" + s_ in impl]


def validate_predicate(case, impl):
    cls = case["class"]
    if "validate" not in impl:
        return None
    ok = "ok" in impl["validate"]
    key = ".".join(case["key"])
    world = case["world"]
    m = None
    if case["key"][0] == "pipeline":
        ms = dict((gg, mm) for gg, mm in world["groups"]).get(case["key"][1]) or []
        m = first_named(ms, case["key"][2])
    if cls in ("undeclared", "unknown_model", "absent_group", "detector_typo", "class_attr"):
        # must be an error before any pipeline runs: refused by validate_steps, or — validate_steps only asks `has`, which is
        # true for class-level names such as `arguments.values` — by the first assignment of the sweep, on BOTH paths
        paths = run_paths(impl)
        if ok and not paths:
            return None
        for path, run, calls in paths:
            if "ok" in run or calls:
                return ("sweep-ran-undeclared:%s:%s" % (path, "model-argument" if case["key"][0] == "pipeline" else "detector"),
                        "sweep over %r, which names no setting of the configuration (%s observation): "
                        "run result %s, %d model call(s)" % (key, path, strip_msg(run), calls))
        return None
    if cls == "disabled":
        if ok:
            return "sweep-accepts-disabled", "sweep over an argument of the disabled model %r was accepted" % key
        for path, run, calls in run_paths(impl):
            if "ok" in run or calls:
                return ("sweep-ran-disabled:" + path, "sweep over the argument %r of a disabled model (%s observation) was not refused "
                        "before running: run result %s, %d model call(s)" % (key, path, strip_msg(run), calls))
        return None
    if cls == "declared":
        if not ok:
            return "sweep-rejects-declared", "sweep over the declared argument %r of an enabled model was refused: %s" % (key, impl["validate"])
        for path, run, calls in run_paths(impl):
            if "err" in run and run["err"] in ("KeyError", "AttributeError") and ("Missing parameter" in run.get("msg", "") or "does not exist" in run.get("msg", "")):
                return "sweep-run-rejects-declared:" + path, "sweep over %r (%s observation) refused at run time: %s" % (key, path, run)
        return None
    if cls == "enabled_flag":
        if not ok:
            return ("validate_steps:enabled-flag-rejected", "sweep over the existing flag %r was refused with %s (%s)"
                    % (key, impl["validate"]["err"], impl["validate"].get("msg", "")))
        return None
    if cls == "detector":
        if not ok:
            return "sweep-rejects-detector-field", "sweep over %r refused: %s" % (key, impl["validate"])
    return None


# ------------------------------------------------------------------ sweep values end to end
PLAIN_TEXTS = [("abc", "abc"), ("image.fits", "image.fits"), ("7", 7), ("2.5", 2.5), ("[1, 2]", [1, 2]), ("True", True),
               ("1e-3", 1e-3), ("(1, 2)", (1, 2)), ("-4", -4), ("data/img_01.npy", "data/img_01.npy")]


def gen_sweepval_case(rng, world):
    """a sweep over a declared argument of an enabled model whose name is unique in the pipeline; values are texts
    (quoted literals, plain literals, bare words) and numbers; returns None when the world has no such argument"""
    names = [m["name"] for _, ms in world["groups"] for m in (ms or [])]
    cands = [(g, m, a) for g, ms in world["groups"] for m in (ms or []) if m["enabled"] and names.count(m["name"]) == 1 for a in m["args"]]
    if not cands:
        return None
    g, m, a = rng.choice(cands)
    vals, exp = [], []
    for _ in range(rng.choice([2, 3, 4, 5])):
        r = rng.random()
        if r < 0.5:
            t, d = rng.choice(QUOTED_TEXTS)
        elif r < 0.8:
            t, d = rng.choice(PLAIN_TEXTS)
        else:
            t = d = rng.choice([7, 2.5, 0, -3, 1e-6])
        if t in vals:
            continue
        vals.append(t)
        exp.append(tag(d))
    dask_ = rng.random() < 0.4
    if dask_:      # keep the coordinate labels of one type (all texts): assembling mixed str / number labels is not C08's subject
        vals = [v if isinstance(v, str) else repr(v) for v in vals]
        keep = [i for i, v in enumerate(vals) if v not in vals[:i]]
        vals, exp = [vals[i] for i in keep], [exp[i] for i in keep]
    return {"stream": "sweepval", "world": world, "key": ["pipeline", g, m["name"], "arguments", a], "values": vals, "expected": exp,
            "mode": rng.choice(["product", "sequential"]), "dask": dask_}


def run_sweepval_impl(case):
    import dask
    import probes
    import pyx
    from pyxel.observation import Observation, ParameterValues

    out = {}
    name, arg = case["key"][2], case["key"][4]
    for tag_, with_dask in ((("seq", False),) + ((("dask", True),) if case["dask"] else ())):
        probes.reset()
        proc = build(case["world"])
        obs = Observation(parameters=[ParameterValues(key=".".join(case["key"]), values=list(case["values"]))],
                          mode=case["mode"], with_dask=with_dask)

        def go():
            with dask.config.set(scheduler="synchronous"):
                res = pyx.run(obs, proc.detector, proc.pipeline)
                return res.compute() if hasattr(res, "compute") else res

        rr = attempt(go)
        got = [json.loads(r[3]).get(arg, "<absent>") for r in probes.LOG if r[2] == name]
        out[tag_] = {"run": "ok" if "ok" in rr else rr["err"], "msg": rr.get("msg"), "received": got}
    return out


def sweepval_predicate(case, impl):
    from probes import _canon_val

    want = [json.loads(json.dumps(_canon_val(untag(t)))) for t in case["expected"]]
    for path, got in impl.items():
        rec = got["received"]
        if got["run"] != "ok":
            # an error raised while the results are assembled, after every pipeline has run with the right values, is not about
            # keys or conversion (e.g. xarray refusing a coordinate of mixed str / int labels): judged on what the model received
            if path == "seq" and rec == want:
                continue
            return "sweep-value:run-failed:" + path, "sweep of %r over %r failed: %s %s" % (".".join(case["key"]), case["values"], got["run"], got["msg"])
        bad = rec != want if path == "seq" else (sorted(map(json.dumps, rec[1:] if len(rec) > len(want) else rec)) != sorted(map(json.dumps, want)))
        if bad:
            return ("sweep-value:wrong-conversion:" + path, "sweep values %r denote %s but the model received %s (%s observation, %s mode)"
                    % (case["values"], json.dumps(want), json.dumps(rec), path, case["mode"]))
    return None


# ------------------------------------------------------------------ calibration: several variables, every declaration order
def gen_calvars_case(rng, world, proc):
    keys = all_setting_keys(world, proc.detector)
    args = [k for k in keys if len(k) == 5]
    dets = [k for k in keys if k[0] == "detector" and k[2] in ("quantum_efficiency", "temperature", "total_thickness", "pre_amplification",
                                                              "full_well_capacity", "pixel_vert_size")]
    if len(args) < 2:
        return None
    n = min(len(args), rng.choice([2, 3, 3, 4]))
    chosen = rng.sample(args, n) + (rng.sample(dets, 1) if dets and rng.random() < 0.5 else [])
    vars_ = []
    for k in chosen:
        w = None if k[0] == "detector" else rng.choice([None, None, 1, 2, 3])
        vars_.append([k, w])
    rng.shuffle(vars_)
    if rng.random() < 0.5:   # the order "vector of >= 2, scalar, something else"
        a = [v for v in vars_ if v[0][0] != "detector"]
        a[0][1], a[1][1] = rng.choice([2, 3]), None
        vars_ = [a[0], a[1]] + [v for v in vars_ if v is not a[0] and v is not a[1]]
    xs = []
    for i, (k, w) in enumerate(vars_):
        for j in range(w or 1):
            xs.append(0.03125 * (len(xs) + 1) if k[-1] == "quantum_efficiency" else 100.0 + 7.5 * len(xs))
    return {"stream": "calvars", "world": world, "vars": vars_, "xs": [x.hex() for x in xs], "probes": keys}


def run_calvars_impl(case):
    import numpy as np
    from pyxel.calibration.fitting_datatree import ModelFittingDataTree
    from pyxel.observation import ParameterValues

    proc = build(case["world"])
    out = {"det_tree": detector_tree(proc.detector), "extras": extras_of(proc)}
    snap0 = raw_snapshot(proc)
    out["before"] = [probe_get(proc, p) for p in case["probes"]]
    vars_ = [ParameterValues(key=".".join(k), values="_" if w is None else ["_"] * w, boundaries=(0.0, 1.0e9)) for k, w in case["vars"]]
    vec = np.array([float.fromhex(h) for h in case["xs"]])
    r = attempt(ModelFittingDataTree.update_processor, types.SimpleNamespace(_variables=vars_), vec, proc)
    out["orig_diff"] = snap_diff(snap0, raw_snapshot(proc))
    if "ok" not in r:
        out["err"], out["msg"] = r["err"], r.get("msg")
        return out
    new = r["ok"]
    out["after"] = [probe_get(new, p) for p in case["probes"]]
    return out


def calvars_expected(case):
    import numpy as np

    vec = np.array([float.fromhex(h) for h in case["xs"]])
    exp, a = {}, 0
    for k, w in case["vars"]:
        exp[".".join(k)] = vec[a] if w is None else vec[a:a + w].copy()
        a += w or 1
    return exp


def calvars_predicate(case, impl):
    order = ", ".join("%s%s" % (k[-1], "" if w is None else "[%d]" % w) for k, w in case["vars"])
    if impl["orig_diff"]:
        return "calibration:original-changed", "update_processor changed the processor it was given at %s" % impl["orig_diff"]
    if "err" in impl:
        return "calibration:variables-refused", "variables (%s), all existing settings, were refused: %s %s" % (order, impl["err"], impl.get("msg"))
    exp = calvars_expected(case)
    for i, p in enumerate(case["probes"]):
        d = ".".join(p)
        if d in exp:
            want = {"ok": {"v": canon_py(exp[d])}}
            if impl["after"][i] != want:
                return ("calibration:read-back", "variables in the order (%s): %r reads %s, its slice of the decision vector is %s"
                        % (order, d, json.dumps(impl["after"][i]), json.dumps(want)))
        elif impl["after"][i] != impl["before"][i]:
            return "calibration:frame", "variables (%s): the unrelated setting %r changed from %s to %s" % (order, d, impl["before"][i], impl["after"][i])
    return None


# ------------------------------------------------------------------ command line: pyxel.run(file, override=["key=value"])
OVERRIDE_TEXTS = [("run=7/flat.fits", None), ("a==b", None), ("x=1", None), ("=5", None), ("7=", None), ("'a=b'", None),
                  ("a,b", "a,b"), ("img:2.fits", "img:2.fits"), ("k: v", "k: v"), ("a;b", "a;b")]


def gen_override_case(rng):
    r = rng.random()
    if r < 0.4:
        t, d = rng.choice(OVERRIDE_TEXTS)
    elif r < 0.7:
        t, d = rng.choice(QUOTED_TEXTS)
    else:
        t, d = rng.choice(PLAIN_TEXTS)
    key = rng.choice(["pipeline.photon_collection.tag.arguments.label"] * 4 + ["pipeline.photon_collection.tag.arguments.labl",
                                                                            "pipeline.photon_collection.tg.arguments.label"])
    return {"stream": "override", "key": key, "text": t, "denotes": None if "=" in t else tag(d)}


OVERRIDE_DOC = {
    "exposure": {"readout": {"times": [1.0]}},
    "ccd_detector": {"geometry": {"row": 3, "col": 4, "total_thickness": 10.0, "pixel_vert_size": 10.0, "pixel_horz_size": 10.0},
                     "environment": {"temperature": 100.0},
                     "characteristics": {"quantum_efficiency": 0.5, "charge_to_volt_conversion": 1e-6, "pre_amplification": 10.0,
                                         "adc_bit_resolution": 16, "adc_voltage_range": [0.0, 5.0], "full_well_capacity": 1000}},
    "pipeline": {"photon_collection": [{"name": "tag", "func": "probes.trace", "enabled": True, "arguments": {"label": "orig", "level": 1}}]},
}


def run_override_impl(case, tmp):
    import probes
    import pyxel
    import yaml

    path = tmp + "/override.yaml"
    with open(path, "w") as f:
        f.write(yaml.safe_dump(OVERRIDE_DOC, sort_keys=False))
    probes.reset()
    r = attempt(pyxel.run, path, ["%s=%s" % (case["key"], case["text"])])
    got = [json.loads(x[3]).get("label", "<absent>") for x in probes.LOG if x[2] == "tag"]
    return {"run": "ok" if "ok" in r else r["err"], "msg": r.get("msg"), "received": got}


def override_predicate(case, impl):
    from probes import _canon_val

    el = "%s=%s" % (case["key"], case["text"])
    valid_key = case["key"].endswith(".tag.arguments.label")
    rejected = impl["run"] != "ok" and not impl["received"]
    if not valid_key:
        return None if rejected else ("override:accepts-nonexistent-key", "override %r names no setting but the run went on: %s" % (el, impl))
    if case["denotes"] is None:           # the value contains '=': converted as written, or refused before anything runs
        if rejected:
            return None
        want = json.loads(json.dumps(_canon_val(denote_text(case["text"]))))
        if impl["received"] != [want]:
            return ("override:value-truncated", "override %r: the model received %s — neither refused nor the value written (%s)"
                    % (el, json.dumps(impl["received"]), json.dumps(want)))
        return None
    want = json.loads(json.dumps(_canon_val(untag(case["denotes"]))))
    if impl["run"] != "ok":
        return "override:valid-refused", "override %r of an existing setting was refused: %s %s" % (el, impl["run"], impl["msg"])
    if impl["received"] != [want]:
        return "override:wrong-conversion", "override %r: the model received %s, the text denotes %s" % (el, json.dumps(impl["received"]), json.dumps(want))
    return None


def denote_text(t):
    """what a text that is not in the literal grammar denotes: itself, or the content of its quotes"""
    if len(t) >= 2 and t[0] == t[-1] and t[0] in "'\"":
        return t[1:-1]
    return t


# swept values next to a configured value of another shape / type (a value that "equals" the configured one by broadcasting
# or by numeric coercion is still the value assigned)
CONFIGURED_VS_SWEPT = [([2.0, 2.0], [2.0, 3.0]), ([], [5, 7]), ([], ["abc", "de"]), (100, [100.0, 7.5]), (1, [True, 2]), (True, [1, 0]),
                       (0, [False, 3]), (2.5, [2.5, 3.5]), ([1, 1], [1, 2]), (7.0, [7, 8]), ("7", [7, 8]), ([0.5], [0.5, 1.5])]


def directed_sweepval_cases():
    out = []
    for configured, vals in CONFIGURED_VS_SWEPT:
        world = {"kind": "CCD", "rows": 2, "cols": 2,
                 "groups": [["photon_collection", [{"name": "tag", "enabled": True, "args": {"label": configured, "level": 1}}]]]}
        for mode in ("product", "sequential"):
            out.append({"stream": "sweepval", "world": world, "key": ["pipeline", "photon_collection", "tag", "arguments", "label"],
                        "values": list(vals), "expected": [tag(v) for v in vals], "mode": mode, "dask": False})
    return out


# ------------------------------------------------------------------ one Observation object run twice (sequential mode)
def gen_rerun_cases(rng, n):
    cases = []
    for _ in range(n):
        a0, b0 = rng.choice([1, 5, 2.5]), rng.choice([10, 40, 0.5])
        cases.append({"stream": "rerun", "a0": a0, "b0": b0, "a_vals": [a0 + 1, a0 + 2], "b_vals": [b0 + 10, b0 + 20],
                      "change": rng.choice(["a", "b"]), "new": rng.choice([77, 0.125, 900]), "how": rng.choice(["override", "set"]),
                      "mode": rng.choice(["sequential", "sequential", "product"])})
    return cases


def rerun_expected(case, a_cfg, b_cfg):
    """(a, b) received at every pipeline of one run, by the definition of the mode"""
    if case["mode"] == "product":
        return [[a, b] for a in case["a_vals"] for b in case["b_vals"]]
    return [[a, b_cfg] for a in case["a_vals"]] + [[a_cfg, b] for b in case["b_vals"]]


def run_rerun_impl(case):
    import probes
    import pyxel
    from pyxel.observation import Observation, ParameterValues

    world = {"kind": "CCD", "rows": 2, "cols": 2,
             "groups": [["photon_collection", [{"name": "tag", "enabled": True, "args": {"a": case["a0"], "b": case["b0"]}}]]]}
    proc = build(world)
    K = "pipeline.photon_collection.tag.arguments."
    obs = Observation(parameters=[ParameterValues(key=K + "a", values=list(case["a_vals"])),
                                  ParameterValues(key=K + "b", values=list(case["b_vals"]))], mode=case["mode"])
    runs = []
    for i in range(2):
        probes.reset()
        kw = {}
        if i == 1:
            if case["how"] == "override":
                kw["override_dct"] = {K + case["change"]: case["new"]}
            else:
                proc.set(K + case["change"], case["new"])
        r = attempt(lambda: pyxel.run_mode(mode=obs, detector=proc.detector, pipeline=proc.pipeline, **kw))
        got = [[json.loads(x[3]).get("a"), json.loads(x[3]).get("b")] for x in probes.LOG if x[2] == "tag"]
        runs.append({"run": "ok" if "ok" in r else r["err"], "msg": r.get("msg"), "received": got})
    return {"runs": runs}


def rerun_predicate(case, impl):
    from probes import _canon_val

    cfgs = [(case["a0"], case["b0"])]
    cfgs.append((case["new"], case["b0"]) if case["change"] == "a" else (case["a0"], case["new"]))
    for i, (run, (a_cfg, b_cfg)) in enumerate(zip(impl["runs"], cfgs)):
        want = json.loads(json.dumps([[_canon_val(a), _canon_val(b)] for a, b in rerun_expected(case, a_cfg, b_cfg)]))
        if run["received"] != want:
            return ("observation-rerun:%s:wrong-values" % case["mode"],
                    "run %d of one %s Observation (configured a=%r, b=%r%s): the model received (a, b) = %s, the mode denotes %s"
                    % (i + 1, case["mode"], a_cfg, b_cfg, "" if i == 0 else ", %s changed through %s after run 1" % (case["change"], case["how"]),
                       json.dumps(run["received"]), json.dumps(want)))
    return None


# ------------------------------------------------------------------ histories: sets interleaved with copies
COPY_KINDS = ["deepcopy", "replace", "create_new_processor", "update_processor"]


def gen_history(rng, world, proc):
    """steps on a growing family of processors (0 = the original).  Only existing settings are assigned (plus now
    and then a misspelt key, which must be refused and change nothing); keys repeat on purpose."""
    valid = all_setting_keys(world, proc.detector)
    steps, nproc, last_key = [], 1, None
    for _ in range(rng.choice([3, 4, 5, 6, 8])):
        key = last_key if (last_key is not None and rng.random() < 0.6) else list(rng.choice(valid))
        last_key = key
        bad = rng.random() < 0.08
        k = key[:-1] + [key[-1] + "_x"] if bad else key
        if key[0] == "detector":
            v = valid_value(rng, key[2])
        elif key[-1] == "enabled":
            v = rng.choice([True, False])
        else:
            v = rng.choice([3, 50, 200, -1, 0.75, 100.0, "abc", "image.fits", True, [1, 2.5], [7]])
        i = rng.randrange(nproc)
        r = rng.random()
        if r < 0.45:
            inp, expected = as_input(rng, v)
            steps.append({"do": "set", "proc": i, "key": k, "input": inp, "expected": canon_py(expected), "bad": bad})
        elif r < 0.6:
            steps.append({"do": "copy", "proc": i, "how": "deepcopy"})
            nproc += 1
        else:
            how = rng.choice(COPY_KINDS[1:])
            numeric = isinstance(v, (int, float)) and not isinstance(v, bool) and \
                not (key[0] == "detector" and key[2] in ("row", "col", "adc_bit_resolution", "adc_voltage_range"))
            if how == "update_processor":
                if not numeric:
                    how = "replace"
                else:
                    import numpy as np

                    f = float(v)
                    inp, expected = {"value": canon_py(np.float64(f)), "native": ["npfloat", f.hex()]}, np.float64(f)
            if how != "update_processor":
                inp, expected = as_input(rng, v)
            steps.append({"do": "copyset", "proc": i, "how": how, "key": k, "input": inp, "expected": canon_py(expected), "bad": bad})
            if not bad:
                nproc += 1
    return steps


def run_history_impl(case):
    import copy

    import numpy as np
    import probes
    from pyxel.calibration.fitting_datatree import ModelFittingDataTree
    from pyxel.observation import ParameterValues
    from pyxel.observation.misc import create_new_processor

    probes.reset()
    procs = [build(case["world"])]
    plist = case["probes"]
    out = {"det_tree": detector_tree(procs[0].detector), "extras": extras_of(procs[0]), "steps": []}
    for st in case["steps"]:
        P = procs[st["proc"]]
        if st["do"] == "copy":
            r = attempt(copy.deepcopy, P)
        else:
            dotted = ".".join(st["key"])
            value = native_of(st["input"])
            if st["do"] == "set":
                r = attempt(P.set, dotted, value)
            elif st["how"] == "replace":
                r = attempt(P.replace, {dotted: value})
            elif st["how"] == "create_new_processor":
                r = attempt(create_new_processor, P, {dotted: value})
            else:
                var = ParameterValues(key=dotted, values="_", boundaries=(-1.0e9, 1.0e9))
                r = attempt(ModelFittingDataTree.update_processor, types.SimpleNamespace(_variables=[var]),
                            np.array([float(value)]), P)
        if "ok" in r and st["do"] != "set":
            procs.append(r["ok"])
        out["steps"].append({"err": None if "ok" in r else r["err"], "msg": r.get("msg"),
                             "states": [[probe_get(Q, p) for p in plist] for Q in procs],
                             "snaps": [raw_snapshot(Q) for Q in procs]})
    out["calls"] = len(probes.LOG)
    return out


def history_predicate(case, impl):
    """the statement along the history: every live processor reads, for every setting, the last value assigned
    through it (or through the processor it was copied from, before the copy); a refused assignment and an
    assignment made through another processor change nothing."""
    plist = case["probes"]
    expected = [dict()]          # per processor: key index -> canonical expected read-back (None = initial value)
    initial = None
    snaps_prev = None
    for n, (st, got) in enumerate(zip(case["steps"], impl["steps"])):
        if initial is None:
            # values before the first step are not observed separately: take them from processor 0's untouched keys lazily
            initial = {}
        ok = got["err"] is None
        touched = None
        if st["do"] == "copy":
            if not ok:
                return "history:copy-failed", "step %d: deepcopy failed: %s" % (n, got["err"])
            expected.append(dict(expected[st["proc"]]))
            touched = len(expected) - 1
        else:
            if st["bad"]:
                if ok:
                    return "history:set-accepts-nonexistent-key", "step %d: key %r names nothing but was accepted" % (n, ".".join(st["key"]))
            elif not ok:
                return ("history:valid-key-rejected", "step %d: %s of existing setting %r refused: %s %s"
                        % (n, st.get("how", "set"), ".".join(st["key"]), got["err"], got.get("msg")))
            if ok:
                ki = plist.index(st["key"])
                if st["do"] == "set":
                    expected[st["proc"]][ki] = st["expected"]
                    touched = st["proc"]
                else:
                    e = dict(expected[st["proc"]])
                    e[ki] = st["expected"]
                    expected.append(e)
                    touched = len(expected) - 1
        if len(got["states"]) != len(expected):
            return "history:processor-count", "step %d: %d live processors, expected %d" % (n, len(got["states"]), len(expected))
        for q, (state, exp) in enumerate(zip(got["states"], expected)):
            for ki, want in exp.items():
                if state[ki] != {"ok": {"v": want}}:
                    return ("history:read-back",
                            "step %d (%s %s on processor %d): processor %d reads %s through %r, the last value assigned through it is %s"
                            % (n, st.get("how", st["do"]), ".".join(st.get("key", [])), st["proc"], q, json.dumps(state[ki]),
                               ".".join(plist[ki]), json.dumps(want)))
        # nothing but the touched processor may change in this step
        if snaps_prev is not None:
            for q, before in enumerate(snaps_prev):
                if q != touched and got["snaps"][q] != before:
                    return ("history:other-processor-changed", "step %d on processor %s changed processor %d at %s"
                            % (n, touched, q, snap_diff(before, got["snaps"][q])))
                if q == touched and st["do"] == "set" and ok:
                    extra = [d for d in snap_diff(before, got["snaps"][q]) if d not in cell_of(case["world"], st["key"])]
                    if extra:
                        return "history:frame", "step %d: assigning %r also changed %s" % (n, ".".join(st["key"]), extra)
        snaps_prev = got["snaps"]
    return None


# ------------------------------------------------------------------ body
def body(ck: common.Check):
    import extract

    extract.generate("C08")
    ck.obligations(["PyxelModel.Props.C08"], ["PyxelModel.Drive.C08"])
    rng = ck.rng
    quick = ck.tier == "quick"
    n_eval = 600 if quick else 12000
    n_key = 420 if quick else 6000
    n_val = 160 if quick else 2000

    # ---- stream 1: literal conversion
    eval_cases = []
    for _ in range(n_eval):
        if rng.random() < 0.78:
            lit = gen_lit(rng)
            eval_cases.append({"stream": "eval", "text": render(lit), "expected": canon_py(denote(lit)), "shape": lit[0]})
        else:
            s = gen_bare(rng)
            eval_cases.append({"stream": "eval", "text": s, "expected": {"s": s}, "shape": "bare"})
    # ---- stream 2: keys
    key_cases = []
    for _ in range(n_key):
        world = gen_world(rng)
        proc = build(world)
        key, cls, expected, inp = gen_key_case(rng, world, proc)
        exists = exists_by_getattr(proc, key)
        if cls == "valid" and not exists:
            continue
        class_attr = is_class_attr_key(proc, key)
        entry = rng.choice(ENTRIES)
        if entry == "calibration":
            import numpy as np

            # the optimiser assigns entries (values: '_') or chunks (values: ['_', …]) of its float decision vector
            numeric_det = key[0] == "detector" and key[-1] not in ("adc_voltage_range", "row", "col", "adc_bit_resolution")
            is_arg = len(key) == 5 and key[0] == "pipeline" and key[3] == "arguments"
            if is_arg or (cls != "valid" and rng.random() < 0.5):
                n = rng.choice([1, 1, 2, 3, 5])
                arr = np.array([rng.choice([60.0, 0.5, 12.5, 1e-3]) for _ in range(n)])
                inp, expected = {"value": canon_py(arr), "native": tag(arr), "cal_n": n}, arr
            elif cls == "valid" and not numeric_det:
                entry = "set"
            else:
                v = 0.5 if key[-1] == "quantum_efficiency" else 12.5
                inp, expected = {"value": canon_py(np.float64(v)), "native": ["npfloat", v.hex()]}, np.float64(v)
        probes_ = all_setting_keys(world, proc.detector)
        if key not in probes_:
            probes_ = probes_ + [key]
        key_cases.append({"stream": "key", "world": world, "key": key, "class": cls, "exists": exists, "class_attr": class_attr, "entry": entry,
                          "input": inp, "expected": canon_py(expected) if cls == "valid" else None, "probes": probes_})
    # ---- stream 3: validate_steps / sweeps
    val_cases = []
    for i in range(n_val):
        world = gen_world(rng)
        if not any(ms for _, ms in world["groups"]):
            continue
        key, vals, cls = gen_validate_case(rng, world)
        cls = classify_sweep(world, key, cls)
        val_cases.append({"stream": "validate", "world": world, "key": key, "values": vals, "class": cls,
                          "mode": rng.choice(["product", "sequential"]), "run": cls in ("disabled", "undeclared", "class_attr", "detector_typo", "unknown_model", "absent_group") or (i % 2 == 0 if quick else i % 4 == 0)})

    # ---- stream 4: histories (several assignments on one processor interleaved with copies)
    hist_cases = []
    for _ in range(70 if quick else 900):
        world = gen_world(rng)
        proc = build(world)
        hist_cases.append({"stream": "history", "world": world, "steps": gen_history(rng, world, proc),
                           "probes": all_setting_keys(world, proc.detector)})
    for c in hist_cases:      # misspelt keys are read back too
        for st in c["steps"]:
            if "key" in st and st["key"] not in c["probes"]:
                c["probes"] = c["probes"] + [st["key"]]

    # ---- stream 5: sweep values end to end (what the model function receives)
    sv_cases = []
    for _ in range(40 if quick else 400):
        c = gen_sweepval_case(rng, gen_world(rng))
        if c is not None and len(c["values"]) >= 2:
            sv_cases.append(c)

    sv_cases += directed_sweepval_cases()
    rerun_cases = gen_rerun_cases(rng, 12 if quick else 80)
    # ---- stream 6: calibration with several scalar / vector variables in every declaration order
    cal_cases = []
    for _ in range(60 if quick else 600):
        w = gen_world(rng)
        c = gen_calvars_case(rng, w, build(w))
        if c is not None:
            cal_cases.append(c)
    # ---- stream 7: command-line overrides
    ov_cases = [gen_override_case(rng) for _ in range(30 if quick else 200)]
    ov_cases += [{"stream": "override", "key": "pipeline.photon_collection.tag.arguments.label", "text": t, "denotes": None} for t, _ in OVERRIDE_TEXTS[:6]]

    # implementation first (the detector tree sent to the model is read off the real objects)
    cal_impl = [run_calvars_impl(c) for c in cal_cases]
    hist_impl = [run_history_impl(c) for c in hist_cases]
    key_impl = [run_key_impl(c) for c in key_cases]
    val_impl = [run_validate_impl(c) for c in val_cases]

    reqs = [{"op": "eval", "text": c["text"]} for c in eval_cases]
    for c, im in zip(key_cases, key_impl):
        r = {"op": "key", "det": im["det_tree"], "extras": im["extras"], "cfg": cfg_json(c["world"]), "key": c["key"], "probes": c["probes"]}
        r.update({k: v for k, v in c["input"].items() if k not in ("native", "cal_n")})
        reqs.append(r)
    for c, im in zip(val_cases, val_impl):
        reqs.append({"op": "validate", "det": im["det_tree"], "extras": im["extras"], "cfg": cfg_json(c["world"]), "key": c["key"],
                     "values": [canon_py(v) for v in c["values"]], "custom": False})
    n_before_hist = len(reqs)
    for c, im in zip(hist_cases, hist_impl):
        steps = []
        for st in c["steps"]:
            d = {"do": st["do"], "proc": st["proc"]}
            if "key" in st:
                d["key"] = st["key"]
                d.update({k: v for k, v in st["input"].items() if k not in ("native", "cal_n")})
            steps.append(d)
        reqs.append({"op": "history", "det": im["det_tree"], "extras": im["extras"], "cfg": cfg_json(c["world"]), "probes": c["probes"], "steps": steps})
    n_before_sv = len(reqs)
    for c in sv_cases:
        for v in c["values"]:
            reqs.append({"op": "eval", "text": v if isinstance(v, str) else render(py_to_lit(v))})
    n_before_cal = len(reqs)
    for c, im in zip(cal_cases, cal_impl):
        import numpy as np

        reqs.append({"op": "calupdate", "det": im["det_tree"], "extras": im["extras"], "cfg": cfg_json(c["world"]), "probes": c["probes"],
                     "vars": c["vars"], "xs": [canon_py(np.float64(float.fromhex(h))) for h in c["xs"]]})
    for c in ov_cases:
        reqs.append({"op": "override", "element": "%s=%s" % (c["key"], c["text"])})
    answers = LeanDriver("C08").batch(reqs)
    for a in answers:
        if "bad" in a:
            raise common.InfraError(f"driver rejected a request: {a}")
    a_eval = answers[: len(eval_cases)]
    a_key = answers[len(eval_cases): len(eval_cases) + len(key_cases)]
    a_val = answers[len(eval_cases) + len(key_cases): n_before_hist]
    a_hist = answers[n_before_hist:n_before_sv]
    a_sv = answers[n_before_sv:n_before_cal]
    a_cal = answers[n_before_cal:n_before_cal + len(cal_cases)]
    a_ov = answers[n_before_cal + len(cal_cases):]

    from pyxel.evaluator import eval_entry

    for c, ans in zip(eval_cases, a_eval):
        r = attempt(eval_entry, c["text"])
        impl = {"ok": canon_py(r["ok"])} if "ok" in r else strip_msg(r)
        ck.case({"text": c["text"]}, nontrivial=c["shape"] not in ("none", "bool"), stream="eval")
        ck.count("eval:" + c["shape"])
        # the statement: "converted to the number, list or string they literally denote" — a top-level None is
        # none of these (eval_entry refuses it with its final assert): only compared with the model
        if c["shape"] != "none" and impl != {"ok": c["expected"]}:
            ck.violation("C08:eval_entry:wrong-conversion",
                         "text %r denotes %s but eval_entry gave %s" % (c["text"], json.dumps(c["expected"]), json.dumps(impl)),
                         {"case": c, "impl": impl})
        model = norm_model_val(ans["py"])
        if impl != model:
            ck.disagreement("eval", c, impl, model)

    for c, im, ans in zip(key_cases, key_impl, a_key):
        ck.case({k: c[k] for k in ("world", "key", "entry", "input")}, nontrivial=True, stream="key")
        ck.count("key:class=" + c["class"])
        ck.count("key:entry=" + c["entry"])
        ck.count("key:exists=%s" % c["exists"])
        nat = c["input"].get("native")
        ck.count("key:value=" + ("text" if "text" in c["input"] else "texts" if nat is None else
                                 ("ndarray size=%d ndim=%d" % (len(nat[3]), len(nat[2])) if nat[0] == "nd" else nat[0])))
        ck.count("key:set=" + ("ok" if "ok" in im["set"] else im["set"]["err"]))
        why = key_predicate(c, im)
        if why is not None:
            ck.violation("C08:" + why[0], why[1], {"case": c, "impl": {k: v for k, v in im.items() if k not in ("det_tree", "extras")}})
        # correspondence with the model
        mset = ans["set"]
        impl_view = {"has": strip_msg(im["has"]), "get": strip_msg(im["get"]), "before": im["before"],
                     "set": "ok" if "ok" in im["set"] else im["set"]["err"]}
        model_view = {"has": ans["has"], "get": norm_model_val(ans["get"]), "before": [norm_model_val(x) for x in ans["before"]],
                      "set": "ok" if "ok" in mset else mset["err"]}
        if "ok" in im["set"] and "ok" in mset:
            impl_view["after"] = im["after"]
            impl_view["has_after"] = [strip_msg(x) for x in im["has_after"]]
            model_view["after"] = [norm_model_val(x) for x in mset["after"]]
            model_view["has_after"] = mset["has_after"]
        if impl_view != model_view:
            d = {k: [impl_view.get(k), model_view.get(k)] for k in set(impl_view) | set(model_view) if impl_view.get(k) != model_view.get(k)}
            ck.disagreement("key", {k: c[k] for k in ("world", "key", "entry", "input", "class")}, d, "<see pairs: [impl, model]>")
        if (ans["has"] == {"ok": True}) != ans["resolves"]:
            raise common.InfraError("Lean model: has and slotAt disagree — contradicts theorem has_true_iff_resolves")

    for c, im, ans in zip(val_cases, val_impl, a_val):
        ck.case({k: c[k] for k in ("world", "key", "values", "mode")}, nontrivial=True, stream="validate")
        ck.count("validate:class=" + c["class"])
        if "validate" in im:
            ck.count("validate:result=" + ("ok" if "ok" in im["validate"] else im["validate"]["err"]))
        for path, run, calls in run_paths(im):
            ck.count("validate:run[%s]=%s" % (path, "ok" if "ok" in run else run["err"]))
        why = validate_predicate(c, im)
        if why is not None:
            ck.violation("C08:" + why[0], why[1], {"case": c, "impl": {k: v for k, v in im.items() if k not in ("det_tree", "extras")}})
        if "validate" in im:
            impl_v = {"ok": True} if "ok" in im["validate"] else {"err": im["validate"]["err"]}
            if impl_v != ans["model"]:
                ck.disagreement("validate", {k: c[k] for k in ("world", "key", "values", "mode", "class")}, impl_v, ans["model"])
            if ans["spec"] is not None and ans["spec"] != ans["model_fixed"]:
                raise common.InfraError("Lean model: validateStep and its specification disagree — contradicts theorem validate_argument_spec")

    for c, im, ans in zip(hist_cases, hist_impl, a_hist):
        ck.case({k: c[k] for k in ("world", "steps")}, nontrivial=len(c["steps"]) >= 3, stream="history")
        for st in c["steps"]:
            ck.count("history:step=" + st.get("how", st["do"]))
        ck.count("history:processors=%d" % len(im["steps"][-1]["states"]))
        why = history_predicate(c, im)
        if why is not None:
            slim = {"steps": [{k: v for k, v in g.items() if k != "snaps"} for g in im["steps"]]}
            ck.violation("C08:" + why[0], why[1], {"case": c, "impl": slim})
        iv = [{"err": g["err"], "states": g["states"]} for g in im["steps"]]
        mv = [{"err": g["err"], "states": [[norm_model_val(x) for x in stt] for stt in g["states"]]} for g in ans["steps"]]
        if iv != mv:
            first = next(i for i, (a, b) in enumerate(zip(iv, mv)) if a != b)
            ck.disagreement("history", {k: c[k] for k in ("world", "steps")}, {"step": first, "impl": iv[first]}, mv[first])

    for c, im, ans in zip(cal_cases, cal_impl, a_cal):
        import numpy as np

        ck.case({kk: c[kk] for kk in ("world", "vars", "xs")}, nontrivial=True, stream="calvars")
        ck.count("calvars:order=" + ",".join("s" if w is None else "v%d" % w for _, w in c["vars"]))
        why = calvars_predicate(c, im)
        if why is not None:
            ck.violation("C08:" + why[0], why[1], {"case": c, "impl": {kk: v for kk, v in im.items() if kk not in ("det_tree", "extras")}})
        if "after" in im and "ok" in ans:
            def as_model(x):      # an array read back -> the list of its elements, as the model writes a slice
                v = x.get("ok", {}).get("v") if isinstance(x, dict) else None
                if isinstance(v, dict) and str(v.get("s", "")).startswith("<ndarray dtype=float64 shape=["):
                    vals = json.loads(v["s"][v["s"].index("values=") + 7:-1])
                    return {"ok": {"v": {"l": [canon_py(np.float64(float.fromhex(h))) for h in vals]}}}
                return x
            iv = [as_model(x) for x in im["after"]]
            mv = [norm_model_val(x) for x in ans["after"]]
            if iv != mv:
                ck.disagreement("calvars", {kk: c[kk] for kk in ("world", "vars", "xs")}, iv, mv)
        elif ("after" in im) != ("ok" in ans):
            ck.disagreement("calvars", {kk: c[kk] for kk in ("world", "vars", "xs")}, im.get("err", "ok"), ans)

    tmp_ov = tempfile.mkdtemp(prefix="verif-c08-")
    try:
        for c, ans in zip(ov_cases, a_ov):
            impl = run_override_impl(c, tmp_ov)
            ck.case(c, nontrivial=True, stream="override")
            ck.count("override:" + ("with-equals" if "=" in c["text"] else "plain") + "=" + impl["run"])
            why = override_predicate(c, impl)
            if why is not None:
                ck.violation("C08:" + why[0], why[1], {"case": c, "impl": impl})
            if c["key"].endswith(".tag.arguments.label"):
                from probes import _canon_val
                m_rej = "err" in ans or "err" in ans.get("value", {})
                if m_rej != (impl["run"] != "ok"):
                    ck.disagreement("override", c, impl, ans)
    finally:
        shutil.rmtree(tmp_ov, ignore_errors=True)

    for c in rerun_cases:
        impl = run_rerun_impl(c)
        ck.case(c, nontrivial=True, stream="rerun")
        ck.count("rerun:%s/%s" % (c["mode"], c["how"]))
        why = rerun_predicate(c, impl)
        if why is not None:
            ck.violation("C08:" + why[0], why[1], {"case": c, "impl": impl})

    k = 0
    for c in sv_cases:
        impl = run_sweepval_impl(c)
        ck.case({kk: c[kk] for kk in ("world", "key", "values", "mode", "dask")}, nontrivial=True, stream="sweepval")
        ck.count("sweepval:mode=%s dask=%s" % (c["mode"], c["dask"]))
        for path_, got_ in impl.items():
            ck.count("sweepval:run[%s]=%s" % (path_, got_["run"]))
        ck.count("sweepval:quoted", sum(1 for v in c["values"] if isinstance(v, str) and v[:1] in "'\""))
        why = sweepval_predicate(c, impl)
        if why is not None:
            ck.violation("C08:" + why[0], why[1], {"case": c, "impl": impl})
        for v, t in zip(c["values"], c["expected"]):
            model = norm_model_val(a_sv[k]["py"])
            k += 1
            if isinstance(v, str) and model != {"ok": canon_py(untag(t))}:
                ck.disagreement("sweepval", {"text": v}, {"ok": canon_py(untag(t))}, model)

    ck.rule = ("rerun: ONE Observation object (two swept arguments, sequential / product mode) run twice, a configured value of one swept "
               "key changed between the runs through override_dct or Processor.set — every pipeline's received (a, b) against the "
               "mode's definition; sweepval also has swept values next to configured values of another shape / type (list vs scalar, "
               "empty list, int vs float vs bool vs text); calvars: the real update_processor with 2-5 calibration variables (model arguments as scalar '_' or vector of 1-3 '_', "
               "numeric detector fields) in shuffled declaration orders incl. vector-first, distinct decision-vector entries, every "
               "setting read back; override: pyxel.run(file, override=['key=value']) with values containing '=', ',', ':', ';', quotes, "
               "literals and bare words (the probe model records what it receives); sweepval: sweeps over a declared argument of an enabled model with 2-5 values — quoted literals ('\"42\"', \"'3.5'\", "
               "'\"True\"', '\"[1, 2]\"', '\"None\"', …), plain literals, bare words, numbers — product and sequential mode, sequential "
               "and with_dask observation; the probe model records type and value it receives at every step; "
               "history: random pipelines, 3-8 steps on a growing family of processors (Processor.set, copy.deepcopy, "
               "Processor.replace, create_new_processor, update_processor) over model-argument / enabled / detector keys that "
               "repeat on purpose, every setting read back and every attribute snapshotted on every live processor after every step; "
               "eval: random literals of the grammar (None/bool/ints to 10^25/decimal+scientific floats/quoted strings/lists "
               "and tuples nested to depth 3) and bare words; key: random pipelines (1-4 groups, absent groups, 1-3 models, "
               "0-3 arguments) x 4 detector types, keys = every settable detector field / argument / enabled flag and their "
               "misspelt-leaf, misspelt-inner, truncated, over-long, absent-group, unknown-model and read-only variants, through "
               "Processor.set, apply_overrides, Processor.replace and update_processor (scalar '_' and vector ['_', …] variables), values "
               "as text / native numbers and numpy scalars / sequences incl. one-element lists and tuples / numpy arrays of size "
               "0, 1, 2, many and shapes (0,), (1,), (1,1), (1,1,1), (2,), 0-d, (2,3); read-back compared as (type, dtype, shape, "
               "exact values); "
               "validate: sweep steps over declared / undeclared / disabled / unknown keys and enabled flags, product and "
               "sequential mode, half of them also run end to end on BOTH observation paths (sequential and with_dask, synchronous scheduler, results computed); non-trivial = every key / validate case, eval cases other "
               "than None/True/False; distinct by canonical JSON")
    ck.assumptions = [
        "a key names an existing setting iff plain Python attribute access along its parts succeeds on the freshly built processor "
        "(an unset validated field counts as existing); names that exist but are objects or read-only properties are outside "
        "the statement's 'setting' (only 'a refused assignment changes nothing' is checked for them)",
        "values assigned to validated detector fields are taken inside their documented range (the ranges are C12)",
        "a sequence (list / tuple) assigned natively is read back as a list (Processor.set converts element-wise); numpy "
        "arrays and numpy scalars must be read back with the same type, dtype and shape",
        "APD avalanche_gain / pixel_reset_voltage / common_voltage are coupled by design and are not used as keys",
        "dictionary entries and list indices inside a key are not modelled and not generated",
        "literal grammar: see the restriction in Model/C08.lean (no complex, hex, '_' separators, escapes, sets, dicts, "
        "trailing commas); float literals are compared after exact rounding to binary64 on both sides",
        "state snapshot = every instance attribute of Processor, detector geometry/environment/characteristics, pipeline, "
        "model groups, model functions and their argument dictionaries",
    ]
    ck.trusted_base.append("C08: Python attribute protocol (getattr/setattr/hasattr/property) as the meaning of the settings tree; "
                           "ast.literal_eval as the meaning of a literal outside the modelled grammar")


def replay(rp):
    case = rp["replay"].get("case")
    if case is None:
        print("replay names a broken obligation/correspondence, no concrete input:", rp["what"])
        return 1
    st = case.get("stream")
    if st == "eval":
        from pyxel.evaluator import eval_entry

        r = attempt(eval_entry, case["text"])
        impl = {"ok": canon_py(r["ok"])} if "ok" in r else strip_msg(r)
        print("impl:", impl)
        why = None if (impl == {"ok": case["expected"]} or case["shape"] == "none") else ("eval_entry:wrong-conversion", "text %r gave %s" % (case["text"], impl))
    elif st == "key":
        impl = run_key_impl(case)
        print("impl:", {k: v for k, v in impl.items() if k not in ("det_tree", "extras")})
        why = key_predicate(case, impl)
    elif st == "rerun":
        impl = run_rerun_impl(case)
        print("impl:", impl)
        why = rerun_predicate(case, impl)
    elif st == "calvars":
        impl = run_calvars_impl(case)
        print("impl:", {k: v for k, v in impl.items() if k not in ("det_tree", "extras")})
        why = calvars_predicate(case, impl)
    elif st == "override":
        tmp = tempfile.mkdtemp(prefix="verif-c08-")
        try:
            impl = run_override_impl(case, tmp)
        finally:
            shutil.rmtree(tmp, ignore_errors=True)
        print("impl:", impl)
        why = override_predicate(case, impl)
    elif st == "sweepval":
        impl = run_sweepval_impl(case)
        print("impl:", impl)
        why = sweepval_predicate(case, impl)
    elif st == "history":
        impl = run_history_impl(case)
        print("impl:", [{k: v for k, v in g.items() if k != "snaps"} for g in impl["steps"]])
        why = history_predicate(case, impl)
    else:
        impl = run_validate_impl(case)
        print("impl:", {k: v for k, v in impl.items() if k not in ("det_tree", "extras")})
        why = validate_predicate(case, impl)
    print("REPRODUCED: %s — %s" % why if why else "not reproduced (property holds on this input)")
    return 1 if why else 0


if __name__ == "__main__":
    if len(sys.argv) > 2 and sys.argv[1] == "--replay":
        common.ensure_repo_on_path()
        sys.exit(replay(json.load(open(sys.argv[2]))))
    sys.exit(run_check("C08", body))
