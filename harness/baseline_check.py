"""Run /repo's pinned suite (guard off) and compare with BASELINE.json's stable_pass list.
usage: baseline_check.py [pytest -k expr]   — prints the stable tests that no longer pass."""
import json, os, subprocess, sys, tempfile, xml.etree.ElementTree as ET

base = json.load(open("/root/.vp/BASELINE.json"))
stable = set(base["stable_pass"])
with tempfile.TemporaryDirectory() as td:
    xmlf = os.path.join(td, "r.xml")
    env = {k: v for k, v in os.environ.items() if k != "PYXEL_VERIF"}
    cmd = ["/venv/bin/python", "-m", "pytest", "-q", "-p", "no:cacheprovider", "--timeout=900",
           "--continue-on-collection-errors", "-n", "8", f"--junitxml={xmlf}"] if "--xdist" in sys.argv else \
          ["/venv/bin/python", "-m", "pytest", "-q", "-p", "no:cacheprovider", "--timeout=900",
           "--continue-on-collection-errors", f"--junitxml={xmlf}"]
    p = subprocess.run(cmd, cwd="/repo", env=env, capture_output=True, text=True)
    passed, failed = set(), set()
    for tc in ET.parse(xmlf).getroot().iter("testcase"):
        tid = (tc.get("classname") or "") + "::" + (tc.get("name") or "")
        if tc.find("failure") is not None or tc.find("error") is not None:
            failed.add(tid)
        elif tc.find("skipped") is None:
            passed.add(tid)
    passed -= failed
    lost = sorted(stable - passed)
    print(p.stdout[-600:])
    print(f"stable={len(stable)} passed_now={len(passed)} stable_lost={len(lost)}")
    for t in lost[:40]:
        print("  LOST", t)
    sys.exit(1 if lost else 0)
